/-
M5: configuration layers and entry points (prettyprinter/__init__.py:56-139, 140-257, 344-419).
-/
import PP.Model.Values
namespace PP
namespace Conf
open Pr

/-- explicitly passed arguments: `none` = the UNSET sentinel.  `depth` and `max_seq_len` can be passed as `None`,
which is a value (no limit), hence `Option (Option Nat)`. -/
structure Explicit where
  indent : Option Int := none
  width : Option Int := none
  ribbonWidth : Option Int := none
  depth : Option (Option Nat) := none
  maxSeqLen : Option (Option Nat) := none
  sortKeys : Option Bool := none
deriving Repr

/-- _default_config as shipped -/
def shipped : Settings := { indent := 4, width := 79, ribbonWidth := 71, depth := none, maxSeqLen := some 1000, sortKeys := false }

/-- _merge_defaults: an explicit argument wins, otherwise the default -/
def merge (d : Settings) (e : Explicit) : Settings :=
  { indent := e.indent.getD d.indent, width := e.width.getD d.width, ribbonWidth := e.ribbonWidth.getD d.ribbonWidth,
    depth := e.depth.getD d.depth, maxSeqLen := e.maxSeqLen.getD d.maxSeqLen, sortKeys := e.sortKeys.getD d.sortKeys }

/-- set_default_config(**given): changes exactly the given settings (it has no `indent` parameter) -/
def setDefault (d : Settings) (u : Explicit) : Settings := merge d { u with indent := none }

def setMany (d : Settings) (us : List Explicit) : Settings := us.foldl setDefault d

/-- pformat after a sequence of set_default_config calls -/
def pformatE (us : List Explicit) (e : Explicit) (v : PyVal) : Str := pformatM (merge (setMany shipped us) e) v

/-- pprint(object, stream, ..., end): what is written to the stream (`if end: stream.write(end)`) -/
def pprintE (us : List Explicit) (e : Explicit) (v : PyVal) (end_ : Str) : Str := pformatE us e v ++ end_

/-- PrettyPrinter(**settings).pformat(object) -/
def prettyPrinterE (us : List Explicit) (ctorArgs : Explicit) (v : PyVal) : Str := pformatE us ctorArgs v

/-- pretty_repr(instance) for a registered type: pformat(instance) with every setting defaulted -/
def prettyReprE (us : List Explicit) (v : PyVal) : Str := pformatE us {} v

end Conf
end PP
