/-
M1 (part 4): render.py — `as_lines` and `default_render_to_stream`.
-/
import PP.Model.Doc
namespace PP

/-- `str.isspace()` for a single code point (the 29 code points CPython treats as whitespace in `str.rstrip()`);
compared with CPython over the whole code-point range by the harness. -/
def isSpace (c : Nat) : Bool :=
  (9 ≤ c && c ≤ 13) || (28 ≤ c && c ≤ 32) || c == 0x85 || c == 0xA0 || c == 0x1680 ||
  (0x2000 ≤ c && c ≤ 0x200A) || c == 0x2028 || c == 0x2029 || c == 0x202F || c == 0x205F || c == 0x3000

def rstrip (s : Str) : Str := (s.reverse.dropWhile isSpace).reverse

/-- `as_lines`: the first line is everything before the first `SLine`; every later line starts with its `SLine`.
Nothing is produced for an empty trailing group (`if currline`). -/
def asLinesAux : List SDoc → List SDoc → List (List SDoc)
  | [], cur => if cur.isEmpty then [] else [cur.reverse]
  | .line i :: r, cur => cur.reverse :: asLinesAux r [.line i]
  | x :: r, cur => asLinesAux r (x :: cur)

def asLines (out : List SDoc) : List (List SDoc) := asLinesAux out []

def isLineEv : SDoc → Bool | .line _ => true | _ => false
def isTextEv : SDoc → Bool | .text _ => true | _ => false

/-- `rstrip()` the last text fragment of one line (`rfind_idx` + replacement). -/
def stripLastText : List SDoc → List SDoc
  | [] => []
  | x :: r =>
    if r.any isTextEv then x :: stripLastText r
    else match x with
      | .text s => .text (rstrip s) :: r
      | y => y :: stripLastText r

def spaces (i : Int) : Str := List.replicate i.toNat 32

def writeSDoc : SDoc → Str
  | .text s => s
  | .line i => 10 :: spaces i
  | _ => []

def renderLine (l : List SDoc) : Str := (stripLastText l).flatMap writeSDoc

/-- `default_render_to_str(sdocs)` with the default newline and separator. -/
def render (out : List SDoc) : Str := (asLines out).flatMap renderLine

end PP
