/-
M4: the printer registry (prettyprinter.py:411-591 after the F12 / F16 repairs): the live singledispatch registry,
the deferred-by-name table and the predicate list, over a class lattice given by `mro`.
Classes, printers and predicates are numbers; `mro c` lists `c` first and ends with `object` (class 0), which is
registered with the base printer from the start.
-/
namespace PP
namespace Reg

abbrev Cls := Nat
abbrev Pr := Nat          -- a registered printer function (identity only)

structure State where
  reg : Cls → Option Pr          -- pretty_dispatch.registry (object excluded: it maps to the base printer)
  deferred : Cls → Option Pr     -- _DEFERRED_DISPATCH_BY_NAME, keyed by the class the name denotes
  preds : List (Nat × Pr)        -- _PREDICATE_REGISTRY, in registration order

def init : State := { reg := fun _ => none, deferred := fun _ => none, preds := [] }

def upd (f : Cls → Option Pr) (c : Cls) (v : Option Pr) : Cls → Option Pr := fun x => if x = c then v else f x

/-- register_pretty(cls)(fn): a direct registration discards a pending by-name entry of its class -/
def regClass (s : State) (c : Cls) (p : Pr) : State :=
  { s with reg := upd s.reg c (some p), deferred := upd s.deferred c none }

/-- register_pretty('module.Name')(fn) -/
def regName (s : State) (c : Cls) (p : Pr) : State := { s with deferred := upd s.deferred c (some p) }

/-- register_pretty(predicate=q)(fn) -/
def regPred (s : State) (q : Nat) (p : Pr) : State := { s with preds := s.preds ++ [(q, p)] }

/-- _promote_deferred: register first, then remove the entry if it is still the same function -/
def promote (s : State) (c : Cls) (p : Pr) : State :=
  let s1 := { s with reg := upd s.reg c (some p) }
  if s1.deferred c = some p then { s1 with deferred := upd s1.deferred c none } else s1

/-- singledispatch on plain classes: the first class of the MRO present in the registry (`none` = the base printer) -/
def dispatch (s : State) (mro : List Cls) : Option Pr :=
  match mro with
  | [] => none
  | c :: r => match s.reg c with
    | some p => some p
    | none => dispatch s r

structure Flags where
  checkSuper : Bool
  checkDeferred : Bool
  registerDeferred : Bool

/-- the loop over `type.__mro__[1:]`: the first class with a deferred entry -/
def firstDeferred (s : State) : List Cls → Option (Cls × Pr)
  | [] => none
  | c :: r => match s.deferred c with
    | some p => some (c, p)
    | none => firstDeferred s r

inductive Answer | yes | no | valueError
deriving DecidableEq, Repr

/-- is_registered(type, check_superclasses, check_deferred, register_deferred); `mro` = type.__mro__ without `object` -/
def isRegistered (s : State) (mro : List Cls) (f : Flags) : State × Answer :=
  if !f.checkDeferred && f.registerDeferred then (s, .valueError) else
  match mro with
  | [] => (s, .no)
  | c :: supers =>
    match (if f.checkDeferred then s.deferred c else none) with
    | some p => ((if f.registerDeferred then promote s c p else s), .yes)
    | none =>
      if (s.reg c).isSome then (s, .yes)
      else if !f.checkSuper then (s, .no)
      else
        match (if f.checkDeferred then firstDeferred s supers else none) with
        | some (sc, p) => ((if f.registerDeferred then promote s sc p else s), .yes)
        | none => (s, if (dispatch s (c :: supers)).isSome then .yes else .no)

/-- which printer runs for a value of a class: the registered one, else the first predicate accepting it, else repr -/
inductive Chosen | printer (p : Pr) | repr
deriving DecidableEq, Repr

def firstPred (accepts : Nat → Bool) : List (Nat × Pr) → Chosen
  | [] => .repr
  | (q, p) :: r => if accepts q then .printer p else firstPred accepts r

/-- pretty_python_value: is_registered(type, True, True, True), then dispatch -/
def printValue (s : State) (mro : List Cls) (accepts : Nat → Bool) : State × Chosen :=
  let s' := (isRegistered s mro ⟨true, true, true⟩).1
  (s', match dispatch s' mro with
       | some p => .printer p
       | none => firstPred accepts s'.preds)

/-! ### operations and histories -/

inductive Op
  | regClass (c : Cls) (p : Pr)
  | regName (c : Cls) (p : Pr)
  | regPred (q : Nat) (p : Pr)
  | print (mro : List Cls) (accepts : List Nat)       -- the value's class MRO and the predicates that accept it
  | query (mro : List Cls) (f : Flags)

def step (s : State) : Op → State
  | .regClass c p => regClass s c p
  | .regName c p => regName s c p
  | .regPred q p => regPred s q p
  | .print mro acc => (printValue s mro (fun q => acc.contains q)).1
  | .query mro f => (isRegistered s mro f).1

def run (h : List Op) : State := h.foldl step init

/-! ### the specification, over the *history* -/

/-- the latest class-kind registration (direct or by name — equivalent) for class `c` in history `h` -/
def latest (h : List Op) (c : Cls) : Option Pr :=
  h.foldl (fun acc op => match op with
    | .regClass c' p => if c' = c then some p else acc
    | .regName c' p => if c' = c then some p else acc
    | _ => acc) none

def predsOf (h : List Op) : List (Nat × Pr) :=
  h.filterMap fun | .regPred q p => some (q, p) | _ => none

/-- the printer the property prescribes: nearest class of the MRO with a registration, else first accepting predicate, else repr -/
def specNearest (h : List Op) : List Cls → Option Pr
  | [] => none
  | c :: r => match latest h c with
    | some p => some p
    | none => specNearest h r

def specPrinter (h : List Op) (mro : List Cls) (accepts : Nat → Bool) : Chosen :=
  match specNearest h mro with
  | some p => .printer p
  | none => firstPred accepts (predsOf h)

end Reg
end PP
