/-
M1 (part 1): documents, simple documents, sizes.  Mirrors prettyprinter/doctypes.py, sdoctypes.py.
Import-free, executable.  Text is carried as lists of code points (`Str`), never `String`.
-/
namespace PP

abbrev Str := List Nat

inductive Mode | brk | flat
deriving DecidableEq, Repr, Inhabited

/-- One character of a Python `str`/`bytes` value together with the CPython classification bits the
model cannot compute for itself (they are inputs; theorems quantify over them). -/
structure PChar where
  cp : Nat
  printable : Bool := true     -- str.isprintable()
  word : Bool := false         -- matches \w  (re, unicode for str / ascii for bytes)
  space : Bool := false        -- matches \s
deriving DecidableEq, Repr, Inhabited

/-- Annotation values.  `tok n` = the `n`-th member of `syntax.Token` (table in `Generated.lean`),
`comment s` = `CommentAnnotation(s)` (the text with its classification bits), `other n` = any other user annotation. -/
inductive Ann
  | tok (n : Nat) | comment (s : List PChar) | other (n : Nat)
deriving DecidableEq, Repr, Inhabited

/-- What `pretty_str` closes over (prettyprinter.py:1827-1837). -/
structure StrSpec where
  s : List PChar
  isBytes : Bool := false
  strategy : Nat := 0           -- 0 PLAIN, 1 HANG, 2 INDENTED, 3 PARENS
  ppIndent : Int := 4           -- ctx.indent
  cls : Option (Bool × Str) := none   -- non-native constructor: (is a builtin name, qualified name)
  slashPattern : Bool := false  -- split_pattern = (/+)  (pure paths); otherwise the default patterns
deriving Repr, Inhabited

def StrSpec.bound (sp : StrSpec) : Nat := 64 * sp.s.length + 64

inductive Doc where
  | nil
  | text (s : Str)
  | hardline
  | cat (ds : List Doc)
  | nest (i : Int) (d : Doc)
  | group (d : Doc)
  | choice (lazy : Bool) (b f : Doc)   -- FlatChoice(when_broken=b, when_flat=f, normalize_on_access=lazy)
  | ab (d : Doc)                        -- AlwaysBreak
  | fill (ds : List Doc)
  | ann (a : Ann) (d : Doc)
  | align (d : Doc)                     -- Contextual(λ indent column … ↦ Nest(column - indent, d))
  | pstr (sp : StrSpec)                 -- Contextual(evaluator of pretty_str)
deriving Repr, Inhabited

inductive SDoc where
  | text (s : Str) | line (i : Int) | push (a : Ann) | pop (a : Ann)
deriving Repr, DecidableEq, Inhabited

namespace Doc
mutual
/-- Work measure of a document that is *on the machine's stack* (it will not be normalised as a whole any more).
A `choice` counts only its larger alternative — the machine and the lookaheads enter exactly one — so a sub-document
shared by both alternatives (as the comment printers do) is counted once.  The broken alternative of a lazily
normalising copy and the body of an `align` will be normalised when read; they are measured with `rsize`. -/
def size : Doc → Nat
  | nil => 1 | text _ => 1 | hardline => 1
  | cat ds => 1 + sizes ds
  | nest _ d => 1 + size d
  | group d => 1 + size d
  | choice l b f => 1 + max (if l then rsize b else size b) (size f)
  | ab d => 1 + size d
  | fill ds => 2 + sizesF ds
  | ann _ d => 2 + size d
  | align d => 3 + rsize d
  | pstr sp => 2 + sp.bound
/-- Work measure of a document that may still be normalised: `size (normalize d) ≤ rsize d`.  It differs from `size`
only by pre-paying the `AlwaysBreak` wrapper `Fill.normalize` may add and by measuring broken alternatives raw. -/
def rsize : Doc → Nat
  | nil => 1 | text _ => 1 | hardline => 1
  | cat ds => 1 + rsizes ds
  | nest _ d => 1 + rsize d
  | group d => 1 + rsize d
  | choice _ b f => 1 + max (rsize b) (size f)
  | ab d => 1 + rsize d
  | fill ds => 3 + sizesF ds
  | ann _ d => 2 + rsize d
  | align d => 3 + rsize d
  | pstr sp => 2 + sp.bound
def sizes : List Doc → Nat
  | [] => 0
  | d :: ds => size d + sizes ds
def rsizes : List Doc → Nat
  | [] => 0
  | d :: ds => rsize d + rsizes ds
def sizesF : List Doc → Nat
  | [] => 0
  | d :: ds => 1 + size d + sizesF ds
end

theorem sizes_le_sizesF (ds : List Doc) : sizes ds ≤ sizesF ds := by
  induction ds with
  | nil => simp [sizes, sizesF]
  | cons d r ih => simp [sizes, sizesF]; omega

theorem size_pos (d : Doc) : 0 < size d := by
  cases d <;> simp [size] <;> omega

@[simp] theorem sizes_append (xs ys : List Doc) : sizes (xs ++ ys) = sizes xs + sizes ys := by
  induction xs with
  | nil => simp [sizes]
  | cons x xs ih => simp [sizes, ih]; omega

mutual
theorem size_le_rsize : (d : Doc) → size d ≤ rsize d
  | .nil => by simp [size, rsize]
  | .text _ => by simp [size, rsize]
  | .hardline => by simp [size, rsize]
  | .cat ds => by have := sizes_le_rsizes ds; simp only [size, rsize]; omega
  | .nest _ d => by have := size_le_rsize d; simp only [size, rsize]; omega
  | .group d => by have := size_le_rsize d; simp only [size, rsize]; omega
  | .ab d => by have := size_le_rsize d; simp only [size, rsize]; omega
  | .choice l b f => by
      have := size_le_rsize b
      simp only [size, rsize]; split <;> omega
  | .fill ds => by simp only [size, rsize]; omega
  | .ann _ d => by have := size_le_rsize d; simp only [size, rsize]; omega
  | .align d => by simp [size, rsize]
  | .pstr _ => by simp [size, rsize]
theorem sizes_le_rsizes : (ds : List Doc) → sizes ds ≤ rsizes ds
  | [] => by simp [sizes, rsizes]
  | d :: r => by have := size_le_rsize d; have := sizes_le_rsizes r; simp only [sizes, rsizes]; omega
end

def line : Doc := .choice false .hardline (.text [32])
def softline : Doc := .choice false .hardline .nil
def hang (i : Int) (d : Doc) : Doc := .align (.nest i d)
end Doc

/-- A stack entry of `best_layout`: a document, or the `SAnnotationPop` marker. -/
inductive Item where
  | doc (d : Doc) | pop (a : Ann)
deriving Repr, Inhabited

def Item.size : Item → Nat
  | .doc d => d.size
  | .pop _ => 1

abbrev Triple := Int × Mode × Item

def stkSize : List Triple → Nat
  | [] => 0
  | (_, _, it) :: r => it.size + stkSize r

/-- `triplestack.extend((indent, mode, d) for d in reversed(ds))` — head of the list is the stack top. -/
def pushAll (i : Int) (m : Mode) (ds : List Doc) (stk : List Triple) : List Triple :=
  match ds with
  | [] => stk
  | d :: r => (i, m, .doc d) :: pushAll i m r stk

@[simp] theorem stkSize_pushAll (i m ds stk) :
    stkSize (pushAll i m ds stk) = Doc.sizes ds + stkSize stk := by
  induction ds with
  | nil => simp [pushAll, Doc.sizes]
  | cons d r ih => simp [pushAll, Doc.sizes, stkSize, Item.size, ih]; omega

end PP
