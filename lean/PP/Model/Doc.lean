/-
M1 (part 1): documents, simple documents, sizes.  Mirrors prettyprinter/doctypes.py, sdoctypes.py.
Import-free, executable.  Text is carried as lists of code points (`Str`), never `String`.
-/
namespace PP

abbrev Str := List Nat

inductive Mode | brk | flat
deriving DecidableEq, Repr, Inhabited

/-- One character of a Python `str`/`bytes` value together with the CPython classification bits the
model cannot compute for itself (they are inputs; theorems quantify over them). -/
structure PChar where
  cp : Nat
  printable : Bool := true     -- str.isprintable()
  word : Bool := false         -- matches \w  (re, unicode for str / ascii for bytes)
  space : Bool := false        -- matches \s
deriving DecidableEq, Repr, Inhabited

/-- Annotation values.  `tok n` = the `n`-th member of `syntax.Token` (table in `Generated.lean`),
`comment s` = `CommentAnnotation(s)` (the text with its classification bits), `other n` = any other user annotation. -/
inductive Ann
  | tok (n : Nat) | comment (s : List PChar) | other (n : Nat)
deriving DecidableEq, Repr, Inhabited

/-- What `pretty_str` closes over (prettyprinter.py:1827-1837). -/
structure StrSpec where
  s : List PChar
  isBytes : Bool := false
  strategy : Nat := 0           -- 0 PLAIN, 1 HANG, 2 INDENTED, 3 PARENS
  ppIndent : Int := 4           -- ctx.indent
  cls : Option (Bool × Str) := none   -- non-native constructor: (is a builtin name, qualified name)
  slashPattern : Bool := false  -- split_pattern = (/+)  (pure paths); otherwise the default patterns
deriving Repr, Inhabited

def StrSpec.bound (sp : StrSpec) : Nat := 64 * sp.s.length + 64

inductive Doc where
  | nil
  | text (s : Str)
  | hardline
  | cat (ds : List Doc)
  | nest (i : Int) (d : Doc)
  | group (d : Doc)
  | choice (lazy : Bool) (b f : Doc)   -- FlatChoice(when_broken=b, when_flat=f, normalize_on_access=lazy)
  | ab (d : Doc)                        -- AlwaysBreak
  | fill (ds : List Doc)
  | ann (a : Ann) (d : Doc)
  | align (d : Doc)                     -- Contextual(λ indent column … ↦ Nest(column - indent, d))
  | pstr (sp : StrSpec)                 -- Contextual(evaluator of pretty_str)
deriving Repr, Inhabited

inductive SDoc where
  | text (s : Str) | line (i : Int) | push (a : Ann) | pop (a : Ann)
deriving Repr, DecidableEq, Inhabited

namespace Doc
mutual
def size : Doc → Nat
  | nil => 1 | text _ => 1 | hardline => 1
  | cat ds => 1 + sizes ds
  | nest _ d => 1 + size d
  | group d => 1 + size d
  | choice _ b f => 1 + 2 * size b + size f
  | ab d => 1 + size d
  | fill ds => 2 + sizesF ds
  | ann _ d => 2 + size d
  | align d => 3 + 2 * size d
  | pstr sp => 2 + sp.bound
def sizes : List Doc → Nat
  | [] => 0
  | d :: ds => size d + sizes ds
def sizesF : List Doc → Nat
  | [] => 0
  | d :: ds => 1 + size d + sizesF ds
end

theorem sizes_le_sizesF (ds : List Doc) : sizes ds ≤ sizesF ds := by
  induction ds with
  | nil => simp [sizes, sizesF]
  | cons d r ih => simp [sizes, sizesF]; omega

theorem size_pos (d : Doc) : 0 < size d := by
  cases d <;> simp [size] <;> omega

@[simp] theorem sizes_append (xs ys : List Doc) : sizes (xs ++ ys) = sizes xs + sizes ys := by
  induction xs with
  | nil => simp [sizes]
  | cons x xs ih => simp [sizes, ih]; omega

def line : Doc := .choice false .hardline (.text [32])
def softline : Doc := .choice false .hardline .nil
def hang (i : Int) (d : Doc) : Doc := .align (.nest i d)
end Doc

/-- A stack entry of `best_layout`: a document, or the `SAnnotationPop` marker. -/
inductive Item where
  | doc (d : Doc) | pop (a : Ann)
deriving Repr, Inhabited

def Item.size : Item → Nat
  | .doc d => d.size
  | .pop _ => 1

abbrev Triple := Int × Mode × Item

def stkSize : List Triple → Nat
  | [] => 0
  | (_, _, it) :: r => it.size + stkSize r

/-- `triplestack.extend((indent, mode, d) for d in reversed(ds))` — head of the list is the stack top. -/
def pushAll (i : Int) (m : Mode) (ds : List Doc) (stk : List Triple) : List Triple :=
  match ds with
  | [] => stk
  | d :: r => (i, m, .doc d) :: pushAll i m r stk

@[simp] theorem stkSize_pushAll (i m ds stk) :
    stkSize (pushAll i m ds stk) = Doc.sizes ds + stkSize stk := by
  induction ds with
  | nil => simp [pushAll, Doc.sizes]
  | cons d r ih => simp [pushAll, Doc.sizes, stkSize, Item.size, ih]; omega

end PP
