/-
M3 (part 2): the evaluator closure of `pretty_str` (prettyprinter.py:1839-1931).
-/
import PP.Model.Combinators
namespace PP
namespace Pr
open Doc PyStr

theorem maxLen_pos (a : Int) : 0 < (max a 10).toNat := by omega

/-- evaluator(indent, column, page_width, ribbon_width) -/
def evalStr (sp : StrSpec) (indent column pw rw : Int) : Doc :=
  let avail := min (pw - column) (indent + rw - column)
  let q := determineQuote sp.s
  let flat := singleLineStr sp.isBytes q sp.s
  let wrap := fun (d : Doc) => match sp.cls with
    | none => d
    | some c => buildFncall sp.ppIndent (generalIdentifier c) [d] [] false none
  if (sp.s.length : Int) + 2 ≤ avail then wrap flat
  else
    let ends := min pw (indent + rw)
    let lines := strToLines sp.isBytes sp.slashPattern (max (ends - indent - 2) 10).toNat (maxLen_pos _) q sp.s
    if lines.length ≤ 1 then wrap flat
    else
      let parts := intersperse .hardline (lines.map (singleLineStr sp.isBytes q))
      let strategy := if sp.cls.isSome then 0 else sp.strategy
      if strategy == 0 then wrap (.ab (.cat parts))
      else if strategy == 1 then .ab (.nest sp.ppIndent (.cat parts))
      else
        let parens := strategy == 3
        .ab (.cat [if parens then LPAREN else .text [], .nest sp.ppIndent (.cat (.hardline :: parts)),
                   if parens then .hardline else .nil, if parens then RPAREN else .text []])

end Pr
end PP
