/-
M2 (part 2): Python values and the bundled printers for the built-in types
(prettyprinter.py: pretty_python_value 433-463, pretty_call_alt 768-850, pretty_bracketable_iterable 1181-1292,
pretty_frozenset 1295-1300, pretty_dict 1319-1503, float/int/bool/None/Ellipsis 1506-1568, pretty_str 1825-1837,
python_to_sdocs 1943-1984).
-/
import PP.Model.StrDoc
import PP.Model.Layout
import PP.Model.Render
namespace PP
namespace Pr
open Doc PyStr

inductive PyVal where
  | int (cls : Option QualName) (val : Int) (lit : Str)
  | float (cls : Option QualName) (kind : Nat) (lit : Str) (num den : Int)   -- kind 0 finite, 1 inf, 2 -inf, 3 nan
  | bool (b : Bool) | none | ellipsis
  | str (cls : Option QualName) (isBytes : Bool) (s : PS)
  | seq (kind : Nat) (cls : Option QualName) (xs : List PyVal)                -- kind 0 list, 1 tuple, 2 set (iteration order)
  | frozenset (cls : Option QualName) (xs : List PyVal)
  | dict (cls : Option QualName) (kvs : List (PyVal × PyVal))                 -- insertion order
  | call (f : QualName) (args : List PyVal) (kwargs : List (Str × PyVal))     -- any printer that goes through pretty_call_alt
  | opaque (repr : Str)                                                        -- unregistered type: repr(value)
  | timedelta (days secs us : Int)                                             -- datetime.timedelta, normalised fields
  | ident (parts : List (Nat × Str))                                           -- identifier(...) / classattr(cls, name): token, text
  | path (cls : QualName) (posix : PS)                                         -- pathlib.PurePath: build_fncall(cls, pretty_str(as_posix()))
  | commented (v : PyVal) (text : PS)
  | trailing (v : PyVal) (text : PS)
deriving Repr, Inhabited

/-- PrettyContext: indent, depth_left (none = infinity), multiline_strategy, max_seq_len (none = None), sort_dict_keys -/
structure Ctx where
  indent : Int := 4
  depthLeft : Option Nat := none
  strategy : Nat := 0
  maxSeqLen : Option Nat := some 1000
  sortKeys : Bool := false
deriving Repr

def Ctx.nested (c : Ctx) : Ctx := { c with depthLeft := c.depthLeft.map (· - 1) }
def Ctx.withStrategy (c : Ctx) (s : Nat) : Ctx := { c with strategy := s }
def Ctx.depthZero (c : Ctx) : Bool := c.depthLeft == some 0

def builtin (name : Str) : QualName := (true, name)
def nmFloat : Str := [102, 108, 111, 97, 116]
def nmInt : Str := [105, 110, 116]
def nmStr : Str := [115, 116, 114]
def nmBytes : Str := [98, 121, 116, 101, 115]
def nmList : Str := [108, 105, 115, 116]
def nmTuple : Str := [116, 117, 112, 108, 101]
def nmSet : Str := [115, 101, 116]
def nmFrozenset : Str := [102, 114, 111, 122, 101, 110, 115, 101, 116]
def nmDict : Str := [100, 105, 99, 116]

def asciiPS (s : Str) : PS := s.map fun c => { cp := c, printable := true, word := (48 ≤ c && c ≤ 57) || (65 ≤ c && c ≤ 90) || (97 ≤ c && c ≤ 122) || c == 95, space := c == 32 }

/-- decimal digits of a natural number -/
def natDigits (n : Nat) : Str := (toString n).toList.map Char.toNat

/-- '...and {} more elements'.format(k) -/
def truncationText (k : Nat) : PS :=
  asciiPS ([46, 46, 46, 97, 110, 100, 32] ++ natDigits k ++ [32, 109, 111, 114, 101, 32, 101, 108, 101, 109, 101, 110, 116, 115])

/-- joined with a user trailing comment by '. ' -/
def withTruncation (len : Nat) (msl : Option Nat) (trailing : Option PS) : Option PS :=
  match msl with
  | some n =>
    if len > n then
      match trailing with
      | some t => if t.isEmpty then some (truncationText (len - n)) else some (truncationText (len - n) ++ asciiPS [46, 32] ++ t)
      | none => some (truncationText (len - n))
    else trailing
  | none => trailing

def nonEmpty? (t : Option PS) : Option PS := match t with | some x => if x.isEmpty then none else some x | none => none

def takeOpt {α} (n : Option Nat) (xs : List α) : List α := match n with | some k => xs.take k | none => xs

/-! ### ordering of dict keys (`sorted(keys, key=_AlwaysSortable)`), defined on mutually comparable keys -/

def lexLt : List Nat → List Nat → Bool
  | [], [] => false
  | [], _ :: _ => true
  | _ :: _, [] => false
  | a :: r, b :: s => if a < b then true else if b < a then false else lexLt r s

/-- numeric value as a fraction (num, den) with den > 0, for int / bool / finite float -/
def numOf : PyVal → Option (Int × Int)
  | .int _ v _ => some (v, 1)
  | .bool b => some (if b then 1 else 0, 1)
  | .float _ 0 _ n d => some (n, d)
  | _ => Option.none

/-- position on the extended number line: -inf before every finite number before +inf (nan is not ordered) -/
def numRank : PyVal → Option Int
  | .float _ 1 _ _ _ => some 1
  | .float _ 2 _ _ _ => some (-1)
  | v => (numOf v).map fun _ => 0

mutual
/-- three-way comparison on mutually comparable keys: numbers by value, str / bytes and tuples lexicographically -/
def pyCmp : PyVal → PyVal → Option Ordering
  | .str _ false a, .str _ false b => some (if lexLt (cps a) (cps b) then .lt else if lexLt (cps b) (cps a) then .gt else .eq)
  | .str _ true a, .str _ true b => some (if lexLt (cps a) (cps b) then .lt else if lexLt (cps b) (cps a) then .gt else .eq)
  | .seq 1 _ xs, .seq 1 _ ys => pyCmpList xs ys
  | a, b =>
    match numRank a, numRank b with
    | some r1, some r2 =>
      if r1 < r2 then some .lt else if r2 < r1 then some .gt
      else match numOf a, numOf b with
        | some (n1, d1), some (n2, d2) =>
          some (if n1 * d2 < n2 * d1 then .lt else if n2 * d1 < n1 * d2 then .gt else .eq)
        | _, _ => some .eq          -- both +inf or both -inf
    | _, _ => Option.none
def pyCmpList : List PyVal → List PyVal → Option Ordering
  | [], [] => some .eq
  | [], _ :: _ => some .lt
  | _ :: _, [] => some .gt
  | a :: r, b :: s =>
    match pyCmp a b with
    | some .eq => pyCmpList r s
    | o => o
end

def pyLt (a b : PyVal) : Option Bool := (pyCmp a b).map (· == .lt)

def stripComments : PyVal → PyVal
  | .commented v _ => stripComments v
  | .trailing v _ => stripComments v
  | v => v

/-! ### the printers -/

def ellipsisCall (fn : QualName) : Doc := .cat [generalIdentifier fn, LPAREN, ELLIPSIS, RPAREN]

/-- `type(x) in (list, dict, tuple)` exactly — the hug rule of pretty_call_alt -/
def isHuggable : PyVal → Bool
  | .seq 0 Option.none _ => true
  | .seq 1 Option.none _ => true
  | .dict Option.none _ => true
  | _ => false

def brackets (kind : Nat) : Doc × Doc :=
  if kind == 0 then (LBRACKET, RBRACKET) else if kind == 1 then (LPAREN, RPAREN) else (LBRACE, RBRACE)

def seqName (kind : Nat) : Str := if kind == 0 then nmList else if kind == 1 then nmTuple else nmSet

def dictPart (ind : Int) (last : Bool) (kdoc vdoc : Doc) (kc vc : Option PS) (rerendered : Doc) : Doc :=
  match kc, vc with
  | Option.none, Option.none => .cat [kdoc, .cat [COLON, .text [32]], vdoc, if last then .nil else COMMA, if last then .nil else line]
  | _, _ =>
    let kcommented := match kc with
      | some c => Doc.cat [commentdoc c, .hardline, kdoc]
      | Option.none => kdoc
    let vcommented := match vc with
      | some c =>
        Doc.group (.choice false
          (.cat [.nest ind (.cat [.hardline, commentdoc c, .hardline, rerendered, if !last then COMMA else .nil]),
                 if !last then .hardline else .nil])
          (.cat [vdoc, if last then .nil else COMMA, .text [32, 32], commentdoc c, if last then .nil else .hardline]))
      | Option.none => .cat [vdoc, if !last then COMMA else .nil, if !last then line else .nil]
    .cat [kcommented, .cat [COLON, .text [32]], vcommented]

/-- pretty_call_alt, given the argument documents rendered both ways (same context for a hugged sole
list/dict/tuple argument; nested HANG context otherwise) -/
def callDoc (ctx : Ctx) (f : QualName) (hug : Bool) (sameCtx nestedCtx : List Doc) (kw : List (Str × Doc)) : Doc :=
  if ctx.depthLeft.any (· == 0) then ellipsisCall f
  else if hug then buildFncall ctx.indent (generalIdentifier f) sameCtx [] true Option.none
  else buildFncall ctx.indent (generalIdentifier f) nestedCtx kw false Option.none

def hugCall (args : List PyVal) (kwargs : List (Str × PyVal)) : Bool :=
  match args, kwargs with
  | [a], [] => isHuggable (stripComments a)
  | _, _ => false

def keyDoc (ctx : Ctx) (k : PyVal) (viaPPV : Doc) : Doc :=
  match k with
  | .str cls isBytes s => Doc.pstr { s := s, isBytes := isBytes, strategy := 3, ppIndent := ctx.indent, cls := cls }
  | _ => viaPPV

def identDoc : List (Nat × Str) → Doc
  | [(t, s)] => tk t s
  | parts => .cat (parts.map fun (t, s) => tk t s)

def intLit (n : Int) : Str := (toString n).toList.map Char.toNat

/-- pretty_python_value(n, ctx) for a plain int -/
def intDoc (ctx : Ctx) (n : Int) : Doc :=
  if ctx.depthZero then ellipsisCall (builtin nmInt) else tk tInt (intLit n)

def nmTimedelta : QualName := (false, [100, 97, 116, 101, 116, 105, 109, 101, 46, 116, 105, 109, 101, 100, 101, 108, 116, 97])

/-- the six attributes pretty_timedelta shows: (sign, days, hours, minutes, seconds, milliseconds, microseconds) of abs(delta) -/
def timedeltaParts (d s u : Int) : Bool × Int × Int × Int × Int × Int × Int :=
  let total := d * 86400000000 + s * 1000000 + u
  let neg := decide (total < 0)
  let p := if neg then -total else total
  let days := p / 86400000000
  let secs := (p / 1000000) % 86400
  let us := p % 1000000
  (neg, days, secs / 3600, (secs / 60) % 60, secs % 60, us / 1000, us % 1000)

def str_ (s : String) : Str := s.toList.map Char.toNat

/-- pretty_timedelta (pretty_stdlib.py:172-250) -/
def timedeltaDoc (ctx : Ctx) (d s u : Int) : Doc :=
  if ctx.depthZero then ellipsisCall nmTimedelta
  else
    let (neg, days, hours, minutes, seconds, ms, us) := timedeltaParts d s u
    let nctx := ctx.nested
    let attrs : List (Str × Int) := [(str_ "days", days), (str_ "hours", hours), (str_ "minutes", minutes),
      (str_ "seconds", seconds), (str_ "milliseconds", ms), (str_ "microseconds", us)]
    let kw : List (Str × Doc) := (attrs.filter fun (_, v) => v != 0).map fun (k, v) => (k, intDoc nctx v)
    let kw := match kw with
      | (k, dd) :: rest =>
        if days != 0 then
          let years := days / 365
          let rem := days % 365
          if years != 0 then
            let pre := if years > 1 then [intDoc ctx years, Doc.text [32], MUL_OP, .text [32]] else []
            let post := if rem != 0 then [Doc.text [32], ADD_OP, .text [32], intDoc ctx rem] else []
            (k, Doc.cat (pre ++ [intDoc ctx 365] ++ post)) :: rest
          else (k, dd) :: rest
        else (k, dd) :: rest
      | [] => []
    let doc := Doc.group (buildFncall ctx.indent (generalIdentifier nmTimedelta) [] kw false Option.none)
    if neg then .cat [NEG_OP, doc] else doc

/-- does pretty_python_value wrap this value's document in a comment annotation?  (innermost non-empty comment wrapper) -/
def commentOf : PyVal → Option PS → Option PS
  | .commented v t, _ => commentOf v (some t)
  | .trailing v _, c => commentOf v c
  | _, c => c
def hasComment (v : PyVal) : Bool := (nonEmpty? (commentOf v Option.none)).isSome

def wrapC (c : Option PS) (doc : Doc) : Doc :=
  match nonEmpty? c with
  | some t => .ann (.comment t) doc
  | Option.none => doc

def emptyCall (ctx : Ctx) (fn : QualName) : Doc :=
  if ctx.depthLeft.any (· == 0) then ellipsisCall fn else .cat [generalIdentifier fn, LPAREN, RPAREN]

/-- pretty_bracketable_iterable, given the documents of *all* elements (`els`, rendered with the element context) -/
def seqDoc (ctx : Ctx) (kind : Nat) (cls : Option QualName) (len : Nat) (els : List Doc) (tr : Option PS) : Doc :=
  let fn := cls.getD (builtin (seqName kind))
  let (left, right) := brackets kind
  let tr := withTruncation len ctx.maxSeqLen tr
  if len == 0 then
    if kind != 2 && cls.isNone then .cat [left, right] else emptyCall ctx fn
  else if ctx.depthZero then
    if kind != 2 then
      let literal := Doc.cat [left, ELLIPSIS, right]
      if cls.isNone then literal else buildFncall ctx.indent (generalIdentifier fn) [literal] [] true Option.none
    else ellipsisCall fn
  else
    let els := if len == 1 then els else takeOpt ctx.maxSeqLen els
    let dangle := kind == 1 && len == 1
    let (els, dangle) := match tr with
      | some t => (els ++ [commentdoc t], false)
      | Option.none => (els, dangle)
    let literal := sequenceOfDocs ctx.indent left els right dangle tr.isSome
    if cls.isNone then literal else buildFncall ctx.indent (generalIdentifier fn) [literal] [] true Option.none

def seqElCtx (ctx : Ctx) (len : Nat) : Ctx := ctx.nested.withStrategy (if len == 1 then 0 else 1)

/-- what pretty_dict computes per pair before laying the pairs out: key, key doc, value doc, re-rendered value doc -/
abbrev PairDocs := PyVal × Doc × Doc × Doc

mutual
/-- the value a dict key is ordered by (`_without_comments`): comment wrappers dropped from the key and, for a tuple key,
from its elements at every depth -/
def sortKey : PyVal → PyVal
  | .commented v _ => sortKey v
  | .trailing v _ => sortKey v
  | .seq kind cls xs => if kind == 1 then .seq kind cls (sortKeyL xs) else .seq kind cls xs
  | v => v
def sortKeyL : List PyVal → List PyVal
  | [] => []
  | v :: r => sortKey v :: sortKeyL r
end

/-- `type(key).__qualname__` for the built-in key types (module `builtins` throughout) -/
def typeNameOf : PyVal → Option Str
  | .int Option.none _ _ => some [105, 110, 116]
  | .float Option.none _ _ _ _ => some [102, 108, 111, 97, 116]
  | .bool _ => some [98, 111, 111, 108]
  | .str Option.none false _ => some [115, 116, 114]
  | .str Option.none true _ => some [98, 121, 116, 101, 115]
  | .seq 1 Option.none _ => some [116, 117, 112, 108, 101]
  | .none => some [78, 111, 110, 101, 84, 121, 112, 101]
  | .ellipsis => some [101, 108, 108, 105, 112, 115, 105, 115]
  | _ => Option.none

/-- `_AlwaysSortable.__lt__`: `<` on the values; where that raises TypeError (keys that cannot be compared), the names of the
types are compared instead (after fix F23); anything else counts as not smaller, which leaves insertion order -/
def keyLt (a b : PyVal) : Bool :=
  match pyLt a b with
  | some r => r
  | Option.none =>
    match typeNameOf a, typeNameOf b with
    | some x, some y => lexLt x y
    | _, _ => false

/-- insertion by `<` on the keys, generic in what is carried along with each key: `x` — which stood before everything in the
list — goes in front of the first entry that is not smaller than it, so entries that `<` cannot tell apart keep their order -/
def insertK {α} (x : PyVal × α) : List (PyVal × α) → List (PyVal × α)
  | [] => [x]
  | y :: r => if keyLt (sortKey y.1) (sortKey x.1) then y :: insertK x r else x :: y :: r
/-- stable insertion sort by `<` on the keys (Python's `sorted` is stable and uses only `<`): the entries are inserted from the
last to the first (`Props/SortSpec.lean`: the result is ordered and stable whenever `<` is transitive on the keys) -/
def sortK {α} (xs : List (PyVal × α)) : List (PyVal × α) := xs.reverse.foldl (fun acc x => insertK x acc) []

def insertPD (x : PairDocs) (xs : List PairDocs) : List PairDocs := insertK x xs
def sortPDs (xs : List PairDocs) : List PairDocs := sortK xs

def dictPartsOf (ind : Int) (n : Nat) : List PairDocs → Nat → List Doc × Bool
  | [], _ => ([], false)
  | (_, kdoc0, vdoc0, rer) :: r, idx =>
    let last := idx + 1 == n
    let (kc, kdoc) := match commented? kdoc0 with | some (c, d) => (some c, d) | Option.none => (Option.none, kdoc0)
    let (vc, vdoc) := match commented? vdoc0 with | some (c, d) => (some c, d) | Option.none => (Option.none, vdoc0)
    let part := dictPart ind last kdoc vdoc (nonEmpty? kc) (nonEmpty? vc) rer
    let (rest, hc) := dictPartsOf ind n r (idx + 1)
    (part :: rest, hc || kc.isSome || vc.isSome)

/-- pretty_dict, given the per-pair documents of all pairs in insertion order -/
def dictDoc (ctx : Ctx) (cls : Option QualName) (pds : List PairDocs) (tr : Option PS) : Doc :=
  let fn := cls.getD (builtin nmDict)
  if ctx.depthZero then
    let literal := Doc.cat [LBRACE, ELLIPSIS, RBRACE]
    if cls.isNone then literal else buildFncall ctx.indent (generalIdentifier fn) [literal] [] true Option.none
  else
    let tr := withTruncation pds.length ctx.maxSeqLen tr
    let pairs := takeOpt ctx.maxSeqLen (if ctx.sortKeys then sortPDs pds else pds)
    let n := pairs.length
    let (parts, hc) := dictPartsOf ctx.indent n pairs 0
    let parts := match tr with
      | some t => parts ++ [Doc.cat [.hardline, commentdoc t]]
      | Option.none => parts
    let body := bracket ctx.indent LBRACE (.cat parts) RBRACE
    let doc := if n > 2 || hc || tr.isSome then Doc.ab body else .group body
    if cls.isNone then doc
    else if parts.isEmpty then emptyCall ctx fn
    else buildFncall ctx.indent (generalIdentifier fn) [doc] [] true Option.none

mutual
/-- pretty_python_value(value, ctx), with the comment / trailing comment collected so far by unwrap_comments
(the innermost wrapper of each kind wins).  A trailing comment reaches only printers that accept one
(list / tuple / set, dict); for the others `_run_pretty` drops it with a warning. -/
def toDocW (ctx : Ctx) : PyVal → Option PS → Option PS → Doc
  | .commented v t, _, tr => toDocW ctx v (some t) tr
  | .trailing v t, c, _ => toDocW ctx v c (some t)
  | .none, c, _ => wrapC c (tk tKW [78, 111, 110, 101])
  | .ellipsis, c, _ => wrapC c ELLIPSIS
  | .bool b, c, _ => wrapC c (tk tKW (if b then [84, 114, 117, 101] else [70, 97, 108, 115, 101]))
  | .opaque r, c, _ => wrapC c (.text r)
  | .ident parts, c, _ => wrapC c (identDoc parts)
  | .timedelta d s u, c, _ => wrapC c (timedeltaDoc ctx d s u)
  | .path cls posix, c, _ => wrapC c <|
    buildFncall ctx.indent (generalIdentifier cls)
      [if ctx.depthZero then ellipsisCall (builtin nmStr)
       else .pstr { s := posix, strategy := ctx.strategy, ppIndent := ctx.indent, slashPattern := true }] [] false Option.none
  | .int cls _ lit, c, _ => wrapC c <|
    if ctx.depthZero then ellipsisCall (cls.getD (builtin nmInt))
    else match cls with
      | Option.none => tk tInt lit
      | some q => buildFncall ctx.indent (generalIdentifier q) [tk tInt lit] [] false Option.none
  | .float cls kind lit _ _, c, _ => wrapC c <|
    let fn := cls.getD (builtin nmFloat)
    if ctx.depthZero then ellipsisCall fn
    else if kind == 0 then
      match cls with
      | Option.none => tk tFloat lit
      | some q => buildFncall ctx.indent (generalIdentifier q) [tk tFloat lit] [] false Option.none
    else
      -- pretty_call_alt(ctx, constructor, args=('inf' | '-inf' | 'nan',))
      let name : Str := if kind == 1 then [105, 110, 102] else if kind == 2 then [45, 105, 110, 102] else [110, 97, 110]
      let nctx := ctx.nested.withStrategy 1
      let arg := if nctx.depthZero then ellipsisCall (builtin nmStr)
                 else Doc.pstr { s := asciiPS name, strategy := 1, ppIndent := ctx.indent }
      buildFncall ctx.indent (generalIdentifier fn) [arg] [] false Option.none
  | .str cls isBytes s, c, _ => wrapC c <|
    if ctx.depthZero then ellipsisCall (cls.getD (builtin (if isBytes then nmBytes else nmStr)))
    else .pstr { s := s, isBytes := isBytes, strategy := ctx.strategy, ppIndent := ctx.indent, cls := cls }
  | .frozenset cls xs, c, _ => wrapC c <|
    let fn := cls.getD (builtin nmFrozenset)
    if ctx.depthLeft.any (· == 0) then ellipsisCall fn
    else if xs.isEmpty then .cat [generalIdentifier fn, LPAREN, RPAREN]
    else buildFncall ctx.indent (generalIdentifier fn)
      [seqDoc ctx 0 Option.none xs.length (toDocs (seqElCtx ctx xs.length) xs) Option.none] [] true Option.none
  | .call f args kwargs, c, _ => wrapC c <|
    callDoc ctx f (hugCall args kwargs) (toDocs ctx args) (toDocs (ctx.nested.withStrategy 1) args)
      (toKwDocs (ctx.nested.withStrategy 1) kwargs)
  | .seq kind cls xs, c, tr => wrapC c <|
    seqDoc ctx kind cls xs.length (toDocs (seqElCtx ctx xs.length) xs) (nonEmpty? tr)
  | .dict cls kvs, c, tr => wrapC c <| dictDoc ctx cls (dictDocs ctx kvs) (nonEmpty? tr)

def toDocs (ctx : Ctx) : List PyVal → List Doc
  | [] => []
  | v :: r => toDocW ctx v Option.none Option.none :: toDocs ctx r

def toKwDocs (ctx : Ctx) : List (Str × PyVal) → List (Str × Doc)
  | [] => []
  | (k, v) :: r => (k, toDocW ctx v Option.none Option.none) :: toKwDocs ctx r

/-- per pair: the key document (str / bytes keys go straight to pretty_str with the PARENS strategy and the
un-nested context), the value document (INDENTED) and the value re-rendered with the PLAIN strategy -/
def dictDocs (ctx : Ctx) : List (PyVal × PyVal) → List PairDocs
  | [] => []
  | (k, v) :: r =>
    (k, keyDoc ctx k (toDocW ctx.nested k Option.none Option.none), toDocW (ctx.nested.withStrategy 2) v Option.none Option.none,
        -- the value is rendered a second time only when it carries a comment (prettyprinter.py:1421-1451)
        (if hasComment v then toDocW (ctx.nested.withStrategy 0) v Option.none Option.none else .nil)) :: dictDocs ctx r
end

def toDoc (ctx : Ctx) (v : PyVal) : Doc := toDocW ctx v Option.none Option.none

/-- python_to_sdocs: the top-level comment wrapper -/
def topDoc (ctx : Ctx) (v : PyVal) : Doc :=
  let doc := toDoc ctx v
  match commented? doc with
  | some (c, _) =>
    .group (.choice false (.cat [commentdoc c, .hardline, doc]) (.cat [doc, .text [32, 32], commentdoc c]))
  | Option.none => doc

/-- the explicit settings of a `pformat` call -/
structure Settings where
  indent : Int := 4
  width : Int := 79
  ribbonWidth : Int := 71
  depth : Option Nat := Option.none
  maxSeqLen : Option Nat := some 1000
  sortKeys : Bool := false
deriving Repr

/-- `ribbon_frac = min(1.0, ribbon_width / width)` then `round(ribbon_frac * width)` clamped to [0, width]: for the
(width, ribbon_width) pairs the harness uses (checked there against CPython's floats) this is `min width ribbon_width`. -/
def Settings.rw (s : Settings) : Int := max 0 (min s.width s.ribbonWidth)

def Settings.ctx (s : Settings) : Ctx :=
  { indent := s.indent, depthLeft := s.depth, strategy := 0, maxSeqLen := s.maxSeqLen, sortKeys := s.sortKeys }

def Settings.cfg (s : Settings) : Cfg := { w := s.width, rw := s.rw, smart := true, ev := evalStr }

def sdocsM (s : Settings) (v : PyVal) : List SDoc := layout s.cfg (topDoc s.ctx v)
def pformatM (s : Settings) (v : PyVal) : Str := render (sdocsM s v)

end Pr
end PP
