/-
M8: printer failures (prettyprinter.py:335-415 after the F10 / F11 repairs) on trees of instrumented user objects
whose printers print their children through pretty_call.  The `k`-th printer invocation (pre-order) may raise an
exception derived from Exception, or return something that is neither str nor Doc.
-/
namespace PP
namespace Fail

inductive OTree where
  | node (cls : Nat) (kids : List OTree)
deriving Repr, Inhabited

inductive Fault | raises (exc : Nat) | badReturn
deriving Repr, DecidableEq

/-- what a value was printed as -/
inductive ODoc where
  | call (cls : Nat) (kids : List ODoc)     -- its printer ran
  | repr (t : OTree)                         -- fell back to repr(value)
deriving Repr, Inhabited

structure St where
  counter : Nat := 0
  warnings : List Nat := []                  -- class of the printer each "raised an exception" warning names
deriving Repr

/-- `ok d` : _run_pretty returned document `d`;  `escapes` : a ValueError (bad return type) is propagating -/
inductive Res | ok (d : ODoc) | escapes
deriving Repr

mutual
def runT (plan : Nat → Option Fault) : OTree → St → Res × St
  | .node cls kids, st =>
    let k := st.counter
    let st1 : St := { st with counter := k + 1 }
    match plan k with
    | some (.raises _) => (.ok (.repr (.node cls kids)), { st1 with warnings := st1.warnings ++ [cls] })
    | some .badReturn => (.escapes, st1)
    | none =>
      match runKids plan kids st1 with
      | (some docs, st2) => (.ok (.call cls docs), st2)
      | (none, st2) =>
        -- a ValueError raised below propagates into this printer's frame and is caught by *its* handler
        (.ok (.repr (.node cls kids)), { st2 with warnings := st2.warnings ++ [cls] })
def runKids (plan : Nat → Option Fault) : List OTree → St → Option (List ODoc) × St
  | [], st => (some [], st)
  | t :: r, st =>
    match runT plan t st with
    | (.ok d, st1) =>
      match runKids plan r st1 with
      | (some ds, st2) => (some (d :: ds), st2)
      | (none, st2) => (none, st2)
    | (.escapes, st1) => (none, st1)
end

mutual
def size : OTree → Nat
  | .node _ kids => 1 + sizes kids
def sizes : List OTree → Nat
  | [] => 0
  | t :: r => size t + sizes r
end

mutual
/-- the fault-free print -/
def full : OTree → ODoc
  | .node cls kids => .call cls (fulls kids)
def fulls : List OTree → List ODoc
  | [] => []
  | t :: r => full t :: fulls r
end

mutual
/-- the fault-free print with the `k`-th value (pre-order) replaced by its repr -/
def substAt : Nat → OTree → ODoc
  | 0, t => .repr t
  | k + 1, .node cls kids => .call cls (substAts k kids)
def substAts : Nat → List OTree → List ODoc
  | _, [] => []
  | k, t :: r => if k < size t then substAt k t :: fulls r else full t :: substAts (k - size t) r
end

mutual
/-- class of the `k`-th value (pre-order) -/
def clsAt : Nat → OTree → Nat
  | 0, .node cls _ => cls
  | k + 1, .node cls kids => clsAts k kids cls
def clsAts : Nat → List OTree → Nat → Nat
  | _, [], d => d
  | k, t :: r, d => if k < size t then clsAt k t else clsAts (k - size t) r d
end

end Fail
end PP
