/-
M2 (part 1): the document-building helpers of prettyprinter.py — tokens and constants (47-63), `bracket`
(594-600), `commentdoc` (603-658), `sequence_of_docs` (661-729), `build_fncall` (853-1007),
`general_identifier` (220-232), the string-literal pieces (1637-1700).
-/
import PP.Model.PyStr
namespace PP
namespace Pr
open Doc PyStr

/-! tokens (fixed numbering by *name*; the harness maps `Token.X` to these numbers by name) -/
def tKW := 0      -- KEYWORD_CONSTANT
def tBuiltin := 1 -- NAME_BUILTIN
def tFn := 3      -- NAME_FUNCTION
def tVar := 4     -- NAME_VARIABLE
def tStr := 5     -- LITERAL_STRING
def tAffix := 6   -- STRING_AFFIX
def tEsc := 7     -- STRING_ESCAPE
def tFloat := 9   -- NUMBER_FLOAT
def tInt := 10    -- NUMBER_INT
def tOp := 11     -- OPERATOR
def tPunct := 12  -- PUNCTUATION
def tComment := 13 -- COMMENT_SINGLE

def tk (t : Nat) (s : Str) : Doc := .ann (.tok t) (.text s)

def COMMA := tk tPunct [44]
def COLON := tk tPunct [58]
def ELLIPSIS := tk tPunct [46, 46, 46]
def LPAREN := tk tPunct [40]
def RPAREN := tk tPunct [41]
def LBRACKET := tk tPunct [91]
def RBRACKET := tk tPunct [93]
def LBRACE := tk tPunct [123]
def RBRACE := tk tPunct [125]
def NEG_OP := tk tOp [45]
def MUL_OP := tk tOp [42]
def ADD_OP := tk tOp [43]
def ASSIGN_OP := tk tOp [61]

/-- a callable's printed name: (is in `builtins`, dotted name as printed) — general_identifier -/
abbrev QualName := Bool × Str
def generalIdentifier (q : QualName) : Doc := tk (if q.1 then tBuiltin else tFn) q.2
def identifier (s : Str) : Doc := tk tFn s
def keywordArg (s : Str) : Doc := tk tVar s

/-- bracket(ctx, left, child, right) -/
def bracket (ind : Int) (l child r : Doc) : Doc :=
  .cat [l, .nest ind (.cat [softline, child]), softline, r]

/-- is_commented(doc): `Annotated` whose annotation is a `CommentAnnotation` -/
def commented? : Doc → Option (PS × Doc)
  | .ann (.comment s) d => some (s, d)
  | _ => none
def isCommented (d : Doc) : Bool := (commented? d).isSome

/-! ### commentdoc -/

def isLineBreak (c : Nat) : Bool :=
  c == 10 || c == 11 || c == 12 || c == 13 || c == 28 || c == 29 || c == 30 || c == 0x85 || c == 0x2028 || c == 0x2029

/-- str.splitlines() -/
def splitLinesAux : PS → PS → List PS
  | [], cur => if cur.isEmpty then [] else [cur.reverse]
  | c :: r, cur =>
    if c.cp == 13 then
      match r with
      | d :: r' => if d.cp == 10 then cur.reverse :: splitLinesAux r' [] else cur.reverse :: splitLinesAux (d :: r') []
      | [] => [cur.reverse]
    else if isLineBreak c.cp then cur.reverse :: splitLinesAux r []
    else splitLinesAux r (c :: cur)
termination_by s => s.length

def splitLines (s : PS) : List PS := splitLinesAux s []

/-- the whitespace separator of a comment: flat = the whitespace itself, broken = a new `# ` line -/
def commentSep (ws : PS) : Doc :=
  .choice false (.ab (.cat [.hardline, .text [35, 32]])) (.text (cps ws))

/-- words and separators alternate, starting with a word; odd positions become `commentSep` -/
def commentItems : List Part → Bool → List Doc
  | [], _ => []
  | (p, _) :: r, isWs => (if isWs then commentSep p else .text (cps p)) :: commentItems r (!isWs)

def commentLine (line : PS) : Doc :=
  let parts := (splitParts (·.space) line).filter (fun p => !p.1.isEmpty)
  match parts with
  | [] => .text [35]                                     -- an empty line: bare '#'
  | (p0, sep0) :: rest =>
    let (prefix_, parts) := if sep0 then (Doc.text (cps p0), rest) else (Doc.nil, (p0, sep0) :: rest)
    let parts := if parts.length % 2 == 0 then parts.dropLast else parts
    .cat [.text [35, 32], prefix_, .fill (commentItems parts false)]

def intersperse (x : Doc) : List Doc → List Doc
  | [] => []
  | [d] => [d]
  | d :: r => d :: x :: intersperse x r

/-- commentdoc(text) for non-empty `text` (the code raises ValueError on empty text; callers never pass it) -/
def commentdoc (text : PS) : Doc :=
  let lines := (splitLines text).map commentLine
  let body := Doc.cat (intersperse .hardline lines)
  .ann (.tok tComment) (if lines.length > 1 then .ab body else body)

/-! ### sequence_of_docs -/

def seqParts (docs : List Doc) (dangle : Bool) : List Doc :=
  let n := docs.length
  let rec go : List Doc → Nat → List Doc
    | [], _ => []
    | doc :: r, idx =>
      let last := idx + 1 == n
      match commented? doc with
      | some (c, _) =>
        let comma := if !last || dangle then COMMA else .nil
        let flat := Doc.cat [doc, comma, .text [32, 32], commentdoc c, if !last then .hardline else .nil]
        let broken := Doc.cat [commentdoc c, .hardline, doc, comma, if !last then .hardline else .nil]
        .group (.choice false broken flat) :: go r (idx + 1)
      | none =>
        if !last then doc :: .cat [COMMA, line] :: go r (idx + 1) else doc :: go r (idx + 1)
  go docs 0

def sequenceOfDocs (ind : Int) (left : Doc) (docs : List Doc) (right : Doc) (dangle forceBreak : Bool) : Doc :=
  let n := docs.length
  let willBreak := forceBreak || decide (2 + 2 * (n - 1 : Int) + n > 150)
  let hasComment := docs.any isCommented
  let parts := seqParts docs dangle
  let parts := if dangle && !(match docs.getLast? with | some d => isCommented d | none => false) then parts ++ [COMMA] else parts
  let body := bracket ind left (.cat parts) right
  if willBreak || hasComment then .ab body else .group body

/-! ### build_fncall -/

def kwargDoc (binding : Str) (doc : Doc) : Doc :=
  match commented? doc with
  | some (c, inner) => .ann (.comment c) (.cat [keywordArg binding, ASSIGN_OP, inner])
  | none => .cat [keywordArg binding, ASSIGN_OP, doc]

def fncallParts (n : Nat) : List Doc → Nat → Bool → List Doc × Bool
  | [], _, hc => ([], hc)
  | doc :: r, idx, hc =>
    let last := idx + 1 == n
    let (hc, cmt, doc) := match commented? doc with
      | some (c, inner) => (true, some c, inner)
      | none => (hc, none, doc)
    let part := Doc.cat [doc, if last then .nil else COMMA]
    let part := match cmt with
      | some c => if c.isEmpty then part else
          .group (.choice false (.cat [commentdoc c, .hardline, part]) (.cat [part, .text [32, 32], commentdoc c]))
      | none => part
    let part := if !last then Doc.cat [part, if hc then .hardline else line] else part
    let (rest, hc') := fncallParts n r (idx + 1) hc
    (part :: rest, hc')

def buildFncall (ind : Int) (fndoc : Doc) (argdocs : List Doc) (kwargdocs : List (Str × Doc))
    (hug : Bool) (trailing : Option PS) : Doc :=
  let kw := kwargdocs.map fun (b, d) => kwargDoc b d
  if argdocs.isEmpty && kw.isEmpty then .cat [fndoc, LPAREN, RPAREN]
  else
    match hug, kw, argdocs with
    | true, [], [a] =>
      if !isCommented a then .group (.cat [fndoc, LPAREN, a, RPAREN])
      else buildRest ind fndoc (argdocs ++ kw) trailing
    | _, _, _ => buildRest ind fndoc (argdocs ++ kw) trailing
where
  buildRest (ind : Int) (fndoc : Doc) (all : List Doc) (trailing : Option PS) : Doc :=
    let hasT := match trailing with | some t => !t.isEmpty | none => false
    let all := if hasT then all ++ [commentdoc (trailing.getD [])] else all
    let (parts, hc) := fncallParts all.length all 0 hasT
    let body := Doc.cat [fndoc, LPAREN, .nest ind (.cat [softline, .cat parts]), softline, RPAREN]
    if hc then .ab body else .group body

/-! ### string literal pieces -/

def isHex (c : Nat) : Bool := (48 ≤ c && c ≤ 57) || (97 ≤ c && c ≤ 102) || (65 ≤ c && c ≤ 70)
def isOct (c : Nat) : Bool := 48 ≤ c && c ≤ 55

/-- length of the match of STR_LITERAL_ESCAPES at the start of `s` (0 = no match) -/
def escapeMatchLen (s : Str) : Nat :=
  match s with
  | 92 :: c :: r =>
    if c == 92 || c == 97 || c == 98 || c == 102 || c == 110 || c == 114 || c == 116 || c == 118 || c == 34 || c == 39 then 2
    else if c == 78 then   -- \N{...}
      match r with
      | 123 :: r' =>
        let body := r'.takeWhile (fun x => x != 125 && x != 10)
        if (r'.drop body.length).head? == some 125 then 3 + body.length + 1 else 0
      | _ => 0
    else if c == 117 then (if (r.take 4).length == 4 && (r.take 4).all isHex then 6 else 0)
    else if c == 85 then (if (r.take 8).length == 8 && (r.take 8).all isHex then 10 else 0)
    else if c == 120 then (if (r.take 2).length == 2 && (r.take 2).all isHex then 4 else 0)
    else if isOct c then 2 + ((r.take 2).takeWhile isOct).length
    else 0
  | _ => 0

/-- STR_LITERAL_ESCAPES.split(s) with empty parts dropped: (text, is-escape) -/
def escapeSplit (s : Str) (fuel : Nat) (cur : Str) : List (Str × Bool) :=
  match fuel with
  | 0 => []
  | fuel + 1 =>
    match s with
    | [] => if cur.isEmpty then [] else [(cur.reverse, false)]
    | c :: r =>
      let n := escapeMatchLen (c :: r)
      if n == 0 then escapeSplit r fuel (c :: cur)
      else (if cur.isEmpty then [] else [(cur.reverse, false)]) ++
           ((c :: r).take n, true) :: escapeSplit ((c :: r).drop n) fuel []

/-- highlight_escapes -/
def highlightEscapes (s : Str) : Doc :=
  if s.isEmpty then .nil
  else .cat ((escapeSplit s (s.length + 1) []).map fun (p, e) => tk (if e then tEsc else tStr) p)

/-- pretty_single_line_str(s, indent, use_quote) -/
def singleLineStr (isBytes : Bool) (q : Nat) (s : PS) : Doc :=
  let prefix_ := if isBytes then tk tAffix [98] else .text []
  .cat [prefix_, .ann (.tok tStr) (.cat [.text [q], highlightEscapes (escapeForQuote isBytes q s), .text [q]])]

end Pr
end PP
