/-
M7: printing an object graph of containers with the `visited` set (prettyprinter.py:325-332, 351-361, 1936-1940).
After the F10 repair the visit runs under try/finally, so the set a child sees is exactly the set of objects that
are being printed at that moment — the current DFS path — which is how it is passed here.
-/
import PP.Model.Values
namespace PP
namespace Graph
open Pr

inductive Child | leaf (n : Int) | ref (i : Nat)
deriving Repr

/-- kind 0 list, 1 dict (keys 'k0', 'k1', …), 2 tuple; `idText` = the digits of `id(obj)` -/
structure Node where
  kind : Nat
  kids : List Child
  idText : Str
deriving Repr

abbrev G := Array Node

def unvisited (g : G) (vis : List Nat) : Nat :=
  ((List.range g.size).filter (fun i => !vis.contains i)).length

theorem unvisited_lt (g : G) (vis : List Nat) (i : Nat) (hi : i < g.size) (hv : vis.contains i = false) :
    unvisited g (i :: vis) < unvisited g vis := by
  unfold unvisited
  have hmem : i ∈ (List.range g.size).filter (fun j => !vis.contains j) := by
    have : i ∉ vis := by simpa using hv
    simp [List.mem_filter, hi, this]
  have : (List.range g.size).filter (fun j => !(i :: vis).contains j) =
      ((List.range g.size).filter (fun j => !vis.contains j)).filter (fun j => j != i) := by
    rw [List.filter_filter]; congr 1; funext j; simp [Bool.and_comm, bne]
    cases h1 : vis.contains j <;> cases h2 : (j == i) <;> simp_all
  rw [this]
  apply List.length_filter_lt_length_iff_exists.mpr
  exact ⟨i, hmem, by simp⟩

def kindName (k : Nat) : Str :=
  if k == 0 then [108, 105, 115, 116] else if k == 1 then [100, 105, 99, 116] else [116, 117, 112, 108, 101]

/-- '<Recursion on {} with id={}>'.format(type(value).__name__, id(value)) -/
def markerText (k : Nat) (idText : Str) : Str :=
  [60, 82, 101, 99, 117, 114, 115, 105, 111, 110, 32, 111, 110, 32] ++ kindName k ++
  [32, 119, 105, 116, 104, 32, 105, 100, 61] ++ idText ++ [62]

def keyOf (n : Nat) : PyVal := .str none false (asciiPS ([107] ++ natDigits n))

def mkNode (k : Nat) (kids : List PyVal) : PyVal :=
  if k == 1 then .dict none ((List.range kids.length).zip kids |>.map fun (i, v) => (keyOf i, v))
  else .seq (if k == 0 then 0 else 1) none kids

def intVal (n : Int) : PyVal := .int none n ((toString n).toList.map Char.toNat)

mutual
/-- `_run_pretty` on node `i` while the nodes in `path` are being printed: a recursion marker iff `i` is one of them -/
def unfold (g : G) (path : List Nat) (i : Nat) : PyVal :=
  if h : i < g.size then
    if hv : path.contains i then .opaque (markerText g[i].kind g[i].idText)
    else mkNode g[i].kind (unfoldKids g (i :: path) g[i].kids)
  else .opaque []
termination_by (unvisited g path, 0)
decreasing_by
  apply Prod.Lex.left
  exact unvisited_lt g path i h (by simpa using hv)
def unfoldKids (g : G) (path : List Nat) : List Child → List PyVal
  | [] => []
  | .leaf n :: r => intVal n :: unfoldKids g path r
  | .ref j :: r => unfold g path j :: unfoldKids g path r
termination_by ks => (unvisited g path, ks.length + 1)
decreasing_by
  all_goals simp_wf
  · apply Prod.Lex.right; omega
  · apply Prod.Lex.right; omega
  · apply Prod.Lex.right; omega
end

/-- pformat of the object `root` of graph `g` -/
def pformatG (s : Settings) (g : G) (root : Nat) : Str := pformatM s (unfold g [] root)

end Graph
end PP
