/-
M1 (part 3): the two fitting predicates and the stack machine `best_layout` of layout.py.
`left` = chars_left, `mw` = max_width, `mn` = min_nesting_level.  The head of a stack list is its top.
-/
import PP.Model.Normalize
set_option linter.unusedSimpArgs false
namespace PP
open Doc

/-- Layout configuration: page width, ribbon width (already rounded and clamped, layout.py:221),
strategy, and the evaluator of `pretty_str`'s contextual document (indent column page_width ribbon_width). -/
structure Cfg where
  w : Int
  rw : Int
  smart : Bool := true
  ev : StrSpec → Int → Int → Int → Int → Doc := fun _ _ _ _ _ => .nil

/-- `normalize_doc(doc.fn(indent, column, page_width, ribbon_width))` for a `pstr` node.  The result is
clamped to the node's declared size bound so that the machine's measure decreases; the clamp is dead
code for the real evaluator (`PP.Str.evalStr_size`, proved in Proofs/StrBound.lean). -/
def Cfg.evC (cfg : Cfg) (sp : StrSpec) (i c : Int) : Doc :=
  let d := (cfg.ev sp i c cfg.w cfg.rw).normalize
  if d.size ≤ sp.bound then d else .nil

theorem Cfg.size_evC (cfg : Cfg) (sp : StrSpec) (i c : Int) : (cfg.evC sp i c).size ≤ sp.bound := by
  unfold Cfg.evC; simp only; split
  · assumption
  · simp [Doc.size, StrSpec.bound]

/-- Reading a `FlatChoice` in the given mode (doctypes.py:144-156): the broken alternative of a
lazily-normalising copy is normalised on access; the flat alternative never is (see DESIGN §4/M1). -/
def pick (m : Mode) (l : Bool) (b f : Doc) : Doc :=
  if m = .flat then f else if l then b.normalize else b

theorem size_pick (m l b f) : (pick m l b f).size < (Doc.choice l b f).size := by
  have := size_normalize b
  simp only [Doc.size]
  unfold pick; split
  · omega
  · split <;> simp_all <;> omega

/-- `Nest(column - indent, doc).normalize()` — the evaluation of `align(doc)`. -/
def alignAt (k : Int) (d : Doc) : Doc := (Doc.nest k d).normalize

theorem size_alignAt (k d) : (alignAt k d).size < (Doc.align d).size := by
  have := size_normalize (.nest k d); simp only [Doc.size, Doc.rsize] at this ⊢; unfold alignAt; omega

/-- fast_fitting_predicate (layout.py:45-121) -/
def fitsFast (cfg : Cfg) (mw : Int) (left : Int) (stk : List Triple) : Bool :=
  if left < 0 then false else
  match stk with
  | [] => true
  | (i, m, it) :: r =>
    match it with
    | .pop _ => fitsFast cfg mw left r
    | .doc d =>
      match d with
      | .nil => fitsFast cfg mw left r
      | .text s => fitsFast cfg mw (left - s.length) r
      | .cat ds => fitsFast cfg mw left (pushAll i m ds r)
      | .ann _ d => fitsFast cfg mw left ((i, m, .doc d) :: r)
      | .fill ds => fitsFast cfg mw left (pushAll i m ds r)
      | .nest j d => fitsFast cfg mw left ((i + j, m, .doc d) :: r)
      | .ab _ => false
      | .hardline => true
      | .choice l b f => fitsFast cfg mw left ((i, m, .doc (pick m l b f)) :: r)
      | .group d => fitsFast cfg mw left ((i, .flat, .doc d) :: r)
      | .align d => fitsFast cfg mw left ((i, m, .doc (alignAt ((mw - left) - i) d)) :: r)
      | .pstr sp => fitsFast cfg mw left ((i, m, .doc (cfg.evC sp i (mw - left))) :: r)
termination_by stkSize stk
decreasing_by
  all_goals simp_wf
  all_goals simp only [stkSize, Item.size, Doc.size, stkSize_pushAll]
  all_goals first
    | omega
    | (have := Doc.sizes_le_sizesF ‹List Doc›; omega)
    | (exact Nat.add_lt_add_right (size_pick _ _ _ _) _)
    | (exact Nat.add_lt_add_right (size_alignAt _ _) _)
    | (apply Nat.lt_of_le_of_lt (Nat.add_le_add_right (Cfg.size_evC _ _ _ _) _); omega)

/-- smart_fitting_predicate (layout.py:124-208) -/
def fitsSmart (cfg : Cfg) (mn mw : Int) (left : Int) (stk : List Triple) : Bool :=
  if left < 0 then false else
  match stk with
  | [] => true
  | (i, m, it) :: r =>
    match it with
    | .pop _ => fitsSmart cfg mn mw left r
    | .doc d =>
      match d with
      | .nil => fitsSmart cfg mn mw left r
      | .text s => fitsSmart cfg mn mw (left - s.length) r
      | .cat ds => fitsSmart cfg mn mw left (pushAll i m ds r)
      | .ann _ d => fitsSmart cfg mn mw left ((i, m, .doc d) :: r)
      | .fill ds => fitsSmart cfg mn mw left (pushAll i m ds r)
      | .nest j d => fitsSmart cfg mn mw left ((i + j, m, .doc d) :: r)
      | .ab _ => false
      | .hardline => if i > mn then fitsSmart cfg mn mw (cfg.w - i) r else true
      | .choice l b f => fitsSmart cfg mn mw left ((i, m, .doc (pick m l b f)) :: r)
      | .group d => fitsSmart cfg mn mw left ((i, .flat, .doc d) :: r)
      | .align d => fitsSmart cfg mn mw left ((i, m, .doc (alignAt ((mw - left) - i) d)) :: r)
      | .pstr sp => fitsSmart cfg mn mw left ((i, m, .doc (cfg.evC sp i (mw - left))) :: r)
termination_by stkSize stk
decreasing_by
  all_goals simp_wf
  all_goals simp only [stkSize, Item.size, Doc.size, stkSize_pushAll]
  all_goals first
    | omega
    | (have := Doc.sizes_le_sizesF ‹List Doc›; omega)
    | (exact Nat.add_lt_add_right (size_pick _ _ _ _) _)
    | (exact Nat.add_lt_add_right (size_alignAt _ _) _)
    | (apply Nat.lt_of_le_of_lt (Nat.add_le_add_right (Cfg.size_evC _ _ _ _) _); omega)

def avail (w rw col i : Int) : Int := min (w - col) (i + rw - col)

/-- The fitting predicate handed to `best_layout` (layout_smart / layout_fast). -/
def fits (cfg : Cfg) (mn mw : Int) (stk : List Triple) : Bool :=
  if cfg.smart then fitsSmart cfg mn mw mw stk else fitsFast cfg mw mw stk

def modeOf (b : Bool) : Mode := if b then .flat else .brk

/-- best_layout (layout.py:211-378): the remaining stack and the current output column to the SDoc stream. -/
def run (cfg : Cfg) (stk : List Triple) (col : Int) : List SDoc :=
  match stk with
  | [] => []
  | (i, m, it) :: r =>
    match it with
    | .pop a => .pop a :: run cfg r col
    | .doc d =>
      match d with
      | .nil => run cfg r col
      | .hardline => .line i :: run cfg r i
      | .text s => .text s :: run cfg r (col + s.length)
      | .cat ds => run cfg (pushAll i m ds r) col
      | .align d => run cfg ((i, m, .doc (alignAt (col - i) d)) :: r) col
      | .pstr sp => run cfg ((i, m, .doc (cfg.evC sp i col)) :: r) col
      | .ann a d => .push a :: run cfg ((i, m, .doc d) :: (i, m, .pop a) :: r) col
      | .choice l b f => run cfg ((i, m, .doc (pick m l b f)) :: r) col
      | .nest j d => run cfg ((i + j, m, .doc d) :: r) col
      | .ab d => run cfg ((i, .brk, .doc d) :: r) col
      | .group d =>
        let a := avail cfg.w cfg.rw col i
        let fit := fits cfg (min col i) a ((i, .flat, .doc d) :: r)
        run cfg ((i, modeOf fit, .doc d) :: r) col
      | .fill ds =>
        match ds with
        | [] => run cfg r col
        | [x] =>
          let a := avail cfg.w cfg.rw col i
          let fit := fitsFast cfg a a [(i, .flat, .doc x)]
          run cfg ((i, modeOf fit, .doc x) :: r) col
        | [x, ws] =>
          let a := avail cfg.w cfg.rw col i
          let fit := fitsFast cfg a a [(i, .flat, .doc x)]
          run cfg ((i, modeOf fit, .doc x) :: (i, modeOf fit, .doc ws) :: r) col
        | x :: ws :: y :: rest =>
          let a := avail cfg.w cfg.rw col i
          let fit := fitsFast cfg a a [(i, .flat, .doc x)]
          let fit2 := fitsFast cfg a a [(i, .flat, .doc (.cat [x, ws]))]
          run cfg ((i, modeOf (fit2 || fit), .doc x) :: (i, modeOf fit2, .doc ws) ::
                   (i, m, .doc (.fill (y :: rest))) :: r) col
termination_by stkSize stk
decreasing_by
  all_goals simp_wf
  all_goals simp only [stkSize, Item.size, Doc.size, Doc.sizesF, stkSize_pushAll]
  all_goals first
    | omega
    | (exact Nat.add_lt_add_right (size_pick _ _ _ _) _)
    | (exact Nat.add_lt_add_right (size_alignAt _ _) _)
    | (apply Nat.lt_of_le_of_lt (Nat.add_le_add_right (Cfg.size_evC _ _ _ _) _); omega)

/-- `best_layout(doc, width, ribbon_frac, predicate)` with `rw` the rounded ribbon width. -/
def layout (cfg : Cfg) (d : Doc) : List SDoc := run cfg [(0, .brk, .doc d.normalize)] 0

end PP
