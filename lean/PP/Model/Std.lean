/-
M2 (part 3): the printers of pretty_stdlib.py as functions from the object's observable fields to the value the
generic machinery prints (a call shape, an identifier, a timedelta).
-/
import PP.Model.Values
namespace PP
namespace Std
open Pr PyStr

def k_microsecond : Str := [109, 105, 99, 114, 111, 115, 101, 99, 111, 110, 100]
def k_second : Str := [115, 101, 99, 111, 110, 100]
def k_minute : Str := [109, 105, 110, 117, 116, 101]
def k_hour : Str := [104, 111, 117, 114]
def k_day : Str := [100, 97, 121]
def k_month : Str := [109, 111, 110, 116, 104]
def k_year : Str := [121, 101, 97, 114]
def k_tzinfo : Str := [116, 122, 105, 110, 102, 111]
def k_fold : Str := [102, 111, 108, 100]
def k_maxlen : Str := [109, 97, 120, 108, 101, 110]

def q (s : String) : QualName := (false, str_ s)
def intV (n : Int) : PyVal := .int none n (intLit n)
def strV (s : PS) : PyVal := .str none false s

/-- pretty_datetime: drop the leading run of zero fields among microsecond, second, minute, hour (dropwhile), keep
day, month, year; positional form when only those three remain; then tzinfo, then fold -/
def showDatetime (y mo d h mi s us : Nat) (tz : Option PyVal) (fold : Nat) : PyVal :=
  let timeFields : List (Str × Nat) := [(k_microsecond, us), (k_second, s), (k_minute, mi), (k_hour, h)]
  let kept := timeFields.dropWhile (fun (_, v) => v == 0)
  let all := kept ++ [(k_day, d), (k_month, mo), (k_year, y)]
  let kw : List (Str × PyVal) := all.reverse.map fun (k, v) => (k, intV v)
  let kw := match tz with | some t => kw ++ [(k_tzinfo, t)] | none => kw
  let kw := if fold != 0 then kw ++ [(k_fold, intV 1)] else kw
  if kw.length == 3 then .call (q "datetime.datetime") [intV y, intV mo, intV d] []
  else .call (q "datetime.datetime") [] kw

/-- pretty_time -/
def showTime (h mi s us : Nat) (tz : Option PyVal) (fold : Nat) : PyVal :=
  let timeFields : List (Str × Nat) := [(k_microsecond, us), (k_second, s), (k_minute, mi), (k_hour, h)]
  let kept := (timeFields.dropWhile (fun (_, v) => v == 0)).reverse
  let kw : List (Str × PyVal) := kept.map fun (k, v) => (k, intV v)
  let kw := match tz with | some t => kw ++ [(k_tzinfo, t)] | none => kw
  let kw := if fold != 0 then kw ++ [(k_fold, intV fold)] else kw
  .call (q "datetime.time") [] kw

def showDate (y mo d : Nat) : PyVal := .call (q "datetime.date") [intV y, intV mo, intV d] []

def utcIdent : PyVal := .ident [(tFn, str_ "datetime.timezone.utc")]

/-- pretty_timezone: `timezone.utc` as an identifier, otherwise timezone(*__getinitargs__()) -/
def showTimezone (isUtc : Bool) (offset : PyVal) (name : Option PS) : PyVal :=
  if isUtc then utcIdent
  else .call (q "datetime.timezone") (match name with | some n => [offset, strV n] | none => [offset]) []

def showDeque (cls : QualName) (xs : List PyVal) (maxlen : Option Nat) : PyVal :=
  .call cls [.seq 0 none xs] (match maxlen with | some n => [(k_maxlen, intV n)] | none => [])

/-- pretty_chainmap: ChainMap() when there are no maps or exactly one empty map -/
def showChainMap (cls : QualName) (maps : List PyVal) (firstEmpty : Bool) : PyVal :=
  if maps.isEmpty || (maps.length == 1 && firstEmpty) then .call cls [] [] else .call cls maps []

def showOneArg (cls : QualName) (arg : PyVal) : PyVal := .call cls [arg] []

def showDefaultdict (cls : QualName) (factory : PyVal) (d : PyVal) : PyVal := .call cls [factory, d] []

/-- classattr(cls, name) -/
def showEnum (cls : QualName) (name : Str) : PyVal :=
  .ident [((if cls.1 then tBuiltin else tFn), cls.2), (tFn, 46 :: name)]

/-! ### the constructor semantics the C07 theorems are stated against -/

/-- datetime.timedelta(days, hours, minutes, seconds, milliseconds, microseconds) in microseconds -/
def timedeltaValue (days hours minutes seconds ms us : Int) : Int :=
  days * 86400000000 + hours * 3600000000 + minutes * 60000000 + seconds * 1000000 + ms * 1000 + us

/-- rebuild (hour, minute, second, microsecond) from the keyword arguments shown, missing ones defaulting to 0 -/
def lookupNat (kw : List (Str × Nat)) (k : Str) : Nat := ((kw.find? (·.1 == k)).map (·.2)).getD 0

end Std
end PP
