/-
M1 (part 2): `normalize_doc` / the `normalize` methods of doctypes.py, method by method,
and the size lemma the layout machine's termination proof needs.
-/
import PP.Model.Doc
namespace PP
namespace Doc

def isAb : Doc → Bool | .ab _ => true | _ => false
def unAb : Doc → Doc | .ab d => d | d => d
def isNil : Doc → Bool | .nil => true | _ => false
def wrapAb (p : Bool) (d : Doc) : Doc := if p then .ab d else d

/-- One iteration of the loop in `Concat.normalize`, on an already normalised child. -/
def catStep (n : Doc) (acc : List Doc × Bool) : List Doc × Bool :=
  match n with
  | .cat xs => (acc.1 ++ xs, acc.2)
  | .ab x => (acc.1 ++ [x], true)
  | .nil => acc
  | d => (acc.1 ++ [d], acc.2)

/-- `Fill.normalize` (after the F2 repair): drops items that *are* `NIL`, keeps everything else
un-normalised, and reports whether some item *is* an `AlwaysBreak`. -/
def fillKeep : List Doc → List Doc
  | [] => []
  | d :: ds => if d.isNil then fillKeep ds else d :: fillKeep ds
def anyAb : List Doc → Bool
  | [] => false
  | d :: ds => d.isAb || anyAb ds

mutual
def normalize : Doc → Doc
  | .nil => .nil
  | .text s => if s = [] then .nil else .text s
  | .hardline => .hardline
  | .cat ds =>
    let r := normCat ds ([], false)
    match r.1 with
    | [] => .nil
    | [x] => wrapAb r.2 x
    | xs => wrapAb r.2 (.cat xs)
  | .nest j d =>
    let n := normalize d
    if n.isAb then .ab (.nest j n.unAb) else .nest j n
  | .group d =>
    let n := normalize d
    if n.isAb then n else if n.isNil then .nil else .group n
  | .choice _ b f => .choice true b f
  | .ab d =>
    let n := normalize d
    if n.isAb then n else .ab n
  | .fill ds =>
    match fillKeep ds with
    | [] => .nil
    | xs => wrapAb (anyAb ds) (.fill xs)
  | .ann a d => .ann a (normalize d)
  | .align d => .align d
  | .pstr sp => .pstr sp
def normCat : List Doc → List Doc × Bool → List Doc × Bool
  | [], acc => acc
  | d :: ds, acc => normCat ds (catStep (normalize d) acc)
end

/-! ### `size (normalize d) ≤ rsize d`

`normalize` may add one `AlwaysBreak` wrapper around a `fill` (and only there does it grow); `rsize` pre-pays that
wrapper, and measures the broken alternative of a choice as it will be measured once the copy is lazily normalising. -/

def flagBit (b : Bool) : Nat := if b then 1 else 0

theorem size_wrapAb (p : Bool) (d : Doc) : size (wrapAb p d) = size d + flagBit p := by
  cases p <;> simp [wrapAb, flagBit, size]; omega

theorem catStep_size (n : Doc) (acc : List Doc × Bool) :
    sizes (catStep n acc).1 + flagBit (catStep n acc).2 ≤ sizes acc.1 + flagBit acc.2 + size n := by
  obtain ⟨xs, p⟩ := acc
  cases p <;> cases n <;> simp [catStep, sizes, size, flagBit] <;> omega

theorem sizesF_fillKeep (ds : List Doc) : sizesF (fillKeep ds) ≤ sizesF ds := by
  induction ds with
  | nil => simp [fillKeep]
  | cons d ds ih => simp only [fillKeep]; split <;> simp [sizesF] <;> omega

theorem flagBit_le (b : Bool) : flagBit b ≤ 1 := by cases b <;> simp [flagBit]

mutual
theorem size_normalize : (d : Doc) → size (normalize d) ≤ rsize d
  | .nil => by simp [normalize, size, rsize]
  | .text s => by simp only [normalize]; split <;> simp [size, rsize]
  | .hardline => by simp [normalize, size, rsize]
  | .choice l b f => by simp [normalize, size, rsize]
  | .align d => by simp [normalize, size, rsize]
  | .pstr sp => by simp [normalize, size, rsize]
  | .ann a d => by have := size_normalize d; simp only [normalize, size, rsize]; omega
  | .ab d => by
      have := size_normalize d
      simp only [normalize]; split <;> simp only [size, rsize] <;> omega
  | .nest j d => by
      have := size_normalize d
      simp only [normalize]; split
      · rename_i h
        generalize normalize d = n at *
        cases n <;> simp [isAb] at h
        simp only [size, rsize, unAb] at *; omega
      · simp only [size, rsize]; omega
  | .group d => by
      have := size_normalize d
      simp only [normalize]; split
      · simp only [rsize]; omega
      · split <;> simp only [size, rsize] <;> omega
  | .fill ds => by
      simp only [normalize]
      split
      · simp only [size, rsize]; omega
      · have h1 := sizesF_fillKeep ds
        have h2 := flagBit_le (anyAb ds)
        rw [size_wrapAb]; simp only [size, rsize]
        omega
  | .cat ds => by
      have h := size_normCat ds ([], false)
      simp only [normalize]
      generalize normCat ds ([], false) = r at h
      obtain ⟨xs, p⟩ := r
      have hp := flagBit_le p
      have h0 : flagBit false = 0 := rfl
      simp only [sizes, h0, Nat.zero_add, Nat.add_zero] at h
      match xs with
      | [] => simp only [size, rsize]; omega
      | [x] => simp only [size_wrapAb, size, rsize, sizes] at *; omega
      | x :: y :: zs => simp only [size_wrapAb, size, rsize, sizes] at *; omega
theorem size_normCat : (ds : List Doc) → (acc : List Doc × Bool) →
    sizes (normCat ds acc).1 + flagBit (normCat ds acc).2 ≤ sizes acc.1 + flagBit acc.2 + rsizes ds
  | [], acc => by simp [normCat, rsizes]
  | d :: ds, acc => by
      have h1 := size_normalize d
      have h2 := catStep_size (normalize d) acc
      have h3 := size_normCat ds (catStep (normalize d) acc)
      simp only [normCat, rsizes]; omega
end

end Doc
end PP
