/-
M6: the colour renderer (prettyprinter/color.py:193-262 after the F13 / F14 repairs).
A style is opaque here: `sgr t` stands for writing `str(color_of_token t)` (which itself begins with a reset, so it
sets the terminal state absolutely) and `reset` for `str(colorful.reset)`.
-/
import PP.Model.Render
namespace PP
namespace Color

inductive Out where
  | txt (s : Str)
  | sgr (t : Nat)
  | reset
deriving Repr, DecidableEq

/-- the per-event part of colored_render_to_stream, threading the colour stack -/
def colorEvents : List Nat → List SDoc → List Out × List Nat
  | st, [] => ([], st)
  | st, .text s :: r => let (o, st') := colorEvents st r; (.txt s :: o, st')
  | st, .line i :: r => let (o, st') := colorEvents st r; (.txt (10 :: spaces i) :: o, st')
  | st, .push (.tok t) :: r => let (o, st') := colorEvents (t :: st) r; (.sgr t :: o, st')
  | st, .push _ :: r => colorEvents st r
  | st, .pop (.tok _) :: r =>
    match st with
    | [] => colorEvents [] r                                  -- IndexError: continue
    | [_] => let (o, st') := colorEvents [] r; (.reset :: o, st')
    | _ :: u :: st2 => let (o, st') := colorEvents (u :: st2) r; (.sgr u :: o, st')
  | st, .pop _ :: r => colorEvents st r                       -- only syntax tokens touch the colour stack

/-- the event stream after `as_lines` + rstrip of the last text fragment of every line -/
def strippedStream (out : List SDoc) : List SDoc := (asLines out).flatMap stripLastText

/-- colored_render_to_stream(stream, sdocs, style): everything written, in order -/
def colorRender (out : List SDoc) : List Out :=
  let (o, st) := colorEvents [] (strippedStream out)
  if st.isEmpty then o else o ++ [.reset]

/-- remove the styling -/
def stripSGR : List Out → Str
  | [] => []
  | .txt s :: r => s ++ stripSGR r
  | _ :: r => stripSGR r

/-- the terminal's SGR state machine: every written text tagged with the style in force (`none` = reset state) -/
def styled : Option Nat → List Out → List (Str × Option Nat)
  | _, [] => []
  | cur, .txt s :: r => (s, cur) :: styled cur r
  | _, .sgr t :: r => styled (some t) r
  | _, .reset :: r => styled none r

def finalState : Option Nat → List Out → Option Nat
  | cur, [] => cur
  | cur, .txt _ :: r => finalState cur r
  | _, .sgr t :: r => finalState (some t) r
  | _, .reset :: r => finalState none r

/-- reference: tag every written text with the innermost open syntax-token annotation (`none` if there is none) -/
def tagged : List Nat → List SDoc → List (Str × Option Nat)
  | _, [] => []
  | st, .text s :: r => (s, st.head?) :: tagged st r
  | st, .line i :: r => (10 :: spaces i, st.head?) :: tagged st r
  | st, .push (.tok t) :: r => tagged (t :: st) r
  | st, .push _ :: r => tagged st r
  | st, .pop (.tok _) :: r => tagged st.tail r
  | st, .pop _ :: r => tagged st r

/-- styleattrs_to_colorful: which colorful accessor and modifiers are combined (total over all attribute shapes) -/
structure Attrs where
  fg : Bool
  bg : Bool
  bold : Bool
  italic : Bool
  underline : Bool

inductive Piece | reset | fgOnly | bgOnly | fgOnBg | bold | italic | underlined
deriving Repr, DecidableEq

def styleOf (a : Attrs) : List Piece :=
  [.reset] ++ (if a.fg && a.bg then [.fgOnBg] else if a.fg then [.fgOnly] else if a.bg then [.bgOnly] else [])
    ++ (if a.bold then [.bold] else []) ++ (if a.italic then [.italic] else []) ++ (if a.underline then [.underlined] else [])

end Color
end PP
