/-
M11: the dataclasses / attrs extras (extras/dataclasses.py: pretty_dataclass_instance, extras/attrs.py: pretty_attrs).
Both walk the class's field definitions in declaration order, skip fields with `repr=False`, show a field without a default
always and a field with a default (or default factory) iff `default != getattr(value, name)`, and hand the selected
`(name, value)` pairs to `pretty_call_alt(ctx, cls, kwargs=...)`.  `!=` is arbitrary user code, so the selection is
parametric in it; the driver instantiates it with Python's `==` on built-in values (`pyNe`).
-/
import PP.Model.Values
namespace PP
namespace Fields
open Pr

/-- `default` / `default_factory()` of a field definition -/
inductive Dflt where
  | missing                  -- MISSING / NOTHING: a required field
  | value (d : PyVal)        -- `default=d`
  | factory (d : PyVal)      -- `default_factory=f` (attrs: `Factory(f)`), `d` = what the factory returns when called now
deriving Repr, Inhabited

structure Field where
  name : Str
  repr : Bool
  dflt : Dflt
  val : PyVal                -- getattr(value, name)
deriving Repr, Inhabited

def Dflt.get? : Dflt → Option PyVal
  | .missing => none
  | .value d => some d
  | .factory d => some d

/-- `display_attr` of both extras -/
def shows (ne : PyVal → PyVal → Bool) (f : Field) : Bool :=
  f.repr && (match f.dflt.get? with | none => true | some d => ne d f.val)

/-- the `kwargs` list handed to `pretty_call_alt` -/
def fieldKwargs (ne : PyVal → PyVal → Bool) (fs : List Field) : List (Str × PyVal) :=
  (fs.filter (shows ne)).map fun f => (f.name, f.val)

/-- what the extras print for an instance: `pretty_call_alt(ctx, cls, kwargs=kwargs)` -/
def instanceVal (ne : PyVal → PyVal → Bool) (cls : QualName) (fs : List Field) : PyVal :=
  .call cls [] (fieldKwargs ne fs)

/-- what calling the class with keyword arguments `kw` stores in field `f`: the argument if given, else the default
(`none`: a required argument is missing — TypeError) -/
def built (kw : List (Str × PyVal)) (f : Field) : Option PyVal :=
  match kw.lookup f.name with
  | some v => some v
  | none => f.dflt.get?

/-! ### Python's `==` on built-in values, for the driver (fuel = nesting depth) -/

def numEq (a b : PyVal) : Option Bool :=
  match numRank a, numRank b with
  | some _, some _ => some (pyCmp a b == some .eq)
  | _, _ => none

def isNan : PyVal → Bool
  | .float _ 3 _ _ _ => true
  | _ => false

def pyEqF : Nat → PyVal → PyVal → Bool
  | 0, _, _ => false
  | f + 1, a, b =>
    let a := stripComments a
    let b := stripComments b
    if isNan a || isNan b then false else
    match numEq a b with
    | some r => r
    | none =>
      match a, b with
      | .none, .none => true
      | .ellipsis, .ellipsis => true
      | .str _ ba sa, .str _ bb sb => ba == bb && PyStr.cps sa == PyStr.cps sb
      | .seq ka _ xs, .seq kb _ ys =>
        if ka == 2 || kb == 2 then ka == kb && xs.length == ys.length && xs.all (fun x => ys.any (pyEqF f x))
        else ka == kb && xs.length == ys.length && (xs.zip ys).all (fun p => pyEqF f p.1 p.2)
      | .seq 2 _ xs, .frozenset _ ys => xs.length == ys.length && xs.all (fun x => ys.any (pyEqF f x))
      | .frozenset _ xs, .seq 2 _ ys => xs.length == ys.length && xs.all (fun x => ys.any (pyEqF f x))
      | .frozenset _ xs, .frozenset _ ys => xs.length == ys.length && xs.all (fun x => ys.any (pyEqF f x))
      | .dict _ xs, .dict _ ys =>
        xs.length == ys.length && xs.all (fun p => ys.any (fun q => pyEqF f p.1 q.1 && pyEqF f p.2 q.2))
      -- instances printed as calls (nested dataclass / attrs instances): equal iff the same class shows equal arguments
      | .call fa aa ka, .call fb ab kb =>
        fa == fb && aa.length == ab.length && (aa.zip ab).all (fun p => pyEqF f p.1 p.2) &&
          ka.length == kb.length && (ka.zip kb).all (fun p => p.1.1 == p.2.1 && pyEqF f p.1.2 p.2.2)
      | _, _ => false

/-- `a != b` for built-in values nested at most 64 deep -/
def pyNe (a b : PyVal) : Bool := !pyEqF 64 a b

end Fields
end PP
