/-
M10: concurrent first prints.  Small-step model of `pretty_python_value`'s registry part
(`is_registered(type, True, True, True)` after the F16 repair, then singledispatch) at the granularity of one
shared-state access per step.  Threads only print (no concurrent registration); a schedule is a list of thread indices.
-/
import PP.Model.Registry
namespace PP
namespace Thr
open Reg

inductive PC
  | start                       -- about to read deferred[type]
  | prom1 (c : Cls) (p : Pr)    -- _promote_deferred: about to register
  | prom2 (c : Cls) (p : Pr)    -- about to re-read deferred[c]
  | prom3 (c : Cls)             -- about to pop
  | chk                         -- about to test `type in registry`
  | sup (r : List Cls)          -- loop over the remaining supertypes: about to read deferred[head]
  | disp                        -- about to dispatch
  | done (res : Option Pr)
deriving Repr, DecidableEq

structure Thread where
  mro : List Cls
  pc : PC := .start
deriving Repr

inductive Event
  | readDef (c : Cls) (r : Option Pr)
  | writeReg (c : Cls) (p : Pr)
  | popDef (c : Cls)
  | readReg (c : Cls) (r : Bool)
  | dispatch (r : Option Pr)
  | idle
deriving Repr, DecidableEq

/-- one atomic step of a thread on the shared registry -/
def tstep (s : State) (t : Thread) : State × Thread × Event :=
  match t.pc with
  | .start =>
    match t.mro with
    | [] => (s, { t with pc := .disp }, .idle)
    | c :: _ =>
      match s.deferred c with
      | some p => (s, { t with pc := .prom1 c p }, .readDef c (some p))
      | none => (s, { t with pc := .chk }, .readDef c none)
  | .prom1 c p => ({ s with reg := upd s.reg c (some p) }, { t with pc := .prom2 c p }, .writeReg c p)
  | .prom2 c p =>
    if s.deferred c = some p then (s, { t with pc := .prom3 c }, .readDef c (s.deferred c))
    else (s, { t with pc := .disp }, .readDef c (s.deferred c))
  | .prom3 c => ({ s with deferred := upd s.deferred c none }, { t with pc := .disp }, .popDef c)
  | .chk =>
    match t.mro with
    | [] => (s, { t with pc := .disp }, .idle)
    | c :: supers =>
      if (s.reg c).isSome then (s, { t with pc := .disp }, .readReg c true)
      else (s, { t with pc := .sup supers }, .readReg c false)
  | .sup [] => (s, { t with pc := .disp }, .dispatch (Reg.dispatch s t.mro))   -- the `dispatch(type) is not base` read
  | .sup (x :: r) =>
    match s.deferred x with
    | some p => (s, { t with pc := .prom1 x p }, .readDef x (some p))
    | none => (s, { t with pc := .sup r }, .readDef x none)
  | .disp => (s, { t with pc := .done (Reg.dispatch s t.mro) }, .dispatch (Reg.dispatch s t.mro))
  | .done r => (s, t, .idle)

def isDone (t : Thread) : Bool := match t.pc with | .done _ => true | _ => false

def setAt {α} (l : List α) (i : Nat) (x : α) : List α := l.set i x

/-- run a schedule; steps of finished or non-existent threads are skipped.  Returns state, threads and the event log -/
def runSched (s : State) (ts : List Thread) : List Nat → State × List Thread × List (Nat × Event)
  | [] => (s, ts, [])
  | i :: rest =>
    match ts[i]? with
    | none => runSched s ts rest
    | some t =>
      if isDone t then runSched s ts rest
      else
        let (s', t', ev) := tstep s t
        let (s'', ts'', log) := runSched s' (setAt ts i t') rest
        (s'', ts'', (i, ev) :: log)

/-- after the schedule, let every unfinished thread run to completion in index order (each needs at most
`2 * |mro| + 6` steps) -/
def finishAll (s : State) (ts : List Thread) : State × List Thread × List (Nat × Event) :=
  let sched := (List.range ts.length).flatMap fun i =>
    List.replicate (2 * ((ts[i]?.map (·.mro.length)).getD 0) + 8) i
  runSched s ts sched

def results (ts : List Thread) : List (Option (Option Pr)) :=
  ts.map fun t => match t.pc with | .done r => some r | _ => none

end Thr
end PP
