/-
M9: cost.  Counting versions of the fitting predicates and of the layout machine (one unit per loop iteration) and of
the printer invocations (`pretty_python_value` calls, mirroring the Python call structure).
-/
import PP.Model.Layout
import PP.Model.Values
namespace PP
open Doc

/-- fast_fitting_predicate with the number of loop iterations -/
def fitsFastC (cfg : Cfg) (mw : Int) (left : Int) (stk : List Triple) : Bool × Nat :=
  if left < 0 then (false, 1) else
  match stk with
  | [] => (true, 1)
  | (i, m, it) :: r =>
    match it with
    | .pop _ => let (b, n) := fitsFastC cfg mw left r; (b, n + 1)
    | .doc d =>
      match d with
      | .nil => let (b, n) := fitsFastC cfg mw left r; (b, n + 1)
      | .text s => let (b, n) := fitsFastC cfg mw (left - s.length) r; (b, n + 1)
      | .cat ds => let (b, n) := fitsFastC cfg mw left (pushAll i m ds r); (b, n + 1)
      | .ann _ d => let (b, n) := fitsFastC cfg mw left ((i, m, .doc d) :: r); (b, n + 1)
      | .fill ds => let (b, n) := fitsFastC cfg mw left (pushAll i m ds r); (b, n + 1)
      | .nest j d => let (b, n) := fitsFastC cfg mw left ((i + j, m, .doc d) :: r); (b, n + 1)
      | .ab _ => (false, 1)
      | .hardline => (true, 1)
      | .choice l b f => let (x, n) := fitsFastC cfg mw left ((i, m, .doc (pick m l b f)) :: r); (x, n + 1)
      | .group d => let (b, n) := fitsFastC cfg mw left ((i, .flat, .doc d) :: r); (b, n + 1)
      | .align d => let (b, n) := fitsFastC cfg mw left ((i, m, .doc (alignAt ((mw - left) - i) d)) :: r); (b, n + 1)
      | .pstr sp => let (b, n) := fitsFastC cfg mw left ((i, m, .doc (cfg.evC sp i (mw - left))) :: r); (b, n + 1)
termination_by stkSize stk
decreasing_by
  all_goals simp_wf
  all_goals simp only [stkSize, Item.size, Doc.size, stkSize_pushAll]
  all_goals first
    | omega
    | (have := Doc.sizes_le_sizesF ‹List Doc›; omega)
    | (exact Nat.add_lt_add_right (size_pick _ _ _ _) _)
    | (exact Nat.add_lt_add_right (size_alignAt _ _) _)
    | (apply Nat.lt_of_le_of_lt (Nat.add_le_add_right (Cfg.size_evC _ _ _ _) _); omega)

namespace Pr

mutual
/-- number of `pretty_python_value` invocations needed to build the document of a value (Python call structure:
a commented dict value is printed twice, prettyprinter.py:1444) -/
def pyCalls : PyVal → Nat
  | .commented v _ => pyCalls v
  | .trailing v _ => pyCalls v
  | .seq _ _ xs => 1 + pyCallsL xs
  | .frozenset _ xs => 2 + pyCallsL xs
  | .dict _ kvs => 1 + pyCallsKV kvs
  | .call _ args kwargs => 1 + pyCallsL args + pyCallsKw kwargs
  | _ => 1
def pyCallsL : List PyVal → Nat
  | [] => 0
  | v :: r => pyCalls v + pyCallsL r
def pyCallsKV : List (PyVal × PyVal) → Nat
  | [] => 0
  | (k, v) :: r => pyCalls k + pyCalls v + (if hasComment v then pyCalls v else 0) + pyCallsKV r
def pyCallsKw : List (Str × PyVal) → Nat
  | [] => 0
  | (_, v) :: r => pyCalls v + pyCallsKw r
end

/-- {'k': comment({'k': comment(… 0 …, 'c')}, 'c')} nested `n` deep -/
def nestedCommentedDict : Nat → PyVal
  | 0 => .int none 0 [48]
  | n + 1 => .dict none [(.str none false (asciiPS [107]), .commented (nestedCommentedDict n) (asciiPS [99]))]

end Pr
end PP

namespace PP
open Doc

/-- smart_fitting_predicate with the number of loop iterations -/
def fitsSmartC (cfg : Cfg) (mn mw : Int) (left : Int) (stk : List Triple) : Bool × Nat :=
  if left < 0 then (false, 1) else
  match stk with
  | [] => (true, 1)
  | (i, m, it) :: r =>
    match it with
    | .pop _ => let (b, n) := fitsSmartC cfg mn mw left r; (b, n + 1)
    | .doc d =>
      match d with
      | .nil => let (b, n) := fitsSmartC cfg mn mw left r; (b, n + 1)
      | .text s => let (b, n) := fitsSmartC cfg mn mw (left - s.length) r; (b, n + 1)
      | .cat ds => let (b, n) := fitsSmartC cfg mn mw left (pushAll i m ds r); (b, n + 1)
      | .ann _ d => let (b, n) := fitsSmartC cfg mn mw left ((i, m, .doc d) :: r); (b, n + 1)
      | .fill ds => let (b, n) := fitsSmartC cfg mn mw left (pushAll i m ds r); (b, n + 1)
      | .nest j d => let (b, n) := fitsSmartC cfg mn mw left ((i + j, m, .doc d) :: r); (b, n + 1)
      | .ab _ => (false, 1)
      | .hardline => if i > mn then (let (b, n) := fitsSmartC cfg mn mw (cfg.w - i) r; (b, n + 1)) else (true, 1)
      | .choice l b f => let (x, n) := fitsSmartC cfg mn mw left ((i, m, .doc (pick m l b f)) :: r); (x, n + 1)
      | .group d => let (b, n) := fitsSmartC cfg mn mw left ((i, .flat, .doc d) :: r); (b, n + 1)
      | .align d => let (b, n) := fitsSmartC cfg mn mw left ((i, m, .doc (alignAt ((mw - left) - i) d)) :: r); (b, n + 1)
      | .pstr sp => let (b, n) := fitsSmartC cfg mn mw left ((i, m, .doc (cfg.evC sp i (mw - left))) :: r); (b, n + 1)
termination_by stkSize stk
decreasing_by
  all_goals simp_wf
  all_goals simp only [stkSize, Item.size, Doc.size, stkSize_pushAll]
  all_goals first
    | omega
    | (have := Doc.sizes_le_sizesF ‹List Doc›; omega)
    | (exact Nat.add_lt_add_right (size_pick _ _ _ _) _)
    | (exact Nat.add_lt_add_right (size_alignAt _ _) _)
    | (apply Nat.lt_of_le_of_lt (Nat.add_le_add_right (Cfg.size_evC _ _ _ _) _); omega)

/-- the layout machine with its work: one unit per loop iteration plus, for every lookahead it starts, the size of
the stack handed to the predicate + 1 (an upper bound on that lookahead's iterations, `C12.fits_linear`) -/
def runW (cfg : Cfg) (stk : List Triple) (col : Int) : Nat :=
  match stk with
  | [] => 1
  | (i, m, it) :: r =>
    match it with
    | .pop _ => 1 + runW cfg r col
    | .doc d =>
      match d with
      | .nil => 1 + runW cfg r col
      | .hardline => 1 + runW cfg r i
      | .text s => 1 + runW cfg r (col + s.length)
      | .cat ds => 1 + runW cfg (pushAll i m ds r) col
      | .align d => 1 + runW cfg ((i, m, .doc (alignAt (col - i) d)) :: r) col
      | .pstr sp => 1 + runW cfg ((i, m, .doc (cfg.evC sp i col)) :: r) col
      | .ann a d => 1 + runW cfg ((i, m, .doc d) :: (i, m, .pop a) :: r) col
      | .choice l b f => 1 + runW cfg ((i, m, .doc (pick m l b f)) :: r) col
      | .nest j d => 1 + runW cfg ((i + j, m, .doc d) :: r) col
      | .ab d => 1 + runW cfg ((i, .brk, .doc d) :: r) col
      | .group d =>
        let a := avail cfg.w cfg.rw col i
        let fit := fits cfg (min col i) a ((i, .flat, .doc d) :: r)
        1 + (stkSize ((i, .flat, .doc d) :: r) + 1) + runW cfg ((i, modeOf fit, .doc d) :: r) col
      | .fill ds =>
        match ds with
        | [] => 1 + runW cfg r col
        | [x] =>
          let a := avail cfg.w cfg.rw col i
          let fit := fitsFast cfg a a [(i, .flat, .doc x)]
          1 + (x.size + 1) + runW cfg ((i, modeOf fit, .doc x) :: r) col
        | [x, ws] =>
          let a := avail cfg.w cfg.rw col i
          let fit := fitsFast cfg a a [(i, .flat, .doc x)]
          1 + (x.size + 1) + runW cfg ((i, modeOf fit, .doc x) :: (i, modeOf fit, .doc ws) :: r) col
        | x :: ws :: y :: rest =>
          let a := avail cfg.w cfg.rw col i
          let fit := fitsFast cfg a a [(i, .flat, .doc x)]
          let fit2 := fitsFast cfg a a [(i, .flat, .doc (.cat [x, ws]))]
          1 + (x.size + 1) + (1 + x.size + ws.size + 1) +
            runW cfg ((i, modeOf (fit2 || fit), .doc x) :: (i, modeOf fit2, .doc ws) ::
                      (i, m, .doc (.fill (y :: rest))) :: r) col
termination_by stkSize stk
decreasing_by
  all_goals simp_wf
  all_goals simp only [stkSize, Item.size, Doc.size, Doc.sizesF, stkSize_pushAll]
  all_goals first
    | omega
    | (exact Nat.add_lt_add_right (size_pick _ _ _ _) _)
    | (exact Nat.add_lt_add_right (size_alignAt _ _) _)
    | (apply Nat.lt_of_le_of_lt (Nat.add_le_add_right (Cfg.size_evC _ _ _ _) _); omega)

/-- iterations of the predicate handed to `best_layout` -/
def fitsC (cfg : Cfg) (mn mw : Int) (stk : List Triple) : Bool × Nat :=
  if cfg.smart then fitsSmartC cfg mn mw mw stk else fitsFastC cfg mw mw stk

/-- the layout machine with the *actual* number of loop iterations it and its lookaheads perform -/
def runC (cfg : Cfg) (stk : List Triple) (col : Int) : Nat :=
  match stk with
  | [] => 1
  | (i, m, it) :: r =>
    match it with
    | .pop _ => 1 + runC cfg r col
    | .doc d =>
      match d with
      | .nil => 1 + runC cfg r col
      | .hardline => 1 + runC cfg r i
      | .text s => 1 + runC cfg r (col + s.length)
      | .cat ds => 1 + runC cfg (pushAll i m ds r) col
      | .align d => 1 + runC cfg ((i, m, .doc (alignAt (col - i) d)) :: r) col
      | .pstr sp => 1 + runC cfg ((i, m, .doc (cfg.evC sp i col)) :: r) col
      | .ann a d => 1 + runC cfg ((i, m, .doc d) :: (i, m, .pop a) :: r) col
      | .choice l b f => 1 + runC cfg ((i, m, .doc (pick m l b f)) :: r) col
      | .nest j d => 1 + runC cfg ((i + j, m, .doc d) :: r) col
      | .ab d => 1 + runC cfg ((i, .brk, .doc d) :: r) col
      | .group d =>
        let a := avail cfg.w cfg.rw col i
        let fit := fitsC cfg (min col i) a ((i, .flat, .doc d) :: r)
        1 + fit.2 + runC cfg ((i, modeOf fit.1, .doc d) :: r) col
      | .fill ds =>
        match ds with
        | [] => 1 + runC cfg r col
        | [x] =>
          let a := avail cfg.w cfg.rw col i
          let fit := fitsFastC cfg a a [(i, .flat, .doc x)]
          1 + fit.2 + runC cfg ((i, modeOf fit.1, .doc x) :: r) col
        | [x, ws] =>
          let a := avail cfg.w cfg.rw col i
          let fit := fitsFastC cfg a a [(i, .flat, .doc x)]
          1 + fit.2 + runC cfg ((i, modeOf fit.1, .doc x) :: (i, modeOf fit.1, .doc ws) :: r) col
        | x :: ws :: y :: rest =>
          let a := avail cfg.w cfg.rw col i
          let fit := fitsFastC cfg a a [(i, .flat, .doc x)]
          let fit2 := fitsFastC cfg a a [(i, .flat, .doc (.cat [x, ws]))]
          1 + fit.2 + fit2.2 +
            runC cfg ((i, modeOf (fit2.1 || fit.1), .doc x) :: (i, modeOf fit2.1, .doc ws) ::
                      (i, m, .doc (.fill (y :: rest))) :: r) col
termination_by stkSize stk
decreasing_by
  all_goals simp_wf
  all_goals simp only [stkSize, Item.size, Doc.size, Doc.sizesF, stkSize_pushAll]
  all_goals first
    | omega
    | (exact Nat.add_lt_add_right (size_pick _ _ _ _) _)
    | (exact Nat.add_lt_add_right (size_alignAt _ _) _)
    | (apply Nat.lt_of_le_of_lt (Nat.add_le_add_right (Cfg.size_evC _ _ _ _) _); omega)

end PP
