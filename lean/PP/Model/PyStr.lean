/-
M3 (part 1): Python `str` / `bytes` text functions used by the string printer (prettyprinter.py:1578-1822):
`repr`, `determine_quote_strategy`, `escape_str_for_quote`, `re.split` with one capturing separator group,
and the loop of `str_to_lines`.  Text = `List PChar` (code point + CPython classification bits).
-/
import PP.Model.Doc
namespace PP
namespace PyStr

abbrev PS := List PChar

def cps (s : PS) : Str := s.map (·.cp)

def SQ : Nat := 39   -- '
def DQ : Nat := 34   -- "
def BS : Nat := 92   -- \

def hasCp (c : Nat) (s : PS) : Bool := s.any (·.cp == c)
def countCp (c : Nat) (s : PS) : Nat := s.countP (·.cp == c)

/-- determine_quote_strategy (1578-1603) -/
def determineQuote (s : PS) : Nat :=
  if !hasCp SQ s then SQ
  else if !hasCp DQ s then DQ
  else if countCp SQ s ≤ countCp DQ s then SQ else DQ

/-- the quote `repr` itself picks: `"` iff the value contains `'` and no `"` -/
def reprQuote (s : PS) : Nat := if hasCp SQ s && !hasCp DQ s then DQ else SQ

def hexDigit (n : Nat) : Nat := if n < 10 then 48 + n else 87 + n   -- lowercase
def hexN : Nat → Nat → Str      -- width, value
  | 0, _ => []
  | w + 1, v => hexN w (v / 16) ++ [hexDigit (v % 16)]

/-- `repr(str)` of one character that is neither the quote in use nor a backslash (CPython unicode_repr) -/
def reprRestStr (c : PChar) : Str :=
  let cp := c.cp
  if cp == 9 then [BS, 116]
  else if cp == 10 then [BS, 110]
  else if cp == 13 then [BS, 114]
  else if cp < 32 || cp == 127 then [BS, 120] ++ hexN 2 cp
  else if cp < 127 then [cp]
  else if c.printable then [cp]
  else if cp < 256 then [BS, 120] ++ hexN 2 cp
  else if cp < 65536 then [BS, 117] ++ hexN 4 cp
  else [BS, 85] ++ hexN 8 cp

/-- one character of `repr(str)` with quote `q`: only the quote in use and the backslash get a backslash -/
def reprCharStr (q : Nat) (c : PChar) : Str :=
  if c.cp == q || c.cp == BS then [BS, c.cp] else reprRestStr c

/-- `repr(bytes)` of one byte that is neither the quote in use nor a backslash -/
def reprRestBytes (c : PChar) : Str :=
  let cp := c.cp
  if cp == 9 then [BS, 116]
  else if cp == 10 then [BS, 110]
  else if cp == 13 then [BS, 114]
  else if cp < 32 || cp ≥ 127 then [BS, 120] ++ hexN 2 cp
  else [cp]

/-- one byte of `repr(bytes)` with quote `q` -/
def reprCharBytes (q : Nat) (c : PChar) : Str :=
  if c.cp == q || c.cp == BS then [BS, c.cp] else reprRestBytes c

/-- `repr(s)` without prefix and surrounding quotes -/
def reprBody (isBytes : Bool) (q : Nat) (s : PS) : Str :=
  s.flatMap (if isBytes then reprCharBytes q else reprCharStr q)

/-- `str.replace(pat, rep)`: leftmost, non-overlapping -/
def replaceAll (pat rep : Str) : Str → Str
  | [] => []
  | c :: r =>
    if pat ≠ [] ∧ pat.isPrefixOf (c :: r) then rep ++ replaceAll pat rep ((c :: r).drop pat.length)
    else c :: replaceAll pat rep r
termination_by s => s.length
decreasing_by
  · rename_i h
    have : 0 < pat.length := List.length_pos_iff.mpr h.1
    simp only [List.length_drop, List.length_cons]; omega
  · simp

/-- escape_str_for_quote (1606-1634), literally: take `repr`, and if it chose the other quote, run the two
`replace` chains. -/
def escapeForQuote (isBytes : Bool) (q : Nat) (s : PS) : Str :=
  let rq := reprQuote s
  let body := reprBody isBytes rq s
  if rq == q then body
  else if q == SQ then replaceAll [SQ] [BS, SQ] (replaceAll [BS, DQ] [DQ] body)
  else replaceAll [DQ] [BS, DQ] (replaceAll [BS, SQ] [SQ] body)

def escapedLen (isBytes : Bool) (q : Nat) (s : PS) : Nat := (escapeForQuote isBytes q s).length

/-! ### `pattern.split(s)` with one capturing group of the form `(sep+)` -/

abbrev Part := PS × Bool      -- text, is-separator tag

/-- Alternating parts `[text, sep, text, …, text]` (first and last are non-separator parts and may be empty),
tagged; `cur` is the part being collected (reversed), `inSep` whether it is a separator run. -/
def splitAux (isSep : PChar → Bool) : PS → PS → Bool → List Part
  | [], cur, inSep => if inSep then [(cur.reverse, true), ([], false)] else [(cur.reverse, false)]
  | c :: r, cur, inSep =>
    if isSep c == inSep then splitAux isSep r (c :: cur) inSep
    else (cur.reverse, inSep) :: splitAux isSep r [c] (isSep c)

def splitParts (isSep : PChar → Bool) (s : PS) : List Part := splitAux isSep s [] false

/-- which separator class `str_to_lines` ends up using (1718-1737) -/
def chooseParts (slash : Bool) (s : PS) : List Part :=
  if slash then splitParts (fun c => c.cp == 47) s
  else
    let ws := splitParts (·.space) s
    if ws.length ≤ 1 then splitParts (fun c => !c.word) s else ws

/-! ### the loop of `str_to_lines` (1757-1822) -/

def partsLen : List Part → Nat
  | [] => 0
  | (p, _) :: r => p.length + 1 + partsLen r

def nextLen : Option Part → Nat
  | none => 0
  | some (p, _) => p.length

def NextOk (next : Option Part) : Prop := ∀ q, next = some q → 0 < q.1.length

/-- The loop.  `h` and `hp` are the two facts the real code relies on for progress — the current line is strictly
shorter than `maxLen`, a pending part is never empty — carried as proof arguments, so that Lean's termination
check *is* the termination proof of the loop. -/
def go (esc : PS → Nat) (maxLen : Nat) (rest : List Part) (next : Option Part)
    (curr : List PS) (currLen : Nat) (h : currLen < maxLen) (hp : NextOk next) : List PS :=
  match next, hp with
  | none, _ =>
    match rest with
    | [] => if curr.isEmpty then [] else [curr.flatten]
    | (p, ws) :: rest' =>
      if hpe : p.isEmpty then go esc maxLen rest' none curr currLen h (by intro q hq; cases hq)
      else go esc maxLen rest' (some (p, ws)) curr currLen h
        (by intro q hq; cases hq; simpa [List.length_pos_iff] using hpe)
  | some (p, ws), hp =>
    let e := esc p
    let len' := currLen + e
    if heq : len' = maxLen then
      if !ws && curr.length > 1 then
        curr.flatten :: go esc maxLen rest (some (p, ws)) [] 0 (by omega) hp
      else
        (curr ++ [p]).flatten :: go esc maxLen rest none [] 0 (by omega) (by intro q hq; cases hq)
    else if hgt : len' > maxLen then
      if !ws && !curr.isEmpty then
        curr.flatten :: go esc maxLen rest (some (p, ws)) [] 0 (by omega) hp
      else
        let remaining := maxLen - currLen
        let this := p.take remaining
        let nxt := p.drop remaining
        let curr' := if this.isEmpty then curr else curr ++ [this]
        let out := if curr'.isEmpty then [] else [curr'.flatten]
        if hn : nxt.isEmpty then
          out ++ go esc maxLen rest none [] 0 (by omega) (by intro q hq; cases hq)
        else
          out ++ go esc maxLen rest (some (nxt, ws)) [] 0 (by omega)
            (by intro q hq; cases hq; simpa [List.length_pos_iff] using hn)
    else
      go esc maxLen rest none (curr ++ [p]) len' (by omega) (by intro q hq; cases hq)
termination_by (partsLen rest + nextLen next, curr.length)
decreasing_by
  all_goals simp_wf
  all_goals simp only [partsLen, nextLen]
  all_goals try (have hpos := hp (p, ws) rfl; simp only at hpos)
  all_goals first
    | (apply Prod.Lex.left; omega)
    | (apply Prod.Lex.left; simp only [List.length_drop]; omega)
    | (apply Prod.Lex.right'
       · omega
       · rename_i hc; simp at hc; omega)
    | (apply Prod.Lex.right'
       · omega
       · rename_i hc; simp at hc
         have := List.length_pos_iff.mpr hc.2; omega)

/-- str_to_lines(max_len, use_quote, s, pattern) for `max_len > 0` (the code asserts it) -/
def strToLines (isBytes : Bool) (slash : Bool) (maxLen : Nat) (hpos : 0 < maxLen) (q : Nat) (s : PS) : List PS :=
  if s.length ≤ maxLen then (if s.isEmpty then [] else [s])
  else go (escapedLen isBytes q) maxLen (chooseParts slash s) none [] 0 hpos (by intro q hq; cases hq)

end PyStr
end PP
