/-
C12 — printing terminates and its work grows polynomially.
Termination: every function of the model is total — Lean accepts each definition only with its termination proof
(`termination_by` clauses of `fitsFast`, `fitsSmart`, `run`, `PyStr.go`, `PyStr.replaceAll`, `Graph.unfold`; everything
else is structural recursion).  Work: the bounds below.
-/
import PP.Model.Cost
import PP.Proofs.StrLines
import PP.Proofs.Quad
namespace PP.C12
open PP Doc Pr

/-- the counting predicate computes the same answer as the predicate of the model -/
theorem fitsFastC_fst (cfg : Cfg) (mw left : Int) (stk : List Triple) :
    (fitsFastC cfg mw left stk).1 = fitsFast cfg mw left stk := by
  fun_induction fitsFastC cfg mw left stk <;> (conv => rhs; unfold fitsFast) <;> simp_all

/-- **C12.fits_linear** — one lookahead costs at most (total size of the stack it looks at) + 1 iterations -/
theorem fits_linear (cfg : Cfg) (mw left : Int) (stk : List Triple) :
    (fitsFastC cfg mw left stk).2 ≤ stkSize stk + 1 := by
  fun_induction fitsFastC cfg mw left stk
  all_goals simp_all only [stkSize, Item.size, stkSize_pushAll]
  all_goals first
    | omega
    | (simp only [Doc.size] at *; omega)
    | (have := Doc.sizes_le_sizesF ‹List Doc›; simp only [Doc.size] at *; omega)
    | (rename_i ih; exact step_le ih (size_pick _ _ _ _))
    | (rename_i ih; exact step_le ih (size_alignAt _ _))
    | (rename_i ih; exact step_le ih (Nat.lt_of_le_of_lt (Cfg.size_evC _ _ _ _) (by simp only [Doc.size]; omega)))

/-- the same for the smart lookahead: however many lines it looks ahead, every iteration consumes stack -/
theorem fits_smart_linear (cfg : Cfg) (mn mw left : Int) (stk : List Triple) :
    (fitsSmartC cfg mn mw left stk).2 ≤ stkSize stk + 1 := by
  fun_induction fitsSmartC cfg mn mw left stk
  all_goals simp_all only [stkSize, Item.size, stkSize_pushAll]
  all_goals first
    | omega
    | (simp only [Doc.size] at *; omega)
    | (have := Doc.sizes_le_sizesF ‹List Doc›; simp only [Doc.size] at *; omega)
    | (rename_i ih; exact step_le ih (size_pick _ _ _ _))
    | (rename_i ih; exact step_le ih (size_alignAt _ _))
    | (rename_i ih; exact step_le ih (Nat.lt_of_le_of_lt (Cfg.size_evC _ _ _ _) (by simp only [Doc.size]; omega)))

theorem fitsSmartC_fst (cfg : Cfg) (mn mw left : Int) (stk : List Triple) :
    (fitsSmartC cfg mn mw left stk).1 = fitsSmart cfg mn mw left stk := by
  fun_induction fitsSmartC cfg mn mw left stk <;> (conv => rhs; unfold fitsSmart) <;> simp_all

/-- **C12.machine_quadratic** — the whole layout of a stack costs at most (size + 2)² units: every iteration of
`best_layout` strictly shrinks the stack's total size, and the lookaheads it starts (one per group, two per fill step)
cost at most that size each.  Holds for every document, width, ribbon and both strategies. -/
theorem machine_quadratic (cfg : Cfg) (stk : List Triple) (col : Int) :
    runW cfg stk col ≤ (stkSize stk + 2) * (stkSize stk + 2) := by
  fun_induction runW cfg stk col
  case case1 => simp [stkSize]
  all_goals (rename_i ih)
  all_goals simp only [stkSize, Item.size, stkSize_pushAll] at ih ⊢
  all_goals first
    | exact quad_lt ih (size_pick _ _ _ _)
    | exact quad_lt ih (size_alignAt _ _)
    | exact quad_lt ih (Nat.lt_of_le_of_lt (Cfg.size_evC _ _ _ _) (by simp only [Doc.size]; omega))
    | (refine quad_step _ _ _ _ ?_ ?_ ih <;> omega)
    | (simp only [Doc.size, Doc.sizesF] at ih ⊢; refine quad_step _ _ _ _ ?_ ?_ ih <;> omega)

/-! ### printer invocations -/

mutual
/-- number of nodes of a value -/
def vsize : PyVal → Nat
  | .commented v _ => 1 + vsize v
  | .trailing v _ => 1 + vsize v
  | .seq _ _ xs => 1 + vsizeL xs
  | .frozenset _ xs => 2 + vsizeL xs
  | .dict _ kvs => 1 + vsizeKV kvs
  | .call _ args kwargs => 1 + vsizeL args + vsizeKw kwargs
  | _ => 1
def vsizeL : List PyVal → Nat
  | [] => 0
  | v :: r => vsize v + vsizeL r
def vsizeKV : List (PyVal × PyVal) → Nat
  | [] => 0
  | (k, v) :: r => vsize k + vsize v + vsizeKV r
def vsizeKw : List (Str × PyVal) → Nat
  | [] => 0
  | (_, v) :: r => vsize v + vsizeKw r
end

mutual
/-- no dict value carries a comment, at any level -/
def noCommentedDictValue : PyVal → Bool
  | .commented v _ => noCommentedDictValue v
  | .trailing v _ => noCommentedDictValue v
  | .seq _ _ xs => ncdvL xs
  | .frozenset _ xs => ncdvL xs
  | .dict _ kvs => ncdvKV kvs
  | .call _ args kwargs => ncdvL args && ncdvKw kwargs
  | _ => true
def ncdvL : List PyVal → Bool
  | [] => true
  | v :: r => noCommentedDictValue v && ncdvL r
def ncdvKV : List (PyVal × PyVal) → Bool
  | [] => true
  | (k, v) :: r => noCommentedDictValue k && noCommentedDictValue v && !hasComment v && ncdvKV r
def ncdvKw : List (Str × PyVal) → Bool
  | [] => true
  | (_, v) :: r => noCommentedDictValue v && ncdvKw r
end

mutual
/-- **C12.build_linear_partial** — without commented dict values, building the document takes at most one printer
invocation per node of the value (incl. values that carry comments at every level of lists, tuples, sets, calls and
dict *keys*) -/
theorem build_linear_partial : ∀ (v : PyVal), noCommentedDictValue v = true → pyCalls v ≤ vsize v
  | .commented v t, h => by
    have := build_linear_partial v (by simpa [noCommentedDictValue] using h); simp [pyCalls, vsize]; omega
  | .trailing v t, h => by
    have := build_linear_partial v (by simpa [noCommentedDictValue] using h); simp [pyCalls, vsize]; omega
  | .seq k c xs, h => by
    have := buildL xs (by simpa [noCommentedDictValue] using h); simp [pyCalls, vsize]; omega
  | .frozenset c xs, h => by
    have := buildL xs (by simpa [noCommentedDictValue] using h); simp [pyCalls, vsize]; omega
  | .dict c kvs, h => by
    have := buildKV kvs (by simpa [noCommentedDictValue] using h); simp [pyCalls, vsize]; omega
  | .call f args kw, h => by
    simp only [noCommentedDictValue, Bool.and_eq_true] at h
    have h1 := buildL args h.1
    have h2 := buildKw kw h.2
    simp [pyCalls, vsize]; omega
  | .int _ _ _, _ => by simp [pyCalls, vsize]
  | .float _ _ _ _ _, _ => by simp [pyCalls, vsize]
  | .bool _, _ => by simp [pyCalls, vsize]
  | .none, _ => by simp [pyCalls, vsize]
  | .ellipsis, _ => by simp [pyCalls, vsize]
  | .str _ _ _, _ => by simp [pyCalls, vsize]
  | .opaque _, _ => by simp [pyCalls, vsize]
  | .timedelta _ _ _, _ => by simp [pyCalls, vsize]
  | .ident _, _ => by simp [pyCalls, vsize]
  | .path _ _, _ => by simp [pyCalls, vsize]
theorem buildL : ∀ (xs : List PyVal), ncdvL xs = true → pyCallsL xs ≤ vsizeL xs
  | [], _ => by simp [pyCallsL, vsizeL]
  | v :: r, h => by
    simp only [ncdvL, Bool.and_eq_true] at h
    have h1 := build_linear_partial v h.1
    have h2 := buildL r h.2
    simp [pyCallsL, vsizeL]; omega
theorem buildKV : ∀ (kvs : List (PyVal × PyVal)), ncdvKV kvs = true → pyCallsKV kvs ≤ vsizeKV kvs
  | [], _ => by simp [pyCallsKV, vsizeKV]
  | (k, v) :: r, h => by
    simp only [ncdvKV, Bool.and_eq_true, Bool.not_eq_true'] at h
    obtain ⟨⟨⟨hk, hv⟩, hc⟩, hr⟩ := h
    have h1 := build_linear_partial k hk
    have h2 := build_linear_partial v hv
    have h3 := buildKV r hr
    simp [pyCallsKV, vsizeKV, hc]; omega
theorem buildKw : ∀ (kw : List (Str × PyVal)), ncdvKw kw = true → pyCallsKw kw ≤ vsizeKw kw
  | [], _ => by simp [pyCallsKw, vsizeKw]
  | (_, v) :: r, h => by
    simp only [ncdvKw, Bool.and_eq_true] at h
    have h1 := build_linear_partial v h.1
    have h2 := buildKw r h.2
    simp [pyCallsKw, vsizeKw]; omega
end

/-- **C12.commented_dict_exponential** (known finding K3) — the full statement is FALSE for the code as it is: a dict
value carrying a comment is printed twice at every level (prettyprinter.py:1444), so `n` nested commented dict values
need at least 2ⁿ printer invocations -/
theorem commented_dict_exponential : ∀ n, 2 ^ n ≤ pyCalls (nestedCommentedDict n)
  | 0 => by simp [nestedCommentedDict, pyCalls]
  | n + 1 => by
    have ih := commented_dict_exponential n
    have hc : hasComment (.commented (nestedCommentedDict n) (asciiPS [99])) = true := by
      simp [hasComment, commentOf, nonEmpty?, asciiPS]
      cases n <;> simp [nestedCommentedDict, commentOf]
    simp only [nestedCommentedDict, pyCalls, pyCallsKV, hc, if_true]
    rw [Nat.pow_succ]; omega

/-- the splitter produces at most one piece per character: the evaluated string document is linear in the string -/
theorem string_pieces_linear (isBytes slash : Bool) (maxLen : Nat) (hpos : 0 < maxLen) (q : Nat) (s : PyStr.PS) :
    (PyStr.strToLines isBytes slash maxLen hpos q s).length ≤ s.length := by
  have hj := PyStr.strToLines_join isBytes slash maxLen hpos q s
  have hn := PyStr.strToLines_nonempty isBytes slash maxLen hpos q s
  generalize PyStr.strToLines isBytes slash maxLen hpos q s = ls at hj hn
  subst hj
  induction ls with
  | nil => simp
  | cons l r ih =>
    have hl : l ≠ [] := hn l (by simp)
    have : 0 < l.length := List.length_pos_iff.mpr hl
    have := ih (fun x hx => hn x (by simp [hx]))
    simp only [List.flatten_cons, List.length_append, List.length_cons]
    omega

end PP.C12
