/-
C10 / C11 (and the sorted order of C01) at the level of code tokens.

`shown ctx v` (Proofs/Shown.lean) is the value a reader of the output sees: dict entries in sorted order (when sorting is
on), every list / tuple / set / frozenset / dict at every level cut to its first N elements and carrying a trailing
comment iff it was longer, every node at the depth cut replaced by a placeholder of its own type (`name(...)`, `[...]`,
`(...)`, `{...}`); scalars without a depth test (None / True / False / Ellipsis, finding K2) and str / bytes dict keys
(finding K5) stay.  Property theorems only.
-/
import PP.Proofs.Shown
import PP.Props.C03
namespace PP.Limits
open PP Doc Pr Tok

/-- the same settings with no depth limit, no max_seq_len and no key sorting -/
def free (s : Settings) : Settings := { s with depth := none, maxSeqLen := none, sortKeys := false }

/-- **shown_canon** — printing `v` under depth / max_seq_len / sort settings has exactly the canonical tokens of printing
the shown value with no limit and no sorting.  `max_seq_len = 0` is outside the property (N ≥ 1); `timedelta` inside a
depth-limited value is excluded (its fields are cut one level down, which `shown` does not express). -/
theorem shown_canon (ctx : Ctx) (v : PyVal) (tr : Option PyStr.PS) (h0 : ctx.maxSeqLen ≠ some 0)
    (htd : ctx.depthLeft = none ∨ noTd v = true) :
    canonW ctx v tr = canonW ctx.free (shown ctx v) tr := shown_ok v ctx tr h0 htd

/-- **C10 / C11: limits_tokens** — the text printed for `v` with `depth = d`, `max_seq_len = N ≥ 1` and any sort flag, at
any width / ribbon / indent, carries the same code tokens (up to `TEq`) as the text printed for the shown value with no
limits: exactly the first N elements of every container in iteration (or sorted) order, a trailing comment exactly where
something was dropped, placeholders exactly at the depth cut, everything above the cut as without a limit. -/
theorem limits_tokens (s : Settings) (v : PyVal) (hw : wfVal v) (h0 : s.maxSeqLen ≠ some 0)
    (htd : s.depth = none ∨ noTd v = true) :
    TEq (ctoks (sdocsM s v)) (ctoks (sdocsM (free s) (shown s.ctx.norm v))) := by
  have h1 := C03.output_tokens s v hw
  have h2 := C03.output_tokens (free s) (shown s.ctx.norm v) (wf_shown v _ hw)
  have e : canonW s.ctx.norm v none = canonW (free s).ctx.norm (shown s.ctx.norm v) none :=
    shown_ok v s.ctx.norm none h0 htd
  rw [e] at h1
  exact .trans h1 (.symm h2)

end PP.Limits
