/-
C15 — printer dispatch follows the class hierarchy for every registration history.
Refinement of the registry state machine (M4) to the history-defined specification.
-/
import PP.Model.Registry
namespace PP.C15
open PP Reg

/-- the effective registration of a class in a state: a pending by-name entry wins over the live registry -/
def eff (s : State) (c : Cls) : Option Pr := (s.deferred c).orElse fun _ => s.reg c

def firstEff (s : State) : List Cls → Option Pr
  | [] => none
  | c :: r => match eff s c with
    | some p => some p
    | none => firstEff s r

/-- the refinement invariant -/
structure Inv (s : State) (h : List Op) : Prop where
  eff_latest : ∀ c, eff s c = latest h c
  preds_eq : s.preds = predsOf h

theorem latest_append (h : List Op) (op : Op) (c : Cls) :
    latest (h ++ [op]) c = match op with
      | .regClass c' p => if c' = c then some p else latest h c
      | .regName c' p => if c' = c then some p else latest h c
      | _ => latest h c := by
  unfold latest
  rw [List.foldl_append]
  cases op <;> simp

theorem predsOf_append (h : List Op) (op : Op) :
    predsOf (h ++ [op]) = predsOf h ++ (match op with | .regPred q p => [(q, p)] | _ => []) := by
  unfold predsOf
  rw [List.filterMap_append]
  cases op <;> simp

theorem eff_promote (s : State) (c : Cls) (p : Pr) (hd : s.deferred c = some p) (x : Cls) :
    eff (promote s c p) x = eff s x := by
  unfold promote
  simp only [hd, if_true]
  unfold eff upd
  by_cases hx : x = c
  · subst hx; simp [hd]
  · simp [hx]

theorem preds_promote (s : State) (c : Cls) (p : Pr) : (promote s c p).preds = s.preds := by
  unfold promote; simp only []; split <;> rfl

theorem firstDeferred_spec {s : State} {l : List Cls} {sc : Cls} {p : Pr}
    (h : firstDeferred s l = some (sc, p)) : s.deferred sc = some p := by
  induction l with
  | nil => simp [firstDeferred] at h
  | cons x r ih =>
    simp only [firstDeferred] at h
    split at h
    · rename_i q hq; cases h; exact hq
    · exact ih h

/-- `is_registered` changes the state only by promoting entries, which preserves every effective registration -/
theorem isRegistered_eff (s : State) (mro : List Cls) (f : Flags) (x : Cls) :
    eff (isRegistered s mro f).1 x = eff s x ∧ (isRegistered s mro f).1.preds = s.preds := by
  unfold isRegistered
  split
  · exact ⟨rfl, rfl⟩
  · cases mro with
    | nil => exact ⟨rfl, rfl⟩
    | cons c supers =>
      simp only []
      split
      · rename_i p hp
        have hd : s.deferred c = some p := by
          split at hp
          · exact hp
          · cases hp
        split
        · exact ⟨eff_promote s c p hd x, preds_promote s c p⟩
        · exact ⟨rfl, rfl⟩
      · split
        · exact ⟨rfl, rfl⟩
        · split
          · exact ⟨rfl, rfl⟩
          · split
            · rename_i sc p hp
              have hd : s.deferred sc = some p := by
                split at hp
                · exact firstDeferred_spec hp
                · cases hp
              split
              · exact ⟨eff_promote s sc p hd x, preds_promote s sc p⟩
              · exact ⟨rfl, rfl⟩
            · exact ⟨rfl, rfl⟩

/-- **C15.no_effect** — with `register_deferred = False`, `is_registered` leaves the state untouched, hence has no
effect on any later dispatch -/
theorem no_effect (s : State) (mro : List Cls) (f : Flags) (h : f.registerDeferred = false) :
    (isRegistered s mro f).1 = s := by
  unfold isRegistered
  simp only [h]
  split
  · rfl
  · cases mro with
    | nil => rfl
    | cons c supers =>
      simp only []
      split
      · simp
      · split
        · rfl
        · split
          · rfl
          · split <;> simp

theorem inv_init : Inv init [] := ⟨fun c => by simp [eff, init, latest], by simp [init, predsOf]⟩

theorem inv_step (s : State) (h : List Op) (op : Op) (hi : Inv s h) : Inv (step s op) (h ++ [op]) := by
  constructor
  · intro c
    rw [latest_append]
    cases op with
    | regClass c' p =>
      simp only [step, regClass, eff, upd]
      by_cases hc : c = c'
      · subst hc; simp
      · have hc' : ¬ c' = c := fun e => hc e.symm
        simp only [hc, hc', if_false]
        exact hi.eff_latest c
    | regName c' p =>
      simp only [step, regName, eff, upd]
      by_cases hc : c = c'
      · subst hc; simp
      · have hc' : ¬ c' = c := fun e => hc e.symm
        simp only [hc, hc', if_false]
        exact hi.eff_latest c
    | regPred q p => simpa [step, regPred, eff] using hi.eff_latest c
    | print mro acc =>
      simp only [step, printValue]
      rw [(isRegistered_eff s mro _ c).1]; exact hi.eff_latest c
    | query mro f =>
      simp only [step]
      rw [(isRegistered_eff s mro f c).1]; exact hi.eff_latest c
  · rw [predsOf_append]
    cases op with
    | regClass c' p => simpa [step, regClass] using hi.preds_eq
    | regName c' p => simpa [step, regName] using hi.preds_eq
    | regPred q p => simp [step, regPred, hi.preds_eq]
    | print mro acc => simpa [step, printValue, (isRegistered_eff s mro _ 0).2] using hi.preds_eq
    | query mro f => simpa [step, (isRegistered_eff s mro f 0).2] using hi.preds_eq

theorem inv_run (h : List Op) : Inv (run h) h := by
  have key : ∀ (ops pre : List Op) (s : State), Inv s pre → Inv (ops.foldl step s) (pre ++ ops) := by
    intro ops
    induction ops with
    | nil => intro pre s hi; simpa using hi
    | cons op r ih =>
      intro pre s hi
      have := ih (pre ++ [op]) (step s op) (inv_step s pre op hi)
      simpa [List.append_assoc] using this
  simpa [run] using key h [] init inv_init

/-- under the invariant, the first effective registration along an MRO is what the history prescribes -/
theorem firstEff_spec {s : State} {h : List Op} (hi : Inv s h) (l : List Cls) : firstEff s l = specNearest h l := by
  induction l with
  | nil => rfl
  | cons c r ih => simp only [firstEff, specNearest, hi.eff_latest c, ih]; rfl

theorem dispatch_of_noDeferred (s : State) (l : List Cls) (h : firstDeferred s l = none) :
    dispatch s l = firstEff s l := by
  induction l with
  | nil => rfl
  | cons x r ih =>
    simp only [firstDeferred] at h
    split at h
    · cases h
    · rename_i hx
      simp only [dispatch, firstEff, eff, hx, Option.orElse]
      cases s.reg x with
      | some q => rfl
      | none => exact ih h

theorem dispatch_after_promote (s : State) (l : List Cls) (sc : Cls) (p : Pr)
    (h : firstDeferred s l = some (sc, p)) : dispatch (promote s sc p) l = firstEff (promote s sc p) l := by
  have hd := firstDeferred_spec h
  induction l with
  | nil => simp [firstDeferred] at h
  | cons x r ih =>
    simp only [firstDeferred] at h
    split at h
    · rename_i q hq
      cases h
      -- the head itself is promoted
      have hreg : (promote s sc p).reg sc = some p := by unfold promote; simp only []; split <;> simp [upd]
      have hdef : (promote s sc p).deferred sc = none := by unfold promote; simp [hq, upd]
      simp [dispatch, firstEff, eff, hreg, hdef, Option.orElse]
    · rename_i hx
      have hne : x ≠ sc := by intro e; subst e; rw [hd] at hx; cases hx
      have hreg : (promote s sc p).reg x = s.reg x := by unfold promote; simp only []; split <;> simp [upd, hne]
      have hdef : (promote s sc p).deferred x = none := by
        unfold promote; simp only [hd, if_true, upd, hne, if_false]; exact hx
      simp only [dispatch, firstEff, eff, hreg, hdef, Option.orElse]
      cases s.reg x with
      | some q => rfl
      | none => exact ih h

/-- after `is_registered(type, True, True, True)` singledispatch picks the nearest effective registration -/
theorem dispatch_after_isRegistered (s : State) (mro : List Cls) :
    dispatch (isRegistered s mro ⟨true, true, true⟩).1 mro = firstEff (isRegistered s mro ⟨true, true, true⟩).1 mro := by
  cases mro with
  | nil => rfl
  | cons c supers =>
    unfold isRegistered
    simp only [Bool.not_true, Bool.false_and, Bool.false_eq_true, if_false, if_true]
    split
    · rename_i p hp
      have hreg : (promote s c p).reg c = some p := by unfold promote; simp only []; split <;> simp [upd]
      have hdef : (promote s c p).deferred c = none := by unfold promote; simp [hp, upd]
      simp [dispatch, firstEff, eff, hreg, hdef, Option.orElse]
    · rename_i hc
      split
      · rename_i hr
        obtain ⟨q, hq⟩ := Option.isSome_iff_exists.mp hr
        simp [dispatch, firstEff, eff, hc, hq, Option.orElse]
      · rename_i hr
        have hrn : s.reg c = none := by simpa using hr
        split
        · rename_i sc p hp
          have hfd : firstDeferred s (c :: supers) = some (sc, p) := by simp [firstDeferred, hc, hp]
          exact dispatch_after_promote s (c :: supers) sc p hfd
        · rename_i hp
          have hfd : firstDeferred s (c :: supers) = none := by simp [firstDeferred, hc, hp]
          exact dispatch_of_noDeferred s (c :: supers) hfd

/-- **C15.refines** — for *every* history of registrations (by class, by name, by predicate), prints and
`is_registered` queries, and every value: the printer that runs is the latest registration of the nearest class in
the value's MRO that has one (deferred and direct registration being equivalent), otherwise the first-registered
predicate accepting the value, otherwise repr. -/
theorem refines (h : List Op) (mro : List Cls) (accepts : Nat → Bool) :
    (printValue (run h) mro accepts).2 = specPrinter h mro accepts := by
  have hi := inv_run h
  have hi' : Inv (isRegistered (run h) mro ⟨true, true, true⟩).1 h :=
    ⟨fun c => by rw [(isRegistered_eff _ mro _ c).1]; exact hi.eff_latest c,
     by rw [(isRegistered_eff _ mro _ 0).2]; exact hi.preds_eq⟩
  unfold printValue specPrinter
  simp only []
  rw [dispatch_after_isRegistered, firstEff_spec hi', hi'.preds_eq]

def IsRead (op : Op) : Prop := (∃ m a, op = .print m a) ∨ (∃ m f, op = .query m f)

theorem latest_reads (h prints : List Op) (hp : ∀ op ∈ prints, IsRead op) (c : Cls) :
    latest (h ++ prints) c = latest h c := by
  unfold latest
  rw [List.foldl_append]
  generalize List.foldl _ none h = acc
  induction prints generalizing acc with
  | nil => rfl
  | cons op r ih =>
    have hr : ∀ op ∈ r, IsRead op := fun o ho => hp o (by simp [ho])
    simp only [List.foldl_cons]
    rcases hp op (by simp) with ⟨m, a, rfl⟩ | ⟨m, f, rfl⟩ <;> exact ih hr acc

theorem predsOf_reads (h prints : List Op) (hp : ∀ op ∈ prints, IsRead op) :
    predsOf (h ++ prints) = predsOf h := by
  induction prints generalizing h with
  | nil => simp
  | cons op r ih =>
    have hr : ∀ op ∈ r, IsRead op := fun o ho => hp o (by simp [ho])
    have : h ++ op :: r = (h ++ [op]) ++ r := by simp
    rw [this, ih (h ++ [op]) hr, predsOf_append]
    rcases hp op (by simp) with ⟨m, a, rfl⟩ | ⟨m, f, rfl⟩ <;> simp

/-- **C19 (registry part)** — printing and querying never change what a later print shows: the printer chosen
depends on the registration history alone, not on which values were printed before, in which order or how often -/
theorem history_independent (h : List Op) (prints : List Op) (hp : ∀ op ∈ prints, IsRead op)
    (mro : List Cls) (accepts : Nat → Bool) :
    (printValue (run (h ++ prints)) mro accepts).2 = (printValue (run h) mro accepts).2 := by
  rw [refines, refines]
  have hs : ∀ l, specNearest (h ++ prints) l = specNearest h l := by
    intro l; induction l with
    | nil => rfl
    | cons c r ih => simp only [specNearest, latest_reads h prints hp c, ih]
  unfold specPrinter
  rw [hs, predsOf_reads h prints hp]

end PP.C15
