/-
C08 and C17 read off the canonical tokens (which, by `C03.output_tokens`, are the code tokens of every output up to literal
splitting): a subclass instance is the call of its class around exactly the tokens of the underlying built-in value; a
call-style printer shows the callable's name, the positional arguments in order and the keyword arguments in the order
given, each argument exactly as it is printed on its own.
-/
import PP.Props.C03
import PP.Proofs.Shown
namespace PP
open Doc Pr Tok

namespace C08

/-- list / tuple / set subclass, non-empty, above the depth cut -/
theorem seq_wrapper_tokens (ctx : Ctx) (kind : Nat) (q : QualName) (xs : List PyVal) (tr : Option PyStr.PS)
    (hne : (xs.length == 0) = false) (hz : ctx.depthZero = false) :
    canonW ctx (.seq kind (some q) xs) tr = callToks q [canonW ctx (.seq kind none xs) tr] := by
  simp only [canonW, seqCanon, hne, hz, Bool.false_eq_true, if_false, Option.isNone_some, Option.isNone_none, if_true,
    Option.getD_some]

/-- dict subclass, non-empty, above the depth cut -/
theorem dict_wrapper_tokens (ctx : Ctx) (q : QualName) (kvs : List (PyVal × PyVal)) (tr : Option PyStr.PS)
    (hne : kvs ≠ []) (hm : ctx.maxSeqLen ≠ some 0) (hz : ctx.depthZero = false) :
    canonW ctx (.dict (some q) kvs) tr = callToks q [canonW ctx (.dict none kvs) tr] := by
  have hps : (takeOpt ctx.maxSeqLen (if ctx.sortKeys = true then sortK (canonPairs ctx kvs) else canonPairs ctx kvs)).isEmpty = false := by
    have hl : (if ctx.sortKeys = true then sortK (canonPairs ctx kvs) else canonPairs ctx kvs).length = kvs.length := by
      split
      · rw [(C01.sortK_perm _).length_eq, canonPairs_length]
      · exact canonPairs_length _ _
    generalize (if ctx.sortKeys = true then sortK (canonPairs ctx kvs) else canonPairs ctx kvs) = ps at hl
    have hk : kvs.length ≠ 0 := fun e => hne (List.eq_nil_of_length_eq_zero e)
    cases ps with
    | nil => simp at hl; omega
    | cons p r =>
      cases hmx : ctx.maxSeqLen with
      | none => simp [takeOpt]
      | some n =>
        have hn : n ≠ 0 := fun e => hm (by rw [hmx, e])
        cases n with
        | zero => exact absurd rfl hn
        | succ k => simp [takeOpt]
  simp only [canonW, dictCanon, hz, Bool.false_eq_true, if_false, Option.isNone_some, Option.isNone_none, if_true,
    Option.getD_some, hps, Bool.false_and]

/-- int / float / str / bytes subclass above the depth cut -/
theorem int_wrapper_tokens (ctx : Ctx) (q : QualName) (val : Int) (lit : Str) (tr : Option PyStr.PS) (hz : ctx.depthZero = false) :
    canonW ctx (.int (some q) val lit) tr = callToks q [canonW ctx (.int none val lit) tr] := by
  simp [canonW, hz, wrapToks]

theorem str_wrapper_tokens (ctx : Ctx) (q : QualName) (b : Bool) (s : PyStr.PS) (tr : Option PyStr.PS) (hz : ctx.depthZero = false) :
    canonW ctx (.str (some q) b s) tr = callToks q [canonW ctx (.str none b s) tr] := by
  simp [canonW, hz, strCanon, callToks, seqToks, cd, LP, RP]

end C08

namespace C17

/-- **C17.call_tokens** — a value printed through `pretty_call` / `pretty_call_alt` shows the callable's name, `(`, the
positional arguments in order, the keyword arguments as `name = value` in the order given — each argument with exactly the
tokens it has when printed on its own (in the same context for a hugged sole argument, one level down otherwise) — and `)`. -/
theorem call_tokens (ctx : Ctx) (f : QualName) (args : List PyVal) (kwargs : List (Str × PyVal)) (tr : Option PyStr.PS)
    (hz : ctx.depthLeft.any (· == 0) = false) :
    canonW ctx (.call f args kwargs) tr =
      if hugCall args kwargs then callToks f (canonL ctx args)
      else callToks f (canonL ctx.nested args ++ canonKw ctx.nested kwargs) := by
  simp only [canonW, hz, Bool.false_eq_true, if_false]

/-- the keyword part: `name`, `=`, the value's own tokens -/
theorem kw_tokens (ctx : Ctx) (k : Str) (v : PyVal) (r : List (Str × PyVal)) :
    canonKw ctx ((k, v) :: r) = (cd k ++ [EQ_T] ++ canonW ctx v none) :: canonKw ctx r := by
  simp [canonKw]

end C17
end PP
