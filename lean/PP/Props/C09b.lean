/-
C09 at the level of code tokens: `comment()` annotations change only comments and layout.
-/
import PP.Proofs.Comments
import PP.Props.C03
namespace PP.C09
open PP Doc Pr Tok

/-- **C09.comment_inert** — attaching `comment()` annotations, with any text, to any nodes of a value (elements, dict keys
and values, call arguments, at every depth) does not change a single code token of the output: for every width, ribbon,
indent and max_seq_len, the text printed for `v` and the text printed for `v` with every `comment()` wrapper removed carry
the same tokens up to `TEq` (literal splitting).  Hypotheses, each matching a listed finding: no depth limit (a commented
str key takes the depth test that a bare str key skips — K5), and under `sort_dict_keys` no comment strictly inside a dict
key (such keys are ordered by identity — K8).  Trailing comments are kept on both sides: they are not token-inert (a
trailing comment adds a comma before the closing bracket; on an empty dict subclass an argument — K7). -/
theorem comment_inert (s : Settings) (v : PyVal) (hw : wfVal v) (hd : s.depth = none)
    (hk : s.sortKeys = false ∨ keysPlain v = true) :
    TEq (ctoks (sdocsM s v)) (ctoks (sdocsM s (dropComments v))) := by
  have h1 := C03.output_tokens s v hw
  have h2 := C03.output_tokens s (dropComments v) (wf_drop v hw)
  have e := Tok.comment_inert v s.ctx.norm none hd hk
  rw [e] at h1
  exact .trans h1 (.symm h2)

/-- the effect of a trailing comment on a non-empty list / tuple / set, exactly: the element tokens followed by a comma
each — which for a one-element tuple is what is printed anyway -/
theorem trailing_adds_comma (els : List (List CT)) (hne : els ≠ []) :
    seqToks (els ++ [[]]) false = seqToks els false ++ [COMMA_T] ∧ seqToks els true = seqToks els false ++ [COMMA_T] := by
  refine ⟨?_, seqToks_dangle els⟩
  induction els with
  | nil => exact absurd rfl hne
  | cons t r ih =>
    cases r with
    | nil => simp [seqToks]
    | cons t2 r2 =>
      have := ih (by simp)
      simp only [List.cons_append, seqToks] at this ⊢
      rw [this]; simp

end PP.C09
