/-
C10 / C11, last clauses: a limit that does not bite changes nothing.
-/
import PP.Proofs.NoBite
import PP.Props.Limits
namespace PP.Limits
open PP Doc Pr Tok

/-- the same settings without depth limit and without max_seq_len (sorting kept) -/
def unlimited (s : Settings) : Settings := { s with depth := none, maxSeqLen := none }

/-- **C10 / C11: limit_that_does_not_bite** — if `depth` exceeds the number of levels the printers descend into `v`
(`Tok.levels`) and `max_seq_len ≥ 1` is at least the length of every container in `v` (`Tok.lenOk`), then the output has
the same code tokens as with `depth = None` and `max_seq_len = None`, at any width / ribbon / indent and either sort
flag: no truncation comment's comma, no placeholder, nothing dropped. -/
theorem limit_that_does_not_bite (s : Settings) (v : PyVal) (hw : wfVal v)
    (hd : s.depth = none ∨ ∃ d, s.depth = some d ∧ levels v < d ∧ noTd v = true)
    (hl : s.maxSeqLen = none ∨ ∃ m, s.maxSeqLen = some m ∧ m ≠ 0 ∧ lenOk m v = true) :
    TEq (ctoks (sdocsM s v)) (ctoks (sdocsM (unlimited s) v)) := by
  have h1 := C03.output_tokens s v hw
  have h2 := C03.output_tokens (unlimited s) v hw
  have hD : DepthOk s.ctx.norm (levels v) := by
    rcases hd with h | ⟨d, h, hlt, _⟩
    · exact Or.inl h
    · exact Or.inr ⟨d, h, hlt⟩
  have hL : LenOk s.ctx.norm (fun m => lenOk m v) := by
    rcases hl with h | ⟨m, h, _, hm⟩
    · exact Or.inl h
    · exact Or.inr ⟨m, h, hm⟩
  have h0 : s.ctx.norm.maxSeqLen ≠ some 0 := by
    rcases hl with h | ⟨m, h, hm0, _⟩
    · intro e; rw [show s.ctx.norm.maxSeqLen = s.maxSeqLen from rfl, h] at e; cases e
    · intro e; rw [show s.ctx.norm.maxSeqLen = s.maxSeqLen from rfl, h] at e; cases e; exact hm0 rfl
  have htd : s.ctx.norm.depthLeft = none ∨ noTd v = true := by
    rcases hd with h | ⟨d, _, _, hn⟩
    · exact Or.inl h
    · exact Or.inr hn
  have e1 := shown_ok v s.ctx.norm none h0 htd
  have e2 := shown_ok v (unlimited s).ctx.norm none (by intro e; cases e) (Or.inl rfl)
  have e3 := shown_unlim v s.ctx.norm hD hL
  have e4 : (unlimited s).ctx.norm = s.ctx.norm.unlim := rfl
  rw [e1, e3] at h1
  rw [e2, e4] at h2
  exact .trans h1 (.symm h2)

end PP.Limits
