/-
C17, second sentence: the dataclasses and attrs extras print exactly the fields that have repr enabled and whose value
differs from the declared default (or that have no default), in declaration order, so that evaluation reconstructs an
equal instance.  `ne` is the user's `!=`: every statement holds for any such function.
-/
import PP.Model.Fields
import PP.Props.TokensMore
namespace PP.C17
open PP Pr Fields Tok

/-- **C17.fields_shown_iff** — a keyword argument is printed exactly for the fields with repr enabled that have no
default or whose default `!=` the current value; it carries the field's name and current value. -/
theorem fields_shown_iff (ne : PyVal → PyVal → Bool) (fs : List Field) (n : Str) (v : PyVal) :
    (n, v) ∈ fieldKwargs ne fs ↔
      ∃ f ∈ fs, f.name = n ∧ f.val = v ∧ f.repr = true ∧ (f.dflt.get? = none ∨ ∃ d, f.dflt.get? = some d ∧ ne d f.val = true) := by
  simp only [fieldKwargs, List.mem_map, List.mem_filter, shows, Bool.and_eq_true, Prod.mk.injEq]
  constructor
  · rintro ⟨f, ⟨hf, hr, hs⟩, hn, hv⟩
    refine ⟨f, hf, hn, hv, hr, ?_⟩
    cases hd : f.dflt.get? with
    | none => exact Or.inl rfl
    | some d => rw [hd] at hs; exact Or.inr ⟨d, rfl, hs⟩
  · rintro ⟨f, hf, hn, hv, hr, hs⟩
    refine ⟨f, ⟨hf, hr, ?_⟩, hn, hv⟩
    rcases hs with h | ⟨d, h, hne⟩
    · rw [h]
    · rw [h]; exact hne

/-- **C17.fields_in_declaration_order** — the printed keyword arguments are a subsequence of the declared fields. -/
theorem fields_in_declaration_order (ne : PyVal → PyVal → Bool) (fs : List Field) :
    List.Sublist (fieldKwargs ne fs) (fs.map fun f => (f.name, f.val)) := by
  unfold fieldKwargs
  exact (List.filter_sublist).map _

theorem lookup_fieldKwargs (ne : PyVal → PyVal → Bool) : ∀ (fs : List Field) (f : Field),
    (fs.map (·.name)).Nodup → f ∈ fs →
      (fieldKwargs ne fs).lookup f.name = if shows ne f then some f.val else none := by
  intro fs
  induction fs with
  | nil => intro f _ hf; cases hf
  | cons g r ih =>
    intro f hnd hf
    simp only [List.map_cons, List.nodup_cons] at hnd
    have hstep : fieldKwargs ne (g :: r) = if shows ne g then (g.name, g.val) :: fieldKwargs ne r else fieldKwargs ne r := by
      unfold fieldKwargs
      by_cases hg : shows ne g = true
      · simp [hg]
      · simp [hg]
    rcases List.mem_cons.mp hf with rfl | hfr
    · rw [hstep]
      by_cases hg : shows ne f = true
      · simp [hg]
      · simp only [hg, Bool.false_eq_true, if_false]
        -- f.name does not occur among the names of r
        have : ∀ (kw : List Field), (∀ x ∈ kw, x.name ≠ f.name) → (fieldKwargs ne kw).lookup f.name = none := by
          intro kw
          induction kw with
          | nil => intro _; rfl
          | cons x xs ihx =>
            intro h
            have hx : x.name ≠ f.name := h x (List.mem_cons_self)
            have hxs := ihx (fun y hy => h y (List.mem_cons_of_mem _ hy))
            unfold fieldKwargs at hxs ⊢
            by_cases hsx : shows ne x = true
            · simp only [List.filter_cons, hsx, if_true, List.map_cons, List.lookup_cons]
              have : (f.name == x.name) = false := by
                apply beq_false_of_ne; exact fun e => hx e.symm
              rw [this]; exact hxs
            · simp only [List.filter_cons, hsx, Bool.false_eq_true, if_false]; exact hxs
        apply this
        intro x hx e
        exact hnd.1 (List.mem_map.mpr ⟨x, hx, e⟩)
    · have hne : g.name ≠ f.name := fun e => hnd.1 (List.mem_map.mpr ⟨f, hfr, e.symm⟩)
      rw [hstep]
      have ih' := ih f hnd.2 hfr
      by_cases hg : shows ne g = true
      · simp only [hg, if_true, List.lookup_cons]
        have : (f.name == g.name) = false := by apply beq_false_of_ne; exact fun e => hne e.symm
        rw [this]; exact ih'
      · simp only [hg, Bool.false_eq_true, if_false]; exact ih'

/-- **C17.fields_rebuild** — calling the class with exactly the printed keyword arguments stores, in every field with repr
enabled, either the very value the instance holds or a declared default that `!=` does not tell apart from it (field names
are distinct, as dataclasses / attrs guarantee). -/
theorem fields_rebuild (ne : PyVal → PyVal → Bool) (fs : List Field) (hnd : (fs.map (·.name)).Nodup)
    (f : Field) (hf : f ∈ fs) (hr : f.repr = true) :
    built (fieldKwargs ne fs) f = some f.val ∨
      ∃ d, built (fieldKwargs ne fs) f = some d ∧ f.dflt.get? = some d ∧ ne d f.val = false := by
  unfold built
  rw [lookup_fieldKwargs ne fs f hnd hf]
  by_cases hs : shows ne f = true
  · left; simp [hs]
  · right
    simp only [hs, Bool.false_eq_true, if_false]
    simp only [shows, hr, Bool.true_and] at hs
    cases hd : f.dflt.get? with
    | none => rw [hd] at hs; exact absurd rfl hs
    | some d => rw [hd] at hs; exact ⟨d, rfl, rfl, by simpa using hs⟩

/-- a field hidden from the repr is rebuilt from its default -/
theorem hidden_field_rebuilt_from_default (ne : PyVal → PyVal → Bool) (fs : List Field) (hnd : (fs.map (·.name)).Nodup)
    (f : Field) (hf : f ∈ fs) (hr : f.repr = false) : built (fieldKwargs ne fs) f = f.dflt.get? := by
  unfold built
  rw [lookup_fieldKwargs ne fs f hnd hf]
  simp [shows, hr]

/-- **C17.instance_tokens** — on the page (every layout, via `C03.output_tokens`): the class name and, between one pair of
parentheses, `name = value` for exactly the selected fields in declaration order. -/
theorem instance_tokens (ne : PyVal → PyVal → Bool) (ctx : Ctx) (cls : QualName) (fs : List Field) (tr : Option PyStr.PS)
    (hz : ctx.depthLeft.any (· == 0) = false) :
    canonW ctx (instanceVal ne cls fs) tr =
      if hugCall [] (fieldKwargs ne fs) then callToks cls (canonL ctx [])
      else callToks cls (canonL ctx.nested [] ++ canonKw ctx.nested (fieldKwargs ne fs)) := by
  unfold instanceVal
  exact call_tokens ctx cls [] (fieldKwargs ne fs) tr hz

end PP.C17
