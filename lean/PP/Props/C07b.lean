/-
C07, the evaluation clause on tokens: what the stdlib printers of `Model/Std.lean` produce lies in the readable fragment, so at
every width / ribbon / indent the printed text reads back (reader of `Spec/Reader.lean`) as the constructor call the printer
built — callee, positional arguments in order, keyword arguments in order — or, for `timezone.utc` and Enum members, as the
name itself.  (timedelta prints arithmetic and is covered by `C07.timedelta`.)  Pure paths read back as their class applied to one string.
-/
import PP.Props.C08b
import PP.Model.Std
namespace PP.C07
open PP Doc Pr Tok Std

/-- the decimal text of an integer is a numeric literal token -/
theorem isNumTok_intLit (n : Int) : isNumTok (intLit n) = true := by
  unfold intLit
  cases n with
  | ofNat m =>
    have h1 : (toString (Int.ofNat m)).toList = Nat.toDigits 10 m := by
      show (Nat.repr m).toList = _
      exact Nat.toList_repr
    rw [h1]
    have hne := @Nat.toDigits_ne_nil m 10
    cases hd : Nat.toDigits 10 m with
    | nil => exact absurd hd hne
    | cons c l =>
      have hc : c.isDigit := Nat.isDigit_of_mem_toDigits (by decide) (by decide) (by rw [hd]; simp : c ∈ Nat.toDigits 10 m)
      simp only [List.map_cons, isNumTok]
      simp [Char.isDigit] at hc
      have h48 : 48 ≤ c.toNat := UInt32.le_iff_toNat_le.mp hc.1
      have h57 : c.toNat ≤ 57 := UInt32.le_iff_toNat_le.mp hc.2
      simp [h48, h57]
  | negSucc m =>
    have h1 : (toString (Int.negSucc m)).toList = '-' :: (Nat.repr (m+1)).toList := by
      show (Int.repr (Int.negSucc m)).toList = _
      simp [Int.repr]
    rw [h1]
    simp [isNumTok]

theorem intV_inRd (n : Int) : inRd (intV n) = true := by simp [intV, inRd, clsOk, isNumTok_intLit]
theorem intV_denotes (n : Int) : erase (intV n) = .num (intLit n) := by simp [intV, erase, wrapR]
theorem strV_inRd (s : PyStr.PS) : inRd (strV s) = true := by simp [strV, inRd, clsOk]

/-- `datetime.timezone.utc` is printed as that name -/
theorem utc_denotes : inRd utcIdent = true ∧ erase utcIdent = .name (str_ "datetime.timezone.utc") := by
  refine ⟨by decide, ?_⟩
  have h : identPh [(tFn, str_ "datetime.timezone.utc")] = some (.name (str_ "datetime.timezone.utc")) := by
    have : (codeTok tFn && okName (str_ "datetime.timezone.utc")) = true := by decide
    simp [identPh, this]
  simp [utcIdent, erase, h]

/-- an Enum member is printed as `Class` `.MEMBER`, which reads as the dotted name -/
theorem enum_denotes (cls : QualName) (name : Str) (hc : okName cls.2 = true) (hn : isAttrTok (46 :: name) = true) :
    inRd (showEnum cls name) = true ∧ erase (showEnum cls name) = .name (cls.2 ++ 46 :: name) := by
  have hct : codeTok (if cls.1 then tBuiltin else tFn) = true := by cases cls.1 <;> decide
  have hcf : codeTok tFn = true := by decide
  simp [showEnum, inRd, erase, identPh, hct, hcf, hc, hn]

theorem inRdK_ints (l : List (Str × Nat)) (h : ∀ p ∈ l, kwName p.1 = true) :
    inRdK (l.map fun (k, v) => (k, intV (v : Int))) = true := by
  induction l with
  | nil => rfl
  | cons p r ih =>
    obtain ⟨k, v⟩ := p
    simp only [List.map_cons, inRdK, Bool.and_eq_true]
    exact ⟨⟨h (k, v) (by simp), intV_inRd _⟩, ih (fun q hq => h q (by simp [hq]))⟩

theorem inRdK_append (a b : List (Str × PyVal)) : inRdK (a ++ b) = (inRdK a && inRdK b) := by
  induction a with
  | nil => simp [inRdK]
  | cons p r ih => obtain ⟨k, v⟩ := p; simp [inRdK, ih, Bool.and_assoc]

theorem date_denotes (y mo d : Nat) :
    inRd (showDate y mo d) = true ∧
    erase (showDate y mo d) = .call (str_ "datetime.date") [.num (intLit y), .num (intLit mo), .num (intLit d)] := by
  have hn : okName (q "datetime.date").2 = true := by decide
  refine ⟨?_, ?_⟩
  · simp [showDate, inRd, inRdL, inRdK, hn, intV_inRd]
  · rw [showDate, C17.call_denotes _ _ _ hn]; simp [eraseL, eraseK, intV_denotes, q]

theorem timeFields_kw : ∀ p ∈ [(k_microsecond, us), (k_second, s), (k_minute, mi), (k_hour, h)], kwName p.1 = true := by
  intro p hp
  simp at hp
  have h1 : kwName k_microsecond = true := by decide
  have h2 : kwName k_second = true := by decide
  have h3 : kwName k_minute = true := by decide
  have h4 : kwName k_hour = true := by decide
  rcases hp with rfl | rfl | rfl | rfl <;> assumption

theorem dropWhile_sub {α} (p : α → Bool) (l : List α) : ∀ x ∈ l.dropWhile p, x ∈ l := by
  intro x hx
  exact (List.dropWhile_suffix p).subset hx

/-- **C07.time_inRd** — `datetime.time(...)` with any fields, any readable tzinfo, any fold -/
theorem time_inRd (h mi s us : Nat) (tz : Option PyVal) (fold : Nat) (htz : ∀ t, tz = some t → inRd t = true) :
    inRd (showTime h mi s us tz fold) = true := by
  have hn : okName (q "datetime.time").2 = true := by decide
  have hk1 : kwName k_tzinfo = true := by decide
  have hk2 : kwName k_fold = true := by decide
  simp only [showTime, inRd, hn, Bool.true_or, inRdL, Bool.true_and]
  have hbase := inRdK_ints (([(k_microsecond, us), (k_second, s), (k_minute, mi), (k_hour, h)].dropWhile (fun (_, v) => v == 0)).reverse)
    (by intro p hp; exact timeFields_kw p (dropWhile_sub _ _ p (by simpa using hp)))
  cases tz with
  | none =>
    by_cases hf : fold = 0
    · simpa [hf] using hbase
    · simp [hf, inRdK_append, inRdK, hk2, intV_inRd]; simpa using hbase
  | some t =>
    have ht := htz t rfl
    by_cases hf : fold = 0
    · simp [hf, inRdK_append, inRdK, hk1, ht]; simpa using hbase
    · simp [hf, inRdK_append, inRdK, hk1, hk2, ht, intV_inRd]; simpa using hbase

theorem datetime_shape (y mo d : Nat) (kw : List (Str × PyVal)) (hk : inRdK kw = true) :
    inRd (if kw.length == 3 then .call (q "datetime.datetime") [intV y, intV mo, intV d] []
          else .call (q "datetime.datetime") [] kw) = true := by
  have hn : okName (q "datetime.datetime").2 = true := by decide
  split <;> simp [inRd, inRdL, inRdK, hn, intV_inRd, hk]

/-- **C07.datetime_inRd** — `datetime.datetime(...)`: the positional form and the keyword form, any readable tzinfo, any fold -/
theorem datetime_inRd (y mo d h mi s us : Nat) (tz : Option PyVal) (fold : Nat) (htz : ∀ t, tz = some t → inRd t = true) :
    inRd (showDatetime y mo d h mi s us tz fold) = true := by
  have hn : okName (q "datetime.datetime").2 = true := by decide
  have hk1 : kwName k_tzinfo = true := by decide
  have hk2 : kwName k_fold = true := by decide
  have hd1 : kwName k_day = true := by decide
  have hd2 : kwName k_month = true := by decide
  have hd3 : kwName k_year = true := by decide
  have hbase := inRdK_ints ((([(k_microsecond, us), (k_second, s), (k_minute, mi), (k_hour, h)].dropWhile (fun (_, v) => v == 0)) ++
      [(k_day, d), (k_month, mo), (k_year, y)]).reverse)
    (by
      intro p hp
      simp only [List.mem_reverse, List.mem_append] at hp
      rcases hp with hp | hp
      · exact timeFields_kw p (dropWhile_sub _ _ p hp)
      · simp at hp; rcases hp with rfl | rfl | rfl <;> assumption)
  unfold showDatetime
  refine datetime_shape y mo d _ ?_
  cases tz with
  | none =>
    by_cases hf : fold = 0
    · simpa [hf, inRdK, hd1, hd2, hd3, intV_inRd] using hbase
    · simpa [hf, inRdK_append, inRdK, hk2, hd1, hd2, hd3, intV_inRd] using hbase
  | some t =>
    have ht := htz t rfl
    by_cases hf : fold = 0
    · simpa [hf, inRdK_append, inRdK, hk1, hd1, hd2, hd3, ht, intV_inRd] using hbase
    · simpa [hf, inRdK_append, inRdK, hk1, hk2, hd1, hd2, hd3, ht, intV_inRd] using hbase

/-- non-UTC timezones are printed as `datetime.timezone(offset[, name])` -/
theorem timezone_inRd (isUtc : Bool) (offset : PyVal) (name : Option PyStr.PS) (ho : inRd offset = true) :
    inRd (showTimezone isUtc offset name) = true := by
  have hn : okName (q "datetime.timezone").2 = true := by decide
  unfold showTimezone
  split
  · exact utc_denotes.1
  · cases name <;> simp [inRd, inRdL, inRdK, hn, ho, strV_inRd]

theorem deque_inRd (cls : QualName) (xs : List PyVal) (maxlen : Option Nat) (hc : okName cls.2 = true) (hx : inRdL xs = true) :
    inRd (showDeque cls xs maxlen) = true := by
  have hk : kwName k_maxlen = true := by decide
  cases maxlen <;> simp [showDeque, inRd, inRdL, inRdK, hc, hx, clsOk, hk, intV_inRd]

theorem deque_denotes (cls : QualName) (xs : List PyVal) (n : Nat) (hc : okName cls.2 = true) :
    erase (showDeque cls xs (some n)) = .call cls.2 [.list (eraseL xs), .kwarg k_maxlen (.num (intLit n))] := by
  rw [showDeque, C17.call_denotes _ _ _ hc]; simp [eraseL, eraseK, erase, wrapNE, mkSeq, intV_denotes]

theorem chainmap_inRd (cls : QualName) (maps : List PyVal) (firstEmpty : Bool) (hc : okName cls.2 = true) (hm : inRdL maps = true) :
    inRd (showChainMap cls maps firstEmpty) = true := by
  unfold showChainMap; split <;> simp [inRd, inRdL, inRdK, hc, hm]

theorem oneArg_inRd (cls : QualName) (arg : PyVal) (hc : okName cls.2 = true) (ha : inRd arg = true) :
    inRd (showOneArg cls arg) = true := by
  simp [showOneArg, inRd, inRdL, inRdK, hc, ha]

theorem defaultdict_inRd (cls : QualName) (factory d : PyVal) (hc : okName cls.2 = true) (hf : inRd factory = true) (hd : inRd d = true) :
    inRd (showDefaultdict cls factory d) = true := by
  simp [showDefaultdict, inRd, inRdL, inRdK, hc, hf, hd]

/-- a pure path is printed as its class applied to the string `as_posix()` gives (one literal, however it is split over lines) -/
theorem path_denotes (cls : QualName) (posix : PyStr.PS) (hc : okName cls.2 = true) :
    inRd (.path cls posix) = true ∧ erase (.path cls posix) = .call cls.2 [.str false (PyStr.cps posix)] := by
  simp [inRd, erase, hc]

/-- **C07.output_reads_back** — for every value of the readable fragment (which, by the lemmas above, holds what the printers for
date, time, timezone, deque, ChainMap, Counter / OrderedDict / mappingproxy / UUID / exceptions (one-argument calls), defaultdict
and Enum members produce, nested in any way and with readable arguments): at every width / ribbon / indent the tokens of the
printed text read back, up to literal splitting, as `erase v` — the call the printer built. -/
theorem output_reads_back (s : Settings) (v : PyVal) (hw : wfVal v) (hin : inRd v = true)
    (hd : s.depth = none) (hm : s.maxSeqLen = none) (hs : s.sortKeys = false) :
    ∃ ts, TEq (ctoks (sdocsM s v)) ts ∧ parseV (need v) ts = some (erase v, []) :=
  C01.output_reads_back' s v hw hin hd hm hs

/-- instance: an aware time inside a list, at any settings with the limits off -/
example (s : Settings) (hd : s.depth = none) (hm : s.maxSeqLen = none) (hs : s.sortKeys = false) :
    ∃ ts, TEq (ctoks (sdocsM s (.seq 0 none [showTime 1 2 0 0 (some utcIdent) 1]))) ts ∧
      parseV (need (.seq 0 none [showTime 1 2 0 0 (some utcIdent) 1])) ts = some (erase (.seq 0 none [showTime 1 2 0 0 (some utcIdent) 1]), []) :=
  output_reads_back s _ (by simp [wfVal, wfVals, showTime, wfKws, intV, utcIdent]) (by
    have := time_inRd 1 2 0 0 (some utcIdent) 1 (by intro t ht; cases ht; exact utc_denotes.1)
    simp [inRd, inRdL, clsOk, this]) hd hm hs

end PP.C07
