/-
C05 — a group laid out on one line never overflows the page or the ribbon.
-/
import PP.Proofs.Sim
namespace PP.C05
open PP Doc

/-- **C05.rest_of_line** — in *every* machine state `(stk, col)` over classic documents (text, concat, nest,
group, line, softline, hardline, always_break, annotate, align) whose top item is a group at indentation `i`, for every
page width and ribbon width and both strategies (`align`, hence `hang`, is in the algebra: what it evaluates to at the
current column is normalised and classic again, and the predicate reads it the same at every column): if the machine lays the group out flat (the fitting predicate
holds), then everything it emits up to its next line break — the group *and* whatever follows it on that
line — ends within the page width and within the ribbon measured from the group's indentation.
(Reachable states of `layout` are such states; the statement needs no reachability hypothesis.) -/
theorem rest_of_line (cfg : Cfg) (col i : Int) (m : Mode) (d : Doc) (r : List Triple)
    (hc : AllClassic ((i, m, .doc (.group d)) :: r))
    (hfit : fits cfg (min col i) (avail cfg.w cfg.rw col i) ((i, .flat, .doc d) :: r) = true) :
    col + firstLine (run cfg ((i, m, .doc (.group d)) :: r) col) ≤ cfg.w ∧
    col + firstLine (run cfg ((i, m, .doc (.group d)) :: r) col) ≤ i + cfg.rw := by
  have hg : Classic (.group d) := hc.head
  have hd : Classic d := by cases hg; assumption
  have hc' : AllClassic ((i, .flat, .doc d) :: r) := AllClassic.cons (it := .doc d) hd hc.tail
  have hE := fits_imp_fitsE cfg _ _ _ hc' hfit
  have h0 := fitsE_nonneg hE
  have key := sim cfg ((i, m, .doc (.group d)) :: r) col (avail cfg.w cfg.rw col i) hc
    (by simpa [fitsE_group h0] using hE)
  unfold avail at key
  omega

/-- the machine really does lay the group out flat exactly when the predicate holds (definition of `run`) -/
theorem flat_iff_fits (cfg : Cfg) (col i : Int) (m : Mode) (d : Doc) (r : List Triple) :
    run cfg ((i, m, .doc (.group d)) :: r) col =
      run cfg ((i, modeOf (fits cfg (min col i) (avail cfg.w cfg.rw col i) ((i, .flat, .doc d) :: r)), .doc d) :: r) col := by
  rw [run]

/-- non-vacuity: a concrete classic state in which the group is laid out flat -/
example : AllClassic [((0 : Int), Mode.brk, Item.doc (.group (.cat [.text [97], .choice false .hardline (.text [32]), .text [98]])))] := by
  intro t ht
  simp at ht; subst ht
  exact Classic.group (Classic.cat (by
    intro d hd
    simp at hd
    rcases hd with rfl | rfl | rfl
    · exact .text
    · exact .line
    · exact .text))

/-- non-vacuity with `align`: a group holding a hanging block, laid out flat at width 20 (and the conclusion computed) -/
example : AllClassic [((0 : Int), Mode.brk, Item.doc (.group (.cat [.text [97], .align (.nest 2 (.cat [.choice false .hardline (.text [32]), .text [98]]))])))] := by
  intro t ht
  simp at ht; subst ht
  refine Classic.group (Classic.cat ?_)
  intro d hd
  simp at hd
  rcases hd with rfl | rfl
  · exact .text
  · refine .align (.nest (.cat ?_))
    intro e he
    simp at he
    rcases he with rfl | rfl
    · exact .line
    · exact .text

example : fits { w := 20, rw := 20 } 0 20 [((0 : Int), Mode.flat, Item.doc (.cat [.text [97], .align (.nest 2 (.cat [.choice false .hardline (.text [32]), .text [98]]))]))] = true := by
  decide +kernel

end PP.C05
