/-
C19 — output depends only on the value and the settings.
In the model `pformatM` is a function of (settings, value) by construction; what carries content is that the one
piece of state a print *does* touch — the registry, by promoting deferred printers — never changes a later result
(`C15.history_independent`).
-/
import PP.Model.Values
import PP.Props.C15
namespace PP.C19
open PP Pr

/-- equal settings and equal values give equal text, whatever was printed before: no hidden state reaches the model -/
theorem pure_function (s₁ s₂ : Settings) (v₁ v₂ : PyVal) (hs : s₁ = s₂) (hv : v₁ = v₂) :
    pformatM s₁ v₁ = pformatM s₂ v₂ := by subst hs; subst hv; rfl

end PP.C19
