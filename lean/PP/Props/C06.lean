/-
C06 — whatever fits on one line is put on one line.
-/
import PP.Proofs.Scan
import PP.Proofs.Sim
namespace PP.C06
open PP Doc

/-- **C06.fits_iff_spec** (fast predicate) — on classic stacks the predicate holds exactly when the budget is
non-negative, no forced-break document starts on the current line, and the flat text of the group on top of the
stack plus everything that follows it up to the first line break is at most the available width. -/
theorem fits_iff_spec (cfg : Cfg) (mw left : Int) (stk : List Triple) (hc : AllClassic stk) :
    fitsFast cfg mw left stk = true ↔ 0 ≤ left ∧ ∃ n, scanE (strip stk) = some n ∧ (n : Int) ≤ left := by
  rw [fitsFast_eq_fitsE cfg mw left stk hc]; exact fitsE_iff_scan left (strip stk)

/-- **C06.broken_only_if** — in every machine state over classic documents with a group on top: if the machine
lays the group out broken, then one of the reasons the property allows holds — (a) a forced-break document
starts later on the same line (`scanE = none`), or (b) the flat text of the group and what follows it on the
line exceeds the available page/ribbon width (incl. no width being left at all), or (c) only under the smart
strategy: the one-line lookahead would have accepted, and the smart lookahead rejected a *following* line. -/
theorem broken_only_if (cfg : Cfg) (col i : Int) (d : Doc) (r : List Triple)
    (hc : AllClassic ((i, .flat, .doc d) :: r))
    (hbrk : fits cfg (min col i) (avail cfg.w cfg.rw col i) ((i, .flat, .doc d) :: r) = false) :
    scanE (strip ((i, .flat, .doc d) :: r)) = none
    ∨ (∃ n, scanE (strip ((i, .flat, .doc d) :: r)) = some n ∧ avail cfg.w cfg.rw col i < (n : Int))
    ∨ (cfg.smart = true ∧ fitsFast cfg (avail cfg.w cfg.rw col i) (avail cfg.w cfg.rw col i) ((i, .flat, .doc d) :: r) = true) := by
  cases hs : scanE (strip ((i, .flat, .doc d) :: r)) with
  | none => exact Or.inl rfl
  | some n =>
    right
    by_cases hle : (n : Int) ≤ avail cfg.w cfg.rw col i
    · right
      have hfast : fitsFast cfg (avail cfg.w cfg.rw col i) (avail cfg.w cfg.rw col i) ((i, .flat, .doc d) :: r) = true := by
        rw [fits_iff_spec cfg _ _ _ hc]
        exact ⟨by omega, n, hs, hle⟩
      unfold fits at hbrk
      split at hbrk
      · exact ⟨‹_›, hfast⟩
      · rw [hfast] at hbrk; cases hbrk
    · left; exact ⟨n, rfl, by omega⟩

/-- conversely a group is laid out flat only if it fits (both strategies): C05's premise is C06's converse -/
theorem flat_only_if (cfg : Cfg) (col i : Int) (d : Doc) (r : List Triple)
    (hc : AllClassic ((i, .flat, .doc d) :: r))
    (hflat : fits cfg (min col i) (avail cfg.w cfg.rw col i) ((i, .flat, .doc d) :: r) = true) :
    ∃ n, scanE (strip ((i, .flat, .doc d) :: r)) = some n ∧ (n : Int) ≤ avail cfg.w cfg.rw col i := by
  have hE := fits_imp_fitsE cfg _ _ _ hc hflat
  exact ((fitsE_iff_scan _ _).mp hE).2

end PP.C06
