/-
C19 / C20 (and the state machines of C15, C18): the hand-written models are *stateless apart from* the registry (C15:
`Registry.State`), the default configuration (C18: `Config.Defaults`) and cpprint's default style (C16, not on the
pformat path).  That the code has no other state that outlives a call is not something a model can prove about itself; it
is tied to the source instead: `Generated.sharedState` is recomputed from /repo's syntax on every run (module-level names
rebound through `global`, module-level objects mutated in place from inside a function, functions wrapped by a caching /
dispatching decorator, mutable default arguments, mutable displays in class bodies) and must be exactly the list below.
A new memo table, cache or "last value" global makes this theorem fail to check; the checks of C19 / C20 / C15 then search
for a print whose result depends on history or schedule.
-/
import PP.Generated
namespace PP.C19

/-- every piece of call-outliving state visible in the package's syntax, and where the models account for it -/
def modelledState : List String := [
  "__init__.py:global:_default_config",            -- Config.Defaults (C18): read by every entry point, written by set_default_config only
  "color.py:classattr:GitHubLightStyle.styles",    -- a pygments style table, never written
  "color.py:global:default_style",                 -- cpprint's palette (set_default_style); pformat does not read it
  "prettyprinter.py:decorator:pretty_dispatch",    -- Registry.State.direct (C15)
  "prettyprinter.py:mutated:_DEFERRED_DISPATCH_BY_NAME",   -- Registry.State.deferred (C15); the one piece of state a print writes (promotion), C15.history_independent
  "prettyprinter.py:mutated:_PREDICATE_REGISTRY",  -- Registry.State.preds (C15)
  "prettyprinter.py:mutated:pretty_dispatch",      -- Registry.State.direct (C15): register() at registration and at promotion
  "extras/ipython.py:mutated:IPython",             -- install(): replaces IPython's display formatter; not on the pformat path
  "extras/python.py:mutated:builtins",             -- install(): sys.displayhook / builtins._ ; not on the pformat path
  "extras/python.py:mutated:sys"]

/-- the package has exactly the call-outliving state the models account for -/
theorem state_inventory : Generated.sharedState = modelledState := by decide

end PP.C19
