/-
C13 — cycles are cut exactly at back-references; shared substructure prints in full; no residue.
-/
import PP.Model.Graph
namespace PP.C13
open PP Pr Graph

/-- **C13.marker_iff_on_path** — a container is replaced by a recursion marker exactly when it is reached again while
it is still being printed (it is on the current path), and nowhere else -/
theorem marker_iff_on_path (g : G) (path : List Nat) (i : Nat) (h : i < g.size) :
    (unfold g path i = .opaque (markerText g[i].kind g[i].idText) ∧ path.contains i = true) ∨
    (unfold g path i = mkNode g[i].kind (unfoldKids g (i :: path) g[i].kids) ∧ path.contains i = false) := by
  rw [unfold]
  by_cases hv : path.contains i
  · left
    have hm : i ∈ path := by simpa using hv
    simp [h, hm]
  · right
    have hm : i ∉ path := by simpa using hv
    simp [h, hm]

/-- **C13.shared_printed_in_full** — an object that is not being printed right now is printed in full, however often
it occurs (shared, acyclic substructure never yields a marker) -/
theorem shared_printed_in_full (g : G) (path : List Nat) (i : Nat) (h : i < g.size) (hv : path.contains i = false) :
    unfold g path i = mkNode g[i].kind (unfoldKids g (i :: path) g[i].kids) := by
  have hm : i ∉ path := by simpa using hv
  rw [unfold]; simp [h, hm]

/-- the marker names the type and the identity of the object -/
theorem marker_text (k : Nat) (idText : Str) :
    ∃ pre, markerText k idText = pre ++ kindName k ++ [32, 119, 105, 116, 104, 32, 105, 100, 61] ++ idText ++ [62] :=
  ⟨_, rfl⟩

/-- **C13.terminates / no_residue** — `unfold` is a total function of (graph, path, node) — its termination proof is
the well-founded recursion on the number of objects not yet on the path — and the text of a print is a function of
the graph alone: printing the same or another value afterwards gives what a first call gives -/
theorem no_residue (s : Settings) (g g' : G) (r r' : Nat) :
    (let _first := pformatG s g r; pformatG s g' r') = pformatG s g' r' := rfl

end PP.C13
