/-
C01 (and the evaluation clauses of C08 / C17) at the level of code tokens: the canonical tokens of a value read back to that value.
-/
import PP.Proofs.ReaderRT
import PP.Props.C03
namespace PP.C01
open PP Doc Pr Tok

/-- **Rd.canon_reads_back** — for every value of the readable fragment `inRd` — int, float (incl. inf / nan), bool, None,
Ellipsis, str, bytes, list, tuple, set, frozenset, dict, instances of subclasses of all of these, and objects printed through
`pretty_call` / `pretty_call_alt`, nested in any way, comments allowed anywhere — the canonical token sequence of its printed
form (no depth limit, no max_seq_len, insertion order) is read by the reader of `Spec/Reader.lean` (the fragment of Python's
expression grammar the printers use) as exactly `erase v`, and nothing is left over.  Any fuel ≥ `need v` works. -/
theorem canon_reads_back' (v : PyVal) (hin : inRd v = true) (ctx : Ctx) (hf : Free ctx) (f : Nat) (hfu : need v ≤ f) :
    parseV f (canonW ctx v none) = some (erase v, []) := by
  have := (canon_reads v hin ctx hf none (fun _ => rfl)).reads f hfu [] followOk_nil
  simpa using this

/-- **C01.canon_reads_back** — the built-in literal types: the same container type at every position (a one-element tuple
keeps its comma, an empty set is `set()`, a frozenset is `frozenset([...])`), the same elements in the same order, dict
entries in insertion order, strings with the same content and kind, numbers with the same literal text. -/
theorem canon_reads_back (v : PyVal) (hin : inC01 v = true) (ctx : Ctx) (hf : Free ctx) (f : Nat) (hfu : need v ≤ f) :
    parseV f (canonW ctx v none) = some (erase v, []) :=
  canon_reads_back' v (inC01_inRd v hin).1 ctx hf f hfu

/-- **C01.output_reads_back'** — what `pformat` prints for a value of the readable fragment with the limits off (depth =
None, max_seq_len = None, sort_dict_keys = False), at any width / ribbon / indent, has — up to the splitting of string
literals (`TEq`) — a token sequence that reads back to `erase v`.  The step from `TEq`-equal token sequences to equal parses
is Python's grammar (adjacent literals concatenate, a parenthesised literal run is that literal), not proved here. -/
theorem output_reads_back' (s : Settings) (v : PyVal) (hw : wfVal v) (hin : inRd v = true)
    (hd : s.depth = none) (hm : s.maxSeqLen = none) (hs : s.sortKeys = false) :
    ∃ ts, TEq (ctoks (sdocsM s v)) ts ∧ parseV (need v) ts = some (erase v, []) :=
  ⟨canonW s.ctx.norm v none, C03.output_tokens s v hw,
    canon_reads_back' v hin s.ctx.norm ⟨hd, hm, hs⟩ (need v) (Nat.le_refl _)⟩

theorem output_reads_back (s : Settings) (v : PyVal) (hw : wfVal v) (hin : inC01 v = true)
    (hd : s.depth = none) (hm : s.maxSeqLen = none) (hs : s.sortKeys = false) :
    ∃ ts, TEq (ctoks (sdocsM s v)) ts ∧ parseV (need v) ts = some (erase v, []) :=
  output_reads_back' s v hw (inC01_inRd v hin).1 hd hm hs

end PP.C01
