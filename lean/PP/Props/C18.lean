/-
C18 — all entry points and configuration layers agree.
-/
import PP.Model.Config
import PP.Generated
namespace PP.C18
open PP Pr Conf

/-- **C18.merge** — explicit arguments always override defaults; defaulted ones take the default (all six settings) -/
theorem merge_spec (d : Settings) (e : Explicit) :
    (merge d e).indent = e.indent.getD d.indent ∧ (merge d e).width = e.width.getD d.width ∧
    (merge d e).ribbonWidth = e.ribbonWidth.getD d.ribbonWidth ∧ (merge d e).depth = e.depth.getD d.depth ∧
    (merge d e).maxSeqLen = e.maxSeqLen.getD d.maxSeqLen ∧ (merge d e).sortKeys = e.sortKeys.getD d.sortKeys :=
  ⟨rfl, rfl, rfl, rfl, rfl, rfl⟩

/-- an explicit `None` for depth / max_seq_len is a value, not "unset" -/
theorem explicit_none_is_a_value (d : Settings) :
    (merge d { maxSeqLen := some none }).maxSeqLen = none ∧ (merge d { depth := some none }).depth = none := ⟨rfl, rfl⟩

/-- **C18.set** — set_default_config changes exactly the settings it is given … -/
theorem set_changes_given (d : Settings) (u : Explicit) :
    (setDefault d u).width = u.width.getD d.width ∧ (setDefault d u).ribbonWidth = u.ribbonWidth.getD d.ribbonWidth ∧
    (setDefault d u).depth = u.depth.getD d.depth ∧ (setDefault d u).maxSeqLen = u.maxSeqLen.getD d.maxSeqLen ∧
    (setDefault d u).sortKeys = u.sortKeys.getD d.sortKeys ∧ (setDefault d u).indent = d.indent :=
  ⟨rfl, rfl, rfl, rfl, rfl, rfl⟩

/-- … and nothing else: a call that gives nothing is the identity -/
theorem set_nothing (d : Settings) : setDefault d {} = d := rfl

/-- the last value given for a setting in a sequence of set_default_config calls -/
def lastGiven {α} (f : Explicit → Option α) : List Explicit → Option α
  | [] => none
  | u :: r => match lastGiven f r with
    | some x => some x
    | none => f u

/-- **C18.set (sequences)** — after ANY sequence of set_default_config calls each setting is the last value given
for it (else the value it had before), and `indent` is untouched -/
theorem after_sets (d : Settings) (us : List Explicit) :
    (setMany d us).width = (lastGiven (·.width) us).getD d.width ∧
    (setMany d us).ribbonWidth = (lastGiven (·.ribbonWidth) us).getD d.ribbonWidth ∧
    (setMany d us).depth = (lastGiven (·.depth) us).getD d.depth ∧
    (setMany d us).maxSeqLen = (lastGiven (·.maxSeqLen) us).getD d.maxSeqLen ∧
    (setMany d us).sortKeys = (lastGiven (·.sortKeys) us).getD d.sortKeys ∧
    (setMany d us).indent = d.indent := by
  induction us generalizing d with
  | nil => exact ⟨rfl, rfl, rfl, rfl, rfl, rfl⟩
  | cons u r ih =>
    obtain ⟨h1, h2, h3, h4, h5, h6⟩ := ih (setDefault d u)
    simp only [setMany, List.foldl_cons] at h1 h2 h3 h4 h5 h6 ⊢
    refine ⟨?_, ?_, ?_, ?_, ?_, ?_⟩
    · rw [h1]; simp only [lastGiven]; cases lastGiven (·.width) r <;> simp [setDefault, merge]
    · rw [h2]; simp only [lastGiven]; cases lastGiven (·.ribbonWidth) r <;> simp [setDefault, merge]
    · rw [h3]; simp only [lastGiven]; cases lastGiven (·.depth) r <;> simp [setDefault, merge]
    · rw [h4]; simp only [lastGiven]; cases lastGiven (·.maxSeqLen) r <;> simp [setDefault, merge]
    · rw [h5]; simp only [lastGiven]; cases lastGiven (·.sortKeys) r <;> simp [setDefault, merge]
    · rw [h6]; simp [setDefault, merge]

/-- **C18.entry_points** — pprint writes exactly the text pformat returns followed by `end`; a PrettyPrinter object
constructed with the settings and pretty_repr (registered types, all settings defaulted) produce the pformat text -/
theorem entry_points (us : List Explicit) (e : Explicit) (v : PyVal) (end_ : Str) :
    pprintE us e v end_ = pformatE us e v ++ end_ ∧ prettyPrinterE us e v = pformatE us e v ∧
    prettyReprE us v = pformatE us {} v := ⟨rfl, rfl, rfl⟩

/-- **C18.signatures_agree** — over the tables regenerated from `/repo` on every run: pformat, pprint and cpprint
take the same six settings, these are the keys of `_default_config`, and set_default_config takes all of them but
`indent`. A parameter dropped from one entry point breaks this obligation. -/
theorem signatures_agree :
    Generated.settingsOf_pformat = Generated.settingsOf_pprint ∧
    Generated.settingsOf_pprint = Generated.settingsOf_cpprint ∧
    (Generated.settingsOf_pformat.all fun k => Generated.defaultConfigKeys.contains k) = true ∧
    (Generated.defaultConfigKeys.all fun k => Generated.settingsOf_pformat.contains k) = true ∧
    (Generated.settingsOf_set_default_config.all fun k => Generated.defaultConfigKeys.contains k) = true ∧
    (Generated.defaultConfigKeys.all fun k => k == "indent" || Generated.settingsOf_set_default_config.contains k) = true := by
  decide

/-- the shipped defaults the model starts from are the ones in the source -/
theorem shipped_defaults : Generated.defaultMaxSeqLen = 1000 ∧ Generated.defaultIndent = 4 ∧
    shipped.maxSeqLen = some Generated.defaultMaxSeqLen ∧ shipped.indent = Generated.defaultIndent := by decide

end PP.C18
