/-
C07 ("no printer shipped with the package ...") quantifies over the printers the package ships.  Which ones those are is read
off the source on every run: `Generated.shippedPrinters` lists every `register_pretty` decorator / call of prettyprinter.py
and pretty_stdlib.py, and must equal the list below, which says where each one lives in the models.  A printer that is added,
removed or re-targeted makes this theorem fail to check; the C07 correspondence then has to be extended before the claim
"every shipped printer is covered" is made again.  (The run-time side: the evidence of C07 lists, per entry, whether the
corpus invoked it.)
-/
import PP.Generated
namespace PP.C07

def modelledPrinters : List String := [
  "prettyprinter.py:type:pretty_type",   -- Std: identifier of the class (C07 corpus: classes as values)
  "prettyprinter.py:FunctionType:pretty_function",   -- Std: identifier of the function (C07 corpus: functions inside partial)
  "prettyprinter.py:BuiltinFunctionType:pretty_builtin_function",   -- Std: identifier of the builtin (C07 corpus: int, sorted, len inside partial)
  "prettyprinter.py:SimpleNamespace:pretty_simplenamespace",   -- Std: call shape with keyword arguments
  "prettyprinter.py:tuple:pretty_bracketable_iterable",   -- Values.toDoc, .seq (C01 / C08 / C10 / C11)
  "prettyprinter.py:list:pretty_bracketable_iterable",   -- Values.toDoc, .seq (C01 / C08 / C10 / C11)
  "prettyprinter.py:set:pretty_bracketable_iterable",   -- Values.toDoc, .seq (C01 / C08 / C10 / C11)
  "prettyprinter.py:frozenset:pretty_frozenset",   -- Values.toDoc, .frozenset
  "prettyprinter.py:dict:pretty_dict",   -- Values.toDoc, .dict
  "prettyprinter.py:float:pretty_float",   -- Values.toDoc, .float
  "prettyprinter.py:int:pretty_int",   -- Values.toDoc, .int
  "prettyprinter.py:type(...):pretty_ellipsis",   -- Values.toDoc, .ellipsis
  "prettyprinter.py:bool:pretty_bool",   -- Values.toDoc, .bool
  "prettyprinter.py:type(None):pretty_none",   -- Values.toDoc, .none
  "prettyprinter.py:str:pretty_str",   -- Values.toDoc, .str with Model/StrDoc + PyStr (C02)
  "prettyprinter.py:bytes:pretty_str",   -- Values.toDoc, .str with Model/StrDoc + PyStr (C02)
  "pretty_stdlib.py:'uuid.UUID':pretty_uuid",   -- Std: call shape
  "pretty_stdlib.py:datetime:pretty_datetime",   -- Std.showDatetime (C07.time_fields, datetime_date_only)
  "pretty_stdlib.py:tzinfo:pretty_tzinfo",   -- Std: identifier for utc, else repr (.opaque)
  "pretty_stdlib.py:timezone:pretty_timezone",   -- Std.showTimezone
  "pretty_stdlib.py:time:pretty_time",   -- Std.showTime (C07.time_fields)
  "pretty_stdlib.py:date:pretty_date",   -- Std.showDate
  "pretty_stdlib.py:timedelta:pretty_timedelta",   -- Values.timedeltaDoc (C07.timedelta)
  "pretty_stdlib.py:ChainMap:pretty_chainmap",   -- Std.showChainMap (C07.chainmap_shortcut)
  "pretty_stdlib.py:defaultdict:pretty_defaultdict",   -- Std: call shape (factory, dict)
  "pretty_stdlib.py:deque:pretty_deque",   -- Std.showDeque (C07.deque_maxlen)
  "pretty_stdlib.py:OrderedDict:pretty_ordereddict",   -- Std: call shape around a list of pairs
  "pretty_stdlib.py:Counter:pretty_counter",   -- Std: call shape around a dict
  "pretty_stdlib.py:'enum.Enum':pretty_enum",   -- Std: .ident (class attribute)
  "pretty_stdlib.py:'builtins.mappingproxy':pretty_mappingproxy",   -- Std: call shape around a dict
  "pretty_stdlib.py:'functools.partial':pretty_partial",   -- Std: call shape (func, *args, **keywords)
  "pretty_stdlib.py:'functools.partialmethod':pretty_partial",   -- Std: call shape (func, *args, **keywords)
  "pretty_stdlib.py:BaseException:pretty_baseexception",   -- Std: call shape (args)
  "pretty_stdlib.py:'_ast.AST':pretty_nodes",   -- NOT modelled: registered for the name _ast.AST, which no class carries on CPython 3.12 (ast nodes live in module ast) - the printer is unreachable here; the pinned suite records this as its 3 failing tests/test_ast.py cases
  "pretty_stdlib.py:'pathlib.PurePath':pretty_path",   -- Values.toDoc, .path
  "pretty_stdlib.py:pytz.tzinfo.BaseTzInfo:pretty_pytz_timezone",   -- Std: call shape pytz.timezone(name)
  "pretty_stdlib.py:pytz.tzinfo.DstTzInfo:pretty_pytz_dst_timezone"]   -- Std: call shape pytz.timezone(name)

/-- the models cover exactly the printers the core package registers -/
theorem printer_inventory : Generated.shippedPrinters = modelledPrinters := by decide

end PP.C07
