/-
C10 at the level of the reader: with max_seq_len = N ≥ 1 (and any sort flag, no depth limit) what is printed reads back as
the value with every container cut to its first N elements (and dict entries in sorted order when sorting is on).
-/
import PP.Proofs.ShownRd
import PP.Props.C01b
import PP.Props.Limits
namespace PP.C10
open PP Doc Pr Tok

/-- **C10.output_reads_back** — for every value of the readable fragment (built-ins, subclass instances, call-style objects,
comments anywhere), `max_seq_len = N ≥ 1` or None, `sort_dict_keys` on or off, no depth limit, at any width / ribbon /
indent: what `pformat` prints has — up to literal splitting — a token sequence that the reader of `Spec/Reader.lean` reads as
`erase (shown ctx v)`, the value with every list / tuple / set / frozenset / dict at every level reduced to its first N
elements (`shown_list_truncated` below spells out the list case; the truncation comments are comments, not tokens). -/
theorem output_reads_back (s : Settings) (v : PyVal) (hw : wfVal v) (hin : inRd v = true)
    (hd : s.depth = none) (hm : s.maxSeqLen ≠ some 0) :
    ∃ ts, TEq (ctoks (sdocsM s v)) ts ∧
      parseV (need (shown s.ctx.norm v)) ts = some (erase (shown s.ctx.norm v), []) := by
  refine ⟨canonW s.ctx.norm.free (shown s.ctx.norm v) none, ?_, ?_⟩
  · have h1 := C03.output_tokens s v hw
    have e := shown_ok v s.ctx.norm none (by intro e; exact hm e) (Or.inl hd)
    rw [e] at h1
    exact h1
  · exact C01.canon_reads_back' (shown s.ctx.norm v) (inRd_shown v s.ctx.norm ⟨hd, hm⟩ hin) s.ctx.norm.free ⟨rfl, rfl, rfl⟩ _ (Nat.le_refl _)

/-- a list longer than the limit denotes exactly its first N elements (each shown under the same limits) -/
theorem shown_list_truncated (ctx : Ctx) (hT : Trunc ctx) (xs : List PyVal) (n : Nat) (hm : ctx.maxSeqLen = some n)
    (hlen : xs.length > n) :
    erase (shown ctx (.seq 0 none xs)) = .list (eraseL ((shownL ctx.nested xs).take n)) := by
  have hn : n ≠ 0 := by intro e; rw [e] at hm; exact hT.2 hm
  have hl0 : (xs.length == 0) = false := by
    cases xs with
    | nil => simp at hlen
    | cons a b => simp
  have hl1 : (xs.length == 1) = false := by
    have : xs.length ≠ 1 := by omega
    simpa using this
  simp only [shown, hl0, hT.dz, Bool.false_eq_true, if_false, cutSeq, withTruncation, hm, hlen, if_true, erase, hl1, takeOpt,
    wrapNE, mkSeq, beq_self_eq_true]

/-- a list within the limit denotes all its elements -/
theorem shown_list_full (ctx : Ctx) (hT : Trunc ctx) (x : PyVal) (xs : List PyVal)
    (hlen : ∀ n, ctx.maxSeqLen = some n → (x :: xs).length ≤ n) :
    erase (shown ctx (.seq 0 none (x :: xs))) = .list (eraseL (shownL ctx.nested (x :: xs))) := by
  have hl0 : ((x :: xs).length == 0) = false := by simp
  have hw : withTruncation (x :: xs).length ctx.maxSeqLen none = none := by
    unfold withTruncation
    cases hmm : ctx.maxSeqLen with
    | none => rfl
    | some n =>
      have := hlen n hmm
      simp only []
      split
      · omega
      · rfl
  simp only [shown, hl0, hT.dz, Bool.false_eq_true, if_false, cutSeq, hw, erase, wrapNE, mkSeq, beq_self_eq_true, if_true]

end PP.C10
