/-
C10 / C11 at the level of the reader: with max_seq_len = N ≥ 1, any depth limit and any sort flag, what is printed reads
back as the shown value: every container cut to its first N elements, dict entries in sorted order when sorting is on, every
node at the depth cut replaced by a placeholder of its own type.
-/
import PP.Proofs.ShownRd
import PP.Props.C01b
import PP.Props.Limits
namespace PP
open Doc Pr Tok

mutual
/-- the readable fragment has no timedelta (whose fields are cut one level down, which `shown` does not express) -/
theorem inRd_noTd : (v : PyVal) → inRd v = true → noTd v = true
  | .commented v _, h => by simp only [inRd, noTd] at *; exact inRd_noTd v h
  | .trailing v _, h => by simp only [inRd, Bool.and_eq_true] at h; simp only [noTd]; exact inRd_noTd v h.1
  | .seq _ _ xs, h => by simp only [inRd, Bool.and_eq_true] at h; simp only [noTd]; exact inRdL_noTd xs h.2
  | .frozenset _ xs, h => by simp only [inRd, Bool.and_eq_true] at h; simp only [noTd]; exact inRdL_noTd xs h.2
  | .dict _ kvs, h => by simp only [inRd, Bool.and_eq_true] at h; simp only [noTd]; exact inRdP_noTd kvs h.2
  | .call _ a k, h => by
      simp only [inRd, Bool.and_eq_true] at h; simp only [noTd, Bool.and_eq_true]; exact ⟨inRdL_noTd a h.1.2, inRdK_noTd k h.2⟩
  | .timedelta _ _ _, h => by simp [inRd] at h
  | .none, _ => rfl
  | .ellipsis, _ => rfl
  | .bool _, _ => rfl
  | .int _ _ _, _ => rfl
  | .float _ _ _ _ _, _ => rfl
  | .str _ _ _, _ => rfl
  | .opaque _, _ => rfl
  | .ident _, _ => rfl
  | .path _ _, _ => rfl
theorem inRdL_noTd : (xs : List PyVal) → inRdL xs = true → noTdL xs = true
  | [], _ => rfl
  | v :: r, h => by
      simp only [inRdL, Bool.and_eq_true] at h; simp only [noTdL, Bool.and_eq_true]; exact ⟨inRd_noTd v h.1, inRdL_noTd r h.2⟩
theorem inRdK_noTd : (xs : List (Str × PyVal)) → inRdK xs = true → noTdK xs = true
  | [], _ => rfl
  | (k, v) :: r, h => by
      simp only [inRdK, Bool.and_eq_true] at h; simp only [noTdK, Bool.and_eq_true]; exact ⟨inRd_noTd v h.1.2, inRdK_noTd r h.2⟩
theorem inRdP_noTd : (xs : List (PyVal × PyVal)) → inRdP xs = true → noTdP xs = true
  | [], _ => rfl
  | (k, v) :: r, h => by
      simp only [inRdP, Bool.and_eq_true] at h; simp only [noTdP, Bool.and_eq_true]
      exact ⟨⟨inRd_noTd k h.1.1, inRd_noTd v h.1.2⟩, inRdP_noTd r h.2⟩
end

namespace Limits

/-- **Limits.output_reads_back** — for every value of the readable fragment (built-ins, subclass instances, call-style objects,
comments anywhere), `depth` = d or None, `max_seq_len` = N ≥ 1 or None, `sort_dict_keys` on or off, at any width / ribbon /
indent: what `pformat` prints has — up to literal splitting — a token sequence that the reader of `Spec/Reader.lean` reads as
`erase (shown ctx v)`: the value with every list / tuple / set / frozenset / dict at every level reduced to its first N
elements, dict entries in sorted order when sorting is on, and every node at the cut replaced by its placeholder — `name(...)`
(the call of the type's name on Ellipsis), `[...]`, `{...}` (a list / set holding Ellipsis) or `(...)`, which Python reads as
a parenthesised Ellipsis, not as a tuple. -/
theorem output_reads_back (s : Settings) (v : PyVal) (hw : wfVal v) (hin : inRd v = true) (hm : s.maxSeqLen ≠ some 0) :
    ∃ ts, TEq (ctoks (sdocsM s v)) ts ∧
      parseV (need (shown s.ctx.norm v)) ts = some (erase (shown s.ctx.norm v), []) := by
  refine ⟨canonW s.ctx.norm.free (shown s.ctx.norm v) none, ?_, ?_⟩
  · have h1 := C03.output_tokens s v hw
    have e := shown_ok v s.ctx.norm none (by intro e; exact hm e) (Or.inr (inRd_noTd v hin))
    rw [e] at h1
    exact h1
  · exact C01.canon_reads_back' (shown s.ctx.norm v) (inRd_shown v s.ctx.norm hm hin) s.ctx.norm.free ⟨rfl, rfl, rfl⟩ _ (Nat.le_refl _)

end Limits

namespace C10

/-- **C10.output_reads_back** — the truncation clause (no depth limit): see `Limits.output_reads_back`. -/
theorem output_reads_back (s : Settings) (v : PyVal) (hw : wfVal v) (hin : inRd v = true)
    (hm : s.maxSeqLen ≠ some 0) :
    ∃ ts, TEq (ctoks (sdocsM s v)) ts ∧
      parseV (need (shown s.ctx.norm v)) ts = some (erase (shown s.ctx.norm v), []) :=
  Limits.output_reads_back s v hw hin hm

/-- a list longer than the limit denotes exactly its first N elements (each shown under the same limits) -/
theorem shown_list_truncated (ctx : Ctx) (hz : ctx.depthZero = false) (xs : List PyVal) (n : Nat) (hm : ctx.maxSeqLen = some n)
    (hn : n ≠ 0) (hlen : xs.length > n) :
    erase (shown ctx (.seq 0 none xs)) = .list (eraseL ((shownL ctx.nested xs).take n)) := by
  have hl0 : (xs.length == 0) = false := by
    cases xs with
    | nil => simp at hlen
    | cons a b => simp
  have hl1 : (xs.length == 1) = false := by
    have : xs.length ≠ 1 := by omega
    simpa using this
  simp only [shown, hl0, hz, Bool.false_eq_true, if_false, cutSeq, withTruncation, hm, hlen, if_true, erase, hl1, takeOpt,
    wrapNE, mkSeq, beq_self_eq_true]

/-- a list within the limit denotes all its elements -/
theorem shown_list_full (ctx : Ctx) (hz : ctx.depthZero = false) (x : PyVal) (xs : List PyVal)
    (hlen : ∀ n, ctx.maxSeqLen = some n → (x :: xs).length ≤ n) :
    erase (shown ctx (.seq 0 none (x :: xs))) = .list (eraseL (shownL ctx.nested (x :: xs))) := by
  have hl0 : ((x :: xs).length == 0) = false := by simp
  have hw : withTruncation (x :: xs).length ctx.maxSeqLen none = none := by
    unfold withTruncation
    cases hmm : ctx.maxSeqLen with
    | none => rfl
    | some n =>
      have := hlen n hmm
      simp only []
      split
      · omega
      · rfl
  simp only [shown, hl0, hz, Bool.false_eq_true, if_false, cutSeq, hw, erase, wrapNE, mkSeq, beq_self_eq_true, if_true]

end C10

namespace C11

/-- **C11.output_reads_back** — the depth clause: see `Limits.output_reads_back`. -/
theorem output_reads_back (s : Settings) (v : PyVal) (hw : wfVal v) (hin : inRd v = true) (hm : s.maxSeqLen ≠ some 0) :
    ∃ ts, TEq (ctoks (sdocsM s v)) ts ∧
      parseV (need (shown s.ctx.norm v)) ts = some (erase (shown s.ctx.norm v), []) :=
  Limits.output_reads_back s v hw hin hm

/-- at the cut a non-empty list is the placeholder `[...]`, which denotes a list holding Ellipsis … -/
theorem cut_list_denotes (ctx : Ctx) (hz : ctx.depthZero = true) (x : PyVal) (xs : List PyVal) :
    erase (shown ctx (.seq 0 none (x :: xs))) = .list [.kw sEll] := by
  simp [shown, hz, erase, phLit, identPh, sEll]

/-- … a non-empty tuple is `(...)`, which Python reads as a parenthesised Ellipsis … -/
theorem cut_tuple_denotes (ctx : Ctx) (hz : ctx.depthZero = true) (x : PyVal) (xs : List PyVal) :
    erase (shown ctx (.seq 1 none (x :: xs))) = .kw sEll := by
  simp [shown, hz, erase, phLit, identPh, sEll]

/-- … an int is `int(...)`, the call of the type's name on Ellipsis -/
theorem cut_int_denotes (ctx : Ctx) (hz : ctx.depthZero = true) (val : Int) (lit : Str) :
    erase (shown ctx (.int none val lit)) = .call nmInt [.kw sEll] := by
  simp [shown, hz, erase, phCall, identPh, sEll, builtin, nmInt, phName, isNameTok, isKwTok, sNone, sTrue, sFalse]

end C11
end PP
