/-
C14 — a failing printer is contained at the value it was printing.
-/
import PP.Model.Failures
namespace PP.C14
open PP Fail

def single (k : Nat) (f : Fault) : Nat → Option Fault := fun j => if j = k then some f else none

mutual
/-- where no fault is planned, everything prints in full and nothing is warned about -/
theorem run_noFault (plan : Nat → Option Fault) : ∀ (t : OTree) (st : St),
    (∀ j, st.counter ≤ j → j < st.counter + size t → plan j = none) →
    runT plan t st = (.ok (full t), { st with counter := st.counter + size t })
  | .node cls kids, st, h => by
    have h0 : plan st.counter = none := h st.counter (Nat.le_refl _) (by simp [size]; omega)
    have hk := runKids_noFault plan kids { st with counter := st.counter + 1 } (by
      intro j h1 h2; simp only at h1 h2; exact h j (by omega) (by simp [size]; omega))
    simp only [runT, h0, hk, full, size]
    simp [Nat.add_assoc]
theorem runKids_noFault (plan : Nat → Option Fault) : ∀ (ts : List OTree) (st : St),
    (∀ j, st.counter ≤ j → j < st.counter + sizes ts → plan j = none) →
    runKids plan ts st = (some (fulls ts), { st with counter := st.counter + sizes ts })
  | [], st, _ => by simp [runKids, fulls, sizes]
  | t :: r, st, h => by
    have h1 := run_noFault plan t st (by intro j a b; exact h j a (by simp [sizes]; omega))
    have h2 := runKids_noFault plan r { st with counter := st.counter + size t } (by
      intro j a b; simp only at a b; exact h j (by omega) (by simp [sizes]; omega))
    simp only [runKids, h1, h2, fulls, sizes]
    simp [Nat.add_assoc]
end

mutual
/-- a single raising fault at invocation `k`, reached inside `t` -/
theorem run_fault (k exc : Nat) : ∀ (t : OTree) (st : St), st.counter ≤ k → k < st.counter + size t →
    ∃ c', k < c' ∧ runT (single k (.raises exc)) t st =
      (.ok (substAt (k - st.counter) t), { counter := c', warnings := st.warnings ++ [clsAt (k - st.counter) t] })
  | .node cls kids, st, h1, h2 => by
    by_cases hk : k = st.counter
    · subst hk
      refine ⟨st.counter + 1, by omega, ?_⟩
      have h0 : st.counter - st.counter = 0 := Nat.sub_self _
      rw [h0]
      simp [runT, single, substAt, clsAt]
    · have hp : single k (.raises exc) st.counter = none := by
        simp [single]; omega
      obtain ⟨c', hc, hr⟩ := runKids_fault k exc cls kids { st with counter := st.counter + 1 } (by simp only; omega)
        (by simp only; simp [size] at h2; omega)
      refine ⟨c', hc, ?_⟩
      simp only [runT, hp, hr]
      have : k - st.counter = (k - (st.counter + 1)) + 1 := by omega
      rw [this]; simp [substAt, clsAt]
theorem runKids_fault (k exc d : Nat) : ∀ (ts : List OTree) (st : St), st.counter ≤ k → k < st.counter + sizes ts →
    ∃ c', k < c' ∧ runKids (single k (.raises exc)) ts st =
      (some (substAts (k - st.counter) ts), { counter := c', warnings := st.warnings ++ [clsAts (k - st.counter) ts d] })
  | [], st, h1, h2 => by simp [sizes] at h2; omega
  | t :: r, st, h1, h2 => by
    by_cases hin : k < st.counter + size t
    · obtain ⟨c', hc, hr⟩ := run_fault k exc t st h1 hin
      have hrest := runKids_noFault (single k (.raises exc)) r
        { counter := c', warnings := st.warnings ++ [clsAt (k - st.counter) t] } (by
          intro j a _; simp only at a; simp [single]; omega)
      refine ⟨c' + sizes r, by omega, ?_⟩
      have hlt : k - st.counter < size t := by omega
      simp only [runKids, hr, hrest, substAts, clsAts, hlt, if_true]
    · have hhead := run_noFault (single k (.raises exc)) t st (by
        intro j a b; simp [single]; omega)
      obtain ⟨c', hc, hr⟩ := runKids_fault k exc d r { st with counter := st.counter + size t } (by simp only; omega)
        (by simp only; simp [sizes] at h2; omega)
      refine ⟨c', hc, ?_⟩
      have hge : ¬ (k - st.counter < size t) := by omega
      have he : k - st.counter - size t = k - (st.counter + size t) := by omega
      simp only [runKids, hhead, hr, substAts, clsAts, hge, if_false, he]
end

/-- **C14.contained** — for every tree of objects and every invocation index `k` inside it, if the `k`-th printer
invocation raises (any class derived from Exception): printing still returns, the result is the fault-free print with
exactly that value replaced by its repr, and exactly one warning is issued, naming that value's printer -/
theorem contained (t : OTree) (k exc : Nat) (hk : k < size t) :
    ∃ c', runT (single k (.raises exc)) t {} = (.ok (substAt k t), { counter := c', warnings := [clsAt k t] }) := by
  obtain ⟨c', _, h⟩ := run_fault k exc t {} (by simp) (by simpa using hk)
  exact ⟨c', by simpa using h⟩

/-- without a fault nothing is replaced and nothing is warned about -/
theorem fault_free (t : OTree) : runT (fun _ => none) t {} = (.ok (full t), { counter := size t, warnings := [] }) := by
  have := run_noFault (fun _ => none) t {} (fun _ _ _ => rfl)
  simpa using this

/-- **C14.independent** — the model carries no state from one call to the next: a later call is what it would have
been (the visited set is restored by the try/finally of the F10 repair; see C13.no_residue) -/
theorem independent (p1 p2 : Nat → Option Fault) (t1 t2 : OTree) :
    (runT p2 t2 {}) = (let _ := runT p1 t1 {}; runT p2 t2 {}) := rfl

/-- **C14.bad_return** — a printer returning neither str nor Doc at the top level is reported (ValueError escapes) -/
theorem bad_return (cls : Nat) (kids : List OTree) :
    (runT (single 0 .badReturn) (.node cls kids) {}).1 = .escapes := by
  simp [runT, single]

/-- … and one level down it is contained by the parent's handler: the parent is printed as its repr, with a warning
naming the parent's printer -/
theorem bad_return_nested (cls c2 : Nat) (kids : List OTree) :
    runT (single 1 .badReturn) (.node cls [.node c2 kids]) {} =
      (.ok (.repr (.node cls [.node c2 kids])), { counter := 2, warnings := [cls] }) := by
  simp [runT, runKids, single]

end PP.C14
