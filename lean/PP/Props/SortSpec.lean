/-
What `sort_dict_keys=True` does to the entries of a dict, as a specification of the model's `sortK` against the contract of
Python's `sorted` (ordered by `<`, stable): whenever `<` — `_AlwaysSortable.__lt__` on the comment-free keys — is a strict weak
order on the keys of the dict (irreflexive, transitive, incomparability transitive: every dict whose keys are mutually
comparable, and the type-name fallback of F23 on keys that are not), the result is a permutation (`C01.sortK_perm`) that is
ordered (`sortK_ordered`) and keeps the insertion order of entries `<` cannot tell apart (`sortK_stable`).
-/
import PP.Props.Values
namespace PP.Sort
open PP Pr

variable {α : Type}

/-- `<` on entries: `_AlwaysSortable(_without_comments(key))` -/
def lt (a b : PyVal × α) : Bool := keyLt (sortKey a.1) (sortKey b.1)

/-- entries `<` cannot tell apart -/
def equiv (e z : PyVal × α) : Bool := !lt e z && !lt z e

/-- no entry is smaller than an entry before it -/
def Ordered (l : List (PyVal × α)) : Prop := l.Pairwise (fun a b => lt b a = false)

/-- `<` is a strict weak order on the entries of `l` -/
structure StrictWeak (l : List (PyVal × α)) : Prop where
  irrefl : ∀ a ∈ l, lt a a = false
  trans : ∀ a ∈ l, ∀ b ∈ l, ∀ c ∈ l, lt a b = true → lt b c = true → lt a c = true
  ntrans : ∀ a ∈ l, ∀ b ∈ l, ∀ c ∈ l, lt a b = false → lt b c = false → lt a c = false

theorem sortK_cons (x : PyVal × α) (xs : List (PyVal × α)) : sortK (x :: xs) = insertK x (sortK xs) := by
  simp [sortK, List.foldl_append]

theorem mem_insertK {x z : PyVal × α} {l : List (PyVal × α)} : z ∈ insertK x l ↔ z = x ∨ z ∈ l := by
  rw [(C01.insertK_perm x l).mem_iff]; simp

theorem mem_sortK {z : PyVal × α} {l : List (PyVal × α)} : z ∈ sortK l ↔ z ∈ l := (C01.sortK_perm l).mem_iff

theorem StrictWeak.asymm {l : List (PyVal × α)} (h : StrictWeak l) {a b : PyVal × α} (ha : a ∈ l) (hb : b ∈ l)
    (hab : lt a b = true) : lt b a = false := by
  cases hba : lt b a with
  | false => rfl
  | true => have := h.trans a ha b hb a ha hab hba; rw [h.irrefl a ha] at this; cases this

theorem StrictWeak.mono {l l' : List (PyVal × α)} (h : StrictWeak l) (hs : ∀ a, a ∈ l' → a ∈ l) : StrictWeak l' :=
  ⟨fun a ha => h.irrefl a (hs a ha),
   fun a ha b hb c hc => h.trans a (hs a ha) b (hs b hb) c (hs c hc),
   fun a ha b hb c hc => h.ntrans a (hs a ha) b (hs b hb) c (hs c hc)⟩

theorem insertK_ordered (x : PyVal × α) : ∀ (l : List (PyVal × α)), StrictWeak (x :: l) → Ordered l → Ordered (insertK x l)
  | [], _, _ => by simp [insertK, Ordered]
  | y :: r, hw, ho => by
    have hx : x ∈ x :: y :: r := by simp
    have hy : y ∈ x :: y :: r := by simp
    have hor : Ordered r := (List.pairwise_cons.mp ho).2
    have hyr : ∀ z ∈ r, lt z y = false := (List.pairwise_cons.mp ho).1
    have hw' : StrictWeak (x :: r) := hw.mono (by
      intro a ha
      rcases List.mem_cons.mp ha with rfl | ha
      · simp
      · simp [ha])
    simp only [insertK]
    split
    · rename_i hyx
      -- y < x: y stays in front
      refine List.pairwise_cons.mpr ⟨?_, insertK_ordered x r hw' hor⟩
      intro z hz
      rcases mem_insertK.mp hz with rfl | hz
      · exact hw.asymm hy hx hyx
      · exact hyr z hz
    · rename_i hyx
      have hyx' : lt y x = false := by simpa [lt] using hyx
      refine List.pairwise_cons.mpr ⟨?_, ho⟩
      intro z hz
      rcases List.mem_cons.mp hz with rfl | hz
      · exact hyx'
      · exact hw.ntrans z (by simp [hz]) y hy x hx (hyr z hz) hyx'

/-- **Sort.sortK_ordered** — the entries come out in ascending order of their keys -/
theorem sortK_ordered : ∀ (xs : List (PyVal × α)), StrictWeak xs → Ordered (sortK xs)
  | [], _ => by simp [sortK, Ordered]
  | x :: xs, hw => by
    rw [sortK_cons]
    have hw' : StrictWeak xs := hw.mono (fun a ha => by simp [ha])
    refine insertK_ordered x (sortK xs) (hw.mono ?_) (sortK_ordered xs hw')
    intro a ha
    rcases List.mem_cons.mp ha with rfl | ha
    · simp
    · simp [mem_sortK.mp ha]

theorem insertK_filter_ne (p : PyVal × α → Bool) (x : PyVal × α) (hx : p x = false) :
    ∀ (l : List (PyVal × α)), (insertK x l).filter p = l.filter p
  | [] => by simp [insertK, hx]
  | y :: r => by
    simp only [insertK]; split
    · simp [List.filter_cons, insertK_filter_ne p x hx r]
    · simp [List.filter_cons, hx]

theorem insertK_stable (e x : PyVal × α) (hex : equiv e x = true) :
    ∀ (l : List (PyVal × α)), (∀ y ∈ l, lt y e = false → lt e x = false → lt y x = false) →
      (insertK x l).filter (equiv e) = x :: l.filter (equiv e)
  | [], _ => by simp [insertK, hex]
  | y :: r, hn => by
    simp only [insertK]; split
    · rename_i hyx
      -- y < x and x ~ e: y is not ~ e
      have hey : equiv e y = false := by
        cases h : equiv e y with
        | false => rfl
        | true =>
          simp only [equiv, Bool.and_eq_true, Bool.not_eq_true'] at h hex
          have := hn y (by simp) h.2 hex.1
          simp only [lt] at this hyx; rw [this] at hyx; cases hyx
      simp [List.filter_cons, hey, insertK_stable e x hex r (fun z hz => hn z (by simp [hz]))]
    · simp [List.filter_cons, hex]

/-- **Sort.sortK_stable** — entries whose keys `<` cannot tell apart keep their insertion order: for every entry `e`, the
entries equivalent to `e` appear in the result exactly as they appear in the dict -/
theorem sortK_stable (e : PyVal × α) : ∀ (xs : List (PyVal × α)),
    (∀ y ∈ xs, ∀ x ∈ xs, lt y e = false → lt e x = false → lt y x = false) →
    (sortK xs).filter (equiv e) = xs.filter (equiv e)
  | [], _ => by simp [sortK]
  | x :: xs, hn => by
    rw [sortK_cons]
    have ih := sortK_stable e xs (fun y hy x' hx' => hn y (by simp [hy]) x' (by simp [hx']))
    cases hex : equiv e x with
    | false => rw [insertK_filter_ne _ x hex, ih]; simp [List.filter_cons, hex]
    | true =>
      rw [insertK_stable e x hex (sortK xs) (fun y hy => hn y (by simp [mem_sortK.mp hy]) x (by simp)), ih]
      simp [List.filter_cons, hex]

/-- non-vacuity and the point of the model's insertion direction: two tuple keys that `<` cannot order (`(1, None)` and
`(1, 'a')`: comparing `None` with a str raises, and both are tuples) keep their insertion order -/
example : (sortK [((PyVal.seq 1 none [.int none 1 [49], .none], 0) : PyVal × Nat), (.seq 1 none [.int none 1 [49], .str none false []], 1)]).map (·.2)
    = [0, 1] := by decide +kernel

/-- the hypothesis is met by ordinary dicts — here number keys, a str key and a tuple key, which the type-name fallback ranks
`int` < `str` < `tuple` — and the conclusion computed on them -/
example : StrictWeak [((PyVal.int none 2 [50], 0) : PyVal × Nat), (.str none false [], 1), (.int none 1 [49], 2), (.seq 1 none [.none], 3)] :=
  ⟨by decide +kernel, by decide +kernel, by decide +kernel⟩
example : (sortK [((PyVal.int none 2 [50], 0) : PyVal × Nat), (.str none false [], 1), (.int none 1 [49], 2), (.seq 1 none [.none], 3)]).map (·.2)
    = [2, 0, 1, 3] := by decide +kernel

end PP.Sort
