/-
C12, end to end on the model: the layout work for a value is at most quadratic in the value's weight (nodes, string
lengths, comment lengths), for every setting.
-/
import PP.Props.C12
import PP.Proofs.SizeVal
namespace PP.C12
open PP Doc Pr Tok

/-- **C12.doc_linear** — the document the printers build for a well-formed value, with any comments, settings and nesting,
has size (in the measure the machine's cost is stated in) at most the weight `wt v` of the value + 10: linear in the number
of nodes, the lengths of the strings (64 per character, the bound of the string evaluator) and the lengths of the
comment texts (9 per character).  Commented dict values are *not* an exception here: the value's two renderings sit in
the two alternatives of one choice and are measured once — the exponential of finding K3 is in *building* the document
(`C12.commented_dict_exponential`), not in its size. -/
theorem doc_linear (ctx : Ctx) (v : PyVal) (hw : wfVal v) : rsize (topDoc ctx v) ≤ wt v + 10 := by
  have hc := celt_toDoc ctx v hw (toDocW_size v ctx none none hw)
  unfold topDoc toDoc
  simp only []
  unfold celt cwC at hc
  cases h : commented? (toDocW ctx v none none) with
  | none => rw [h] at hc; simp only [] at hc ⊢; omega
  | some p =>
    obtain ⟨c, inner⟩ := p
    rw [h] at hc
    simp only [] at hc ⊢
    have h1 := rsize_commentdoc c
    have h2 := size_commentdoc c
    have h3 := size_le_rsize (toDocW ctx v none none)
    simp only [rsize, rsizes, size, sizes]
    omega

/-- **C12.layout_quadratic_in_value** — the work of the layout machine (loop iterations plus the lookaheads it starts) on
the document of a value is at most `(wt v + 12)²`, at every width, ribbon, indent, depth, max_seq_len and sort setting. -/
theorem layout_quadratic_in_value (s : Settings) (v : PyVal) (hw : wfVal v) :
    runW s.cfg [(0, .brk, .doc (topDoc s.ctx v).normalize)] 0 ≤ (wt v + 12) * (wt v + 12) := by
  have h1 := machine_quadratic s.cfg [(0, .brk, .doc (topDoc s.ctx v).normalize)] 0
  have h2 : stkSize [(0, Mode.brk, Item.doc (topDoc s.ctx v).normalize)] ≤ wt v + 10 := by
    simp only [stkSize, Item.size, Nat.add_zero]
    exact Nat.le_trans (size_normalize _) (doc_linear s.ctx v hw)
  refine Nat.le_trans h1 ?_
  exact Nat.mul_le_mul (by omega) (by omega)

end PP.C12
