/-
C07 — bundled printers are faithful for standard-library types: what the printer shows, read back with the
constructor's documented semantics, is the original object.
-/
import PP.Model.Std
namespace PP.C07
open PP Pr PP.Std

/-- **C07.timedelta** — for EVERY timedelta (any sign, incl. zero, min, max, -1 microsecond): the days / hours /
minutes / seconds / milliseconds / microseconds the printer shows — with `days` written as `years * 365 + rest` —
passed to the constructor and negated when the printer prefixes `-`, give back exactly the original duration -/
theorem timedelta (d s u : Int) :
    let total := d * 86400000000 + s * 1000000 + u
    let p := timedeltaParts d s u
    (if p.1 then -1 else 1) *
      timedeltaValue ((p.2.1 / 365) * 365 + p.2.1 % 365) p.2.2.1 p.2.2.2.1 p.2.2.2.2.1 p.2.2.2.2.2.1 p.2.2.2.2.2.2 = total := by
  intro total p
  -- work with the absolute value `a ≥ 0`
  have key : ∀ a : Int, 0 ≤ a →
      timedeltaValue ((a / 86400000000 / 365) * 365 + a / 86400000000 % 365) ((a / 1000000) % 86400 / 3600)
        ((a / 1000000) % 86400 / 60 % 60) ((a / 1000000) % 86400 % 60) (a % 1000000 / 1000) (a % 1000000 % 1000) = a := by
    intro a ha
    have e1 : a / 86400000000 = a / 1000000 / 86400 := by
      rw [Int.ediv_ediv_of_nonneg (by omega)]; rfl
    rw [e1]
    generalize hb : a / 1000000 = b
    have hb0 : 0 ≤ b := by rw [← hb]; exact Int.ediv_nonneg ha (by omega)
    have h1 : a = 1000000 * b + a % 1000000 := by rw [← hb]; exact (Int.mul_ediv_add_emod a 1000000).symm
    generalize hus : a % 1000000 = us at h1 ⊢
    have hus0 : 0 ≤ us ∧ us < 1000000 := by rw [← hus]; constructor <;> omega
    simp only [timedeltaValue]
    omega
  show (if p.1 then -1 else 1) * _ = total
  simp only [p, timedeltaParts]
  by_cases hneg : total < 0
  · have := key (-total) (by omega)
    simp only [total] at hneg this
    simp only [hneg, decide_true, if_true]
    omega
  · have := key total (by omega)
    simp only [total] at hneg this
    simp only [hneg, decide_false, Bool.false_eq_true, if_false]
    omega

/-- the parts shown are in range: they are what `divmod` produces, so dropping the zero ones loses nothing -/
theorem timedelta_ranges (d s u : Int) :
    let p := timedeltaParts d s u
    0 ≤ p.2.1 ∧ 0 ≤ p.2.2.1 ∧ p.2.2.1 < 24 ∧ 0 ≤ p.2.2.2.1 ∧ p.2.2.2.1 < 60 ∧ 0 ≤ p.2.2.2.2.1 ∧ p.2.2.2.2.1 < 60 ∧
    0 ≤ p.2.2.2.2.2.1 ∧ p.2.2.2.2.2.1 < 1000 ∧ 0 ≤ p.2.2.2.2.2.2 ∧ p.2.2.2.2.2.2 < 1000 := by
  intro p
  simp only [p, timedeltaParts]
  have hd : ∀ a : Int, 0 ≤ a → 0 ≤ a / 86400000000 := fun a ha => Int.ediv_nonneg ha (by omega)
  split
  · rename_i h
    have h' : d * 86400000000 + s * 1000000 + u < 0 := by simpa using h
    refine ⟨hd _ (by omega), ?_⟩; omega
  · rename_i h
    have h' : ¬ d * 86400000000 + s * 1000000 + u < 0 := by simpa using h
    refine ⟨hd _ (by omega), ?_⟩; omega

/-- dropping the leading run of zero fields and defaulting the missing ones to 0 restores every field -/
theorem dropWhile_zero_restores (fields : List (Str × Nat)) (hk : (fields.map (·.1)).Nodup) :
    ∀ kv ∈ fields, lookupNat (fields.dropWhile (fun (_, v) => v == 0)) kv.1 = kv.2 := by
  induction fields with
  | nil => intro kv h; cases h
  | cons f r ih =>
    intro kv hkv
    simp only [List.map_cons, List.nodup_cons] at hk
    simp only [List.dropWhile_cons]
    split
    · rename_i hz
      simp only [List.mem_cons] at hkv
      rcases hkv with rfl | hkv
      · -- the dropped field is zero, and its key does not occur later
        have hv : kv.2 = 0 := by simpa using hz
        have : (List.dropWhile (fun (x : Str × Nat) => x.2 == 0) r).find? (·.1 == kv.1) = none := by
          rw [List.find?_eq_none]
          intro x hx
          have hxr : x ∈ r := (List.dropWhile_sublist _).subset hx
          intro he
          have : x.1 = kv.1 := by simpa using he
          exact hk.1 (by rw [← this]; exact List.mem_map_of_mem hxr)
        simp [lookupNat, this, hv]
      · exact ih hk.2 kv hkv
    · -- nothing is dropped from here on
      simp only [List.mem_cons] at hkv
      rcases hkv with rfl | hkv
      · simp [lookupNat]
      · have hne : ¬ (f.1 == kv.1) = true := by
          intro he
          have : f.1 = kv.1 := by simpa using he
          exact hk.1 (by rw [this]; exact List.mem_map_of_mem hkv)
        have : (r.find? (·.1 == kv.1)) = some kv := by
          clear ih
          induction r with
          | nil => cases hkv
          | cons g r' ih' =>
            simp only [List.map_cons, List.nodup_cons] at hk
            simp only [List.mem_cons] at hkv
            rcases hkv with rfl | hkv
            · simp
            · have hg : ¬ (g.1 == kv.1) = true := by
                intro he
                have : g.1 = kv.1 := by simpa using he
                exact hk.2.1 (by rw [this]; exact List.mem_map_of_mem hkv)
              simp only [List.find?_cons, hg]
              exact ih' ⟨fun h => hk.1 (by simp [h]), hk.2.2⟩ hkv
        simp [lookupNat, List.find?_cons, hne, this]

/-- **C07.time / datetime (time part)** — for every hour / minute / second / microsecond: the keyword arguments
the printer keeps, read back with the constructor's defaults, are the original four fields -/
theorem time_fields (h mi s us : Nat) :
    let kept := ([(k_microsecond, us), (k_second, s), (k_minute, mi), (k_hour, h)] : List (Str × Nat)).dropWhile (fun (_, v) => v == 0)
    lookupNat kept (k_hour) = h ∧ lookupNat kept (k_minute) = mi ∧ lookupNat kept (k_second) = s ∧
    lookupNat kept (k_microsecond) = us := by
  have hnd : (([(k_microsecond, us), (k_second, s), (k_minute, mi), (k_hour, h)] : List (Str × Nat)).map (·.1)).Nodup := by
    simp only [List.map_cons, List.map_nil]; decide
  have key := dropWhile_zero_restores _ hnd
  exact ⟨key (k_hour, h) (by simp), key (k_minute, mi) (by simp), key (k_second, s) (by simp),
         key (k_microsecond, us) (by simp)⟩

/-- the positional form is used exactly when only year, month, day remain, and it shows them in constructor order -/
theorem datetime_date_only (y mo d : Nat) :
    showDatetime y mo d 0 0 0 0 none 0 = .call (q "datetime.datetime") [intV y, intV mo, intV d] [] := by
  simp [showDatetime]

/-- ChainMap: the empty-call shortcut is taken only for no maps or one empty map -/
theorem chainmap_shortcut (cls : QualName) (maps : List PyVal) (firstEmpty : Bool)
    (h : showChainMap cls maps firstEmpty = .call cls [] []) (hne : maps ≠ []) : maps.length = 1 ∧ firstEmpty = true := by
  unfold showChainMap at h
  split at h
  · rename_i hc
    simp only [Bool.or_eq_true, Bool.and_eq_true, beq_iff_eq] at hc
    rcases hc with hc | hc
    · exact absurd (by simpa using hc) hne
    · exact hc
  · cases maps with
    | nil => exact absurd rfl hne
    | cons m r => simp at h

/-- deque shows maxlen exactly when it is bounded -/
theorem deque_maxlen (cls : QualName) (xs : List PyVal) (n : Nat) :
    showDeque cls xs (some n) = .call cls [.seq 0 none xs] [(k_maxlen, intV n)] ∧
    showDeque cls xs none = .call cls [.seq 0 none xs] [] := ⟨rfl, rfl⟩

end PP.C07
