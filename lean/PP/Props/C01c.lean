/-
C01 with key sorting: the output reads back to the value with its dict entries in sorted order.
-/
import PP.Proofs.ShownC01
import PP.Props.C01b
import PP.Props.Limits
namespace PP.C01
open PP Doc Pr Tok

/-- **C01.output_reads_back_sorted** — with `sort_dict_keys` on or off (depth = None, max_seq_len = None), at any width /
ribbon / indent, what `pformat` prints for a value of the built-in literal types has — up to literal splitting — a token
sequence that reads back to `erase (shown ctx v)`: the value with every dict's entries in the order `sorted` gives
(`shown` sorts with the same stable `<`-insertion as the printer; without sorting `shown` changes nothing that is read). -/
theorem output_reads_back_sorted (s : Settings) (v : PyVal) (hw : wfVal v) (hin : inC01 v = true)
    (hd : s.depth = none) (hm : s.maxSeqLen = none) :
    ∃ ts, TEq (ctoks (sdocsM s v)) ts ∧
      parseV (need (shown s.ctx.norm v)) ts = some (erase (shown s.ctx.norm v), []) := by
  refine ⟨canonW s.ctx.norm.free (shown s.ctx.norm v) none, ?_, ?_⟩
  · have h1 := C03.output_tokens s v hw
    have e := shown_ok v s.ctx.norm none (by intro e; rw [show s.ctx.norm.maxSeqLen = s.maxSeqLen from rfl, hm] at e; cases e)
      (Or.inl hd)
    rw [e] at h1
    exact h1
  · exact canon_reads_back (shown s.ctx.norm v) (inC01_shown v s.ctx.norm ⟨hd, hm⟩ hin) s.ctx.norm.free ⟨rfl, rfl, rfl⟩ _ (Nat.le_refl _)

end PP.C01
