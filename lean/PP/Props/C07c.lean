/-
C07, timedelta on tokens: `pretty_timedelta` prints arithmetic (`days=2 * 365 + 1`) and a leading `-`, which the reader of
`Spec/Reader.lean` does not cover.  This file closes the gap with a reader for exactly that fragment — decimal literals, `*`
binding tighter than `+`, keyword arguments of `datetime.timedelta`, unary minus on the call — and proves that the code tokens
of EVERY layout of EVERY timedelta (depth not exhausted) read back as the original duration in microseconds.
-/
import PP.Props.C07
import PP.Props.C03
import PP.Spec.TdReader
namespace PP.C07
open PP Doc Pr Tok PP.Std

/-! ### decimal literals -/

theorem decVal_intLit (m : Nat) : decVal (intLit (Int.ofNat m)) = m := by
  have h1 : (toString (Int.ofNat m)).toList = Nat.toDigits 10 m := by
    show (Nat.repr m).toList = _
    exact Nat.toList_repr
  unfold decVal intLit
  rw [h1, List.foldl_map]
  exact Nat.ofDigitChars_ten_toDigits

theorem isDigits_intLit (m : Nat) : isDigits (intLit (Int.ofNat m)) = true := by
  have h1 : (toString (Int.ofNat m)).toList = Nat.toDigits 10 m := by
    show (Nat.repr m).toList = _
    exact Nat.toList_repr
  unfold isDigits intLit
  rw [h1]
  have hne := @Nat.toDigits_ne_nil m 10
  simp only [Bool.and_eq_true, Bool.not_eq_true', List.isEmpty_eq_false_iff, ne_eq, List.map_eq_nil_iff, List.all_map,
    List.all_eq_true, Function.comp]
  refine ⟨hne, ?_⟩
  intro c hc
  have hd : c.isDigit := Nat.isDigit_of_mem_toDigits (by decide) (by decide) hc
  simp [Char.isDigit] at hd
  have h48 : 48 ≤ c.toNat := UInt32.le_iff_toNat_le.mp hd.1
  have h57 : c.toNat ≤ 57 := UInt32.le_iff_toNat_le.mp hd.2
  simp [h48, h57]

theorem numTok_intLit (n : Int) (h : 0 ≤ n) : numTok (.code (intLit n)) = some n := by
  obtain ⟨m, rfl⟩ := Int.eq_ofNat_of_zero_le h
  simp only [numTok]
  rw [show ((m : Nat) : Int) = Int.ofNat m from rfl, isDigits_intLit, decVal_intLit]
  simp

theorem isBlank_of_isDigits (s : Str) (h : isDigits s = true) : isBlank s = false := by
  unfold isDigits at h
  cases s with
  | nil => simp at h
  | cons c r =>
    simp only [List.isEmpty_cons, Bool.not_false, List.all_cons, Bool.true_and, Bool.and_eq_true, decide_eq_true_eq] at h
    simp only [isBlank, List.all_cons, Bool.and_eq_false_imp]
    intro hc
    have : c = 32 := by simpa using hc
    omega

theorem cd_intLit (n : Int) (h : 0 ≤ n) : cd (intLit n) = [.code (intLit n)] := by
  obtain ⟨m, rfl⟩ := Int.eq_ofNat_of_zero_le h
  have hb : isBlank (intLit (m : Int)) = false := isBlank_of_isDigits _ (isDigits_intLit m)
  simp [cd, hb]

/-! ### argument lists -/

def noComma (e : List CT) : Prop := ∀ t ∈ e, t ≠ COMMA_T
def noLit (l : List CT) : Prop := ∀ t ∈ l, isLit t = false

theorem splitC_noComma (e : List CT) (he : noComma e) : ∀ (acc rest : List CT),
    splitC acc (e ++ rest) = splitC (acc ++ e) rest := by
  induction e with
  | nil => intro acc rest; simp
  | cons t e ih =>
    intro acc rest
    have ht : t ≠ COMMA_T := he t (by simp)
    have he' : noComma e := fun x hx => he x (by simp [hx])
    simp only [List.cons_append, splitC, ht, if_false]
    rw [ih he', List.append_assoc]; rfl

theorem splitC_seqToks : ∀ (segs : List (List CT)), segs ≠ [] → (∀ e ∈ segs, noComma e) →
    splitC [] (seqToks segs false) = segs
  | [], h, _ => absurd rfl h
  | [t], _, hn => by
    have := splitC_noComma t (hn t (by simp)) [] []
    simp only [List.append_nil, List.nil_append] at this
    simp [seqToks, this, splitC]
  | t :: t2 :: r, _, hn => by
    have h1 := splitC_noComma t (hn t (by simp)) [] (COMMA_T :: seqToks (t2 :: r) false)
    have ih := splitC_seqToks (t2 :: r) (by simp) (fun e he => hn e (by simp [he]))
    simp only [seqToks, List.append_assoc, List.cons_append, List.nil_append] at h1 ⊢
    rw [h1]
    simp only [splitC, if_true, ih]

/-- an argument as the proof sees it: keyword, expression tokens, value -/
structure Arg where
  k : Str
  e : List CT
  v : Int

def Arg.ok (a : Arg) : Prop := isBlank a.k = false ∧ noComma a.e ∧ evalExpr a.e = some a.v ∧ a.k ≠ [44] ∧ noLit a.e

def Arg.toks (a : Arg) : List CT := cd a.k ++ [EQ_T] ++ a.e

theorem Arg.toks_noComma (a : Arg) (h : a.ok) : noComma a.toks := by
  intro t ht
  simp only [Arg.toks, cd, h.1, List.mem_append, List.mem_singleton] at ht
  rcases ht with (ht | rfl) | ht
  · have : t = .code a.k := by simpa using ht
    subst this
    intro hc
    have hk : a.k = [44] := by simpa [COMMA_T] using hc
    exact h.2.2.2.1 hk
  · decide
  · exact h.2.1 t ht

theorem readKw_toks (a : Arg) (h : a.ok) : readKw a.toks = some (a.k, a.v) := by
  simp [Arg.toks, cd, h.1, readKw, h.2.2.1]

theorem mapMO_args : ∀ (as : List Arg), (∀ a ∈ as, a.ok) →
    mapMO readKw (as.map Arg.toks) = some (as.map fun a => (a.k, a.v))
  | [], _ => rfl
  | a :: r, h => by
    simp [mapMO, readKw_toks a (h a (by simp)), mapMO_args r (fun x hx => h x (by simp [hx]))]

/-! ### the keyword arguments of pretty_timedelta -/

def nz : Str × Int → Bool := fun (_, v) => v != 0

/-- the document shown for `days` -/
def daysDoc (ctx : Ctx) (days : Int) : Doc :=
  if days / 365 != 0 then
    Doc.cat ((if days / 365 > 1 then [intDoc ctx (days / 365), Doc.text [32], MUL_OP, .text [32]] else []) ++ [intDoc ctx 365] ++
      (if days % 365 != 0 then [Doc.text [32], ADD_OP, .text [32], intDoc ctx (days % 365)] else []))
  else intDoc ctx.nested days

def restAttrs (hours minutes seconds ms us : Int) : List (Str × Int) :=
  [(str_ "hours", hours), (str_ "minutes", minutes), (str_ "seconds", seconds), (str_ "milliseconds", ms), (str_ "microseconds", us)]

theorem tdKw_eq (ctx : Ctx) (d s u : Int) :
    let p := timedeltaParts d s u
    tdKw ctx d s u = (if p.2.1 != 0 then [(str_ "days", daysDoc ctx p.2.1)] else []) ++
      ((restAttrs p.2.2.1 p.2.2.2.1 p.2.2.2.2.1 p.2.2.2.2.2.1 p.2.2.2.2.2.2).filter nz).map fun (k, v) => (k, intDoc ctx.nested v) := by
  intro p
  unfold tdKw
  show (match ((([(str_ "days", p.2.1), (str_ "hours", p.2.2.1), (str_ "minutes", p.2.2.2.1), (str_ "seconds", p.2.2.2.2.1),
      (str_ "milliseconds", p.2.2.2.2.2.1), (str_ "microseconds", p.2.2.2.2.2.2)] : List (Str × Int)).filter fun (_, v) => v != 0).map
        fun (k, v) => (k, intDoc ctx.nested v)) with
    | (k, dd) :: rest =>
      if p.2.1 != 0 then
        if p.2.1 / 365 != 0 then
          (k, Doc.cat ((if p.2.1 / 365 > 1 then [intDoc ctx (p.2.1 / 365), Doc.text [32], MUL_OP, .text [32]] else []) ++ [intDoc ctx 365] ++
            (if p.2.1 % 365 != 0 then [Doc.text [32], ADD_OP, .text [32], intDoc ctx (p.2.1 % 365)] else []))) :: rest
        else (k, dd) :: rest
      else (k, dd) :: rest
    | [] => []) = _
  generalize p.2.1 = days
  generalize hr : restAttrs p.2.2.1 p.2.2.2.1 p.2.2.2.2.1 p.2.2.2.2.2.1 p.2.2.2.2.2.2 = rest
  have hfil : (([(str_ "days", days), (str_ "hours", p.2.2.1), (str_ "minutes", p.2.2.2.1), (str_ "seconds", p.2.2.2.2.1),
      (str_ "milliseconds", p.2.2.2.2.2.1), (str_ "microseconds", p.2.2.2.2.2.2)] : List (Str × Int)).filter fun (_, v) => v != 0) =
      (if days != 0 then [(str_ "days", days)] else []) ++ rest.filter nz := by
    rw [← hr]; unfold restAttrs
    rw [List.filter_cons]
    by_cases h : days = 0 <;> simp [h] <;> rfl
  rw [hfil]
  by_cases h : days = 0
  · subst h
    simp only [bne_self_eq_false, Bool.false_eq_true, if_false, List.nil_append]
    generalize (rest.filter nz).map (fun (x : Str × Int) => (x.1, intDoc ctx.nested x.2)) = kw
    cases kw with
    | nil => rfl
    | cons x r => obtain ⟨k, dd⟩ := x; rfl
  · have hb : (days != 0) = true := by simp [h]
    simp only [hb, if_true, List.cons_append, List.nil_append, List.map_cons, daysDoc]
    split <;> rfl

theorem code_intLit_ne_comma (v : Int) (h : 0 ≤ v) : (CT.code (intLit v)) ≠ COMMA_T := by
  obtain ⟨m, rfl⟩ := Int.eq_ofNat_of_zero_le h
  intro hc
  have hk : intLit (m : Int) = [44] := by simpa [COMMA_T] using hc
  have hd := isDigits_intLit m
  rw [show Int.ofNat m = (m : Int) from rfl, hk] at hd
  simp [isDigits] at hd

theorem noComma_num (v : Int) (h : 0 ≤ v) : noComma [CT.code (intLit v)] := by
  intro t ht
  have : t = .code (intLit v) := by simpa using ht
  subst this; exact code_intLit_ne_comma v h

/-- the tokens of an int document (depth not exhausted) are one decimal literal with that value -/
theorem intDoc_arg (ctx : Ctx) (hz : ctx.depthZero = false) (v : Int) (h : 0 ≤ v) :
    toksOf (intDoc ctx v) = [.code (intLit v)] := by
  rw [toksOf_intDoc, hz]; simp [cd_intLit v h]

theorem mulT : toksOf MUL_OP = [MUL_T] := by decide
theorem addT : toksOf ADD_OP = [ADD_T] := by decide
theorem negT : toksOf NEG_OP = [NEG_T] := by decide
theorem spT : toksOf (Doc.text [32]) = [] := by decide

/-- **days** — `days`, `365 + r`, `y * 365` or `y * 365 + r`: no comma inside, and Python's arithmetic gives back `days` -/
theorem daysDoc_arg (ctx : Ctx) (hz : ctx.depthZero = false) (hz' : ctx.nested.depthZero = false) (days : Int) (h : 0 ≤ days) :
    noComma (toksOf (daysDoc ctx days)) ∧ evalExpr (toksOf (daysDoc ctx days)) = some days ∧ noLit (toksOf (daysDoc ctx days)) := by
  have hy : 0 ≤ days / 365 := Int.ediv_nonneg h (by omega)
  have hr : 0 ≤ days % 365 := Int.emod_nonneg _ (by omega)
  have hsplit := Int.mul_ediv_add_emod days 365
  have n365 := numTok_intLit 365 (by omega)
  have ny := numTok_intLit (days / 365) hy
  have nr := numTok_intLit (days % 365) hr
  have c365 := code_intLit_ne_comma 365 (by omega)
  have cy := code_intLit_ne_comma _ hy
  have cr := code_intLit_ne_comma _ hr
  have hm : MUL_T ≠ COMMA_T := by decide
  have ha : ADD_T ≠ COMMA_T := by decide
  unfold daysDoc
  by_cases h0 : days / 365 = 0
  · have hb : (days / 365 != 0) = false := by simp [h0]
    simp only [hb, Bool.false_eq_true, if_false]
    rw [intDoc_arg _ hz' _ h]
    exact ⟨noComma_num _ h, by simpa [evalExpr] using numTok_intLit days h, by intro t ht; simp at ht; subst ht; rfl⟩
  · have hb : (days / 365 != 0) = true := by simp [h0]
    simp only [hb, if_true, toksOf]
    by_cases h1 : days / 365 > 1 <;> by_cases h2 : days % 365 = 0
    · have hb2 : (days % 365 != 0) = false := by simp [h2]
      simp only [h1, if_true, hb2, Bool.false_eq_true, if_false, List.append_nil, List.cons_append, List.nil_append,
        toksOfL, intDoc_arg _ hz _ hy, intDoc_arg _ hz 365 (by omega), mulT, spT]
      refine ⟨?_, ?_, ?_⟩
      · intro t ht; simp at ht; rcases ht with rfl | rfl | rfl <;> assumption
      · simp [evalExpr, ny, n365]; omega
      · intro t ht; simp at ht; rcases ht with rfl | rfl | rfl <;> rfl
    · have hb2 : (days % 365 != 0) = true := by simp [h2]
      simp only [h1, if_true, hb2, List.cons_append, List.nil_append,
        toksOfL, intDoc_arg _ hz _ hy, intDoc_arg _ hz _ hr, intDoc_arg _ hz 365 (by omega), mulT, addT, spT]
      refine ⟨?_, ?_, ?_⟩
      · intro t ht; simp at ht; rcases ht with rfl | rfl | rfl | rfl | rfl <;> assumption
      · simp [evalExpr, ny, n365, nr]; omega
      · intro t ht; simp at ht; rcases ht with rfl | rfl | rfl | rfl | rfl <;> rfl
    · have hb2 : (days % 365 != 0) = false := by simp [h2]
      simp only [h1, Bool.false_eq_true, if_false, hb2, List.append_nil, List.nil_append,
        toksOfL, intDoc_arg _ hz 365 (by omega)]
      refine ⟨?_, ?_, ?_⟩
      · intro t ht; simp at ht; subst ht; assumption
      · simp [evalExpr, n365]; omega
      · intro t ht; simp at ht; subst ht; rfl
    · have hb2 : (days % 365 != 0) = true := by simp [h2]
      simp only [h1, if_false, hb2, if_true, List.cons_append, List.nil_append,
        toksOfL, intDoc_arg _ hz _ hr, intDoc_arg _ hz 365 (by omega), addT, spT]
      refine ⟨?_, ?_, ?_⟩
      · intro t ht; simp at ht; rcases ht with rfl | rfl | rfl <;> assumption
      · simp [evalExpr, n365, nr, (by decide : ADD_T ≠ MUL_T)]; omega
      · intro t ht; simp at ht; rcases ht with rfl | rfl | rfl <;> rfl

/-! ### the sum -/

theorem tdSum_filter : ∀ (l : List (Str × Int)) (t : Int), tdSum l = some t → tdSum (l.filter nz) = some t
  | [], t, h => by simpa [tdSum] using h
  | (k, v) :: r, t, h => by
    simp only [tdSum] at h
    split at h
    · cases h
    · rename_i hany
      cases hu : unitOf k with
      | none => simp [hu] at h
      | some un =>
        cases hr : tdSum r with
        | none => simp [hu, hr] at h
        | some t' =>
          have ht : t = un * v + t' := by simpa [hu, hr] using h.symm
          have ih := tdSum_filter r t' hr
          rw [List.filter_cons]
          by_cases hv : v = 0
          · have : nz (k, v) = false := by simp [nz, hv]
            subst hv
            simp only [this, Bool.false_eq_true, if_false, ih, ht]; simp
          · have : nz (k, v) = true := by simp [nz, hv]
            simp only [this, if_true, tdSum]
            have hany' : ¬ ((r.filter nz).any fun p => p.1 == k) = true := by
              intro hc; apply hany
              rw [List.any_eq_true] at hc ⊢
              obtain ⟨x, hx, hxk⟩ := hc
              exact ⟨x, (List.mem_filter.mp hx).1, hxk⟩
            simp [hany', hu, ih, ht]

theorem tdSum_all (days hours minutes seconds ms us : Int) :
    tdSum ((str_ "days", days) :: restAttrs hours minutes seconds ms us) = some (timedeltaValue days hours minutes seconds ms us) := by
  have e : tdSum ((str_ "days", days) :: restAttrs hours minutes seconds ms us) =
      some (86400000000 * days + (3600000000 * hours + (60000000 * minutes + (1000000 * seconds + (1000 * ms + (1 * us + 0)))))) := by
    rfl
  rw [e, timedeltaValue]; congr 1; omega

/-- the arguments the printer shows, as the proof sees them -/
def tdArgs (ctx : Ctx) (days hours minutes seconds ms us : Int) : List Arg :=
  (if days != 0 then [⟨str_ "days", toksOf (daysDoc ctx days), days⟩] else []) ++
    ((restAttrs hours minutes seconds ms us).filter nz).map fun (k, v) => ⟨k, toksOf (intDoc ctx.nested v), v⟩

theorem tdArgs_values (ctx : Ctx) (days hours minutes seconds ms us : Int) :
    (tdArgs ctx days hours minutes seconds ms us).map (fun a => (a.k, a.v)) =
      ((str_ "days", days) :: restAttrs hours minutes seconds ms us).filter nz := by
  unfold tdArgs
  rw [List.filter_cons]
  by_cases h : days = 0 <;> simp [h, nz, List.map_map, Function.comp_def]

theorem restKey_ok (k : Str) (v : Int) (hours minutes seconds ms us : Int) (h : (k, v) ∈ restAttrs hours minutes seconds ms us) :
    isBlank k = false ∧ k ≠ [44] := by
  simp only [restAttrs, List.mem_cons, Prod.mk.injEq, List.not_mem_nil, or_false] at h
  rcases h with ⟨rfl, _⟩ | ⟨rfl, _⟩ | ⟨rfl, _⟩ | ⟨rfl, _⟩ | ⟨rfl, _⟩ <;> exact ⟨by decide, by decide⟩

theorem tdArgs_ok (ctx : Ctx) (hz : ctx.depthZero = false) (hz' : ctx.nested.depthZero = false)
    (days hours minutes seconds ms us : Int) (h0 : 0 ≤ days)
    (hpos : ∀ p ∈ restAttrs hours minutes seconds ms us, 0 ≤ p.2) :
    ∀ a ∈ tdArgs ctx days hours minutes seconds ms us, a.ok := by
  intro a ha
  unfold tdArgs at ha
  rw [List.mem_append] at ha
  rcases ha with ha | ha
  · split at ha
    · have : a = ⟨str_ "days", toksOf (daysDoc ctx days), days⟩ := by simpa using ha
      subst this
      obtain ⟨h1, h2, h3⟩ := daysDoc_arg ctx hz hz' days h0
      exact ⟨(by decide : isBlank (str_ "days") = false), h1, h2, (by decide : str_ "days" ≠ [44]), h3⟩
    · simp at ha
  · rw [List.mem_map] at ha
    obtain ⟨⟨k, v⟩, hkv, rfl⟩ := ha
    have hm := (List.mem_filter.mp hkv).1
    have hv : 0 ≤ v := hpos _ hm
    obtain ⟨hb, hc⟩ := restKey_ok k v _ _ _ _ _ hm
    refine ⟨hb, ?_, ?_, hc, ?_⟩
    · show noComma (toksOf (intDoc ctx.nested v)); rw [intDoc_arg _ hz' _ hv]; exact noComma_num _ hv
    · show evalExpr (toksOf (intDoc ctx.nested v)) = some v
      rw [intDoc_arg _ hz' _ hv]; simpa [evalExpr] using numTok_intLit v hv
    · show noLit (toksOf (intDoc ctx.nested v)); rw [intDoc_arg _ hz' _ hv]; intro t ht; simp at ht; subst ht; rfl

theorem tdKw_toks (ctx : Ctx) (d s u : Int) :
    let p := timedeltaParts d s u
    (tdKw ctx d s u).map (fun (b, dd) => toksOf (kwargDoc b dd)) =
      (tdArgs ctx p.2.1 p.2.2.1 p.2.2.2.1 p.2.2.2.2.1 p.2.2.2.2.2.1 p.2.2.2.2.2.2).map Arg.toks := by
  intro p
  have := tdKw_eq ctx d s u
  simp only [] at this
  rw [this]
  unfold tdArgs
  simp only [List.map_append, List.map_map]
  congr 1
  · split <;> simp [toksOf_kwargDoc, Arg.toks, p]
  · apply List.map_congr_left
    intro x _
    simp [toksOf_kwargDoc, Arg.toks]

/-! ### the call -/

theorem seqToks_ne_nil : ∀ (segs : List (List CT)), segs ≠ [] → (∀ e ∈ segs, e ≠ []) → seqToks segs false ≠ []
  | [], h, _ => absurd rfl h
  | [t], _, hn => by simpa [seqToks] using hn t (by simp)
  | t :: t2 :: r, _, hn => by simp [seqToks]

theorem Arg.toks_ne_nil (a : Arg) : a.toks ≠ [] := by simp [Arg.toks]

theorem readCall_args (as : List Arg) (hok : ∀ a ∈ as, a.ok) :
    readCall (CT.code nmTimedelta.2 :: LP :: (seqToks (as.map Arg.toks) false ++ [RP])) = tdSum (as.map fun a => (a.k, a.v)) := by
  simp only [readCall, List.getLast?_append, List.getLast?_singleton, Option.some_or, and_self, if_true,
    List.dropLast_concat]
  cases as with
  | nil => simp [seqToks, tdSum]
  | cons a r =>
    have hne : seqToks ((a :: r).map Arg.toks) false ≠ [] :=
      seqToks_ne_nil _ (by simp) (by intro e he; obtain ⟨x, _, rfl⟩ := List.mem_map.mp he; exact x.toks_ne_nil)
    have hsp := splitC_seqToks ((a :: r).map Arg.toks) (by simp)
      (by intro e he; obtain ⟨x, hx, rfl⟩ := List.mem_map.mp he; exact x.toks_noComma (hok x hx))
    have he : (seqToks ((a :: r).map Arg.toks) false).isEmpty = false := by
      cases h : seqToks ((a :: r).map Arg.toks) false with
      | nil => exact absurd h hne
      | cons _ _ => rfl
    rw [he, hsp, mapMO_args _ hok]; rfl

theorem toksOf_timedeltaDoc_eq (ctx : Ctx) (hz : ctx.depthZero = false) (d s u : Int) :
    let p := timedeltaParts d s u
    toksOf (timedeltaDoc ctx d s u) = (if p.1 then [NEG_T] else []) ++
      CT.code nmTimedelta.2 :: LP :: (seqToks ((tdArgs ctx p.2.1 p.2.2.1 p.2.2.2.1 p.2.2.2.2.1 p.2.2.2.2.2.1 p.2.2.2.2.2.2).map Arg.toks) false ++ [RP]) := by
  intro p
  have hp : p = timedeltaParts d s u := rfl
  clear_value p
  subst hp
  have hk := tdKw_toks ctx d s u
  simp only [] at hk
  have hfn : toksOf (generalIdentifier nmTimedelta) = [CT.code nmTimedelta.2] := by decide
  rw [timedeltaDoc_eq, hz]
  simp only [Bool.false_eq_true, if_false]
  have hcall := toksOf_buildFncall ctx.indent (generalIdentifier nmTimedelta) [] (tdKw ctx d s u) false
  have hm : ([] ++ (tdKw ctx d s u).map fun (b, dd) => kwargDoc b dd).map toksOf =
      (tdKw ctx d s u).map (fun (b, dd) => toksOf (kwargDoc b dd)) := by simp [List.map_map, Function.comp_def]
  rw [hm, hk, hfn] at hcall
  split
  · rename_i hn
    simp only [toksOf, toksOfL, negT, hcall, List.append_nil]; simp
  · rename_i hn
    have hn' : (timedeltaParts d s u).1 = false := by simpa using hn
    simp only [toksOf, hcall, List.nil_append]; simp

/-- **C07.timedelta_tokens** — for EVERY timedelta and every context whose depth is not exhausted at the call or at its arguments,
the canonical code tokens of `pretty_timedelta`'s document — `[-] datetime.timedelta ( days = y * 365 + r , hours = h , … )` — read
with Python's arithmetic (`*` before `+`, keyword units, unary minus on the call) give back exactly the original duration. -/
theorem timedelta_tokens (ctx : Ctx) (hz : ctx.depthZero = false) (hz' : ctx.nested.depthZero = false) (d s u : Int) :
    readTimedelta (toksOf (timedeltaDoc ctx d s u)) = some (d * 86400000000 + s * 1000000 + u) := by
  have ht := toksOf_timedeltaDoc_eq ctx hz d s u
  have hr := timedelta_ranges d s u
  have hv := timedelta d s u
  simp only [] at ht hr hv
  generalize timedeltaParts d s u = p at ht hr hv
  obtain ⟨neg, days, hours, minutes, seconds, ms, us⟩ := p
  simp only [] at ht hr hv
  obtain ⟨h0, h1, _, h2, _, h3, _, h4, _, h5, _⟩ := hr
  have hok := tdArgs_ok ctx hz hz' days hours minutes seconds ms us h0 (by
    intro q hq
    simp only [restAttrs, List.mem_cons, List.not_mem_nil, or_false] at hq
    rcases hq with rfl | rfl | rfl | rfl | rfl <;> assumption)
  have hcall := readCall_args _ hok
  rw [tdArgs_values, tdSum_filter _ _ (tdSum_all days hours minutes seconds ms us)] at hcall
  have hd : days / 365 * 365 + days % 365 = days := by omega
  rw [hd] at hv
  rw [ht]
  cases neg with
  | true =>
    simp only [if_true, List.cons_append, List.nil_append, readTimedelta, hcall, Option.map_some]
    simp only [if_true] at hv
    congr 1; omega
  | false =>
    have hne : CT.code nmTimedelta.2 ≠ NEG_T := by decide
    simp only [Bool.false_eq_true, if_false, List.nil_append, readTimedelta, hne, hcall]
    simp only [Bool.false_eq_true, if_false] at hv
    congr 1; omega

/-! ### every layout -/

/-- literal splitting and parentheses around split literals never relate two different literal-free token lists -/
theorem TEq.noLit_eq {a b : List CT} (h : TEq a b) : (noLit a ↔ noLit b) ∧ (noLit a → a = b) := by
  induction h with
  | refl a => exact ⟨Iff.rfl, fun _ => rfl⟩
  | symm _ ih => exact ⟨ih.1.symm, fun hb => (ih.2 (ih.1.mpr hb)).symm⟩
  | trans _ _ ih1 ih2 => exact ⟨ih1.1.trans ih2.1, fun ha => (ih1.2 ha).trans (ih2.2 (ih1.1.mp ha))⟩
  | app _ _ ih1 ih2 =>
    have key : ∀ x y : List CT, noLit (x ++ y) ↔ noLit x ∧ noLit y := by
      intro x y; simp only [noLit, List.mem_append]
      exact ⟨fun h => ⟨fun t ht => h t (Or.inl ht), fun t ht => h t (Or.inr ht)⟩, fun h t ht => ht.elim (h.1 t) (h.2 t)⟩
    refine ⟨?_, ?_⟩
    · rw [key, key, ih1.1, ih2.1]
    · intro h; rw [key] at h; rw [ih1.2 h.1, ih2.2 h.2]
  | split x y => simp [noLit, isLit]
  | splitB x y => simp [noLit, isLit]
  | paren ls h2 _ =>
    have hex : ∃ t ∈ ls, isLit t = true := by
      cases hf : ls.filter isLit with
      | nil => rw [hf] at h2; simp at h2
      | cons t r =>
        have : t ∈ ls.filter isLit := by rw [hf]; simp
        exact ⟨t, (List.mem_filter.mp this).1, (List.mem_filter.mp this).2⟩
    obtain ⟨t, ht, hl⟩ := hex
    have n1 : ¬ noLit (CT.code [40] :: ls ++ [CT.code [41]]) := fun h => by
      have := h t (by simp [ht]); rw [hl] at this; cases this
    have n2 : ¬ noLit ls := fun h => by have := h t ht; rw [hl] at this; cases this
    exact ⟨⟨fun h => absurd h n1, fun h => absurd h n2⟩, fun h => absurd h n1⟩

theorem Arg.toks_noLit (a : Arg) (h : a.ok) : noLit a.toks := by
  intro t ht
  simp only [Arg.toks, cd, h.1, List.mem_append, List.mem_singleton] at ht
  rcases ht with (ht | rfl) | ht
  · have : t = .code a.k := by simpa using ht
    subst this; rfl
  · rfl
  · exact h.2.2.2.2 t ht

theorem seqToks_noLit : ∀ (segs : List (List CT)), (∀ e ∈ segs, noLit e) → noLit (seqToks segs false)
  | [], _ => by simp [seqToks, noLit]
  | [t], h => by simpa [seqToks] using h t (by simp)
  | t :: t2 :: r, h => by
    have ih := seqToks_noLit (t2 :: r) (fun e he => h e (by simp [he]))
    intro x hx
    simp only [seqToks, List.mem_append, List.mem_singleton] at hx
    rcases hx with (hx | rfl) | hx
    · exact h t (by simp) x hx
    · rfl
    · exact ih x hx

theorem noLit_timedelta (ctx : Ctx) (hz : ctx.depthZero = false) (hz' : ctx.nested.depthZero = false) (d s u : Int) :
    noLit (toksOf (timedeltaDoc ctx d s u)) := by
  have ht := toksOf_timedeltaDoc_eq ctx hz d s u
  have hr := timedelta_ranges d s u
  simp only [] at ht hr
  generalize timedeltaParts d s u = p at ht hr
  obtain ⟨neg, days, hours, minutes, seconds, ms, us⟩ := p
  simp only [] at ht hr
  obtain ⟨h0, h1, _, h2, _, h3, _, h4, _, h5, _⟩ := hr
  have hok := tdArgs_ok ctx hz hz' days hours minutes seconds ms us h0 (by
    intro q hq
    simp only [restAttrs, List.mem_cons, List.not_mem_nil, or_false] at hq
    rcases hq with rfl | rfl | rfl | rfl | rfl <;> assumption)
  have hs := seqToks_noLit ((tdArgs ctx days hours minutes seconds ms us).map Arg.toks)
    (by intro e he; obtain ⟨x, hx, rfl⟩ := List.mem_map.mp he; exact x.toks_noLit (hok x hx))
  rw [ht]
  intro t htm
  simp only [List.mem_append, List.mem_cons, List.not_mem_nil, or_false] at htm
  rcases htm with htm | rfl | rfl | htm | rfl
  · split at htm
    · have : t = NEG_T := by simpa using htm
      subst this; rfl
    · simp at htm
  · rfl
  · rfl
  · exact hs t htm
  · rfl

/-- **C07.timedelta_reads_back** — for EVERY timedelta, all settings with `depth` unlimited or at least 2, and EVERY layout the
document denotes (in particular the one `pformat` picks, at every width / ribbon / indent): the code tokens of the output, read with
Python's arithmetic, are the original duration in microseconds — sign, `years * 365 + days`, hours … microseconds included. -/
theorem timedelta_reads_back (st : Settings) (hz : st.ctx.depthZero = false) (hz' : st.ctx.nested.depthZero = false) (d s u : Int)
    {i m c o c'} (h : Lay st.cfg.Ev (topDoc st.ctx (.timedelta d s u)) i m c o c') :
    readTimedelta (ctoks o) = some (d * 86400000000 + s * 1000000 + u) := by
  have ht := C03.any_layout_tokens st (.timedelta d s u) trivial h
  simp only [canonW] at ht
  have hzn : ({ st.ctx.norm with indent := 0 } : Ctx).depthZero = false := by simpa [Ctx.depthZero, Ctx.norm] using hz
  have hzn' : ({ st.ctx.norm with indent := 0 } : Ctx).nested.depthZero = false := by
    simpa [Ctx.depthZero, Ctx.norm, Ctx.nested] using hz'
  have hn := noLit_timedelta _ hzn hzn' d s u
  have he := (TEq.noLit_eq (TEq.symm ht)).2 hn
  rw [← he]
  exact timedelta_tokens _ hzn hzn' d s u

/-- what `pformat` itself emits -/
theorem timedelta_pformat_reads_back (st : Settings) (hz : st.ctx.depthZero = false) (hz' : st.ctx.nested.depthZero = false)
    (d s u : Int) : readTimedelta (ctoks (sdocsM st (.timedelta d s u))) = some (d * 86400000000 + s * 1000000 + u) := by
  obtain ⟨c', hlay⟩ := C04.sound_pformat st (.timedelta d s u)
  exact timedelta_reads_back st hz hz' d s u hlay

/-- faithful: two timedeltas whose documents have the same code tokens are the same duration -/
theorem timedelta_tokens_injective (ctx : Ctx) (hz : ctx.depthZero = false) (hz' : ctx.nested.depthZero = false)
    (d s u d' s' u' : Int) (h : toksOf (timedeltaDoc ctx d s u) = toksOf (timedeltaDoc ctx d' s' u')) :
    d * 86400000000 + s * 1000000 + u = d' * 86400000000 + s' * 1000000 + u' := by
  have h1 := timedelta_tokens ctx hz hz' d s u
  have h2 := timedelta_tokens ctx hz hz' d' s' u'
  rw [h, h2] at h1
  exact (Option.some.inj h1).symm

/-! non-vacuity: the default settings, `depth = 2` and `depth = 5` meet the hypotheses (`depth = 1` does not: the arguments are then
printed as `int(...)`, which is C11's business) -/
example : ({} : Settings).ctx.depthZero = false ∧ ({} : Settings).ctx.nested.depthZero = false := by decide
example : ({ depth := some 2 } : Settings).ctx.depthZero = false ∧ ({ depth := some 2 } : Settings).ctx.nested.depthZero = false := by decide
example : ({ depth := some 1 } : Settings).ctx.nested.depthZero = true := by decide
/-- the reader is not a constant: it rejects what is not a timedelta call and distinguishes values -/
example : readTimedelta [.code nmTimedelta.2, LP, .code (str_ "days"), EQ_T, .code [50], MUL_T, .code [51], ADD_T, .code [52], COMMA_T,
    .code (str_ "hours"), EQ_T, .code [53], RP] = some (10 * 86400000000 + 5 * 3600000000) := by decide
example : readTimedelta [.code nmTimedelta.2, LP, .code (str_ "days"), EQ_T, .code [50], COMMA_T, .code (str_ "days"), EQ_T, .code [53], RP] = none := by
  decide
example : readTimedelta [.code nmTimedelta.2, LP, .code (str_ "weeks"), EQ_T, .code [50], RP] = none := by decide
end PP.C07
