/-
C16 — coloured output is the plain output plus well-nested styling.
-/
import PP.Model.Color
import PP.Generated
namespace PP.C16
open PP Color

theorem stripSGR_append (a b : List Out) : stripSGR (a ++ b) = stripSGR a ++ stripSGR b := by
  induction a with
  | nil => rfl
  | cons x r ih => cases x <;> simp [stripSGR, ih]

theorem strip_events : ∀ (evs : List SDoc) (st : List Nat), stripSGR (colorEvents st evs).1 = evs.flatMap writeSDoc
  | [], st => by simp [colorEvents, stripSGR]
  | .text s :: r, st => by simp [colorEvents, stripSGR, writeSDoc, strip_events r st, List.flatMap_cons]
  | .line i :: r, st => by simp [colorEvents, stripSGR, writeSDoc, strip_events r st, List.flatMap_cons]
  | .push (.tok t) :: r, st => by simp [colorEvents, stripSGR, writeSDoc, strip_events r (t :: st), List.flatMap_cons]
  | .push (.comment c) :: r, st => by simp [colorEvents, writeSDoc, strip_events r st, List.flatMap_cons]
  | .push (.other n) :: r, st => by simp [colorEvents, writeSDoc, strip_events r st, List.flatMap_cons]
  | .pop (.tok t) :: r, st => by
      match st with
      | [] => simp [colorEvents, writeSDoc, strip_events r [], List.flatMap_cons]
      | [x] => simp [colorEvents, stripSGR, writeSDoc, strip_events r [], List.flatMap_cons]
      | x :: u :: st2 => simp [colorEvents, stripSGR, writeSDoc, strip_events r (u :: st2), List.flatMap_cons]
  | .pop (.comment c) :: r, st => by simp [colorEvents, writeSDoc, strip_events r st, List.flatMap_cons]
  | .pop (.other n) :: r, st => by simp [colorEvents, writeSDoc, strip_events r st, List.flatMap_cons]

/-- **C16.strip** — for EVERY SDoc stream (any nesting of token and non-token annotations, balanced or not):
removing the styling from what the colour renderer writes gives exactly the plain rendering -/
theorem strip (out : List SDoc) : stripSGR (colorRender out) = render out := by
  unfold colorRender render
  simp only []
  have h := strip_events (strippedStream out) []
  generalize colorEvents [] (strippedStream out) = p at h
  obtain ⟨o, st⟩ := p
  simp only at h ⊢
  have hr : (asLines out).flatMap renderLine = (strippedStream out).flatMap writeSDoc := by
    unfold strippedStream renderLine
    simp [List.flatMap_assoc]
  split
  · rw [h, hr]
  · rw [stripSGR_append, h, hr]; simp [stripSGR]

theorem styled_events : ∀ (evs : List SDoc) (st : List Nat),
    styled st.head? (colorEvents st evs).1 = tagged st evs ∧ finalState st.head? (colorEvents st evs).1 = (colorEvents st evs).2.head?
  | [], st => by simp [colorEvents, styled, tagged, finalState]
  | .text s :: r, st => by
      have := styled_events r st; simp [colorEvents, styled, tagged, finalState, this.1, this.2]
  | .line i :: r, st => by
      have := styled_events r st; simp [colorEvents, styled, tagged, finalState, this.1, this.2]
  | .push (.tok t) :: r, st => by
      have := styled_events r (t :: st); simpa [colorEvents, styled, tagged, finalState] using this
  | .push (.comment c) :: r, st => by simpa [colorEvents, tagged] using styled_events r st
  | .push (.other n) :: r, st => by simpa [colorEvents, tagged] using styled_events r st
  | .pop (.tok t) :: r, st => by
      match st with
      | [] => simpa [colorEvents, tagged] using styled_events r []
      | [x] => have := styled_events r []; simpa [colorEvents, styled, tagged, finalState] using this
      | x :: u :: st2 => have := styled_events r (u :: st2); simpa [colorEvents, styled, tagged, finalState] using this
  | .pop (.comment c) :: r, st => by simpa [colorEvents, tagged] using styled_events r st
  | .pop (.other n) :: r, st => by simpa [colorEvents, tagged] using styled_events r st

/-- **C16.innermost / restore_on_pop** — interpreting the written SGR sequences with the terminal's state machine,
every written character is shown in the style of the innermost open syntax-token annotation (reset state if there is
none); in particular the enclosing token's style is back in force after an inner token ends, and non-token
annotations inside or outside tokens change nothing -/
theorem innermost (out : List SDoc) :
    styled none (colorEvents [] (strippedStream out)).1 = tagged [] (strippedStream out) :=
  (styled_events (strippedStream out) []).1

/-- **C16.ends_reset** — whatever was rendered, the stream ends in the reset state: no colour leaks -/
theorem ends_reset (out : List SDoc) : finalState none (colorRender out) = none := by
  unfold colorRender
  have h := (styled_events (strippedStream out) []).2
  generalize colorEvents [] (strippedStream out) = p at h
  obtain ⟨o, st⟩ := p
  simp only [List.head?_nil] at h ⊢
  split
  · rename_i he
    have : st = [] := by simpa using he
    subst this; simpa using h
  · have hf : ∀ (a : List Out) (c : Option Nat), finalState c (a ++ [.reset]) = none := by
      intro a; induction a with
      | nil => intro c; rfl
      | cons x r ih => intro c; cases x <;> simp [finalState, ih]
    exact hf o none

/-- **C16.table_total** — over the tables regenerated from `/repo` on every run: every syntax token the printers can
attach has an entry in the token → pygments table -/
theorem table_total : (Generated.emittedTokens.all fun t => Generated.colorTableKeys.contains t) = true := by decide

/-- every token name used anywhere is a member of the Token enum -/
theorem tokens_exist : (Generated.emittedTokens.all fun t => Generated.tokenNames.contains t) = true ∧
    (Generated.colorTableKeys.all fun t => Generated.tokenNames.contains t) = true := by decide

/-- the style builder is total: every one of the 32 attribute shapes yields a style that starts from reset -/
theorem styleOf_total (a : Attrs) : (styleOf a).head? = some .reset := by
  unfold styleOf; rfl

end PP.C16
