/-
C04 — the layout engine only ever picks one of the layouts a document denotes.
Property theorems only; helper lemmas live in PP/Proofs.
-/
import PP.Proofs.Sound
import PP.Model.Render
import PP.Model.Values
import PP.Proofs.EvBound
namespace PP.C04
open PP Doc

/-- **C04.sound** — for every document of the combinator algebra (incl. `fill`, `align`/`hang`, general
`flat_choice`, annotations, plain strings, string contextuals), every page width and ribbon width and both
strategies, the emitted SDoc stream is a rendering of the document in the reference semantics `Lay`:
every text fragment once and in order, line breaks indented by the enclosing nest/align offsets, flat
alternatives only in flat mode, always_break content broken, annotations as matching push/pop pairs. -/
theorem sound (cfg : Cfg) (hb : cfg.EvBounded) (d : Doc) :
    ∃ c', Lay cfg.Ev d 0 .brk 0 (layout cfg d) c' :=
  layout_sound cfg hb d

/-- the same for the engine without string contextuals (the default evaluator): no hypothesis at all -/
theorem sound_plain (w rw : Int) (smart : Bool) (d : Doc) :
    ∃ c', Lay (Cfg.Ev { w := w, rw := rw, smart := smart }) d 0 .brk 0
      (layout { w := w, rw := rw, smart := smart } d) c' :=
  layout_sound _ (by intro sp i c; simp [Doc.normalize, Doc.size, StrSpec.bound]) d

/-- **C04.sound_pformat** — engine soundness for the configuration `pformat` really runs (string contextuals evaluated
by `pretty_str`'s evaluator): no hypothesis.  The stream printed for *any* value, with any settings, is a rendering of
the document the printers built. -/
theorem sound_pformat (s : Pr.Settings) (v : Pr.PyVal) :
    ∃ c', Lay s.cfg.Ev (Pr.topDoc s.ctx v) 0 .brk 0 (Pr.sdocsM s v) c' :=
  layout_sound s.cfg (Pr.evalStr_bounded _ _ _) _

/-- the same for any document laid out with the string evaluator at any widths -/
theorem sound_str (w rw : Int) (smart : Bool) (d : Doc) :
    ∃ c', Lay (Cfg.Ev { w := w, rw := rw, smart := smart, ev := Pr.evalStr }) d 0 .brk 0
      (layout { w := w, rw := rw, smart := smart, ev := Pr.evalStr } d) c' :=
  layout_sound _ (Pr.evalStr_bounded _ _ _) d

/-! ### annotations come out as properly nested push/pop pairs -/

/-- run the push/pop events of a stream against a stack of open annotations -/
def bal : List SDoc → List Ann → Option (List Ann)
  | [], st => some st
  | .push a :: r, st => bal r (a :: st)
  | .pop a :: r, b :: st => if a = b then bal r st else none
  | .pop _ :: _, [] => none
  | .text _ :: r, st => bal r st
  | .line _ :: r, st => bal r st

theorem bal_append (x y : List SDoc) (st : List Ann) : bal (x ++ y) st = (bal x st).bind (bal y) := by
  induction x generalizing st with
  | nil => simp [bal]
  | cons a x ih =>
    cases a with
    | text s => simp [bal, ih]
    | line i => simp [bal, ih]
    | push a => simp [bal, ih]
    | pop a =>
      cases st with
      | nil => simp [bal]
      | cons b st => simp only [List.cons_append, bal]; split <;> simp [ih]

mutual
theorem lay_bal {E} : ∀ {d i m c o c'}, Lay E d i m c o c' → ∀ st, bal o st = some st
  | _, _, _, _, _, _, .nil, _ => rfl
  | _, _, _, _, _, _, .textE, _ => rfl
  | _, _, _, _, _, _, .text, _ => rfl
  | _, _, _, _, _, _, .hardline, _ => rfl
  | _, _, _, _, _, _, .cat _ _ hl, st => layL_bal hl st
  | _, _, _, _, _, _, .nest _ _ h, st => lay_bal h st
  | _, _, _, _, _, _, .group _ h, st => lay_bal h st
  | _, _, _, _, _, _, .choiceF h, st => lay_bal h st
  | _, _, _, _, _, _, .choiceB h, st => lay_bal h st
  | _, _, _, _, _, _, .ab h, st => lay_bal h st
  | _, _, _, _, _, _, .fill hl, st => layF_bal hl st
  | _, _, _, _, _, _, .ann (a := a) h, st => by
      simp [bal, bal_append, lay_bal h (a :: st)]
  | _, _, _, _, _, _, .align h, st => lay_bal h st
  | _, _, _, _, _, _, .pstr _ h, st => lay_bal h st
theorem layL_bal {E} : ∀ {ds i m c o c'}, LayL E ds i m c o c' → ∀ st, bal o st = some st
  | _, _, _, _, _, _, .nil, _ => rfl
  | _, _, _, _, _, _, .cons hd hl, st => by simp [bal_append, lay_bal hd st, layL_bal hl st]
theorem layF_bal {E} : ∀ {ds i c o c'}, LayF E ds i c o c' → ∀ st, bal o st = some st
  | _, _, _, _, _, .nil, _ => rfl
  | _, _, _, _, _, .cons _ hd hl, st => by simp [bal_append, lay_bal hd st, layF_bal hl st]
end

/-- **C04.ann_balanced** — the push/pop events of every emitted stream are well bracketed and all closed. -/
theorem ann_balanced (cfg : Cfg) (hb : cfg.EvBounded) (d : Doc) : bal (layout cfg d) [] = some [] := by
  obtain ⟨c', h⟩ := sound cfg hb d
  exact lay_bal h []

/-- annotations of everything `pformat` prints are well bracketed — no hypothesis -/
theorem ann_balanced_pformat (s : Pr.Settings) (v : Pr.PyVal) : bal (Pr.sdocsM s v) [] = some [] := by
  obtain ⟨c', h⟩ := sound_pformat s v
  exact lay_bal h []

/-! ### the default renderer alters the text only by trimming trailing whitespace -/

/-- one output line written without any trimming -/
def rawLine (l : List SDoc) : Str := l.flatMap writeSDoc

theorem rstrip_suffix (s : Str) : ∃ ws, s = rstrip s ++ ws ∧ ws.all isSpace = true := by
  unfold rstrip
  refine ⟨(s.reverse.takeWhile isSpace).reverse, ?_, ?_⟩
  · have := List.takeWhile_append_dropWhile (p := isSpace) (l := s.reverse)
    have h2 := congrArg List.reverse this
    simp only [List.reverse_append, List.reverse_reverse] at h2
    exact h2.symm
  · simp [List.all_reverse]

theorem write_nil_of_noText : ∀ (r : List SDoc), r.any isTextEv = false → r.any isLineEv = false →
    r.flatMap writeSDoc = []
  | [], _, _ => rfl
  | x :: r, h1, h2 => by
    simp only [List.any_cons, Bool.or_eq_false_iff] at h1 h2
    cases x with
    | text t => simp [isTextEv] at h1
    | line i => simp [isLineEv] at h2
    | push a => simpa [List.flatMap_cons, writeSDoc] using write_nil_of_noText r h1.2 h2.2
    | pop a => simpa [List.flatMap_cons, writeSDoc] using write_nil_of_noText r h1.2 h2.2

/-- trimming the last text fragment of a run of events without line breaks removes only a whitespace suffix -/
theorem trim_noLine : ∀ (l : List SDoc), l.any isLineEv = false →
    ∃ ws, rawLine l = renderLine l ++ ws ∧ ws.all isSpace = true
  | [], _ => ⟨[], by simp [rawLine, renderLine, stripLastText], rfl⟩
  | x :: r, hl => by
    simp only [List.any_cons, Bool.or_eq_false_iff] at hl
    obtain ⟨ws, h1, h2⟩ := trim_noLine r hl.2
    unfold rawLine renderLine at *
    simp only [stripLastText]
    split
    · exact ⟨ws, by simp [List.flatMap_cons, h1, List.append_assoc], h2⟩
    · rename_i hno
      simp only [Bool.not_eq_true] at hno
      cases x with
      | text s =>
        obtain ⟨ws', e1, e2⟩ := rstrip_suffix s
        refine ⟨ws', ?_, e2⟩
        have hr := write_nil_of_noText r hno hl.2
        simp only [List.flatMap_cons, writeSDoc, hr, List.append_nil]
        exact e1
      | line i => simp [isLineEv] at hl
      | push a => exact ⟨ws, by simp [List.flatMap_cons, h1, List.append_assoc], h2⟩
      | pop a => exact ⟨ws, by simp [List.flatMap_cons, h1, List.append_assoc], h2⟩

/-- **C04.render_trim** — each rendered line (a `line` event followed by events without line breaks, as
`as_lines` produces them) is the untrimmed line minus a suffix of whitespace characters; the indentation,
written by the `line` event itself, is never trimmed. -/
theorem render_trim (x : SDoc) (r : List SDoc) (h : r.any isLineEv = false) :
    ∃ ws, rawLine (x :: r) = renderLine (x :: r) ++ ws ∧ ws.all isSpace = true := by
  cases x with
  | line i =>
    obtain ⟨ws, h1, h2⟩ := trim_noLine r h
    unfold rawLine renderLine at *
    refine ⟨ws, ?_, h2⟩
    simp only [stripLastText]
    split <;> simp [List.flatMap_cons, h1, List.append_assoc]
  | text s => exact trim_noLine _ (by simpa [isLineEv] using h)
  | push a => exact trim_noLine _ (by simpa [isLineEv] using h)
  | pop a => exact trim_noLine _ (by simpa [isLineEv] using h)

end PP.C04
