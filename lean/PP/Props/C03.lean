/-
C03 — width, ribbon and indent change only the layout, never the content.

`ctoks` (Spec/Tokens.lean) reads the code tokens off an SDoc stream: comments, blank text and line breaks dropped, string
literals decoded.  `TEq` identifies token lists that differ only by the splitting of string literals into adjacent
literals and by parentheses around such a run.  Property theorems only; the proofs are in Proofs/Toks*.lean.
-/
import PP.Proofs.ToksVal
import PP.Props.C04
namespace PP.C03
open PP Doc Pr Tok

/-- the evaluator of `pretty_str`, at any widths, is layout-invariant for well-formed strings -/
theorem evalStr_invariant (cfg : Cfg) (hev : cfg.ev = evalStr) :
    ∀ sp, StrOk sp → ∀ d, cfg.Ev sp d → TInv (fun _ => False) d ∧ TEq (toksOf d) (strCanon sp) := by
  intro sp hsp d ⟨i, c, hd⟩
  subst hd
  rw [hev]
  exact evalStr_tokens sp hsp i c cfg.w cfg.rw

theorem toksOf_topDoc (ctx : Ctx) (v : PyVal) : toksOf (topDoc ctx v) = toksOf (toDoc ctx v) := by
  unfold topDoc
  simp only []
  split <;> simp [toksOf, toksOfL]

theorem tinv_topDoc (P) (ctx : Ctx) (v : PyVal) (h : TInv P (toDoc ctx v)) : TInv P (topDoc ctx v) := by
  unfold topDoc
  simp only []
  split
  · simp [TInv, TInvL, toksOf, toksOfL, h, isBlank]; exact TEq.refl _
  · exact h

/-- **C03.output_tokens** — for every well-formed value and all settings, the code tokens of what `pformat` emits are —
up to literal splitting and parentheses around split literals — the canonical tokens `canonW` of the value, which depend
on depth / max_seq_len / sort_dict_keys but not on width, ribbon_width or indent. -/
theorem output_tokens (s : Settings) (v : PyVal) (hw : wfVal v) :
    TEq (ctoks (sdocsM s v)) (canonW s.ctx.norm v none) := by
  obtain ⟨c', hlay⟩ := C04.sound_pformat s v
  obtain ⟨hi, ht, _⟩ := toDocW_ok v s.ctx none none hw
  have h := ctoks_lay (P := StrOk) (evalStr_invariant s.cfg rfl) hlay (tinv_topDoc _ _ _ hi)
  rw [toksOf_topDoc] at h
  unfold toDoc at h
  rw [ht] at h
  exact h

/-- **C03.layout_invariant** — two `pformat` calls on the same value that differ only in width, ribbon_width and
indent emit the same code tokens up to `TEq`: only whitespace, line breaks, comments' placement, the splitting of string
literals and parentheses around split literals differ. -/
theorem layout_invariant (s1 s2 : Settings) (v : PyVal) (hw : wfVal v)
    (hd : s1.depth = s2.depth) (hm : s1.maxSeqLen = s2.maxSeqLen) (hs : s1.sortKeys = s2.sortKeys) :
    TEq (ctoks (sdocsM s1 v)) (ctoks (sdocsM s2 v)) := by
  have h1 := output_tokens s1 v hw
  have h2 := output_tokens s2 v hw
  have hn : s1.ctx.norm = s2.ctx.norm := by
    simp [Settings.ctx, Ctx.norm, hd, hm, hs]
  rw [hn] at h1
  exact .trans h1 (.symm h2)

/-- the same for any two renderings of the document in the reference semantics — every layout the engine could ever
choose, not just the ones it does choose -/
theorem any_layout_tokens (s : Settings) (v : PyVal) (hw : wfVal v) {i m c o c'}
    (h : Lay s.cfg.Ev (topDoc s.ctx v) i m c o c') : TEq (ctoks o) (canonW s.ctx.norm v none) := by
  obtain ⟨hi, ht, _⟩ := toDocW_ok v s.ctx none none hw
  have h := ctoks_lay (P := StrOk) (evalStr_invariant s.cfg rfl) h (tinv_topDoc _ _ _ hi)
  rw [toksOf_topDoc] at h
  unfold toDoc at h
  rw [ht] at h
  exact h

end PP.C03
