/-
C06, the "in particular" clause at the level of the decision: a wider page or ribbon never turns a flat group into a broken one.
In one and the same machine state (stack, column), if the fitting predicate accepts the group at (width, ribbon) it accepts it at every
(width', ribbon') that is at least as large — under both strategies (`fits_mono_fast` for all classic documents incl. `align`,
`fits_mono_smart` for documents without `align`).  The smart look-ahead's demands (`Proofs/SmartSpec.lean`) only ever get more budget.
-/
import PP.Props.C06b
namespace PP.C06
open PP Doc

theorem avail_mono {w w' rw rw' : Int} (hw : w ≤ w') (hr : rw ≤ rw') (col i : Int) : avail w rw col i ≤ avail w' rw' col i := by
  unfold avail; omega

/-- the demands of the smart look-ahead under a wider page and a larger budget for the current line: the same lines, the same
needs, budgets at least as large -/
theorem demands_mono (cfg cfg' : Cfg) (hw : cfg.w ≤ cfg'.w) (mn budget : Int) (acc : Nat) (stk : List Triple)
    (budget' : Int) (hb : budget ≤ budget') (obs : List (Int × Nat)) (h : demands cfg mn budget acc stk = some obs) :
    ∃ obs', demands cfg' mn budget' acc stk = some obs' ∧ (Met obs → Met obs') := by
  fun_induction demands cfg mn budget acc stk generalizing budget' obs with
  | case1 budget acc =>
    cases h
    refine ⟨[(budget', acc)], by simp [demands], ?_⟩
    intro hm; simp only [Met, List.mem_singleton, forall_eq] at *; omega
  | case2 budget acc i m r a ih => obtain ⟨o, h1, h2⟩ := ih budget' hb obs h; exact ⟨o, by rw [demands]; exact h1, h2⟩
  | case3 budget acc i m r ih => obtain ⟨o, h1, h2⟩ := ih budget' hb obs h; exact ⟨o, by rw [demands]; exact h1, h2⟩
  | case4 budget acc i m r s ih => obtain ⟨o, h1, h2⟩ := ih budget' hb obs h; exact ⟨o, by rw [demands]; exact h1, h2⟩
  | case5 budget acc i m r ds ih => obtain ⟨o, h1, h2⟩ := ih budget' hb obs h; exact ⟨o, by rw [demands]; exact h1, h2⟩
  | case6 budget acc i m r a d ih => obtain ⟨o, h1, h2⟩ := ih budget' hb obs h; exact ⟨o, by rw [demands]; exact h1, h2⟩
  | case7 budget acc i m r ds ih => obtain ⟨o, h1, h2⟩ := ih budget' hb obs h; exact ⟨o, by rw [demands]; exact h1, h2⟩
  | case8 budget acc i m r j d ih => obtain ⟨o, h1, h2⟩ := ih budget' hb obs h; exact ⟨o, by rw [demands]; exact h1, h2⟩
  | case9 budget acc i m r d => cases h
  | case10 budget acc i m r hi ih =>
    cases hd : demands cfg mn (cfg.w - i) 0 r with
    | none => simp [hd] at h
    | some o =>
      have ho : obs = (budget, acc) :: o := by simpa [hd] using h.symm
      obtain ⟨o', h1, h2⟩ := ih (cfg'.w - i) (by omega) o hd
      refine ⟨(budget', acc) :: o', by rw [demands]; simp [hi, h1], ?_⟩
      intro hm
      rw [ho, met_cons] at hm
      rw [met_cons]
      exact ⟨by omega, h2 hm.2⟩
  | case11 budget acc i m r hi =>
    cases h
    refine ⟨[(budget', acc)], by rw [demands]; simp [hi], ?_⟩
    intro hm; simp only [Met, List.mem_singleton, forall_eq] at *; omega
  | case12 budget acc i m r l b f ih => obtain ⟨o, h1, h2⟩ := ih budget' hb obs h; exact ⟨o, by rw [demands]; exact h1, h2⟩
  | case13 budget acc i m r d ih => obtain ⟨o, h1, h2⟩ := ih budget' hb obs h; exact ⟨o, by rw [demands]; exact h1, h2⟩
  | case14 budget acc i m r d => cases h
  | case15 budget acc i m r sp => cases h

/-- **C06.fits_mono_smart** — the smart predicate, in one machine state over documents without `align`: accepted with page width `w`
and budget `a` ⇒ accepted with every `w' ≥ w` and `a' ≥ a` -/
theorem fits_mono_smart (cfg cfg' : Cfg) (hs : cfg.smart = true) (hs' : cfg'.smart = true) (hw : cfg.w ≤ cfg'.w)
    (mn a a' : Int) (ha : a ≤ a') (stk : List Triple) (hc : AllClassic0 stk)
    (h : fits cfg mn a stk = true) : fits cfg' mn a' stk = true := by
  unfold fits at h ⊢
  simp only [hs, hs', if_true] at h ⊢
  obtain ⟨obs, hd, hm⟩ := (smart_iff_demands cfg mn a a stk hc).mp h
  obtain ⟨obs', hd', hm'⟩ := demands_mono cfg cfg' hw mn a 0 stk a' ha obs hd
  exact (smart_iff_demands cfg' mn a' a' stk hc).mpr ⟨obs', hd', hm' hm⟩

/-- **C06.fits_mono_fast** — the one-line predicate, all classic documents (incl. `align` / `hang`) -/
theorem fits_mono_fast (cfg cfg' : Cfg) (hs : cfg.smart = false) (hs' : cfg'.smart = false)
    (mn a a' : Int) (ha : a ≤ a') (stk : List Triple) (hc : AllClassic stk)
    (h : fits cfg mn a stk = true) : fits cfg' mn a' stk = true := by
  unfold fits at h ⊢
  simp only [hs, hs', Bool.false_eq_true, if_false] at h ⊢
  obtain ⟨h0, n, hn, hle⟩ := (fits_iff_spec cfg a a stk hc).mp h
  exact (fits_iff_spec cfg' a' a' stk hc).mpr ⟨by omega, n, hn, by omega⟩

/-- **C06.wider_keeps_flat** — the "in particular" clause at the level of the decision: in the same machine state (the group `d` on
top of `r`, indentation `i`, output column `col`), a group that `best_layout` lays out flat at (width, ribbon) is laid out flat at
every (width', ribbon') at least as large; so widening the page can only turn broken groups into flat ones, never the reverse.
Smart strategy (what `pformat` uses), documents without `align`. -/
theorem wider_keeps_flat (cfg cfg' : Cfg) (hs : cfg.smart = true) (hs' : cfg'.smart = true)
    (hw : cfg.w ≤ cfg'.w) (hr : cfg.rw ≤ cfg'.rw) (col i : Int) (d : Doc) (r : List Triple)
    (hc : AllClassic0 ((i, .flat, .doc d) :: r))
    (hflat : fits cfg (min col i) (avail cfg.w cfg.rw col i) ((i, .flat, .doc d) :: r) = true) :
    fits cfg' (min col i) (avail cfg'.w cfg'.rw col i) ((i, .flat, .doc d) :: r) = true :=
  fits_mono_smart cfg cfg' hs hs' hw _ _ _ (avail_mono hw hr col i) _ hc hflat

/-- the same under the fast strategy, for all classic documents -/
theorem wider_keeps_flat_fast (cfg cfg' : Cfg) (hs : cfg.smart = false) (hs' : cfg'.smart = false)
    (hw : cfg.w ≤ cfg'.w) (hr : cfg.rw ≤ cfg'.rw) (col i : Int) (d : Doc) (r : List Triple)
    (hc : AllClassic ((i, .flat, .doc d) :: r))
    (hflat : fits cfg (min col i) (avail cfg.w cfg.rw col i) ((i, .flat, .doc d) :: r) = true) :
    fits cfg' (min col i) (avail cfg'.w cfg'.rw col i) ((i, .flat, .doc d) :: r) = true :=
  fits_mono_fast cfg cfg' hs hs' _ _ _ (avail_mono hw hr col i) _ hc hflat

/-- a group whose flat text and what follows it on the line needs `n` columns, with no forced break on any line the look-ahead walks
over and every following line within the page, is flat as soon as `n` columns are available: the threshold `L` of the property -/
theorem flat_if_enough (cfg : Cfg) (hs : cfg.smart = true) (col i : Int) (d : Doc) (r : List Triple)
    (hc : AllClassic0 ((i, .flat, .doc d) :: r)) (n0 : Nat) (rest : List (Int × Nat))
    (hd : demands cfg (min col i) (avail cfg.w cfg.rw col i) 0 ((i, .flat, .doc d) :: r) = some ((avail cfg.w cfg.rw col i, n0) :: rest))
    (hn : (n0 : Int) ≤ avail cfg.w cfg.rw col i) (hrest : Met rest) :
    fits cfg (min col i) (avail cfg.w cfg.rw col i) ((i, .flat, .doc d) :: r) = true := by
  unfold fits
  simp only [hs, if_true]
  exact (smart_iff_demands cfg _ _ _ _ hc).mpr ⟨_, hd, met_cons.mpr ⟨hn, hrest⟩⟩

/-- non-vacuity: `group(aa line bb)` at column 0 is accepted at width 5 (and so at 6, 7, …) and rejected at width 4 -/
example : fits { w := 5, rw := 5 } 0 (avail 5 5 0 0) [(0, .flat, .doc (.cat [.text [97, 97], line, .text [98, 98]]))] = true := by decide +kernel
example : fits { w := 4, rw := 4 } 0 (avail 4 4 0 0) [(0, .flat, .doc (.cat [.text [97, 97], line, .text [98, 98]]))] = false := by decide +kernel

end PP.C06
