/-
C08 / C17, the evaluation clause, on tokens: what is printed for a subclass instance reads back (reader of Spec/Reader.lean)
as the call of the subclass on the reading of the underlying built-in value; what is printed for a call-style object reads
back as that call: the callable's name, the positional arguments in order, then the keyword arguments in the order given.
-/
import PP.Props.C01b
namespace PP
open Doc Pr Tok

namespace C08

/-- what the printed form of a non-empty list / tuple / set subclass instance denotes: `Cls(<the underlying literal>)` -/
theorem seq_denotes (kind : Nat) (q : QualName) (x : PyVal) (xs : List PyVal) :
    erase (.seq kind (some q) (x :: xs)) = .call q.2 [erase (.seq kind none (x :: xs))] := by
  simp [erase, wrapNE]

/-- an empty instance denotes `Cls()` -/
theorem seq_empty_denotes (kind : Nat) (q : QualName) : erase (.seq kind (some q) []) = .call q.2 [] := by
  simp [erase, wrapNE]

theorem dict_denotes (q : QualName) (kv : PyVal × PyVal) (kvs : List (PyVal × PyVal)) :
    erase (.dict (some q) (kv :: kvs)) = .call q.2 [erase (.dict none (kv :: kvs))] := by
  simp [erase, wrapNE]

theorem dict_empty_denotes (q : QualName) : erase (.dict (some q) []) = .call q.2 [] := by
  simp [erase, wrapNE]

/-- a frozenset subclass is printed around a list literal: `Cls([..])` -/
theorem frozenset_denotes (q : QualName) (x : PyVal) (xs : List PyVal) :
    erase (.frozenset (some q) (x :: xs)) = .call q.2 [.list (eraseL (x :: xs))] := by
  simp [erase, fsetR]

theorem int_denotes (q : QualName) (val : Int) (lit : Str) : erase (.int (some q) val lit) = .call q.2 [erase (.int none val lit)] := by
  simp [erase, wrapR]

theorem str_denotes (q : QualName) (b : Bool) (s : PyStr.PS) : erase (.str (some q) b s) = .call q.2 [erase (.str none b s)] := by
  simp [erase, wrapR]

theorem float_denotes (q : QualName) (lit : Str) (n d : Int) :
    erase (.float (some q) 0 lit n d) = .call q.2 [erase (.float none 0 lit n d)] := by
  simp [erase, floatR, wrapR]

/-- inf / nan of a float subclass: `Cls('inf')` — the class applied to the string, as `float('inf')` itself -/
theorem float_special_denotes (q : QualName) (kind : Nat) (hk : kind ≠ 0) (lit : Str) (n d : Int) :
    erase (.float (some q) kind lit n d) = .call q.2 [.str false (floatName kind)] := by
  simp [erase, floatR, hk]

/-- **C08.output_reads_back** — the printed text of a subclass instance (any of the nine bases, nested values of the readable
fragment inside) at every width / ribbon / indent reads back, up to literal splitting, to what `seq_denotes` … `float_denotes`
say: the call of the subclass's name on the underlying value. -/
theorem output_reads_back (s : Settings) (v : PyVal) (hw : wfVal v) (hin : inRd v = true)
    (hd : s.depth = none) (hm : s.maxSeqLen = none) (hs : s.sortKeys = false) :
    ∃ ts, TEq (ctoks (sdocsM s v)) ts ∧ parseV (need v) ts = some (erase v, []) :=
  C01.output_reads_back' s v hw hin hd hm hs

end C08

namespace C17

/-- what the printed form of a call-style object denotes: the callable's name applied to the positional arguments in order,
followed by the keyword arguments `name = value` in the order given -/
theorem call_denotes (f : QualName) (args : List PyVal) (kwargs : List (Str × PyVal)) (hn : okName f.2 = true) :
    erase (.call f args kwargs) = .call f.2 (eraseL args ++ eraseK kwargs) := by
  simp [erase, okName_not_fsetLit f args kwargs hn, callR]

theorem kwargs_denote (k : Str) (v : PyVal) (r : List (Str × PyVal)) : eraseK ((k, v) :: r) = .kwarg k (erase v) :: eraseK r := by
  simp [eraseK]

/-- **C17.output_reads_back** — evaluating the printed text performs that call: at every width / ribbon / indent the output
reads back, up to literal splitting, to `call_denotes`. -/
theorem output_reads_back (s : Settings) (f : QualName) (args : List PyVal) (kwargs : List (Str × PyVal))
    (hw : wfVal (.call f args kwargs)) (hin : inRd (.call f args kwargs) = true) (hn : okName f.2 = true)
    (hd : s.depth = none) (hm : s.maxSeqLen = none) (hs : s.sortKeys = false) :
    ∃ ts, TEq (ctoks (sdocsM s (.call f args kwargs))) ts ∧
      parseV (need (.call f args kwargs)) ts = some (.call f.2 (eraseL args ++ eraseK kwargs), []) := by
  have := C01.output_reads_back' s (.call f args kwargs) hw hin hd hm hs
  rwa [call_denotes f args kwargs hn] at this

end C17
end PP
