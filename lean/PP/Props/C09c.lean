/-
C09, the evaluation clause, for both kinds of comments: what is printed for a commented value reads back (reader of
Spec/Reader.lean) to exactly what the uncommented value reads back to.  `trailing_comment` is not token-inert (it adds a
comma before the closing bracket), but the comma is one the grammar allows, so the *reading* is unchanged.
-/
import PP.Props.C01b
namespace PP.C09
open PP Doc Pr Tok

mutual
/-- the value with every `comment()` and `trailing_comment()` wrapper removed, at every depth -/
def bare : PyVal → PyVal
  | .commented v _ => bare v
  | .trailing v _ => bare v
  | .seq k c xs => .seq k c (bareL xs)
  | .frozenset c xs => .frozenset c (bareL xs)
  | .dict c kvs => .dict c (bareP kvs)
  | .call f args kwargs => .call f (bareL args) (bareK kwargs)
  | v => v
def bareL : List PyVal → List PyVal
  | [] => []
  | v :: r => bare v :: bareL r
def bareK : List (Str × PyVal) → List (Str × PyVal)
  | [] => []
  | (k, v) :: r => (k, bare v) :: bareK r
def bareP : List (PyVal × PyVal) → List (PyVal × PyVal)
  | [] => []
  | (k, v) :: r => (bare k, bare v) :: bareP r
end

theorem bareL_isEmpty (xs : List PyVal) : (bareL xs).isEmpty = xs.isEmpty := by cases xs <;> simp [bareL]
theorem bareP_isEmpty (xs : List (PyVal × PyVal)) : (bareP xs).isEmpty = xs.isEmpty := by
  cases xs with
  | nil => simp [bareP]
  | cons p r => obtain ⟨k, v⟩ := p; simp [bareP]

theorem isListLit_bare : ∀ (x : PyVal), isListLit (stripComments (bare x)) = isListLit (stripComments x)
  | .commented v _ => by simp only [bare, stripComments]; exact isListLit_bare v
  | .trailing v _ => by simp only [bare, stripComments]; exact isListLit_bare v
  | .seq k c xs => by
      simp only [bare, stripComments]
      cases xs with
      | nil => simp [bareL, isListLit]
      | cons y ys => cases k <;> cases c <;> simp [bareL, isListLit]
  | .frozenset _ _ => rfl
  | .dict _ _ => rfl
  | .call _ _ _ => rfl
  | .none => rfl
  | .ellipsis => rfl
  | .bool _ => rfl
  | .int _ _ _ => rfl
  | .float _ _ _ _ _ => rfl
  | .str _ _ _ => rfl
  | .opaque _ => rfl
  | .timedelta _ _ _ => rfl
  | .ident _ => rfl
  | .path _ _ => rfl

theorem fsetLit_bare (f : QualName) (args : List PyVal) (kwargs : List (Str × PyVal)) :
    fsetLit f (bareL args) (bareK kwargs) = fsetLit f args kwargs := by
  have hk : (bareK kwargs).isEmpty = kwargs.isEmpty := by
    cases kwargs with
    | nil => rfl
    | cons p r => obtain ⟨k, v⟩ := p; simp [bareK]
  have ha : soleListLit (bareL args) = soleListLit args := by
    cases args with
    | nil => rfl
    | cons x r =>
      cases r with
      | nil => simp only [bareL, soleListLit]; exact isListLit_bare x
      | cons x2 r2 => simp [bareL, soleListLit]
  simp only [fsetLit, hk, ha]

theorem floatPh_bare (f : QualName) (args : List PyVal) (kwargs : List (Str × PyVal)) (h : floatPh f args kwargs = true) :
    floatPh f (bareL args) (bareK kwargs) = true := by
  simp only [floatPh, Bool.and_eq_true, beq_iff_eq, List.isEmpty_iff] at h
  obtain ⟨⟨hname, hk0⟩, hshape⟩ := h
  subst hk0
  cases args with
  | nil => simp [soleStrPh] at hshape
  | cons x r =>
    cases r with
    | cons x2 r2 => cases x <;> simp [soleStrPh] at hshape
    | nil =>
      cases x with
      | ident parts => simpa [floatPh, hname, bareL, bareK, bare, soleStrPh] using hshape
      | _ => simp [soleStrPh] at hshape

mutual
/-- comments are invisible to what a value denotes -/
theorem erase_bare : (v : PyVal) → erase (bare v) = erase v
  | .commented v _ => by simp only [bare, erase]; exact erase_bare v
  | .trailing v _ => by simp only [bare, erase]; exact erase_bare v
  | .seq k c xs => by simp only [bare, erase, eraseL_bare xs, bareL_isEmpty]
  | .frozenset c xs => by simp only [bare, erase, eraseL_bare xs, bareL_isEmpty]
  | .dict c kvs => by simp only [bare, erase, eraseP_bare kvs, bareP_isEmpty]
  | .call f args kwargs => by simp only [bare, erase, eraseL_bare args, eraseK_bare kwargs, fsetLit_bare]
  | .none => rfl
  | .ellipsis => rfl
  | .bool _ => rfl
  | .int _ _ _ => rfl
  | .float _ _ _ _ _ => rfl
  | .str _ _ _ => rfl
  | .opaque _ => rfl
  | .timedelta _ _ _ => rfl
  | .ident _ => rfl
  | .path _ _ => rfl
theorem eraseL_bare : (xs : List PyVal) → eraseL (bareL xs) = eraseL xs
  | [] => rfl
  | v :: r => by simp only [bareL, eraseL, erase_bare v, eraseL_bare r]
theorem eraseK_bare : (xs : List (Str × PyVal)) → eraseK (bareK xs) = eraseK xs
  | [] => rfl
  | (k, v) :: r => by simp only [bareK, eraseK, erase_bare v, eraseK_bare r]
theorem eraseP_bare : (xs : List (PyVal × PyVal)) → eraseP (bareP xs) = eraseP xs
  | [] => rfl
  | (k, v) :: r => by simp only [bareP, eraseP, erase_bare k, erase_bare v, eraseP_bare r]
end

mutual
theorem inRd_bare : (v : PyVal) → inRd v = true → inRd (bare v) = true
  | .commented v _, h => by simp only [bare]; exact inRd_bare v (by simpa [inRd] using h)
  | .trailing v _, h => by
      simp only [bare]
      simp only [inRd, Bool.and_eq_true] at h
      exact inRd_bare v h.1
  | .seq k c xs, h => by
      simp only [inRd, Bool.and_eq_true] at h
      simp only [bare, inRd, Bool.and_eq_true]
      exact ⟨h.1, inRdL_bare xs h.2⟩
  | .frozenset c xs, h => by
      simp only [inRd, Bool.and_eq_true] at h
      simp only [bare, inRd, Bool.and_eq_true]
      exact ⟨h.1, inRdL_bare xs h.2⟩
  | .dict c kvs, h => by
      simp only [inRd, Bool.and_eq_true] at h
      simp only [bare, inRd, Bool.and_eq_true]
      exact ⟨h.1, inRdP_bare kvs h.2⟩
  | .call f args kwargs, h => by
      simp only [inRd, Bool.and_eq_true] at h
      simp only [bare, inRd, Bool.and_eq_true]
      refine ⟨⟨?_, inRdL_bare args h.1.2⟩, inRdK_bare kwargs h.2⟩
      rcases Bool.or_eq_true _ _ |>.mp h.1.1 with h1 | h1
      · rw [fsetLit_bare]; simp [h1]
      · simp [floatPh_bare f args kwargs h1]
  | .none, h => h
  | .ellipsis, h => h
  | .bool _, h => h
  | .int _ _ _, h => h
  | .float _ _ _ _ _, h => h
  | .str _ _ _, h => h
  | .opaque _, h => h
  | .timedelta _ _ _, h => h
  | .ident _, h => h
  | .path _ _, h => h
theorem inRdL_bare : (xs : List PyVal) → inRdL xs = true → inRdL (bareL xs) = true
  | [], _ => rfl
  | v :: r, h => by
      simp only [inRdL, Bool.and_eq_true] at h
      simp only [bareL, inRdL, Bool.and_eq_true]
      exact ⟨inRd_bare v h.1, inRdL_bare r h.2⟩
theorem inRdK_bare : (xs : List (Str × PyVal)) → inRdK xs = true → inRdK (bareK xs) = true
  | [], _ => rfl
  | (k, v) :: r, h => by
      simp only [inRdK, Bool.and_eq_true] at h
      simp only [bareK, inRdK, Bool.and_eq_true]
      exact ⟨⟨h.1.1, inRd_bare v h.1.2⟩, inRdK_bare r h.2⟩
theorem inRdP_bare : (xs : List (PyVal × PyVal)) → inRdP xs = true → inRdP (bareP xs) = true
  | [], _ => rfl
  | (k, v) :: r, h => by
      simp only [inRdP, Bool.and_eq_true] at h
      simp only [bareP, inRdP, Bool.and_eq_true]
      exact ⟨⟨inRd_bare k h.1.1, inRd_bare v h.1.2⟩, inRdP_bare r h.2⟩
end

mutual
theorem wf_bare : (v : PyVal) → wfVal v → wfVal (bare v)
  | .commented v _, h => by simp only [bare]; exact wf_bare v (by simpa [wfVal] using h)
  | .trailing v _, h => by simp only [bare]; exact wf_bare v (by simpa [wfVal] using h)
  | .seq k c xs, h => by simp only [bare, wfVal]; exact wfL_bare xs (by simpa [wfVal] using h)
  | .frozenset c xs, h => by simp only [bare, wfVal]; exact wfL_bare xs (by simpa [wfVal] using h)
  | .dict c kvs, h => by simp only [bare, wfVal]; exact wfP_bare kvs (by simpa [wfVal] using h)
  | .call f args kwargs, h => by
      simp only [wfVal] at h
      simp only [bare, wfVal]; exact ⟨wfL_bare args h.1, wfK_bare kwargs h.2⟩
  | .none, h => h
  | .ellipsis, h => h
  | .bool _, h => h
  | .int _ _ _, h => h
  | .float _ _ _ _ _, h => h
  | .str _ _ _, h => h
  | .opaque _, h => h
  | .timedelta _ _ _, h => h
  | .ident _, h => h
  | .path _ _, h => h
theorem wfL_bare : (xs : List PyVal) → wfVals xs → wfVals (bareL xs)
  | [], _ => trivial
  | v :: r, h => by simp only [wfVals] at h; simp only [bareL, wfVals]; exact ⟨wf_bare v h.1, wfL_bare r h.2⟩
theorem wfK_bare : (xs : List (Str × PyVal)) → wfKws xs → wfKws (bareK xs)
  | [], _ => trivial
  | (k, v) :: r, h => by simp only [wfKws] at h; simp only [bareK, wfKws]; exact ⟨wf_bare v h.1, wfK_bare r h.2⟩
theorem wfP_bare : (xs : List (PyVal × PyVal)) → wfPairs xs → wfPairs (bareP xs)
  | [], _ => trivial
  | (k, v) :: r, h => by
      simp only [wfPairs] at h; simp only [bareP, wfPairs]; exact ⟨wf_bare k h.1, wf_bare v h.2.1, wfP_bare r h.2.2⟩
end

/-- **C09.comments_do_not_change_the_reading** — for every value of the readable fragment (built-ins, subclass instances,
call-style objects; `comment()` and `trailing_comment()` wrappers with any text at any nodes — except a non-empty trailing
comment on an empty dict-subclass instance, K7), with the limits off, at every width / ribbon / indent: the printed text of
the commented value and the printed text of the bare value have (up to literal splitting) token sequences that the reader
reads as one and the same expression. -/
theorem comments_do_not_change_the_reading (s : Settings) (v : PyVal) (hw : wfVal v) (hin : inRd v = true)
    (hd : s.depth = none) (hm : s.maxSeqLen = none) (hs : s.sortKeys = false) :
    ∃ r ts ts', TEq (ctoks (sdocsM s v)) ts ∧ parseV (need v) ts = some (r, []) ∧
      TEq (ctoks (sdocsM s (bare v))) ts' ∧ parseV (need (bare v)) ts' = some (r, []) := by
  obtain ⟨ts, h1, h2⟩ := C01.output_reads_back' s v hw hin hd hm hs
  obtain ⟨ts', h3, h4⟩ := C01.output_reads_back' s (bare v) (wf_bare v hw) (inRd_bare v hin) hd hm hs
  rw [erase_bare] at h4
  exact ⟨erase v, ts, ts', h1, h2, h3, h4⟩

end PP.C09
