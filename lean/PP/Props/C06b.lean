/-
C06, the smart strategy characterised: reason (c) of the property — "would push a following, more deeply indented line past the
page width" — as a statement about the lines the look-ahead walks over (`Proofs/SmartSpec.lean`), for documents without `align`.
-/
import PP.Proofs.SmartSpec
import PP.Props.C06
namespace PP.C06
open PP Doc

/-- **C06.smart_iff_demands** — the smart predicate, asked with budget `a` for the current line, holds exactly when no forced
break starts on a line it walks over and every such line is narrow enough: the current line (the group and what follows it) fits
in `a`, and every following line — the walk goes on only over line breaks indented more than `mn` — fits in the page width minus
its indentation. -/
theorem smart_iff_demands (cfg : Cfg) (mn mw a : Int) (stk : List Triple) (hc : AllClassic0 stk) :
    fitsSmart cfg mn mw a stk = true ↔ ∃ obs, demands cfg mn a 0 stk = some obs ∧ Met obs :=
  fitsSmart_iff_demands cfg mn mw a stk hc a 0 (by simp)

/-- **C06.broken_only_if_smart** — under the smart strategy a group (at column `col`, indentation `i`, page / ribbon leaving `a`
columns) is laid out broken only if
(a) a forced-break document starts on one of the lines the look-ahead walks over, or
(b) the flat text of the group and what follows it on its line needs more than `a` columns, or
(c) a FOLLOWING line needs more than the page width minus its indentation — and the look-ahead reaches a following line only
    through line breaks indented more than `min col i`: that is the property's "following, more deeply indented line". -/
theorem broken_only_if_smart (cfg : Cfg) (hs : cfg.smart = true) (col i : Int) (d : Doc) (r : List Triple)
    (hc : AllClassic0 ((i, .flat, .doc d) :: r))
    (hbrk : fits cfg (min col i) (avail cfg.w cfg.rw col i) ((i, .flat, .doc d) :: r) = false) :
    demands cfg (min col i) (avail cfg.w cfg.rw col i) 0 ((i, .flat, .doc d) :: r) = none
    ∨ ∃ n0 rest, demands cfg (min col i) (avail cfg.w cfg.rw col i) 0 ((i, .flat, .doc d) :: r) = some ((avail cfg.w cfg.rw col i, n0) :: rest)
        ∧ (avail cfg.w cfg.rw col i < (n0 : Int) ∨ ∃ p ∈ rest, p.1 < (p.2 : Int)) := by
  unfold fits at hbrk
  simp only [hs, if_true] at hbrk
  have hnot : ¬ ∃ obs, demands cfg (min col i) (avail cfg.w cfg.rw col i) 0 ((i, .flat, .doc d) :: r) = some obs ∧ Met obs := by
    intro h
    rw [(smart_iff_demands cfg _ _ _ _ hc).mpr h] at hbrk
    cases hbrk
  cases hd : demands cfg (min col i) (avail cfg.w cfg.rw col i) 0 ((i, .flat, .doc d) :: r) with
  | none => exact Or.inl rfl
  | some obs =>
    right
    obtain ⟨n0, rest, e, _⟩ := demands_head _ _ _ _ _ obs hd
    subst e
    refine ⟨n0, rest, rfl, ?_⟩
    by_cases h0 : (n0 : Int) ≤ avail cfg.w cfg.rw col i
    · right
      refine Classical.byContradiction fun hno => hnot ⟨_, hd, met_cons.mpr ⟨h0, ?_⟩⟩
      intro p hp
      refine Classical.byContradiction fun hlt => hno ⟨p, hp, by omega⟩
    · left; omega

/-- **C06.flat_only_if_smart** — conversely: a group the smart strategy lays out flat fits on its line, and so does every
following line the look-ahead walked over -/
theorem flat_only_if_smart (cfg : Cfg) (hs : cfg.smart = true) (col i : Int) (d : Doc) (r : List Triple)
    (hc : AllClassic0 ((i, .flat, .doc d) :: r))
    (hflat : fits cfg (min col i) (avail cfg.w cfg.rw col i) ((i, .flat, .doc d) :: r) = true) :
    ∃ obs, demands cfg (min col i) (avail cfg.w cfg.rw col i) 0 ((i, .flat, .doc d) :: r) = some obs ∧ Met obs := by
  unfold fits at hflat
  simp only [hs, if_true] at hflat
  exact (smart_iff_demands cfg _ _ _ _ hc).mp hflat

/-- non-vacuity, and the bound made visible: `f(` followed by `nest 1 (group(aa line bb) , line ssssssss)` at width 8 — the group
starts at column 2 under indentation 1, so `mn = 1`; the sibling line is indented by 1, which is not MORE than 1: the walk stops at
that line break, the only demand is the current line (`aa bb,` = 6 columns of the 6 left), and the group stays flat -/
example : demands { w := 8, rw := 8 } 1 6 0
    [((1 : Int), Mode.flat, Item.doc (.cat [.text [97, 97], .choice false .hardline (.text [32]), .text [98, 98]])),
     (1, Mode.brk, Item.doc (.text [44])), (1, Mode.brk, Item.doc (.choice false .hardline (.text [32]))),
     (1, Mode.brk, Item.doc (.text [115, 115, 115, 115, 115, 115, 115, 115]))] = some [(6, 6)] := by
  decide +kernel

end PP.C06
