/-
C02 — string and bytes literals are reproduced exactly, however they are split.
-/
import PP.Proofs.StrLines
import PP.Model.StrDoc
import PP.Proofs.RoundTrip
namespace PP.C02
open PP PyStr

/-- **C02.lines_join** — for every positive line budget, quote, `str`/`bytes` value (with arbitrary character
classification bits) and split pattern: splitting never loses, duplicates or reorders characters. -/
theorem lines_join (isBytes slash : Bool) (maxLen : Nat) (hpos : 0 < maxLen) (q : Nat) (s : PS) :
    (strToLines isBytes slash maxLen hpos q s).flatten = s :=
  strToLines_join isBytes slash maxLen hpos q s

/-- **C02.lines_nonempty** — splitting never produces an empty piece. -/
theorem lines_nonempty (isBytes slash : Bool) (maxLen : Nat) (hpos : 0 < maxLen) (q : Nat) (s : PS) :
    ∀ l ∈ strToLines isBytes slash maxLen hpos q s, l ≠ [] :=
  strToLines_nonempty isBytes slash maxLen hpos q s

/-- **C02.budget_positive** — however little width is left, the evaluator hands `str_to_lines` a positive
budget (the 10-column floor), which is what its termination argument needs; termination itself is the
`termination_by` clause of `PyStr.go`. -/
theorem budget_positive (a : Int) : 0 < (max a 10).toNat := Pr.maxLen_pos a

/-- the quote strategy always answers with one of the two quote characters -/
theorem quote_is_quote (s : PS) : determineQuote s = SQ ∨ determineQuote s = DQ := by
  unfold determineQuote; split
  · exact Or.inl rfl
  · split
    · exact Or.inr rfl
    · split
      · exact Or.inl rfl
      · exact Or.inr rfl

/-- the pieces are at most as many as the characters (used for the size bound of the evaluated document) -/
theorem lines_count (isBytes slash : Bool) (maxLen : Nat) (hpos : 0 < maxLen) (q : Nat) (s : PS) :
    (strToLines isBytes slash maxLen hpos q s).length ≤ s.length := by
  have hj := lines_join isBytes slash maxLen hpos q s
  have hn := lines_nonempty isBytes slash maxLen hpos q s
  generalize strToLines isBytes slash maxLen hpos q s = ls at hj hn
  subst hj
  induction ls with
  | nil => simp
  | cons l r ih =>
    have hl : l ≠ [] := hn l (by simp)
    have : 0 < l.length := List.length_pos_iff.mpr hl
    have := ih (fun x hx => hn x (by simp [hx]))
    simp only [List.flatten_cons, List.length_append, List.length_cons]
    omega

/-- **C02.escape_is_repr** — escape_str_for_quote(q, s) (repr, then the two replace chains if repr chose the other quote)
is exactly repr's escaping carried out with quote `q`, for `str` and `bytes` and every value -/
theorem escape_is_repr (isBytes : Bool) (q : Nat) (hq : q = SQ ∨ q = DQ) (s : PS) :
    escapeForQuote isBytes q s = reprBody isBytes q s := escapeForQuote_eq isBytes q hq s

/-- **C02.unescape_escape** — the escaped body, decoded as a Python literal quoted with `q`, is the original value:
no character is lost, duplicated or altered, whichever quote is forced on the piece -/
theorem unescape_escape (isBytes : Bool) (q : Nat) (hq : q = SQ ∨ q = DQ) (s : PS)
    (hw : ∀ c ∈ s, c.cp < (if isBytes then 256 else 1114112)) :
    unescape q (escapeForQuote isBytes q s) = some (cps s) := PyStr.unescape_escape isBytes q hq s hw

/-- pieces of a split string decode, piece by piece, to the original value: the concatenation of the decoded pieces
is the value (join theorem + per-piece round trip) -/
theorem pieces_decode (isBytes slash : Bool) (maxLen : Nat) (hpos : 0 < maxLen) (q : Nat) (hq : q = SQ ∨ q = DQ) (s : PS)
    (hw : ∀ c ∈ s, c.cp < (if isBytes then 256 else 1114112)) :
    ((strToLines isBytes slash maxLen hpos q s).map fun l => unescape q (escapeForQuote isBytes q l)) =
      (strToLines isBytes slash maxLen hpos q s).map fun l => some (cps l) := by
  apply List.map_congr_left
  intro l hl
  apply PyStr.unescape_escape isBytes q hq l
  intro c hc
  apply hw c
  have hj := lines_join isBytes slash maxLen hpos q s
  rw [← hj]
  exact List.mem_flatten.mpr ⟨l, hl, hc⟩

end PP.C02
