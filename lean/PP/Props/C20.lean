/-
C20 — concurrent printing is safe.
Over the small-step model M10 (one shared-state access per step): for EVERY schedule, every thread that finishes
obtains exactly the printer a sequential print would have obtained, and no step can fail.
-/
import PP.Model.Threads
import PP.Props.C15
namespace PP.C20
open PP Reg Thr C15

/-- global invariant relative to the state `s0` in which the concurrent prints started -/
structure GInv (s0 s : State) : Prop where
  eff_const : ∀ c, eff s c = eff s0 c
  def_mono : ∀ c, s.deferred c = none ∨ s.deferred c = s0.deferred c

def ClearPrefix (s : State) (mro : List Cls) (rest : List Cls) : Prop :=
  ∃ pre, mro = pre ++ rest ∧ ∀ x ∈ pre, s.deferred x = none

/-- the first class of the list with an effective registration has no pending deferred entry -/
def Good (s0 s : State) : List Cls → Prop
  | [] => True
  | x :: r => if (eff s0 x).isSome then s.deferred x = none else Good s0 s r

/-- per-thread invariant -/
def TInv (s0 s : State) (t : Thread) : Prop :=
  match t.pc with
  | .start => True
  | .prom1 c p => s0.deferred c = some p ∧ ∃ post, ClearPrefix s t.mro (c :: post)
  | .prom2 c p => s0.deferred c = some p ∧ s.reg c = some p ∧ ∃ post, ClearPrefix s t.mro (c :: post)
  | .prom3 c => (∃ p, s0.deferred c = some p ∧ s.reg c = some p) ∧ ∃ post, ClearPrefix s t.mro (c :: post)
  | .chk => ∃ c r, t.mro = c :: r ∧ s.deferred c = none
  | .sup r => ClearPrefix s t.mro r
  | .disp => Good s0 s t.mro
  | .done res => res = firstEff s0 t.mro

/-- what a step may change: deferred entries only disappear; a promoted registration stays -/
structure Mono (s0 s s' : State) : Prop where
  def_none : ∀ x, s.deferred x = none → s'.deferred x = none
  reg_keep : ∀ c p, s0.deferred c = some p → s.reg c = some p → s'.reg c = some p

theorem Mono.refl (s0 s : State) : Mono s0 s s := ⟨fun _ h => h, fun _ _ _ h => h⟩

theorem clearPrefix_mono {s0 s s' : State} (hm : Mono s0 s s') {mro rest} (h : ClearPrefix s mro rest) :
    ClearPrefix s' mro rest := by
  obtain ⟨pre, e, hc⟩ := h
  exact ⟨pre, e, fun x hx => hm.def_none x (hc x hx)⟩

theorem good_mono {s0 s s' : State} (hm : Mono s0 s s') : ∀ l, Good s0 s l → Good s0 s' l
  | [], _ => trivial
  | x :: r, h => by
    simp only [Good] at h ⊢
    split
    · rename_i he; rw [if_pos he] at h; exact hm.def_none x h
    · rename_i he; rw [if_neg he] at h; exact good_mono hm r h

theorem tinv_mono {s0 s s' : State} (hm : Mono s0 s s') (t : Thread) (h : TInv s0 s t) : TInv s0 s' t := by
  unfold TInv at h ⊢
  cases hpc : t.pc with
  | start => simp
  | prom1 c p =>
    rw [hpc] at h; simp only at h ⊢
    obtain ⟨h1, post, h2⟩ := h
    exact ⟨h1, post, clearPrefix_mono hm h2⟩
  | prom2 c p =>
    rw [hpc] at h; simp only at h ⊢
    obtain ⟨h1, h2, post, h3⟩ := h
    exact ⟨h1, hm.reg_keep c p h1 h2, post, clearPrefix_mono hm h3⟩
  | prom3 c =>
    rw [hpc] at h; simp only at h ⊢
    obtain ⟨⟨p, h1, h2⟩, post, h3⟩ := h
    exact ⟨⟨p, h1, hm.reg_keep c p h1 h2⟩, post, clearPrefix_mono hm h3⟩
  | chk =>
    rw [hpc] at h; simp only at h ⊢
    obtain ⟨c, r, e, hc⟩ := h
    exact ⟨c, r, e, hm.def_none c hc⟩
  | sup r => rw [hpc] at h; simp only at h ⊢; exact clearPrefix_mono hm h
  | disp => rw [hpc] at h; simp only at h ⊢; exact good_mono hm _ h
  | done res => rw [hpc] at h; simp only at h ⊢; exact h

/-- under the global invariant, `Good` makes singledispatch return the nearest effective registration of `s0` -/
theorem dispatch_of_good {s0 s : State} (hg : GInv s0 s) : ∀ l, Good s0 s l → dispatch s l = firstEff s0 l
  | [], _ => rfl
  | x :: r, h => by
    simp only [Good] at h
    have he := hg.eff_const x
    simp only [dispatch, firstEff]
    by_cases hx : (eff s0 x).isSome
    · rw [if_pos hx] at h
      have : s.reg x = eff s0 x := by rw [← he]; simp [eff, h, Option.orElse]
      obtain ⟨q, hq⟩ := Option.isSome_iff_exists.mp hx
      rw [this, hq]
    · rw [if_neg hx] at h
      have hn : eff s0 x = none := by simpa using hx
      have hs : eff s x = none := by rw [he, hn]
      have hreg : s.reg x = none := by
        unfold eff at hs
        cases hd : s.deferred x with
        | some q => simp [hd, Option.orElse] at hs
        | none => simpa [hd, Option.orElse] using hs
      rw [hreg, hn]
      exact dispatch_of_good hg r h

theorem good_of_clear {s0 s : State} : ∀ l, (∀ x ∈ l, s.deferred x = none) → Good s0 s l
  | [], _ => trivial
  | x :: r, h => by
    simp only [Good]
    split
    · exact h x (by simp)
    · exact good_of_clear r (fun y hy => h y (by simp [hy]))

theorem good_of_prefix {s0 s : State} {c : Cls} (hc : s.deferred c = none) :
    ∀ (pre post : List Cls), (∀ x ∈ pre, s.deferred x = none) → (eff s0 c).isSome → Good s0 s (pre ++ c :: post)
  | [], post, _, he => by simp [Good, he, hc]
  | x :: pre, post, h, he => by
    simp only [List.cons_append, Good]
    split
    · exact h x (by simp)
    · exact good_of_prefix hc pre post (fun y hy => h y (by simp [hy])) he

theorem eff_of_deferred {s : State} {c : Cls} {p : Pr} (h : s.deferred c = some p) : eff s c = some p := by
  simp [eff, h, Option.orElse]

/-- **one step** of any thread preserves the global invariant, is monotone, and establishes the stepping thread's
own invariant in the new state -/
theorem step_inv (s0 s : State) (t : Thread) (hg : GInv s0 s) (ht : TInv s0 s t) :
    GInv s0 (tstep s t).1 ∧ Mono s0 s (tstep s t).1 ∧ TInv s0 (tstep s t).1 (tstep s t).2.1 := by
  unfold tstep
  cases hpc : t.pc with
  | start =>
    simp only []
    cases hm : t.mro with
    | nil => exact ⟨hg, Mono.refl _ _, by simp [TInv, hm, Good]⟩
    | cons c r =>
      simp only []
      cases hd : s.deferred c with
      | some p =>
        refine ⟨hg, Mono.refl _ _, ?_⟩
        have h0 : s0.deferred c = some p := by
          rcases hg.def_mono c with h | h
          · rw [h] at hd; cases hd
          · rw [← h]; exact hd
        simp only [TInv]
        exact ⟨h0, r, [], by simp [hm], by simp⟩
      | none =>
        refine ⟨hg, Mono.refl _ _, ?_⟩
        simp only [TInv]
        exact ⟨c, r, rfl, hd⟩
  | prom1 c p =>
    unfold TInv at ht; rw [hpc] at ht; simp only at ht
    obtain ⟨h0, post, hcp⟩ := ht
    simp only []
    have he0 : eff s0 c = some p := eff_of_deferred h0
    refine ⟨⟨?_, ?_⟩, ⟨fun x h => h, ?_⟩, ?_⟩
    · intro x
      by_cases hx : x = c
      · subst hx
        rw [he0]
        rcases hg.def_mono x with hd | hd
        · simp [eff, hd, upd, Option.orElse]
        · simp [eff, hd, h0, Option.orElse]
      · rw [← hg.eff_const x]; simp [eff, upd, hx]
    · exact hg.def_mono
    · intro c' p' h0' hr
      by_cases hx : c' = c
      · subst hx; rw [h0] at h0'; cases h0'; simp [upd]
      · simp [upd, hx, hr]
    · simp only [TInv]
      exact ⟨h0, by simp [upd], post, hcp⟩
  | prom2 c p =>
    unfold TInv at ht; rw [hpc] at ht; simp only at ht
    obtain ⟨h0, hr, post, hcp⟩ := ht
    simp only []
    split
    · refine ⟨hg, Mono.refl _ _, ?_⟩
      simp only [TInv]
      exact ⟨⟨p, h0, hr⟩, post, hcp⟩
    · rename_i hne
      refine ⟨hg, Mono.refl _ _, ?_⟩
      have hdn : s.deferred c = none := by
        rcases hg.def_mono c with h | h
        · exact h
        · rw [h, h0] at hne; exact absurd rfl hne
      simp only [TInv]
      obtain ⟨pre, e, hpre⟩ := hcp
      rw [e]
      exact good_of_prefix hdn pre post hpre (by rw [eff_of_deferred h0]; rfl)
  | prom3 c =>
    unfold TInv at ht; rw [hpc] at ht; simp only at ht
    obtain ⟨⟨p, h0, hr⟩, post, hcp⟩ := ht
    simp only []
    have he0 : eff s0 c = some p := eff_of_deferred h0
    refine ⟨⟨?_, ?_⟩, ⟨?_, fun _ _ _ h => h⟩, ?_⟩
    · intro x
      by_cases hx : x = c
      · subst hx; rw [he0]; simp [eff, upd, hr, Option.orElse]
      · rw [← hg.eff_const x]; simp [eff, upd, hx]
    · intro x
      by_cases hx : x = c
      · subst hx; left; simp [upd]
      · simpa [upd, hx] using hg.def_mono x
    · intro x hxn
      by_cases hx : x = c
      · subst hx; simp [upd]
      · simp [upd, hx, hxn]
    · simp only [TInv]
      obtain ⟨pre, e, hpre⟩ := hcp
      rw [e]
      refine good_of_prefix (s := { s with deferred := upd s.deferred c none }) (by simp [upd]) pre post ?_ (by rw [he0]; rfl)
      intro x hx
      by_cases hxc : x = c
      · subst hxc; simp [upd]
      · simp [upd, hxc, hpre x hx]
  | chk =>
    unfold TInv at ht; rw [hpc] at ht; simp only at ht
    obtain ⟨c, r, hm, hdc⟩ := ht
    simp only [hm]
    split
    · rename_i hsome
      refine ⟨hg, Mono.refl _ _, ?_⟩
      simp only [TInv, hm, Good]
      have : (eff s0 c).isSome := by
        rw [← hg.eff_const c]; simpa [eff, hdc, Option.orElse] using hsome
      simp [this, hdc]
    · refine ⟨hg, Mono.refl _ _, ?_⟩
      simp only [TInv, hm]
      exact ⟨[c], rfl, by simpa using hdc⟩
  | sup r =>
    unfold TInv at ht; rw [hpc] at ht; simp only at ht
    obtain ⟨pre, e, hpre⟩ := ht
    cases r with
    | nil =>
      simp only []
      refine ⟨hg, Mono.refl _ _, ?_⟩
      simp only [TInv]
      rw [e]; exact good_of_clear _ (by simpa using hpre)
    | cons x r' =>
      simp only []
      cases hd : s.deferred x with
      | some p =>
        refine ⟨hg, Mono.refl _ _, ?_⟩
        have h0 : s0.deferred x = some p := by
          rcases hg.def_mono x with h | h
          · rw [h] at hd; cases hd
          · rw [← h]; exact hd
        simp only [TInv]
        exact ⟨h0, r', pre, e, hpre⟩
      | none =>
        refine ⟨hg, Mono.refl _ _, ?_⟩
        simp only [TInv]
        refine ⟨pre ++ [x], by simp [e], ?_⟩
        intro y hy
        simp only [List.mem_append, List.mem_singleton] at hy
        rcases hy with hy | rfl
        · exact hpre y hy
        · exact hd
  | disp =>
    unfold TInv at ht; rw [hpc] at ht; simp only at ht
    simp only []
    refine ⟨hg, Mono.refl _ _, ?_⟩
    simp only [TInv]
    exact dispatch_of_good hg _ ht
  | done res =>
    simp only []
    refine ⟨hg, Mono.refl _ _, ?_⟩
    unfold TInv; rw [hpc]; unfold TInv at ht; rw [hpc] at ht; exact ht

theorem ginv_init (s0 : State) : GInv s0 s0 := ⟨fun _ => rfl, fun _ => Or.inr rfl⟩

/-- all threads satisfy their invariant -/
def AllInv (s0 s : State) (ts : List Thread) : Prop := ∀ t ∈ ts, TInv s0 s t

theorem runSched_inv (s0 : State) : ∀ (sched : List Nat) (s : State) (ts : List Thread),
    GInv s0 s → AllInv s0 s ts →
    GInv s0 (runSched s ts sched).1 ∧ AllInv s0 (runSched s ts sched).1 (runSched s ts sched).2.1
  | [], s, ts, hg, ha => by simpa [runSched] using And.intro hg ha
  | i :: rest, s, ts, hg, ha => by
    simp only [runSched]
    cases hti : ts[i]? with
    | none => simpa using runSched_inv s0 rest s ts hg ha
    | some t =>
      simp only []
      split
      · exact runSched_inv s0 rest s ts hg ha
      · have htm : t ∈ ts := List.mem_of_getElem? hti
        obtain ⟨hg', hm, ht'⟩ := step_inv s0 s t hg (ha t htm)
        have ha' : AllInv s0 (tstep s t).1 (setAt ts i (tstep s t).2.1) := by
          intro u hu
          unfold setAt at hu
          rcases List.mem_or_eq_of_mem_set hu with hu | rfl
          · exact tinv_mono hm u (ha u hu)
          · exact ht'
        exact runSched_inv s0 rest _ _ hg' ha'

/-- **C20.linearizable** — start any number of threads, each about to print a value of any class, in any registry
state `s0` reached by any history; run them under ANY schedule: every thread that has finished obtained exactly the
printer that a sequential print of the same value in `s0` obtains (and, the model being total, no step can raise). -/
theorem linearizable (s0 : State) (mros : List (List Cls)) (sched : List Nat) :
    ∀ t ∈ (runSched s0 (mros.map fun m => { mro := m }) sched).2.1, ∀ res, t.pc = .done res →
      res = dispatch (isRegistered s0 t.mro ⟨true, true, true⟩).1 t.mro := by
  intro t ht res hres
  have hall : AllInv s0 s0 (mros.map fun m => ({ mro := m } : Thread)) := by
    intro u hu
    simp only [List.mem_map] at hu
    obtain ⟨m, _, rfl⟩ := hu
    simp [TInv]
  have := (runSched_inv s0 sched s0 _ (ginv_init s0) hall).2 t ht
  unfold TInv at this; rw [hres] at this; simp only at this
  rw [this, dispatch_after_isRegistered]
  -- the sequential print sees the same effective registrations
  have he : ∀ l, firstEff (isRegistered s0 t.mro ⟨true, true, true⟩).1 l = firstEff s0 l := by
    intro l
    induction l with
    | nil => rfl
    | cons x r ih => simp only [firstEff, (isRegistered_eff s0 t.mro _ x).1, ih]
  rw [he]

end PP.C20
