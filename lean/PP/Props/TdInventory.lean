/-
C07, tie of the timedelta model to the source: the translator re-reads `pretty_timedelta` on every run — the keyword names of its
`attrs` list (in order), every `divmod(x, N)` it performs, and the integer constants it mentions — and the tables are compared here
with what the model (`timedeltaParts`, `timedeltaDoc`) and the reader (`unitOf`) are built on.  A change of a name, of the order, of a
divisor or of the printed `365` breaks one of these `decide`s.
-/
import PP.Generated
import PP.Spec.TdReader
namespace PP.C07
open PP Pr

/-- the keywords the source shows, in its order, are the six the model shows -/
theorem td_attrs_from_source :
    Generated.timedeltaAttrs = ["days", "hours", "minutes", "seconds", "milliseconds", "microseconds"] := by decide

/-- every keyword the source can print is one `datetime.timedelta` (and the reader's `unitOf`) accepts -/
theorem td_attrs_known : ∀ k ∈ Generated.timedeltaAttrs, (unitOf (str_ k)).isSome = true := by decide

/-- the divisions of the source are the ones `timedeltaParts` / `timedeltaDoc` perform: seconds → minutes → hours by 60, microseconds →
milliseconds by 1000, days → years by 365 -/
theorem td_divmods_from_source :
    Generated.timedeltaDivmods = [("seconds", 60), ("minutes", 60), ("microseconds", 1000), ("days", 365)] := by decide

/-- the integer constants of the source (sorted): the comparison with 1, the divisors, and the printed `365` -/
theorem td_consts_from_source : Generated.timedeltaIntConsts = [1, 60, 60, 365, 365, 1000] := by decide

end PP.C07
