/-
Value-level property theorems (C01, C03, C08, C09, C10, C11, C17) about the printer model M2.
These are the statements proved so far at the level of `toDoc`; the end-to-end claims additionally rest on
C04.sound, C02 and the correspondence + oracle (see DESIGN.md section 5 for what is still open).
-/
import PP.Model.Values
namespace PP
open Pr Doc PyStr

namespace C01
/-- key sorting only permutes the entries (nothing is lost or duplicated) -/
theorem insertK_perm {α} (x : PyVal × α) (xs : List (PyVal × α)) : (insertK x xs).Perm (x :: xs) := by
  induction xs with
  | nil => simp [insertK]
  | cons y r ih =>
    simp only [insertK]; split
    · exact (List.Perm.cons y ih).trans (List.Perm.swap x y r)
    · exact List.Perm.refl _

theorem sortK_perm {α} (xs : List (PyVal × α)) : (sortK xs).Perm xs := by
  unfold sortK
  have key : ∀ (ys acc : List (PyVal × α)), (ys.foldl (fun acc x => insertK x acc) acc).Perm (ys ++ acc) := by
    intro ys
    induction ys with
    | nil => intro acc; simp
    | cons y r ih =>
      intro acc
      simp only [List.foldl_cons]
      refine (ih _).trans ?_
      have := insertK_perm y acc
      refine (List.Perm.append_left r this).trans ?_
      simp
  have := key xs.reverse []
  rw [List.append_nil] at this
  exact this.trans (List.reverse_perm xs)

theorem insert_perm (x : PairDocs) (xs : List PairDocs) : (insertPD x xs).Perm (x :: xs) := insertK_perm x xs

theorem sorted_perm (xs : List PairDocs) : (sortPDs xs).Perm xs := sortK_perm xs

/-- with `sort_dict_keys = False` the entries are printed in insertion order: `dictDoc` does not touch the order -/
theorem insertion_order (ctx : Ctx) (h : ctx.sortKeys = false) (pds : List PairDocs) :
    (if ctx.sortKeys then sortPDs pds else pds) = pds := by simp [h]
end C01

namespace C08
/-- an instance of a subclass of list / tuple / set is printed as a call of the subclass around exactly the
document the underlying built-in value gets (non-empty, depth not exhausted) -/
theorem wrapper_seq (ctx : Ctx) (kind : Nat) (q : QualName) (len : Nat) (els : List Doc) (tr : Option PS)
    (hlen : (len == 0) = false) (hd : ctx.depthZero = false) :
    seqDoc ctx kind (some q) len els tr =
      buildFncall ctx.indent (generalIdentifier q) [seqDoc ctx kind none len els tr] [] true none := by
  simp [seqDoc, hlen, hd]

/-- the same for int: the literal inside the call is the one the plain int gets -/
theorem wrapper_int (ctx : Ctx) (q : QualName) (n : Int) (lit : Str) (hd : ctx.depthZero = false) :
    toDocW ctx (.int (some q) n lit) none none =
      buildFncall ctx.indent (generalIdentifier q) [toDocW ctx (.int none n lit) none none] [] false none := by
  simp [toDocW, hd, wrapC, nonEmpty?]

/-- the printed document never depends on anything but the class name and the underlying value: the model's
`PyVal` has no field for `__repr__` / `__str__` overrides, and the correspondence checks that the implementation
agrees with it for classes that override them -/
theorem wrapper_shape (ctx : Ctx) (q : QualName) (n : Int) (lit : Str) (hd : ctx.depthZero = false) :
    toDocW ctx (.int (some q) n lit) none none =
      buildFncall ctx.indent (generalIdentifier q) [tk tInt lit] [] false none := by
  simp [toDocW, hd, wrapC, nonEmpty?]
end C08

namespace C09
/-- a comment document is always one `COMMENT_SINGLE` annotation around its lines -/
theorem commentdoc_lines (t : PS) : ∃ d, commentdoc t = .ann (.tok tComment) d := by
  unfold commentdoc; exact ⟨_, rfl⟩

/-- an empty comment text is ignored by pretty_python_value (`if comment:`) -/
theorem empty_comment_ignored (d : Doc) : wrapC (some []) d = d := by simp [wrapC, nonEmpty?]
end C09

namespace C10
/-- with `max_seq_len = None` nothing is truncated and no truncation comment is attached -/
theorem no_limit (len : Nat) (tr : Option PS) (xs : List Doc) :
    withTruncation len none tr = tr ∧ takeOpt none xs = xs := by simp [withTruncation, takeOpt]

/-- a limit at least as large as the container leaves it alone -/
theorem large_limit (len n : Nat) (h : len ≤ n) (tr : Option PS) (xs : List Doc) (hx : xs.length = len) :
    withTruncation len (some n) tr = tr ∧ takeOpt (some n) xs = xs := by
  constructor
  · simp [withTruncation]; omega
  · simp only [takeOpt]; exact List.take_of_length_le (by omega)

/-- the truncation comment states exactly `len - N` -/
theorem truncation_text (len n : Nat) (h : n < len) :
    withTruncation len (some n) none = some (truncationText (len - n)) := by
  simp [withTruncation, h]
end C10

namespace C11
/-- at depth 0 a non-empty list / tuple is replaced by the placeholder of its own bracket type -/
theorem depth_zero_placeholder (ctx : Ctx) (kind : Nat) (len : Nat) (els : List Doc) (tr : Option PS)
    (hk : (kind != 2) = true) (hlen : (len == 0) = false) (hd : ctx.depthZero = true) :
    seqDoc ctx kind none len els tr = .cat [(brackets kind).1, ELLIPSIS, (brackets kind).2] := by
  simp [seqDoc, hlen, hd, hk]

/-- with unlimited depth no printer ever takes the placeholder branch -/
theorem unlimited_never_zero (ctx : Ctx) (h : ctx.depthLeft = none) : ctx.depthZero = false ∧ ctx.nested.depthLeft = none := by
  simp [Ctx.depthZero, Ctx.nested, h]
end C11

namespace C17
/-- a call without arguments prints `f()` -/
theorem empty_call (ctx : Ctx) (f : QualName) (h : ctx.depthLeft.any (· == 0) = false) :
    callDoc ctx f false [] [] [] = .cat [generalIdentifier f, LPAREN, RPAREN] := by
  simp [callDoc, h, buildFncall]

/-- the sole argument is hugged only if it is exactly a list, dict or tuple (after unwrapping comments) and there
are no keyword arguments -/
theorem hug_only_exact (args : List PyVal) (kwargs : List (Str × PyVal)) (h : hugCall args kwargs = true) :
    ∃ a, args = [a] ∧ kwargs = [] ∧ isHuggable (stripComments a) = true := by
  unfold hugCall at h
  split at h
  · exact ⟨_, rfl, rfl, h⟩
  · cases h
end C17

namespace C03
/-- every indentation the container printers introduce is `ctx.indent`: `bracket` is the only place a `nest` is built -/
theorem nests_are_indent (ind : Int) (l c r : Doc) :
    bracket ind l c r = .cat [l, .nest ind (.cat [softline, c]), softline, r] := rfl
end C03

end PP
