/-
Spec side of C02: Python's decoding of the body of a (non-raw) string / bytes literal quoted with `q` — the fragment
of the language reference that repr can produce plus the other simple escapes.  `none` = not a valid literal body
(an unescaped quote or a raw newline inside, a malformed escape).
-/
import PP.Model.PyStr
namespace PP
namespace PyStr

def hexVal? (c : Nat) : Option Nat :=
  if 48 ≤ c && c ≤ 57 then some (c - 48)
  else if 97 ≤ c && c ≤ 102 then some (c - 87)
  else if 65 ≤ c && c ≤ 70 then some (c - 55)
  else none

/-- read exactly `n` hex digits -/
def parseHex : Nat → Nat → Str → Option (Nat × Str)
  | 0, acc, s => some (acc, s)
  | n + 1, acc, c :: r => match hexVal? c with
    | some d => parseHex n (acc * 16 + d) r
    | none => none
  | _ + 1, _, [] => none

theorem parseHex_length : ∀ (n acc : Nat) (s : Str) (v : Nat) (r : Str), parseHex n acc s = some (v, r) → r.length ≤ s.length
  | 0, _, _, _, _, h => by simp only [parseHex, Option.some.injEq, Prod.mk.injEq] at h; rw [← h.2]; exact Nat.le_refl _
  | n + 1, acc, [], _, _, h => by simp [parseHex] at h
  | n + 1, acc, c :: t, v, r, h => by
    simp only [parseHex] at h
    split at h
    · have := parseHex_length n _ t v r h; simp; omega
    · cases h

/-- value of exactly `w` hex digits at the front of `s` -/
def hexAt (w : Nat) (s : Str) : Option Nat :=
  match parseHex w 0 (s.take w) with
  | some (v, []) => if (s.take w).length = w then some v else none
  | _ => none

def unescape (q : Nat) (s : Str) : Option (List Nat) :=
  match s with
  | [] => some []
  | c :: r =>
    if c == q || c == 10 then none
    else if c == BS then
      match r with
      | [] => none
      | e :: r' =>
        if e == BS || e == SQ || e == DQ then (unescape q r').map (e :: ·)
        else if e == 110 then (unescape q r').map (10 :: ·)
        else if e == 114 then (unescape q r').map (13 :: ·)
        else if e == 116 then (unescape q r').map (9 :: ·)
        else if e == 120 then (match hexAt 2 r' with | some v => (unescape q (r'.drop 2)).map (v :: ·) | none => none)
        else if e == 117 then (match hexAt 4 r' with | some v => (unescape q (r'.drop 4)).map (v :: ·) | none => none)
        else if e == 85 then (match hexAt 8 r' with | some v => (unescape q (r'.drop 8)).map (v :: ·) | none => none)
        else none
    else (unescape q r).map (c :: ·)
termination_by s.length
decreasing_by
  all_goals simp_wf
  all_goals (try simp only [List.length_drop])
  all_goals omega

end PyStr
end PP
