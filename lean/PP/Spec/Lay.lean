/-
Reference semantics of documents (C04): `Lay E d i m c out c'` — "starting at column `c` with indentation `i`
in mode `m`, document `d` may be rendered as the SDoc stream `out`, ending at column `c'`".
A reader should be able to check these rules against the property statement in a few minutes:

* a text fragment is emitted exactly once (an empty one may be dropped), `hardline` emits a line break indented
  by the enclosing `nest`/`align` offsets;
* `cat` renders its children left to right in one mode; `group` picks *some* mode for its content;
* `choice` shows its flat alternative only in flat mode and its broken alternative only in broken mode;
* the content of `ab` (always_break) is rendered broken, and a document that syntactically contains an
  always_break (`forces`) may render broken even inside a flat context (hoisting);
* every item of a `fill` is rendered in *some* mode; `ann` brackets the rendering with push/pop;
* `align d` is `nest (column - indent) d`; a `pstr` node is rendered as one of its evaluations (`E`).
-/
import PP.Model.Normalize
namespace PP
open Doc

namespace Doc
mutual
/-- an `always_break` is reachable through concat / nest / group (what normalisation hoists) -/
def forces : Doc → Bool
  | .ab _ => true
  | .cat ds => forcesAny ds
  | .nest _ d => forces d
  | .group d => forces d
  | .fill ds => anyAb ds
  | _ => false
def forcesAny : List Doc → Bool
  | [] => false
  | d :: ds => forces d || forcesAny ds
end
end Doc

/-- `m' = m`, or — if the document contains a forced break — `m' = brk`. -/
def Mode.orBrk (m : Mode) (f : Bool) (m' : Mode) : Prop := m' = m ∨ (f = true ∧ m' = .brk)

mutual
inductive Lay (E : StrSpec → Doc → Prop) : Doc → Int → Mode → Int → List SDoc → Int → Prop
  | nil : Lay E .nil i m c [] c
  | textE : Lay E (.text []) i m c [] c
  | text : Lay E (.text s) i m c [.text s] (c + s.length)
  | hardline : Lay E .hardline i m c [.line i] i
  | cat (m' : Mode) : m.orBrk (forces (.cat ds)) m' → LayL E ds i m' c out c' → Lay E (.cat ds) i m c out c'
  | nest (m' : Mode) : m.orBrk (forces (.nest j d)) m' → Lay E d (i + j) m' c out c' → Lay E (.nest j d) i m c out c'
  | group (m' : Mode) : Lay E d i m' c out c' → Lay E (.group d) i m c out c'
  | choiceF : Lay E f i .flat c out c' → Lay E (.choice l b f) i .flat c out c'
  | choiceB : Lay E b i .brk c out c' → Lay E (.choice l b f) i .brk c out c'
  | ab : Lay E d i .brk c out c' → Lay E (.ab d) i m c out c'
  | fill : LayF E ds i c out c' → Lay E (.fill ds) i m c out c'
  | ann : Lay E d i m c out c' → Lay E (.ann a d) i m c (.push a :: out ++ [.pop a]) c'
  | align : Lay E (.nest (c - i) d) i m c out c' → Lay E (.align d) i m c out c'
  | pstr : E sp d → Lay E d i m c out c' → Lay E (.pstr sp) i m c out c'
inductive LayL (E : StrSpec → Doc → Prop) : List Doc → Int → Mode → Int → List SDoc → Int → Prop
  | nil : LayL E [] i m c [] c
  | cons : Lay E d i m c o1 c1 → LayL E ds i m c1 o2 c2 → LayL E (d :: ds) i m c (o1 ++ o2) c2
inductive LayF (E : StrSpec → Doc → Prop) : List Doc → Int → Int → List SDoc → Int → Prop
  | nil : LayF E [] i c [] c
  | cons (m' : Mode) : Lay E d i m' c o1 c1 → LayF E ds i c1 o2 c2 → LayF E (d :: ds) i c (o1 ++ o2) c2
end

/-- `Lay` lifted to a stack of the layout machine. -/
inductive LayStk (E : StrSpec → Doc → Prop) : List Triple → Int → List SDoc → Prop
  | nil : LayStk E [] c []
  | doc : Lay E d i m c o1 c1 → LayStk E r c1 o2 → LayStk E ((i, m, .doc d) :: r) c (o1 ++ o2)
  | pop : LayStk E r c o → LayStk E ((i, m, .pop a) :: r) c (.pop a :: o)

end PP
