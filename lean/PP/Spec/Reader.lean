/-
Spec side of C01: a reader for the canonical token language of the built-in literal types.  It is the fragment of Python's
expression grammar the printers use — literals, `[..]`, `(..)` with the one-element comma rule, `{..}` as set or dict,
`set()`, `frozenset()`, `frozenset([..])`, `float('inf')`, calls `name(arg, ..., key=value, ...)` and names used as values (`int`,
`datetime.timezone.utc`, `Color` `.RED`) — over the code tokens of `Spec/Tokens.lean`; optional trailing
commas are accepted as Python accepts them.
-/
import PP.Spec.Tokens
namespace PP
namespace Tok

/-- what a token sequence denotes; numbers by their literal text (the value of a numeric literal is CPython's business) -/
inductive RVal where
  | num (lit : Str)
  | kw (s : Str)                       -- None, True, False, ...
  | str (isBytes : Bool) (s : Str)
  | fspecial (name : Str)              -- float('inf'), float('-inf'), float('nan')
  | list (xs : List RVal)
  | tuple (xs : List RVal)
  | set (xs : List RVal)
  | fset (xs : List RVal)
  | dict (kvs : List (RVal × RVal))
  | call (name : Str) (items : List RVal)   -- `name(item, ...)`: positional items and `kwarg` items in the order written
  | kwarg (name : Str) (v : RVal)           -- `name = value` inside a call
  | name (s : Str)                          -- a name used as a value: `int`, `datetime.timezone.utc`, `Color.RED` (dots included)
deriving Repr, Inhabited

def sNone : Str := [78, 111, 110, 101]
def sTrue : Str := [84, 114, 117, 101]
def sFalse : Str := [70, 97, 108, 115, 101]
def sEll : Str := [46, 46, 46]
def sFloat : Str := [102, 108, 111, 97, 116]
def sSet : Str := [115, 101, 116]
def sFrozenset : Str := [102, 114, 111, 122, 101, 110, 115, 101, 116]

def isKwTok (s : Str) : Bool := s == sNone || s == sTrue || s == sFalse || s == sEll
/-- a numeric literal starts with a digit or a minus sign -/
def isNumTok (s : Str) : Bool := match s with | c :: _ => (48 ≤ c && c ≤ 57) || c == 45 | [] => false

/-- an identifier (possibly dotted: the printers write a qualified name as one fragment) starts with a letter or `_` -/
def isNameTok (s : Str) : Bool :=
  match s with | c :: _ => (65 ≤ c && c ≤ 90) || (97 ≤ c && c ≤ 122) || c == 95 | [] => false

def asCall (name : Str) (p : Option (List RVal × Bool × List CT)) : Option (RVal × List CT) :=
  match p with | some (xs, _, r') => some (.call name xs, r') | none => none

def asKw (name : Str) (p : Option (RVal × List CT)) : Option (RVal × List CT) :=
  match p with | some (v, r') => some (.kwarg name v, r') | none => none

/-- an attribute access written as a fragment of its own: `.NAME` (the printers write an Enum member as `Class` `.MEMBER`) -/
def isAttrTok (s : Str) : Bool :=
  match s with | 46 :: c :: _ => (65 ≤ c && c ≤ 90) || (97 ≤ c && c ≤ 122) || c == 95 | _ => false

/-- a name that is neither called nor bound: the value of that name, with one attribute fragment if one follows -/
def bareName (s : Str) (r : List CT) : Option (RVal × List CT) :=
  match r with
  | .code a :: r' => if isAttrTok a then some (.name (s ++ a), r') else some (.name s, r)
  | _ => some (.name s, r)

/-- after a name: `= value` (a keyword item of a call) | `( items )` (a call) | anything else: the name is the value -/
def afterName (s : Str) (r : List CT) (pv : List CT → Option (RVal × List CT))
    (pt : List CT → Option (List RVal × Bool × List CT)) : Option (RVal × List CT) :=
  match r with
  | .code [61] :: r' => asKw s (pv r')
  | .code [40] :: r' => asCall s (pt r')
  | _ => bareName s r

/-- an element followed by the rest of its sequence -/
def thenTail (p : Option (RVal × List CT)) (k : List CT → Option (List RVal × Bool × List CT)) :
    Option (List RVal × Bool × List CT) :=
  match p with
  | some (x, r1) => (match k r1 with | some (xs, tc, r2) => some (x :: xs, tc, r2) | none => none)
  | none => none

def asList (p : Option (List RVal × Bool × List CT)) : Option (RVal × List CT) :=
  match p with | some (xs, _, r') => some (.list xs, r') | none => none

def asFset (p : Option (List RVal × Bool × List CT)) : Option (RVal × List CT) :=
  match p with
  | some (xs, _, .code [41] :: r'') => some (.fset xs, r'')
  | _ => none

/-- `(x)` is a parenthesised expression, not a tuple: it denotes `x` (the printers emit it only as the placeholder `(...)`) -/
def asTuple (p : Option (List RVal × Bool × List CT)) : Option (RVal × List CT) :=
  match p with
  | some ([x], false, r') => some (x, r')
  | some (xs, _, r') => some (.tuple xs, r')
  | none => none

/-- the first reading if there is one, else the second -/
def orElseR (a b : Option (RVal × List CT)) : Option (RVal × List CT) :=
  match a with | some x => some x | none => b

/-- `float('inf')` and friends -/
def floatSpecial (r : List CT) : Option (RVal × List CT) :=
  match r with | .code [40] :: .lit (some n) :: .code [41] :: r' => some (.fspecial n, r') | _ => none

/-- `b'...'` after its prefix -/
def bytesLit (r : List CT) : Option (RVal × List CT) :=
  match r with | .lit (some b) :: r' => some (.str true b, r') | _ => none

/-- `set()` -/
def setEmpty (r : List CT) : Option (RVal × List CT) :=
  match r with | .code [40] :: .code [41] :: r' => some (.set [], r') | _ => none

/-- `frozenset()` | `frozenset([..])` -/
def fsetForms (r : List CT) (pt : List CT → Option (List RVal × Bool × List CT)) : Option (RVal × List CT) :=
  match r with
  | .code [40] :: .code [41] :: r' => some (.fset [], r')
  | .code [40] :: .code [91] :: r' => asFset (pt r')
  | _ => none

/-- `key : value` with a given expression reader -/
def pairWith (pv : List CT → Option (RVal × List CT)) (toks : List CT) : Option ((RVal × RVal) × List CT) :=
  match pv toks with
  | some (k, .code [58] :: r1) => (match pv r1 with | some (v, r2) => some ((k, v), r2) | none => none)
  | _ => none

/-- a pair followed by the rest of the dict -/
def thenPairs (p : Option ((RVal × RVal) × List CT)) (k : List CT → Option (List (RVal × RVal) × List CT)) :
    Option (List (RVal × RVal) × List CT) :=
  match p with
  | some (kv, r1) => (match k r1 with | some (kvs, r2) => some (kv :: kvs, r2) | none => none)
  | none => none

/-- the first expression after `{` has been read: a `:` makes it a dict, anything else a set -/
def braceAfterFirst (first : Option (RVal × List CT)) (pv : List CT → Option (RVal × List CT))
    (pairs : List CT → Option (List (RVal × RVal) × List CT)) (tail : List CT → Option (List RVal × Bool × List CT)) :
    Option (RVal × List CT) :=
  match first with
  | some (x, .code [58] :: r1) =>
    (match pv r1 with
      | some (v, r2) => (match pairs r2 with | some (kvs, r3) => some (.dict ((x, v) :: kvs), r3) | none => none)
      | none => none)
  | some (x, r1) => (match tail r1 with | some (xs, _, r2) => some (.set (x :: xs), r2) | none => none)
  | none => none

mutual
/-- one expression -/
def parseV : Nat → List CT → Option (RVal × List CT)
  | 0, _ => none
  | f + 1, toks =>
    match toks with
    | .lit (some s) :: r => some (.str false s, r)
    | .code s :: r =>
      -- `b` before a literal is the bytes prefix; anywhere else it is a name like any other
      if s == [98] then orElseR (bytesLit r) (afterName s r (fun t => parseV f t) (fun t => parseTailStart f [41] t))
      else if s == [91] then asList (parseTailStart f [93] r)
      else if s == [40] then
        asTuple (parseTailStart f [41] r)
      else if s == [123] then parseBrace f r
      -- float / set / frozenset have literal-like forms of their own; any other use is an ordinary call
      else if s == sFloat then
        orElseR (floatSpecial r) (afterName s r (fun t => parseV f t) (fun t => parseTailStart f [41] t))
      else if s == sSet then
        orElseR (setEmpty r) (afterName s r (fun t => parseV f t) (fun t => parseTailStart f [41] t))
      else if s == sFrozenset then
        orElseR (fsetForms r (fun t => parseTailStart f [93] t)) (afterName s r (fun t => parseV f t) (fun t => parseTailStart f [41] t))
      else if isKwTok s then some (.kw s, r)
      else if isNumTok s then some (.num s, r)
      else if isNameTok s then
        -- `name = value` (an argument of a call) | `name ( items )`
        afterName s r (fun t => parseV f t) (fun t => parseTailStart f [41] t)
      else none
    | _ => none
/-- elements up to the closer, at the start of a bracketed list: `close` | element tail -/
def parseTailStart : Nat → Str → List CT → Option (List RVal × Bool × List CT)
  | 0, _, _ => none
  | f + 1, close, toks =>
    match toks with
    | .code c :: r => if c == close then some ([], false, r) else
        thenTail (parseV f toks) (fun r1 => parseTail f close r1)
    | _ =>
        thenTail (parseV f toks) (fun r1 => parseTail f close r1)
/-- after an element: `close` | `,` `close` | `,` element tail.  The flag says whether a comma directly precedes the closer. -/
def parseTail : Nat → Str → List CT → Option (List RVal × Bool × List CT)
  | 0, _, _ => none
  | f + 1, close, toks =>
    match toks with
    | .code c :: r =>
      if c == close then some ([], false, r)
      else if c == [44] then
        (match r with
          | .code c2 :: r2 => if c2 == close then some ([], true, r2) else
              thenTail (parseV f r) (fun r1 => parseTail f close r1)
          | _ =>
              thenTail (parseV f r) (fun r1 => parseTail f close r1))
      else none
    | _ => none
/-- after `{`: `}` (empty dict) | key `:` value pairs | elements (a set) -/
def parseBrace : Nat → List CT → Option (RVal × List CT)
  | 0, _ => none
  | f + 1, toks =>
    match toks with
    | .code [125] :: r => some (.dict [], r)
    | _ => braceAfterFirst (parseV f toks) (fun t => parseV f t) (fun t => parsePairs f t) (fun t => parseTail f [125] t)
/-- after a dict pair: `}` | `,` `}` | `,` key `:` value … -/
def parsePairs : Nat → List CT → Option (List (RVal × RVal) × List CT)
  | 0, _ => none
  | f + 1, toks =>
    match toks with
    | .code [125] :: r => some ([], r)
    | .code [44] :: .code [125] :: r => some ([], r)
    | .code [44] :: r => thenPairs (pairWith (fun t => parseV f t) r) (fun t => parsePairs f t)
    | _ => none
end

/-- read a whole token sequence -/
def readAll (toks : List CT) : Option RVal :=
  match parseV (toks.length + 1) toks with
  | some (v, []) => some v
  | _ => none

end Tok
end PP
