/-
Spec side of C03 / C09: what "the same program text up to layout" means for an SDoc stream.

`ctoks` reads the *code tokens* off a stream: blank text, line breaks and everything inside a COMMENT_SINGLE region are
dropped; the text of a LITERAL_STRING region is decoded as a Python literal (`Spec/Unescape.lean`) into one `lit` token;
every other text fragment is one `code` token.

`TEq` is the smallest congruence on token lists that identifies what Python's grammar identifies and layouts may vary:
implicit concatenation of adjacent string literals (`'ab'` = `'a' 'b'`, `b'ab'` = `b'a' b'b'`) and a pair of
parentheses around a run of two or more adjacent literals.
-/
import PP.Model.Combinators
import PP.Spec.Unescape
namespace PP
namespace Tok
open PyStr

inductive CT where
  | code (s : Str)
  | lit (v : Option Str)     -- decoded content of one string-literal region; `none` = not a valid literal
deriving DecidableEq, Repr

def isBlank (s : Str) : Bool := s.all (· == 32)

/-- text of a literal region `q body q` decoded with its own quote -/
def decodeLit (t : Str) : Option Str :=
  match t with
  | [] => none
  | q :: r =>
    if (q == SQ || q == DQ) && r.getLast? == some q then unescape q r.dropLast else none

inductive St where
  | normal
  | comment (k : Nat)            -- inside k+1 nested annotations, the outermost a COMMENT_SINGLE token
  | str (k : Nat) (acc : Str)    -- inside k+1 nested annotations, the outermost a LITERAL_STRING token
deriving DecidableEq, Repr

def step : St → SDoc → St × List CT
  | .normal, .text s => (.normal, if isBlank s then [] else [.code s])
  | .normal, .line _ => (.normal, [])
  | .normal, .push (.tok t) =>
      if t == Pr.tComment then (.comment 0, [])
      else if t == Pr.tStr then (.str 0 [], [])
      else (.normal, [])
  | .normal, .push _ => (.normal, [])
  | .normal, .pop _ => (.normal, [])
  | .comment k, .push _ => (.comment (k + 1), [])
  | .comment 0, .pop _ => (.normal, [])
  | .comment (k + 1), .pop _ => (.comment k, [])
  | .comment k, _ => (.comment k, [])
  | .str k acc, .text s => (.str k (acc ++ s), [])
  | .str k acc, .line _ => (.str k acc, [])
  | .str k acc, .push _ => (.str (k + 1) acc, [])
  | .str 0 acc, .pop _ => (.normal, [.lit (decodeLit acc)])
  | .str (k + 1) acc, .pop _ => (.str k acc, [])

def runCT : St → List SDoc → St × List CT
  | st, [] => (st, [])
  | st, x :: r =>
    let (st1, t1) := step st x
    let (st2, t2) := runCT st1 r
    (st2, t1 ++ t2)

/-- the code tokens of an output stream -/
def ctoks (o : List SDoc) : List CT := (runCT .normal o).2

def isLit : CT → Bool
  | .lit _ => true
  | _ => false

def isLitOrB : CT → Bool
  | .lit _ => true
  | .code s => s == [98]

inductive TEq : List CT → List CT → Prop
  | refl (a) : TEq a a
  | symm : TEq a b → TEq b a
  | trans : TEq a b → TEq b c → TEq a c
  | app : TEq a a' → TEq b b' → TEq (a ++ b) (a' ++ b')
  /-- implicit concatenation of adjacent `str` literals -/
  | split (x y : Str) : TEq [.lit (some (x ++ y))] [.lit (some x), .lit (some y)]
  /-- the same for `bytes` literals, each with its `b` prefix -/
  | splitB (x y : Str) : TEq [.code [98], .lit (some (x ++ y))] [.code [98], .lit (some x), .code [98], .lit (some y)]
  /-- parentheses around a run of two or more adjacent literals -/
  | paren (ls : List CT) : 2 ≤ (ls.filter isLit).length →
      ls.all isLitOrB = true → TEq (.code [40] :: ls ++ [.code [41]]) ls

theorem runCT_cons (st : St) (x : SDoc) (r : List SDoc) :
    runCT st (x :: r) = ((runCT (step st x).1 r).1, (step st x).2 ++ (runCT (step st x).1 r).2) := by
  simp only [runCT]

theorem runCT_append (st : St) (a b : List SDoc) :
    runCT st (a ++ b) = ((runCT (runCT st a).1 b).1, (runCT st a).2 ++ (runCT (runCT st a).1 b).2) := by
  induction a generalizing st with
  | nil => simp [runCT]
  | cons x r ih => simp only [List.cons_append, runCT_cons, ih, List.append_assoc]

theorem runCT_ann (st : St) (a : Ann) (out : List SDoc) :
    runCT st (.push a :: out ++ [.pop a]) =
      ((step (runCT (step st (.push a)).1 out).1 (.pop a)).1,
       (step st (.push a)).2 ++ (runCT (step st (.push a)).1 out).2 ++ (step (runCT (step st (.push a)).1 out).1 (.pop a)).2) := by
  rw [List.cons_append, runCT_cons, runCT_append]
  simp [runCT]

theorem run_comment_region (t : Nat) (ht : (t == Pr.tComment) = true) (out : List SDoc)
    (h : runCT (.comment 0) out = (.comment 0, [])) :
    runCT .normal (.push (.tok t) :: out ++ [.pop (.tok t)]) = (.normal, []) := by
  rw [runCT_ann]
  have e1 : step .normal (.push (.tok t)) = (.comment 0, []) := by simp [step, ht]
  rw [e1]; simp only []; rw [h]; rfl

theorem run_str_region (t : Nat) (h1 : ¬ (t == Pr.tComment) = true) (h2 : (t == Pr.tStr) = true) (out : List SDoc) (txt : Str)
    (h : runCT (.str 0 []) out = (.str 0 txt, [])) :
    runCT .normal (.push (.tok t) :: out ++ [.pop (.tok t)]) = (.normal, [.lit (decodeLit txt)]) := by
  rw [runCT_ann]
  have e1 : step .normal (.push (.tok t)) = (.str 0 [], []) := by simp [step, h1, h2]
  rw [e1]; simp only []; rw [h]; rfl

theorem run_other_region (a : Ann) (ha : ∀ t, a = .tok t → ¬ (t == Pr.tComment) = true ∧ ¬ (t == Pr.tStr) = true)
    (out : List SDoc) (ts : List CT) (h : runCT .normal out = (.normal, ts)) :
    runCT .normal (.push a :: out ++ [.pop a]) = (.normal, ts) := by
  rw [runCT_ann]
  have e1 : step .normal (.push a) = (.normal, []) := by
    cases a with
    | tok t => have := ha t rfl; simp [step, this.1, this.2]
    | comment s => rfl
    | other n => rfl
  rw [e1]; simp only []; rw [h]; simp [step]

end Tok
end PP
