/-
Spec side of C07 for timedelta: a reader for exactly the fragment `pretty_timedelta` prints — decimal literals, `*` binding tighter
than `+`, keyword arguments of `datetime.timedelta` (an unknown or repeated keyword is an error, as in Python), unary minus on the
call.  Executable (the driver's `tdread` command runs it; the harness compares it with CPython's `eval` of the implementation's text
on every timedelta it prints); `Props/C07c.lean` proves that every layout of every timedelta reads back as the original duration.
-/
import PP.Proofs.ToksVal
namespace PP.C07
open PP Doc Pr Tok

/-! ### the reader: Python's semantics on the fragment the printer emits -/

/-- value of a run of decimal digits -/
def decVal (s : Str) : Nat := s.foldl (fun a c => 10 * a + (c - 48)) 0

def isDigits (s : Str) : Bool := !s.isEmpty && s.all (fun c => decide (48 ≤ c) && decide (c ≤ 57))

/-- a decimal literal token -/
def numTok : CT → Option Int
  | .code s => if isDigits s then some (decVal s : Int) else none
  | .lit _ => none

def MUL_T : CT := .code [42]
def ADD_T : CT := .code [43]
def NEG_T : CT := .code [45]

/-- sums of products of decimal literals, `*` binding tighter than `+` (the shapes of Python's grammar the printer uses) -/
def evalExpr : List CT → Option Int
  | [a] => numTok a
  | [a, op, b] =>
    if op = MUL_T then (numTok a).bind fun x => (numTok b).map fun y => x * y
    else if op = ADD_T then (numTok a).bind fun x => (numTok b).map fun y => x + y
    else none
  | [a, op1, b, op2, c] =>
    if op1 = MUL_T ∧ op2 = ADD_T then
      (numTok a).bind fun x => (numTok b).bind fun y => (numTok c).map fun z => x * y + z
    else none
  | _ => none

/-- split an argument list at its top-level commas (the fragment has no nested brackets) -/
def splitC : List CT → List CT → List (List CT)
  | acc, [] => [acc]
  | acc, t :: r => if t = COMMA_T then acc :: splitC [] r else splitC (acc ++ [t]) r

/-- one keyword argument `name = expr` -/
def readKw : List CT → Option (Str × Int)
  | .code k :: eq :: e => if eq = EQ_T then (evalExpr e).map fun v => (k, v) else none
  | _ => none

def mapMO {α β} (f : α → Option β) : List α → Option (List β)
  | [] => some []
  | x :: r => (f x).bind fun y => (mapMO f r).map fun ys => y :: ys

/-- microseconds per unit of each keyword `datetime.timedelta` accepts and the printer uses -/
def unitOf (k : Str) : Option Int :=
  if k = str_ "days" then some 86400000000
  else if k = str_ "hours" then some 3600000000
  else if k = str_ "minutes" then some 60000000
  else if k = str_ "seconds" then some 1000000
  else if k = str_ "milliseconds" then some 1000
  else if k = str_ "microseconds" then some 1
  else none

/-- `timedelta(**kw)` in microseconds: every keyword contributes value × unit; an unknown or repeated keyword is an error -/
def tdSum : List (Str × Int) → Option Int
  | [] => some 0
  | (k, v) :: r =>
    if r.any (fun p => p.1 == k) then none
    else (unitOf k).bind fun un => (tdSum r).map fun t => un * v + t

/-- `[-] datetime.timedelta ( kw , … )` -/
def readCall : List CT → Option Int
  | .code f :: lp :: r =>
    if f = nmTimedelta.2 ∧ lp = LP ∧ r.getLast? = some RP then
      let body := r.dropLast
      if body.isEmpty then some 0
      else (mapMO readKw (splitC [] body)).bind tdSum
    else none
  | _ => none

def readTimedelta : List CT → Option Int
  | t :: r => if t = NEG_T then (readCall r).map fun v => -v else readCall (t :: r)
  | [] => none

end PP.C07
