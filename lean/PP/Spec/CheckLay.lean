/-
Executable matcher for the reference semantics, used as the *oracle* when the correspondence breaks:
`checkLay strict d out` decides whether `out` is a rendering of `d` (for documents without `pstr` nodes).
With `strict`, a group whose content syntactically forces a break must be laid out broken, and a bare
`hardline` counts as forcing too (the property's last clause; see known finding K1).
-/
import PP.Spec.Lay
namespace PP
open Doc

namespace Doc
mutual
/-- `forces`, additionally treating a bare `hardline` as forcing (through concat / nest / group / annotate) -/
def forcesH : Doc → Bool
  | .ab _ => true
  | .hardline => true
  | .cat ds => forcesHAny ds
  | .nest _ d => forcesH d
  | .group d => forcesH d
  | .ann _ d => forcesH d
  | .fill ds => anyAb ds
  | _ => false
def forcesHAny : List Doc → Bool
  | [] => false
  | d :: ds => forcesH d || forcesHAny ds
end
end Doc

abbrev MState := List SDoc × Int

def dedup (xs : List MState) : List MState := xs.eraseDups

def modesOr (m : Mode) (f : Bool) : List Mode := if f && m == .flat then [.flat, .brk] else [m]

mutual
def matchDoc (strict : Bool) : Doc → Int → Mode → MState → List MState
  | .nil, _, _, st => [st]
  | .text s, _, _, (out, c) =>
    match out with
    | .text t :: r => (if t = s then [(r, c + s.length)] else []) ++ (if s = [] then [(out, c)] else [])
    | _ => if s = [] then [(out, c)] else []
  | .hardline, i, _, (out, _) =>
    match out with
    | .line k :: r => if k = i then [(r, i)] else []
    | _ => []
  | .cat ds, i, m, st => dedup ((modesOr m (forcesAny ds)).flatMap fun m' => matchList strict ds i m' [st])
  | .nest j d, i, m, st => dedup ((modesOr m (forces d)).flatMap fun m' => matchDoc strict d (i + j) m' st)
  | .group d, i, _, st =>
    if strict && forcesH d then matchDoc strict d i .brk st
    else dedup (matchDoc strict d i .flat st ++ matchDoc strict d i .brk st)
  | .choice _ b f, i, m, st => if m == .flat then matchDoc strict f i .flat st else matchDoc strict b i .brk st
  | .ab d, i, _, st => matchDoc strict d i .brk st
  | .fill ds, i, _, st => matchFill strict ds i [st]
  | .ann a d, i, m, (out, c) =>
    match out with
    | .push b :: r =>
      if a = b then
        (matchDoc strict d i m (r, c)).filterMap fun (o, c') =>
          match o with
          | .pop b' :: r' => if a = b' then some (r', c') else none
          | _ => none
      else []
    | _ => []
  | .align d, i, m, (out, c) =>
    dedup ((modesOr m (forces d)).flatMap fun m' => matchDoc strict d (i + (c - i)) m' (out, c))
  | .pstr _, _, _, _ => []
def matchList (strict : Bool) : List Doc → Int → Mode → List MState → List MState
  | [], _, _, sts => sts
  | d :: ds, i, m, sts => matchList strict ds i m (dedup (sts.flatMap fun st => matchDoc strict d i m st))
def matchFill (strict : Bool) : List Doc → Int → List MState → List MState
  | [], _, sts => sts
  | d :: ds, i, sts =>
    matchFill strict ds i (dedup (sts.flatMap fun st => matchDoc strict d i .flat st ++ matchDoc strict d i .brk st))
end

def checkLay (strict : Bool) (d : Doc) (out : List SDoc) : Bool :=
  (matchDoc strict d 0 .brk (out, 0)).any fun (r, _) => r.isEmpty

end PP
