/-
C12: the document built for a comment is linear in the comment text.
-/
import PP.Model.Combinators
import PP.Proofs.StrLines
namespace PP
namespace Pr
open Doc PyStr

theorem filter_nonempty_le : ∀ (ps : List Part), (ps.filter fun p => !p.1.isEmpty).length ≤ (partsJoin ps).length
  | [] => by simp [partsJoin]
  | (p, b) :: r => by
    have ih := filter_nonempty_le r
    simp only [List.filter_cons, partsJoin]
    cases hp : p with
    | nil => simp [ih]
    | cons c t => simp only [List.isEmpty_cons, Bool.not_false, if_true, List.length_cons, List.length_append]; omega

theorem sizesF_commentItems : ∀ (parts : List Part) (b : Bool), sizesF (commentItems parts b) ≤ 6 * parts.length
  | [], _ => by simp [commentItems, sizesF]
  | (p, s) :: r, b => by
    have ih := sizesF_commentItems r (!b)
    simp only [commentItems, sizesF, List.length_cons]
    cases b
    · simp only [Bool.not_false] at ih; simp [size]; omega
    · simp only [Bool.not_true] at ih; simp [commentSep, size, sizes]; omega

theorem rsize_commentLine (line : PS) : rsize (commentLine line) ≤ 6 * line.length + 8 := by
  unfold commentLine
  have hj : partsJoin (splitParts (·.space) line) = line := by
    unfold splitParts; simpa using splitAux_join _ line [] false
  have hc := filter_nonempty_le (splitParts (·.space) line)
  rw [hj] at hc
  generalize (splitParts (·.space) line).filter (fun p => !p.1.isEmpty) = parts at hc
  cases parts with
  | nil => simp [rsize]
  | cons p0 rest =>
    obtain ⟨p, sep⟩ := p0
    simp only [List.length_cons] at hc
    cases sep
    · simp only [Bool.false_eq_true, if_false]
      have hl : ∀ (ps : List Part), (if ps.length % 2 == 0 then ps.dropLast else ps).length ≤ ps.length := by
        intro ps; split <;> simp
      have h1 := hl ((p, false) :: rest)
      have h2 := sizesF_commentItems (if ((p, false) :: rest).length % 2 == 0 then ((p, false) :: rest).dropLast else (p, false) :: rest) false
      generalize (if ((p, false) :: rest).length % 2 == 0 then ((p, false) :: rest).dropLast else (p, false) :: rest) = q at h1 h2 ⊢
      simp only [List.length_cons] at h1
      simp only [rsize, rsizes]
      omega
    · simp only [if_true]
      have hl : ∀ (ps : List Part), (if ps.length % 2 == 0 then ps.dropLast else ps).length ≤ ps.length := by
        intro ps; split <;> simp
      have h1 := hl rest
      have h2 := sizesF_commentItems (if rest.length % 2 == 0 then rest.dropLast else rest) false
      generalize (if rest.length % 2 == 0 then rest.dropLast else rest) = q at h1 h2 ⊢
      simp only [rsize, rsizes]
      omega

def lsum : List PS → Nat
  | [] => 0
  | l :: r => l.length + 1 + lsum r

theorem lsum_splitLinesAux (s cur : PS) : lsum (splitLinesAux s cur) ≤ s.length + cur.length + 1 := by
  fun_induction splitLinesAux s cur <;> simp_all [lsum] <;> omega

theorem rsizes_commentLines : ∀ (ls : List PS), rsizes (intersperse .hardline (ls.map commentLine)) ≤ 9 * lsum ls
  | [] => by simp [intersperse, rsizes, lsum]
  | [l] => by
    have := rsize_commentLine l
    simp only [List.map_cons, List.map_nil, intersperse, rsizes, lsum]; omega
  | l :: l2 :: r => by
    have := rsize_commentLine l
    have ih := rsizes_commentLines (l2 :: r)
    simp only [List.map_cons, intersperse, rsizes, lsum, rsize] at ih ⊢
    omega

/-- bound on the document of a comment -/
def cw (t : PS) : Nat := 9 * t.length + 13

theorem rsize_commentdoc (t : PS) : rsize (commentdoc t) ≤ cw t := by
  have h1 := rsizes_commentLines (splitLines t)
  have h2 := lsum_splitLinesAux t []
  unfold commentdoc cw
  simp only [List.length_nil, Nat.add_zero] at h2
  unfold splitLines at h1 ⊢
  generalize splitLinesAux t [] = ls at h1 h2 ⊢
  simp only []
  split <;> simp only [rsize] <;> omega

theorem size_commentdoc (t : PS) : size (commentdoc t) ≤ cw t := Nat.le_trans (size_le_rsize _) (rsize_commentdoc t)

end Pr
end PP
