/-
C12: the document the printers build for a value is linear in the value — number of nodes, lengths of the strings and of the
comment texts (`wt`).  With `C12.machine_quadratic` this bounds the layout work by a quadratic in the value.
-/
import PP.Proofs.SizeComb
import PP.Proofs.ToksVal
namespace PP
namespace Pr
open Doc PyStr Tok

theorem natDigits_length (n : Nat) : (natDigits n).length ≤ n + 1 := by
  unfold natDigits
  simp only [List.length_map, String.length_toList]
  have : (toString n).length = n.repr.length := rfl
  rw [this, Nat.length_repr_le_iff (by omega)]
  calc n < 10 ^ n := Nat.lt_pow_self (by omega)
    _ ≤ 10 ^ (n + 1) := Nat.pow_le_pow_right (by omega) (by omega)

theorem truncationText_length (k : Nat) : (truncationText k).length ≤ k + 22 := by
  have := natDigits_length k
  simp only [truncationText, asciiPS, List.length_map, List.length_append, List.length_cons, List.length_nil]
  omega

theorem cwO_withTruncation (len : Nat) (msl : Option Nat) (tr : Option PS) :
    cwO (withTruncation len msl tr) ≤ cwO tr + 9 * len + 230 := by
  unfold withTruncation
  cases msl with
  | none => simp only []; omega
  | some n =>
    simp only []
    split
    · have h := truncationText_length (len - n)
      cases tr with
      | none => simp only [cwO, cw]; omega
      | some t =>
        simp only []
        split
        · simp only [cwO, cw]; omega
        · simp only [cwO, cw, List.length_append, asciiPS, List.length_map, List.length_cons, List.length_nil]; omega
    · omega

theorem sumBy_take {α} (f : α → Nat) (n : Option Nat) (xs : List α) : sumBy f (takeOpt n xs) ≤ sumBy f xs := by
  cases n with
  | none => exact Nat.le_refl _
  | some k =>
    simp only [takeOpt]
    induction k generalizing xs with
    | zero => simp [sumBy]
    | succ k ih =>
      cases xs with
      | nil => simp [sumBy]
      | cons x r => simp only [List.take_succ_cons, sumBy]; have := ih r; omega

theorem celt_nc {d : Doc} (h : commented? d = none) : celt d = rsize d := by simp [celt, cwC, h]

theorem rsize_emptyCall (ctx : Ctx) (fn : QualName) : rsize (emptyCall ctx fn) ≤ 14 := by
  unfold emptyCall ellipsisCall; split <;> simp [rsize, rsizes, generalIdentifier, tk, ELLIPSIS]

theorem rsize_gi (q : QualName) : rsize (generalIdentifier q) = 3 := by simp [generalIdentifier, tk, rsize]

@[simp] theorem rsize_ELLIPSIS : rsize ELLIPSIS = 3 := rfl
@[simp] theorem rsize_LBRACE : rsize LBRACE = 3 := rfl
@[simp] theorem rsize_RBRACE : rsize RBRACE = 3 := rfl

theorem rsize_brackets (kind : Nat) : rsize (brackets kind).1 = 3 ∧ rsize (brackets kind).2 = 3 := by
  unfold brackets; split
  · exact ⟨rfl, rfl⟩
  · split <;> exact ⟨rfl, rfl⟩

theorem rsize_hug1 (ind : Int) (fn : QualName) (a : Doc) (ha : commented? a = none) :
    rsize (buildFncall ind (generalIdentifier fn) [a] [] true none) ≤ rsize a + 33 := by
  have := rsize_buildFncall ind (generalIdentifier fn) [a] [] true
  simp only [sumBy, rsize_gi, celt_nc ha] at this
  omega

theorem rsize_seqDoc (ctx : Ctx) (kind : Nat) (cls : Option QualName) (len : Nat) (els : List Doc) (tr : Option PS) :
    rsize (seqDoc ctx kind cls len els tr) ≤ sumBy (fun d => celt d + 12) els + cwO tr + 9 * len + 330 := by
  obtain ⟨hb1, hb2⟩ := rsize_brackets kind
  have htr := cwO_withTruncation len ctx.maxSeqLen tr
  have hels : sumBy (fun d => celt d + 12) (if (len == 1) = true then els else takeOpt ctx.maxSeqLen els) ≤
      sumBy (fun d => celt d + 12) els := by
    split
    · exact Nat.le_refl _
    · exact sumBy_take _ _ _
  unfold seqDoc
  simp only []
  split
  · split
    · simp only [rsize, rsizes, hb1, hb2]; omega
    · have := rsize_emptyCall ctx (cls.getD (builtin (seqName kind))); omega
  · split
    · split
      · split
        · simp only [rsize, rsizes, hb1, hb2, rsize_ELLIPSIS]; omega
        · have := rsize_hug1 ctx.indent (cls.getD (builtin (seqName kind))) (Doc.cat [(brackets kind).1, ELLIPSIS, (brackets kind).2]) rfl
          simp only [rsize, rsizes, hb1, hb2, rsize_ELLIPSIS] at this
          omega
      · simp only [ellipsisCall, rsize, rsizes, rsize_gi, rsize_ELLIPSIS, rsize_LPAREN, rsize_RPAREN]; omega
    · cases hw : withTruncation len ctx.maxSeqLen tr with
      | some t =>
        have htr' : cw t ≤ cwO tr + 9 * len + 230 := by have := htr; rw [hw] at this; exact this
        simp only []
        have hs := rsize_sequenceOfDocs ctx.indent (brackets kind).1 (brackets kind).2
          ((if (len == 1) = true then els else takeOpt ctx.maxSeqLen els) ++ [commentdoc t]) false (some t).isSome
        rw [sumBy_append] at hs
        have hce : celt (commentdoc t) ≤ cw t := by rw [celt_nc rfl]; exact rsize_commentdoc t
        simp only [sumBy, hb1, hb2] at hs
        split
        · omega
        · have := rsize_hug1 ctx.indent (cls.getD (builtin (seqName kind))) _ (Tok.nc_sequenceOfDocs ctx.indent (brackets kind).1 (brackets kind).2
            ((if (len == 1) = true then els else takeOpt ctx.maxSeqLen els) ++ [commentdoc t]) false (some t).isSome)
          omega
      | none =>
        simp only []
        have hs := rsize_sequenceOfDocs ctx.indent (brackets kind).1 (brackets kind).2
          (if (len == 1) = true then els else takeOpt ctx.maxSeqLen els) (kind == 1 && len == 1) (none : Option PS).isSome
        simp only [hb1, hb2] at hs
        split
        · omega
        · have := rsize_hug1 ctx.indent (cls.getD (builtin (seqName kind))) _ (Tok.nc_sequenceOfDocs ctx.indent (brackets kind).1 (brackets kind).2
            (if (len == 1) = true then els else takeOpt ctx.maxSeqLen els) (kind == 1 && len == 1) (none : Option PS).isSome)
          omega

theorem sumBy_perm {α} (f : α → Nat) {xs ys : List α} (h : xs.Perm ys) : sumBy f xs = sumBy f ys := by
  induction h with
  | nil => rfl
  | cons x _ ih => simp [sumBy, ih]
  | swap x y l => simp [sumBy]; omega
  | trans _ _ ih1 ih2 => rw [ih1, ih2]

theorem rsize_dictDoc (ctx : Ctx) (cls : Option QualName) (pds : List PairDocs) (tr : Option PS) :
    rsize (dictDoc ctx cls pds tr) ≤ sumBy pairCost pds + cwO tr + 9 * pds.length + 330 := by
  have htr := cwO_withTruncation pds.length ctx.maxSeqLen tr
  unfold dictDoc
  simp only []
  split
  · split
    · simp only [rsize, rsizes, rsize_ELLIPSIS, rsize_LBRACE, rsize_RBRACE]; omega
    · have := rsize_hug1 ctx.indent (cls.getD (builtin nmDict)) (Doc.cat [LBRACE, ELLIPSIS, RBRACE]) rfl
      simp only [rsize, rsizes, rsize_ELLIPSIS, rsize_LBRACE, rsize_RBRACE] at this
      omega
  · have hsum : sumBy pairCost (takeOpt ctx.maxSeqLen (if ctx.sortKeys = true then sortPDs pds else pds)) ≤ sumBy pairCost pds := by
      refine Nat.le_trans (sumBy_take _ _ _) ?_
      split
      · exact Nat.le_of_eq (sumBy_perm _ (C01.sortK_perm pds))
      · exact Nat.le_refl _
    generalize takeOpt ctx.maxSeqLen (if ctx.sortKeys = true then sortPDs pds else pds) = ps at hsum
    have hparts := rsizes_dictPartsOf ctx.indent ps.length ps 0
    have hbody : ∀ (t : Option PS), rsizes (match t with
        | some t => (dictPartsOf ctx.indent ps.length ps 0).1 ++ [Doc.cat [.hardline, commentdoc t]]
        | none => (dictPartsOf ctx.indent ps.length ps 0).1) ≤ sumBy pairCost ps + cwO t + 2 := by
      intro t
      cases t with
      | none => simp only [cwO]; omega
      | some tt =>
        have := rsize_commentdoc tt
        simp only [rsizes_append, rsizes, rsize, cwO]; omega
    have hdoc : ∀ (t : Option PS) (b : Bool), rsize (if b = true then
          Doc.ab (bracket ctx.indent LBRACE (.cat (match t with
            | some t => (dictPartsOf ctx.indent ps.length ps 0).1 ++ [Doc.cat [.hardline, commentdoc t]]
            | none => (dictPartsOf ctx.indent ps.length ps 0).1)) RBRACE)
        else .group (bracket ctx.indent LBRACE (.cat (match t with
            | some t => (dictPartsOf ctx.indent ps.length ps 0).1 ++ [Doc.cat [.hardline, commentdoc t]]
            | none => (dictPartsOf ctx.indent ps.length ps 0).1)) RBRACE)) ≤ sumBy pairCost ps + cwO t + 20 := by
      intro t b
      have := hbody t
      cases b <;> simp only [Bool.false_eq_true, if_false, if_true, rsize, bracket, rsizes, rsize_softline, rsize_LBRACE, rsize_RBRACE] <;> omega
    have hnc : ∀ (t : Option PS) (b : Bool), commented? (if b = true then
          Doc.ab (bracket ctx.indent LBRACE (.cat (match t with
            | some t => (dictPartsOf ctx.indent ps.length ps 0).1 ++ [Doc.cat [.hardline, commentdoc t]]
            | none => (dictPartsOf ctx.indent ps.length ps 0).1)) RBRACE)
        else .group (bracket ctx.indent LBRACE (.cat (match t with
            | some t => (dictPartsOf ctx.indent ps.length ps 0).1 ++ [Doc.cat [.hardline, commentdoc t]]
            | none => (dictPartsOf ctx.indent ps.length ps 0).1)) RBRACE)) = none := by
      intro t b; cases b <;> rfl
    generalize withTruncation pds.length ctx.maxSeqLen tr = t at htr
    by_cases hcn : cls.isNone = true
    · rw [if_pos hcn]
      exact Nat.le_trans (hdoc t _) (by omega)
    · rw [if_neg hcn]
      have hE := rsize_emptyCall ctx (cls.getD (builtin nmDict))
      cases t with
      | none =>
        simp only []
        by_cases he : (dictPartsOf ctx.indent ps.length ps 0).1.isEmpty = true
        · rw [if_pos he]; omega
        · rw [if_neg he]
          refine Nat.le_trans (rsize_hug1 ctx.indent (cls.getD (builtin nmDict)) _ (hnc none _)) ?_
          exact Nat.le_trans (Nat.add_le_add_right (hdoc none _) 33) (by simp only [cwO] at htr ⊢; omega)
      | some tt =>
        simp only []
        rw [if_neg (by simp)]
        refine Nat.le_trans (rsize_hug1 ctx.indent (cls.getD (builtin nmDict)) _ (hnc (some tt) _)) ?_
        exact Nat.le_trans (Nat.add_le_add_right (hdoc (some tt) _) 33) (by omega)

/-! ### leaves -/

theorem rsize_intDoc (ctx : Ctx) (n : Int) : rsize (intDoc ctx n) ≤ 13 ∧ commented? (intDoc ctx n) = none := by
  unfold intDoc ellipsisCall
  split
  · exact ⟨by simp only [rsize, rsizes, rsize_gi, rsize_LPAREN, rsize_RPAREN, rsize_ELLIPSIS]; omega, rfl⟩
  · exact ⟨by simp [tk, rsize], rfl⟩

theorem sumBy_le_length {α} (f : α → Nat) (k : Nat) (xs : List α) (h : ∀ x ∈ xs, f x ≤ k) : sumBy f xs ≤ k * xs.length := by
  induction xs with
  | nil => simp [sumBy]
  | cons x r ih =>
    have h1 := h x (by simp)
    have h2 := ih (fun y hy => h y (by simp [hy]))
    simp only [sumBy, List.length_cons, Nat.mul_succ]; omega

theorem celt_tdKw (ctx : Ctx) (d s u : Int) : (∀ p ∈ tdKw ctx d s u, celt p.2 ≤ 60) ∧ (tdKw ctx d s u).length ≤ 6 := by
  unfold tdKw
  simp only []
  have hbase : ∀ (attrs : List (Str × Int)), (∀ p ∈ (attrs.filter fun (_, v) => v != 0).map (fun (k, v) => (k, intDoc ctx.nested v)), celt p.2 ≤ 60) ∧
      ((attrs.filter fun (_, v) => v != 0).map (fun (k, v) => (k, intDoc ctx.nested v))).length ≤ attrs.length := by
    intro attrs
    refine ⟨?_, by simp only [List.length_map]; exact List.length_filter_le _ _⟩
    intro p hp
    simp only [List.mem_map] at hp
    obtain ⟨a, _, rfl⟩ := hp
    have := rsize_intDoc ctx.nested a.2
    simp only [celt, cwC, this.2]; omega
  generalize hkw : ((([(str_ "days", (timedeltaParts d s u).2.1), (str_ "hours", (timedeltaParts d s u).2.2.1),
      (str_ "minutes", (timedeltaParts d s u).2.2.2.1), (str_ "seconds", (timedeltaParts d s u).2.2.2.2.1),
      (str_ "milliseconds", (timedeltaParts d s u).2.2.2.2.2.1), (str_ "microseconds", (timedeltaParts d s u).2.2.2.2.2.2)] :
      List (Str × Int)).filter fun (_, v) => v != 0).map fun (k, v) => (k, intDoc ctx.nested v)) = kw
  have hk : (∀ p ∈ kw, celt p.2 ≤ 60) ∧ kw.length ≤ 6 := by rw [← hkw]; exact hbase _
  cases kw with
  | nil => simp
  | cons x rest =>
    obtain ⟨k, dd⟩ := x
    have hdays : ∀ (pre post : List Doc), rsizes pre ≤ 18 → rsizes post ≤ 18 → celt (Doc.cat (pre ++ [intDoc ctx 365] ++ post)) ≤ 60 := by
      intro pre post h1 h2
      have := (rsize_intDoc ctx 365).1
      simp only [celt, cwC, commented?, rsize, rsizes_append, rsizes]; omega
    simp only []
    split
    · split
      · refine ⟨?_, by simpa using hk.2⟩
        intro p hp
        simp only [List.mem_cons] at hp
        rcases hp with rfl | hp
        · apply hdays
          · split
            · have hI := (rsize_intDoc ctx ((timedeltaParts d s u).2.1 / 365)).1
              generalize intDoc ctx ((timedeltaParts d s u).2.1 / 365) = X at hI ⊢
              simp [rsizes, rsize, MUL_OP, tk]; omega
            · simp [rsizes]
          · split
            · have hI := (rsize_intDoc ctx ((timedeltaParts d s u).2.1 % 365)).1
              generalize intDoc ctx ((timedeltaParts d s u).2.1 % 365) = X at hI ⊢
              simp [rsizes, rsize, ADD_OP, tk]; omega
            · simp [rsizes]
        · exact hk.1 p (by simp [hp])
      · exact hk
    · exact hk

theorem rsize_timedeltaDoc (ctx : Ctx) (d s u : Int) : rsize (timedeltaDoc ctx d s u) ≤ 520 := by
  rw [timedeltaDoc_eq]
  obtain ⟨h1, h2⟩ := celt_tdKw ctx d s u
  have hb := rsize_buildFncall ctx.indent (generalIdentifier nmTimedelta) [] (tdKw ctx d s u) false
  have hs := sumBy_le_length (fun p : Str × Doc => celt p.2 + 21) 81 (tdKw ctx d s u) (fun p hp => by have := h1 p hp; omega)
  simp only [sumBy, rsize_gi] at hb
  split
  · simp only [ellipsisCall, rsize, rsizes, rsize_gi, rsize_LPAREN, rsize_RPAREN, rsize_ELLIPSIS]; omega
  · simp only []
    split <;> simp only [rsize, rsizes] <;> simp [NEG_OP, tk, rsize] <;> omega

/-! ### the weight of a value and the main bound -/

mutual
/-- nodes, string lengths and comment lengths of a value, with generous constants -/
def wt : PyVal → Nat
  | .commented v t => wt v + cw t
  | .trailing v t => wt v + cw t
  | .none => 10
  | .ellipsis => 10
  | .bool _ => 10
  | .opaque _ => 10
  | .ident parts => 3 * parts.length + 10
  | .timedelta _ _ _ => 530
  | .path _ posix => 64 * posix.length + 200
  | .int _ _ _ => 60
  | .float _ _ _ _ _ => 600
  | .str _ _ s => 64 * s.length + 150
  | .frozenset _ xs => wtL xs + 9 * xs.length + 400
  | .seq _ _ xs => wtL xs + 9 * xs.length + 400
  | .dict _ kvs => wtP kvs + 9 * kvs.length + 400
  | .call _ args kwargs => wtL args + wtK kwargs + 100
def wtL : List PyVal → Nat
  | [] => 0
  | v :: r => wt v + 14 + wtL r
def wtK : List (Str × PyVal) → Nat
  | [] => 0
  | (_, v) :: r => wt v + 21 + wtK r
def wtP : List (PyVal × PyVal) → Nat
  | [] => 0
  | (k, v) :: r => wt k + wt v + 30 + wtP r
end

theorem sumBy_mono {α} (f g : α → Nat) (h : ∀ x, f x ≤ g x) (xs : List α) : sumBy f xs ≤ sumBy g xs := by
  induction xs with
  | nil => simp [sumBy]
  | cons x r ih => have := h x; simp only [sumBy]; omega

/-- what the induction carries for one value -/
def SizeOk (ctx : Ctx) (v : PyVal) (c tr : Option PS) : Prop :=
  rsize (toDocW ctx v c tr) + cwO (nonEmpty? (commentOf v c)) ≤ wt v + cwO c + cwO tr

theorem celt_toDoc (ctx : Ctx) (v : PyVal) (hw : wfVal v) (h : SizeOk ctx v none none) :
    celt (toDocW ctx v none none) ≤ wt v := by
  obtain ⟨_, _, _, ht⟩ := toDocW_ok v ctx none none hw
  unfold SizeOk at h
  simp only [cwO, Nat.add_zero] at h
  unfold celt cwC
  cases hc : commented? (toDocW ctx v none none) with
  | none => simp only []; omega
  | some p =>
    obtain ⟨t, i⟩ := p
    rw [hc] at ht
    simp only [Option.map_some] at ht
    rw [← ht] at h
    simpa [cwO] using h

theorem sizeOk_of (ctx : Ctx) (v : PyVal) (c tr : Option PS) (inner : Doc) (hd : toDocW ctx v c tr = wrapC c inner)
    (hco : commentOf v c = c) (hs : rsize inner + 2 ≤ wt v + cwO tr) : SizeOk ctx v c tr := by
  unfold SizeOk
  rw [hd, hco]
  have h1 := nonEmpty_cwO c
  have : rsize (wrapC c inner) ≤ rsize inner + 2 := by
    unfold wrapC; split
    · simp only [rsize]; omega
    · omega
  omega

@[simp] theorem rsize_tk (t : Nat) (s : Str) : rsize (tk t s) = 3 := by simp [tk, rsize]

theorem rsize_pstr (sp : StrSpec) : rsize (Doc.pstr sp) = 64 * sp.s.length + 66 := by
  simp only [rsize, StrSpec.bound]; omega

theorem rsize_ellipsisCall (fn : QualName) : rsize (ellipsisCall fn) = 13 := by
  simp only [ellipsisCall, rsize, rsizes, rsize_gi, rsize_LPAREN, rsize_RPAREN, rsize_ELLIPSIS]

theorem asciiPS_length (s : Str) : (asciiPS s).length = s.length := by simp [asciiPS]

mutual
theorem toDocW_size : (v : PyVal) → (ctx : Ctx) → (c tr : Option PS) → wfVal v → SizeOk ctx v c tr
  | .commented v t, ctx, c, tr, hw => by
      have ih := toDocW_size v ctx (some t) tr (by simpa [wfVal] using hw)
      unfold SizeOk at *
      simp only [toDocW, commentOf, wt, cwO] at ih ⊢
      omega
  | .trailing v t, ctx, c, tr, hw => by
      have ih := toDocW_size v ctx c (some t) (by simpa [wfVal] using hw)
      unfold SizeOk at *
      simp only [toDocW, commentOf, wt, cwO] at ih ⊢
      omega
  | .none, ctx, c, tr, _ => sizeOk_of ctx _ c tr _ (by rw [toDocW]) rfl (by simp only [rsize_tk, wt]; omega)
  | .ellipsis, ctx, c, tr, _ => sizeOk_of ctx _ c tr _ (by rw [toDocW]) rfl (by simp only [rsize_ELLIPSIS, wt]; omega)
  | .bool b, ctx, c, tr, _ => sizeOk_of ctx _ c tr _ (by rw [toDocW]) rfl (by simp only [rsize_tk, wt]; omega)
  | .opaque r, ctx, c, tr, _ => sizeOk_of ctx _ c tr _ (by rw [toDocW]) rfl (by simp only [rsize, wt]; omega)
  | .ident parts, ctx, c, tr, _ => by
      refine sizeOk_of ctx _ c tr _ (by rw [toDocW]) rfl ?_
      have : rsize (identDoc parts) ≤ 3 * parts.length + 1 := by
        unfold identDoc
        split
        · simp
        · simp only [rsize]
          have : ∀ (g : Nat × Str → Doc), (∀ p, rsize (g p) = 3) → ∀ (ps : List (Nat × Str)), rsizes (ps.map g) = 3 * ps.length := by
            intro g hg ps; induction ps with
            | nil => simp [rsizes]
            | cons p r ih => simp only [List.map_cons, rsizes, ih, hg, List.length_cons]; omega
          rw [this _ (by intro p; simp)]; omega
      simp only [wt]; omega
  | .timedelta d s u, ctx, c, tr, _ => by
      refine sizeOk_of ctx _ c tr _ (by rw [toDocW]) rfl ?_
      have := rsize_timedeltaDoc ctx d s u
      simp only [wt]; omega
  | .path cls posix, ctx, c, tr, _ => by
      refine sizeOk_of ctx _ c tr _ (by rw [toDocW]) rfl ?_
      have hb := rsize_buildFncall ctx.indent (generalIdentifier cls)
        [if ctx.depthZero then ellipsisCall (builtin nmStr)
         else .pstr { s := posix, strategy := ctx.strategy, ppIndent := ctx.indent, slashPattern := true }] [] false
      have he : celt (if ctx.depthZero then ellipsisCall (builtin nmStr)
         else Doc.pstr { s := posix, strategy := ctx.strategy, ppIndent := ctx.indent, slashPattern := true }) ≤ 64 * posix.length + 66 := by
        split
        · rw [celt_nc rfl, rsize_ellipsisCall]; omega
        · rw [celt_nc rfl, rsize_pstr]; exact Nat.le_refl _
      simp only [sumBy, rsize_gi] at hb
      simp only [wt]; omega
  | .int cls val lit, ctx, c, tr, _ => by
      refine sizeOk_of ctx _ c tr _ (by simp only [toDocW]; exact rfl) rfl ?_
      simp only [wt]
      split
      · rw [rsize_ellipsisCall]; omega
      · split
        · simp only [rsize_tk]; omega
        · have hb := rsize_buildFncall ctx.indent (generalIdentifier ‹QualName›) [tk tInt lit] [] false
          simp only [sumBy, rsize_gi, celt_nc (d := tk tInt lit) rfl, rsize_tk] at hb
          omega
  | .float cls kind lit num den, ctx, c, tr, _ => by
      refine sizeOk_of ctx _ c tr _ (by simp only [toDocW]; exact rfl) rfl ?_
      simp only [wt]
      split
      · rw [rsize_ellipsisCall]; omega
      · split
        · split
          · simp only [rsize_tk]; omega
          · have hb := rsize_buildFncall ctx.indent (generalIdentifier ‹QualName›) [tk tFloat lit] [] false
            simp only [sumBy, rsize_gi, celt_nc (d := tk tFloat lit) rfl, rsize_tk] at hb
            omega
        · have hb := rsize_buildFncall ctx.indent (generalIdentifier (cls.getD (builtin nmFloat)))
            [if (ctx.nested.withStrategy 1).depthZero then ellipsisCall (builtin nmStr)
             else Doc.pstr { s := asciiPS (if kind == 1 then [105, 110, 102] else if kind == 2 then [45, 105, 110, 102] else [110, 97, 110]),
                             strategy := 1, ppIndent := ctx.indent }] [] false
          have he : celt (if (ctx.nested.withStrategy 1).depthZero then ellipsisCall (builtin nmStr)
             else Doc.pstr { s := asciiPS (if kind == 1 then [105, 110, 102] else if kind == 2 then [45, 105, 110, 102] else [110, 97, 110]),
                             strategy := 1, ppIndent := ctx.indent }) ≤ 64 * 4 + 66 := by
            split
            · rw [celt_nc rfl, rsize_ellipsisCall]; omega
            · rw [celt_nc rfl, rsize_pstr]
              simp only [asciiPS_length]
              split
              · simp
              · split <;> simp
          simp only [sumBy, rsize_gi] at hb
          omega
  | .str cls isBytes s, ctx, c, tr, _ => by
      refine sizeOk_of ctx _ c tr _ (by rw [toDocW]) rfl ?_
      simp only [wt]
      split
      · rw [rsize_ellipsisCall]; omega
      · have : rsize (Doc.pstr { s := s, isBytes := isBytes, strategy := ctx.strategy, ppIndent := ctx.indent, cls := cls }) = 64 * s.length + 66 := rsize_pstr _
        rw [this]; omega
  | .frozenset cls xs, ctx, c, tr, hw => by
      have ih := toDocs_size xs (seqElCtx ctx xs.length) (by simpa [wfVal] using hw)
      refine sizeOk_of ctx _ c tr _ (by rw [toDocW]) rfl ?_
      simp only [wt]
      split
      · rw [rsize_ellipsisCall]; omega
      · split
        · simp only [rsize, rsizes, rsize_gi, rsize_LPAREN, rsize_RPAREN]; omega
        · have h1 := rsize_seqDoc ctx 0 none xs.length (toDocs (seqElCtx ctx xs.length) xs) none
          have h2 := rsize_hug1 ctx.indent (cls.getD (builtin nmFrozenset)) _ (nc_seqDoc ctx 0 none xs.length (toDocs (seqElCtx ctx xs.length) xs) none)
          have h3 := sumBy_mono (fun d => celt d + 12) (fun d => celt d + 14) (fun d => by omega) (toDocs (seqElCtx ctx xs.length) xs)
          simp only [cwO] at h1
          omega
  | .call f args kwargs, ctx, c, tr, hw => by
      have hw' : wfVals args ∧ wfKws kwargs := by simpa [wfVal] using hw
      have a1 := toDocs_size args ctx hw'.1
      have a2 := toDocs_size args (ctx.nested.withStrategy 1) hw'.1
      have a3 := toKwDocs_size kwargs (ctx.nested.withStrategy 1) hw'.2
      refine sizeOk_of ctx _ c tr _ (by rw [toDocW]) rfl ?_
      simp only [wt]
      unfold callDoc
      split
      · rw [rsize_ellipsisCall]; omega
      · split
        · have hb := rsize_buildFncall ctx.indent (generalIdentifier f) (toDocs ctx args) [] true
          simp only [sumBy, rsize_gi] at hb
          omega
        · have hb := rsize_buildFncall ctx.indent (generalIdentifier f) (toDocs (ctx.nested.withStrategy 1) args)
            (toKwDocs (ctx.nested.withStrategy 1) kwargs) false
          simp only [rsize_gi] at hb
          omega
  | .seq kind cls xs, ctx, c, tr, hw => by
      have ih := toDocs_size xs (seqElCtx ctx xs.length) (by simpa [wfVal] using hw)
      refine sizeOk_of ctx _ c tr _ (by rw [toDocW]) rfl ?_
      have h1 := rsize_seqDoc ctx kind cls xs.length (toDocs (seqElCtx ctx xs.length) xs) (nonEmpty? tr)
      have h3 := sumBy_mono (fun d => celt d + 12) (fun d => celt d + 14) (fun d => by omega) (toDocs (seqElCtx ctx xs.length) xs)
      have h4 := nonEmpty_cwO tr
      simp only [wt]; omega
  | .dict cls kvs, ctx, c, tr, hw => by
      have ih := dictDocs_size kvs ctx (by simpa [wfVal] using hw)
      refine sizeOk_of ctx _ c tr _ (by rw [toDocW]) rfl ?_
      have h1 := rsize_dictDoc ctx cls (dictDocs ctx kvs) (nonEmpty? tr)
      have h4 := nonEmpty_cwO tr
      simp only [wt]; omega

theorem toDocs_size : (vs : List PyVal) → (ctx : Ctx) → wfVals vs →
    sumBy (fun d => celt d + 14) (toDocs ctx vs) ≤ wtL vs
  | [], _, _ => by simp [toDocs, sumBy, wtL]
  | v :: r, ctx, hw => by
      simp only [wfVals] at hw
      have h1 := celt_toDoc ctx v hw.1 (toDocW_size v ctx none none hw.1)
      have h2 := toDocs_size r ctx hw.2
      simp only [toDocs, sumBy, wtL]; omega

theorem toKwDocs_size : (kws : List (Str × PyVal)) → (ctx : Ctx) → wfKws kws →
    sumBy (fun p => celt p.2 + 21) (toKwDocs ctx kws) ≤ wtK kws
  | [], _, _ => by simp [toKwDocs, sumBy, wtK]
  | (k, v) :: r, ctx, hw => by
      simp only [wfKws] at hw
      have h1 := celt_toDoc ctx v hw.1 (toDocW_size v ctx none none hw.1)
      have h2 := toKwDocs_size r ctx hw.2
      simp only [toKwDocs, sumBy, wtK]; omega

theorem dictDocs_size : (kvs : List (PyVal × PyVal)) → (ctx : Ctx) → wfPairs kvs →
    sumBy pairCost (dictDocs ctx kvs) ≤ wtP kvs ∧ (dictDocs ctx kvs).length = kvs.length
  | [], _, _ => by simp [dictDocs, sumBy, wtP]
  | (k, v) :: r, ctx, hw => by
      simp only [wfPairs] at hw
      obtain ⟨h2, h3⟩ := dictDocs_size r ctx hw.2.2
      refine ⟨?_, by simp [dictDocs, h3]⟩
      have hk := celt_toDoc ctx.nested k hw.1 (toDocW_size k ctx.nested none none hw.1)
      have hv := toDocW_size v (ctx.nested.withStrategy 2) none none hw.2.1
      have hr := toDocW_size v (ctx.nested.withStrategy 0) none none hw.2.1
      obtain ⟨_, _, _, ht⟩ := toDocW_ok v (ctx.nested.withStrategy 2) none none hw.2.1
      unfold SizeOk at hv hr
      have e0 : cwO none = 0 := rfl
      simp only [e0, Nat.add_zero] at hv hr
      have hkey : celt (keyDoc ctx k (toDocW ctx.nested k none none)) ≤ wt k := by
        unfold keyDoc
        split
        · rw [celt_nc rfl, rsize_pstr]; simp only [wt]; omega
        · exact hk
      simp only [dictDocs, sumBy, wtP, pairCost]
      have hcw : cwC (toDocW (ctx.nested.withStrategy 2) v none none) = cwO (nonEmpty? (commentOf v none)) := by
        rw [← ht]
        unfold cwC
        cases commented? (toDocW (ctx.nested.withStrategy 2) v none none) with
        | none => rfl
        | some p => rfl
      rw [hcw]
      split
      · omega
      · simp only [rsize]; omega
end

end Pr
end PP
