/-
When no limit bites — every container is at most as long as max_seq_len and the depth limit exceeds the nesting that
the printers descend — the shown value is the same as with no limit at all, hence so are the tokens of the output.
-/
import PP.Proofs.Shown
namespace PP
namespace Tok
open Doc PyStr Pr

-- nesting levels the printers descend through in `v`
mutual
def levels : PyVal → Nat
  | .commented v _ => levels v
  | .trailing v _ => levels v
  | .float _ kind _ _ _ => if kind == 0 then 0 else 1
  | .frozenset _ xs => 1 + levelsL xs
  | .seq _ _ xs => 1 + levelsL xs
  | .dict _ kvs => 1 + levelsP kvs
  | .call _ args kwargs => 1 + max (levelsL args) (levelsK kwargs)
  | _ => 0
def levelsL : List PyVal → Nat
  | [] => 0
  | v :: r => max (levels v) (levelsL r)
def levelsK : List (Str × PyVal) → Nat
  | [] => 0
  | (_, v) :: r => max (levels v) (levelsK r)
def levelsP : List (PyVal × PyVal) → Nat
  | [] => 0
  | (k, v) :: r => max (max (levels k) (levels v)) (levelsP r)
end

-- every container in `v` has at most `m` elements
mutual
def lenOk (m : Nat) : PyVal → Bool
  | .commented v _ => lenOk m v
  | .trailing v _ => lenOk m v
  | .frozenset _ xs => decide (xs.length ≤ m) && lenOkL m xs
  | .seq _ _ xs => decide (xs.length ≤ m) && lenOkL m xs
  | .dict _ kvs => decide (kvs.length ≤ m) && lenOkP m kvs
  | .call _ args kwargs => lenOkL m args && lenOkK m kwargs
  | _ => true
def lenOkL (m : Nat) : List PyVal → Bool
  | [] => true
  | v :: r => lenOk m v && lenOkL m r
def lenOkK (m : Nat) : List (Str × PyVal) → Bool
  | [] => true
  | (_, v) :: r => lenOk m v && lenOkK m r
def lenOkP (m : Nat) : List (PyVal × PyVal) → Bool
  | [] => true
  | (k, v) :: r => lenOk m k && lenOk m v && lenOkP m r
end

theorem withTruncation_le {len m : Nat} (h : len ≤ m) : withTruncation len (some m) none = none := by
  simp [withTruncation]; omega

theorem takeOpt_le {α : Type} {m : Nat} (xs : List α) (h : xs.length ≤ m) : takeOpt (some m) xs = xs := by
  simp [takeOpt, List.take_of_length_le h]

/-- the same context with the two limits removed (sorting kept) -/
def _root_.PP.Pr.Ctx.unlim (x : Ctx) : Ctx := { x with depthLeft := none, maxSeqLen := none }

@[simp] theorem unlim_nested (x : Ctx) : x.nested.unlim = x.unlim.nested := rfl
@[simp] theorem unlim_depthZero (x : Ctx) : x.unlim.depthZero = false := rfl
@[simp] theorem unlim_depthLeft (x : Ctx) : x.unlim.depthLeft = none := rfl
@[simp] theorem unlim_maxSeqLen (x : Ctx) : x.unlim.maxSeqLen = none := rfl
@[simp] theorem unlim_sortKeys (x : Ctx) : x.unlim.sortKeys = x.sortKeys := rfl

/-- no limit of `ctx` bites on a value with `n` levels whose containers have at most … elements -/
def DepthOk (ctx : Ctx) (n : Nat) : Prop := ctx.depthLeft = none ∨ ∃ d, ctx.depthLeft = some d ∧ n < d
def LenOk (ctx : Ctx) (p : Nat → Bool) : Prop := ctx.maxSeqLen = none ∨ ∃ m, ctx.maxSeqLen = some m ∧ p m = true

theorem DepthOk.zero {ctx : Ctx} {n : Nat} (h : DepthOk ctx n) : ctx.depthZero = false ∧ ctx.depthLeft.any (· == 0) = false := by
  unfold Ctx.depthZero
  rcases h with h | ⟨d, h, hd⟩
  · simp [h]
  · rw [h]
    cases d with
    | zero => omega
    | succ k => exact ⟨rfl, rfl⟩

theorem DepthOk.nested {ctx : Ctx} {n k : Nat} (h : DepthOk ctx n) (hk : k + 1 ≤ n) : DepthOk ctx.nested k := by
  rcases h with h | ⟨d, h, hd⟩
  · exact Or.inl (by simp [Ctx.nested, h])
  · refine Or.inr ⟨d - 1, by simp [Ctx.nested, h], by omega⟩

theorem DepthOk.mono {ctx : Ctx} {n k : Nat} (h : DepthOk ctx n) (hk : k ≤ n) : DepthOk ctx k := by
  rcases h with h | ⟨d, h, hd⟩
  · exact Or.inl h
  · exact Or.inr ⟨d, h, by omega⟩

theorem LenOk.nested {ctx : Ctx} {p : Nat → Bool} (h : LenOk ctx p) : LenOk ctx.nested p := h

theorem LenOk.imp {ctx : Ctx} {p q : Nat → Bool} (h : LenOk ctx p) (hpq : ∀ m, p m = true → q m = true) : LenOk ctx q := by
  rcases h with h | ⟨m, h, hm⟩
  · exact Or.inl h
  · exact Or.inr ⟨m, h, hpq m hm⟩

/-- a container of length `len ≤ m` is neither truncated nor marked -/
theorem LenOk.trunc {ctx : Ctx} {len : Nat} (h : LenOk ctx (fun m => decide (len ≤ m))) :
    withTruncation len ctx.maxSeqLen none = none ∧ ∀ {α : Type} (xs : List α), xs.length = len → takeOpt ctx.maxSeqLen xs = xs := by
  rcases h with h | ⟨m, h, hm⟩
  · rw [h]; exact ⟨rfl, fun xs _ => rfl⟩
  · rw [h]
    have hm' : len ≤ m := by simpa using hm
    exact ⟨withTruncation_le hm', fun xs hl => takeOpt_le xs (by omega)⟩

theorem sortK_length {α} (xs : List (PyVal × α)) : (sortK xs).length = xs.length := (C01.sortK_perm xs).length_eq

theorem shownPairs_length (ctx : Ctx) : ∀ (kvs : List (PyVal × PyVal)), (shownPairs ctx kvs).length = kvs.length
  | [] => rfl
  | (_, _) :: r => by simp [shownPairs, shownPairs_length ctx r]

mutual
theorem shown_unlim : (v : PyVal) → (ctx : Ctx) → DepthOk ctx (levels v) → LenOk ctx (fun m => lenOk m v) →
    shown ctx v = shown ctx.unlim v
  | .commented v t, ctx, hd, hl => by
      simp only [shown]; rw [shown_unlim v ctx (by simpa [levels] using hd) (hl.imp (by intro m h; simpa [lenOk] using h))]
  | .trailing v t, ctx, hd, hl => by
      simp only [shown]; rw [shown_unlim v ctx (by simpa [levels] using hd) (hl.imp (by intro m h; simpa [lenOk] using h))]
  | .none, _, _, _ => rfl
  | .ellipsis, _, _, _ => rfl
  | .bool _, _, _, _ => rfl
  | .opaque _, _, _, _ => rfl
  | .ident _, _, _, _ => rfl
  | .timedelta _ _ _, _, _, _ => rfl
  | .path _ _, ctx, hd, _ => by simp [shown, hd.zero.1]
  | .int _ _ _, ctx, hd, _ => by simp [shown, hd.zero.1]
  | .str _ _ _, ctx, hd, _ => by simp [shown, hd.zero.1]
  | .float cls kind lit n d, ctx, hd, _ => by
      simp only [shown, hd.zero.1, unlim_depthZero, Bool.false_eq_true, if_false]
      by_cases hk : (kind == 0) = true
      · simp [hk]
      · simp only [hk, Bool.false_eq_true, if_false]
        have hn : DepthOk ctx.nested 0 := hd.nested (by simp [levels, hk])
        have : ctx.unlim.nested.depthZero = false := rfl
        simp [hn.zero.1, this]
  | .frozenset cls xs, ctx, hd, hl => by
      have hlen : LenOk ctx (fun m => decide (xs.length ≤ m)) := hl.imp (by intro m h; simp only [lenOk, Bool.and_eq_true] at h; exact h.1)
      have ih := shownL_unlim xs ctx.nested (hd.nested (by simp [levels]; omega))
        ((hl.imp (by intro m h; simp only [lenOk, Bool.and_eq_true] at h; exact h.2)).nested)
      obtain ⟨t1, t2⟩ := hlen.trunc
      simp only [shown, hd.zero.2, unlim_depthLeft, Option.any_none, Bool.false_eq_true, if_false, t1, unlim_maxSeqLen,
        withTruncation_noLimit, ih, unlim_nested]
  | .call f args kwargs, ctx, hd, hl => by
      have hlA : LenOk ctx (fun m => lenOkL m args) := hl.imp (by intro m h; simp only [lenOk, Bool.and_eq_true] at h; exact h.1)
      have hlK : LenOk ctx (fun m => lenOkK m kwargs) := hl.imp (by intro m h; simp only [lenOk, Bool.and_eq_true] at h; exact h.2)
      have i1 := shownL_unlim args ctx (hd.mono (by simp [levels]; omega)) hlA
      have i2 := shownL_unlim args ctx.nested (hd.nested (by simp [levels]; omega)) hlA.nested
      have i3 := shownK_unlim kwargs ctx.nested (hd.nested (by simp [levels]; omega)) hlK.nested
      simp only [shown, hd.zero.2, unlim_depthLeft, Option.any_none, Bool.false_eq_true, if_false, i1, i2, i3, unlim_nested]
  | .seq kind cls xs, ctx, hd, hl => by
      have hlen : LenOk ctx (fun m => decide (xs.length ≤ m)) := hl.imp (by intro m h; simp only [lenOk, Bool.and_eq_true] at h; exact h.1)
      have ih := shownL_unlim xs ctx.nested (hd.nested (by simp [levels]; omega))
        ((hl.imp (by intro m h; simp only [lenOk, Bool.and_eq_true] at h; exact h.2)).nested)
      obtain ⟨t1, t2⟩ := hlen.trunc
      simp only [shown, hd.zero.1, hd.zero.2, unlim_depthZero, unlim_depthLeft, Option.any_none, Bool.false_eq_true, if_false,
        cutSeq, t1, unlim_maxSeqLen, withTruncation_noLimit, ih, unlim_nested]
  | .dict cls kvs, ctx, hd, hl => by
      have hlen : LenOk ctx (fun m => decide (kvs.length ≤ m)) := hl.imp (by intro m h; simp only [lenOk, Bool.and_eq_true] at h; exact h.1)
      have ih := shownP_unlim kvs ctx (hd.mono (Nat.le_refl _))
        (hl.imp (by intro m h; simp only [lenOk, Bool.and_eq_true] at h; exact h.2))
      obtain ⟨t1, t2⟩ := hlen.trunc
      have hps : ∀ (ps : List (PyVal × PyVal × PyVal)), ps.length = kvs.length → takeOpt ctx.maxSeqLen ps = ps := fun ps h => t2 ps h
      simp only [shown, hd.zero.1, unlim_depthZero, Bool.false_eq_true, if_false, t1, unlim_maxSeqLen, withTruncation_noLimit,
        unlim_sortKeys, ← ih]
      rw [hps _ (by split <;> simp [sortK_length, shownPairs_length])]
      simp [takeOpt]

theorem shownL_unlim : (xs : List PyVal) → (ctx : Ctx) → DepthOk ctx (levelsL xs) → LenOk ctx (fun m => lenOkL m xs) →
    shownL ctx xs = shownL ctx.unlim xs
  | [], _, _, _ => rfl
  | v :: r, ctx, hd, hl => by
      simp only [shownL]
      rw [shown_unlim v ctx (hd.mono (by simp [levelsL]; omega)) (hl.imp (by intro m h; simp only [lenOkL, Bool.and_eq_true] at h; exact h.1)),
        shownL_unlim r ctx (hd.mono (by simp [levelsL]; omega)) (hl.imp (by intro m h; simp only [lenOkL, Bool.and_eq_true] at h; exact h.2))]

theorem shownK_unlim : (kws : List (Str × PyVal)) → (ctx : Ctx) → DepthOk ctx (levelsK kws) → LenOk ctx (fun m => lenOkK m kws) →
    shownKw ctx kws = shownKw ctx.unlim kws
  | [], _, _, _ => rfl
  | (k, v) :: r, ctx, hd, hl => by
      simp only [shownKw]
      rw [shown_unlim v ctx (hd.mono (by simp [levelsK]; omega)) (hl.imp (by intro m h; simp only [lenOkK, Bool.and_eq_true] at h; exact h.1)),
        shownK_unlim r ctx (hd.mono (by simp [levelsK]; omega)) (hl.imp (by intro m h; simp only [lenOkK, Bool.and_eq_true] at h; exact h.2))]

theorem shownP_unlim : (kvs : List (PyVal × PyVal)) → (ctx : Ctx) → DepthOk ctx (1 + levelsP kvs) → LenOk ctx (fun m => lenOkP m kvs) →
    shownPairs ctx kvs = shownPairs ctx.unlim kvs
  | [], _, _, _ => rfl
  | (k, v) :: r, ctx, hd, hl => by
      simp only [shownPairs]
      rw [shown_unlim k ctx.nested (hd.nested (by simp [levelsP]; omega)) ((hl.imp (by intro m h; simp only [lenOkP, Bool.and_eq_true] at h; exact h.1.1)).nested),
        shown_unlim v ctx.nested (hd.nested (by simp [levelsP]; omega)) ((hl.imp (by intro m h; simp only [lenOkP, Bool.and_eq_true] at h; exact h.1.2)).nested),
        shownP_unlim r ctx (hd.mono (by simp [levelsP]; omega)) (hl.imp (by intro m h; simp only [lenOkP, Bool.and_eq_true] at h; exact h.2))]
      rfl
end

end Tok
end PP
