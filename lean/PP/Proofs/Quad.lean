import Mathlib.Tactic.Ring
import Mathlib.Tactic.Linarith
namespace PP

/-- the accounting step of the quadratic bound: a step that costs at most `2n + 3` and shrinks the measure from `n`
to at most `n - 1` keeps the total under `(n + 2)²` -/
theorem quad_step (a n c w : Nat) (ha : a + 1 ≤ n) (hc : c ≤ 2 * n + 3) (hw : w ≤ (a + 2) * (a + 2)) :
    c + w ≤ (n + 2) * (n + 2) := by
  have h1 : (a + 2) * (a + 2) ≤ (n + 1) * (n + 1) := Nat.mul_le_mul (by omega) (by omega)
  nlinarith

theorem step_le {n P C s : Nat} (ih : n ≤ P + s + 1) (h : P < C) : n + 1 ≤ C + s + 1 := by omega

theorem quad_lt {w P C s : Nat} (ih : w ≤ (P + s + 2) * (P + s + 2)) (h : P < C) :
    1 + w ≤ (C + s + 2) * (C + s + 2) :=
  quad_step (P + s) (C + s) 1 w (by omega) (by omega) ih

end PP
