/-
C02: the splitter never loses, duplicates or reorders characters and never produces an empty piece.
(Termination is the definition's `termination_by`.)
-/
import PP.Model.PyStr
namespace PP
namespace PyStr

def partsJoin : List Part → PS
  | [] => []
  | (p, _) :: r => p ++ partsJoin r
def nextText : Option Part → PS
  | none => []
  | some (p, _) => p

theorem out_flatten (curr : List PS) (this : PS) :
    (if (if this.isEmpty then curr else curr ++ [this]).isEmpty then ([] : List PS)
      else [(if this.isEmpty then curr else curr ++ [this]).flatten]).flatten = curr.flatten ++ this := by
  by_cases ht : this.isEmpty
  · have : this = [] := by simpa using ht
    subst this
    by_cases hc : curr.isEmpty
    · have : curr = [] := by simpa using hc
      subst this; simp
    · simp [hc]
  · simp [ht]

theorem take_of_drop_nil {α} (n : Nat) (p : List α) (h : List.drop n p = []) : List.take n p = p := by
  have := List.take_append_drop n p; rw [h] at this; simpa using this

theorem go_join (esc : PS → Nat) (maxLen rest next curr currLen h hp) :
    (go esc maxLen rest next curr currLen h hp).flatten = curr.flatten ++ nextText next ++ partsJoin rest := by
  fun_induction go esc maxLen rest next curr currLen h hp
  all_goals simp only [dite_eq_ite, List.flatten_append, List.flatten_cons, nextText, partsJoin] at *
  all_goals try rw [out_flatten]
  all_goals try simp_all [List.append_assoc]
  · rename_i rest curr currLen hlt p ws e len' hne remaining this nxt curr' out hA hB hC hp ih
    have h1 := out_flatten curr (List.take (maxLen - currLen) p)
    simp only [out, curr', this, remaining, dite_eq_ite]
    rw [h1, take_of_drop_nil (maxLen - currLen) p hC]
    simp [List.append_assoc]
  · rename_i rest curr currLen hlt p ws e len' hne remaining this nxt curr' out hA hB hC hp ih
    have h1 := out_flatten curr (List.take (maxLen - currLen) p)
    simp only [out, curr', this, nxt, remaining, dite_eq_ite]
    rw [h1]
    simp only [List.append_assoc]
    rw [← List.append_assoc (List.take _ p), List.take_append_drop]

/-- `pattern.split(s)` loses nothing: joining the alternating parts gives the string back -/
theorem splitAux_join (isSep : PChar → Bool) (s cur : PS) (inSep : Bool) :
    partsJoin (splitAux isSep s cur inSep) = cur.reverse ++ s := by
  induction s generalizing cur inSep with
  | nil => cases inSep <;> simp [splitAux, partsJoin]
  | cons c r ih =>
    simp only [splitAux]
    split
    · rw [ih]; simp
    · simp [partsJoin, ih]

theorem chooseParts_join (slash : Bool) (s : PS) : partsJoin (chooseParts slash s) = s := by
  unfold chooseParts splitParts
  split
  · simpa using splitAux_join _ s [] false
  · simp only []
    split <;> simpa using splitAux_join _ s [] false

end PyStr
end PP

namespace PP
namespace PyStr

theorem flatten_ne_nil {xs : List PS} (hne : xs ≠ []) (h : ∀ x ∈ xs, x ≠ []) : xs.flatten ≠ [] := by
  cases xs with
  | nil => exact absurd rfl hne
  | cons x r =>
    have := h x (by simp)
    simp [this]

theorem out_nonempty (curr : List PS) (this : PS) (hcurr : ∀ x ∈ curr, x ≠ []) :
    ∀ l ∈ (if (if this.isEmpty then curr else curr ++ [this]).isEmpty then ([] : List PS)
      else [(if this.isEmpty then curr else curr ++ [this]).flatten]), l ≠ [] := by
  intro l hl
  by_cases ht : this.isEmpty
  · simp only [ht, if_true] at hl
    by_cases hc : curr.isEmpty
    · simp [hc] at hl
    · simp only [hc] at hl
      simp only [Bool.false_eq_true, if_false, List.mem_singleton] at hl
      subst hl
      exact flatten_ne_nil (by simpa using hc) hcurr
  · have htne : this ≠ [] := by simpa using ht
    simp only [ht] at hl
    have hne : (curr ++ [this]).isEmpty = false := by cases curr <;> rfl
    simp only [Bool.false_eq_true, if_false, hne, List.mem_singleton] at hl
    subst hl
    simp [htne]

theorem go_nonempty (esc : PS → Nat) (maxLen rest next curr currLen h hp)
    (hcurr : ∀ x ∈ curr, x ≠ []) :
    ∀ l ∈ go esc maxLen rest next curr currLen h hp, l ≠ [] := by
  fun_induction go esc maxLen rest next curr currLen h hp
  case case1 => intro l hl; simp at hl
  case case2 =>
    rename_i hc _
    intro l hl
    simp only [List.mem_singleton] at hl
    subst hl
    exact flatten_ne_nil (by simpa using hc) hcurr
  case case3 => rename_i ih; exact ih hcurr
  case case4 => rename_i ih; exact ih hcurr
  case case5 =>
    rename_i hc _ ih
    intro l hl
    simp only [List.mem_cons] at hl
    rcases hl with rfl | hl
    · refine flatten_ne_nil ?_ hcurr
      intro hn; rw [hn] at hc; simp at hc
    · exact ih (by simp) l hl
  case case6 =>
    rename_i p ws hp1 _ _ _ _ _ ih
    intro l hl
    simp only [List.mem_cons] at hl
    have hpne : p ≠ [] := by
      have := hp1 (p, ws) rfl; simp at this; exact List.length_pos_iff.mp this
    rcases hl with rfl | hl
    · simp [hpne]
    · exact ih (by simp) l hl
  case case7 =>
    rename_i hc _ ih
    intro l hl
    simp only [List.mem_cons] at hl
    rcases hl with rfl | hl
    · refine flatten_ne_nil ?_ hcurr
      intro hn; rw [hn] at hc; simp at hc
    · exact ih (by simp) l hl
  case case8 =>
    rename_i ih
    intro l hl
    simp only [List.mem_append, dite_eq_ite] at hl
    rcases hl with hl | hl
    · exact out_nonempty _ _ hcurr l hl
    · exact ih (by simp) l hl
  case case9 =>
    rename_i ih
    intro l hl
    simp only [List.mem_append, dite_eq_ite] at hl
    rcases hl with hl | hl
    · exact out_nonempty _ _ hcurr l hl
    · exact ih (by simp) l hl
  case case10 =>
    rename_i p ws hp1 _ _ _ _ _ ih
    have hpne : p ≠ [] := by
      have := hp1 (p, ws) rfl; simp at this; exact List.length_pos_iff.mp this
    apply ih
    intro x hx
    simp only [List.mem_append, List.mem_singleton] at hx
    rcases hx with hx | rfl
    · exact hcurr x hx
    · exact hpne

/-- **lines_join** — for every positive width, quote, string and pattern, concatenating the pieces gives the string -/
theorem strToLines_join (isBytes slash : Bool) (maxLen : Nat) (hpos : 0 < maxLen) (q : Nat) (s : PS) :
    (strToLines isBytes slash maxLen hpos q s).flatten = s := by
  unfold strToLines
  split
  · split
    · rename_i h; simp at h; simp [h]
    · simp
  · have := go_join (escapedLen isBytes q) maxLen (chooseParts slash s) none [] 0 hpos (by intro q hq; cases hq)
    simpa [nextText, chooseParts_join] using this

/-- **lines_nonempty** — no piece is empty -/
theorem strToLines_nonempty (isBytes slash : Bool) (maxLen : Nat) (hpos : 0 < maxLen) (q : Nat) (s : PS) :
    ∀ l ∈ strToLines isBytes slash maxLen hpos q s, l ≠ [] := by
  unfold strToLines
  split
  · split
    · intro l hl; simp at hl
    · rename_i h; intro l hl; simp at hl; subst hl; simpa using h
  · exact go_nonempty _ _ _ _ _ _ _ _ (by simp)

end PyStr
end PP
