/-
C10 / C11 / sorted order at the level of code tokens: printing `v` with a depth limit, a max_seq_len limit and key sorting
emits exactly the tokens of printing — with no limit and no sorting — the *shown value* `shown ctx v`: dict entries put
in sorted order, every container cut to its first N elements and given a trailing comment iff it was longer, every node
at the depth cut replaced by a placeholder of its own type.
-/
import PP.Proofs.ToksVal
namespace PP
namespace Tok
open Doc PyStr Pr

/-- placeholder printed as `name(...)` -/
def phCall (fn : QualName) : PyVal := .ident [(tFn, fn.2), (tPunct, [40]), (tPunct, [46, 46, 46]), (tPunct, [41])]
/-- placeholder printed as `[...]`, `(...)`, `{...}` -/
def phLit (kind : Nat) : PyVal :=
  .ident [(tPunct, if kind == 0 then [91] else if kind == 1 then [40] else [123]), (tPunct, [46, 46, 46]),
          (tPunct, if kind == 0 then [93] else if kind == 1 then [41] else [125])]

theorem canon_phCall (ctx : Ctx) (fn : QualName) (tr) : canonW ctx (phCall fn) tr = ellToks fn := by
  simp [canonW, phCall, identToks, tkToks, tFn, tPunct, tComment, tStr, ellToks, cd, isBlank, LP, RP, ELL]

theorem canon_phLit (ctx : Ctx) (kind : Nat) (tr) :
    canonW ctx (phLit kind) tr = [(bracketToks kind).1, ELL, (bracketToks kind).2] := by
  unfold phLit bracketToks
  by_cases h0 : (kind == 0) = true
  · simp [h0, canonW, identToks, tkToks, tPunct, tComment, tStr, cd, isBlank, ELL]
  · by_cases h1 : (kind == 1) = true
    · simp [h0, h1, canonW, identToks, tkToks, tPunct, tComment, tStr, cd, isBlank, ELL, LP, RP]
    · simp [h0, h1, canonW, identToks, tkToks, tPunct, tComment, tStr, cd, isBlank, ELL]

/-- the unlimited, unsorted context -/
def _root_.PP.Pr.Ctx.free (x : Ctx) : Ctx := { x with depthLeft := none, maxSeqLen := none, sortKeys := false }

/-- str / bytes keys are printed as they are (no depth test, finding K5); other keys through the nested context -/
def shownKey (k : PyVal) (viaShown : PyVal) : PyVal :=
  match k with
  | .str cls isBytes s => .str cls isBytes s
  | _ => viaShown

/-- cut a list of shown elements to the limit and mark it with the truncation comment when it was longer -/
def cutSeq (ctx : Ctx) (kind : Nat) (cls : Option QualName) (len : Nat) (ys : List PyVal) : PyVal :=
  match withTruncation len ctx.maxSeqLen none with
  | some t => .trailing (.seq kind cls (if len == 1 then ys else takeOpt ctx.maxSeqLen ys)) t
  | none => .seq kind cls ys

mutual
def shown (ctx : Ctx) : PyVal → PyVal
  | .commented v t => .commented (shown ctx v) t
  | .trailing v t => .trailing (shown ctx v) t
  | .none => .none
  | .ellipsis => .ellipsis
  | .bool b => .bool b
  | .opaque r => .opaque r
  | .ident parts => .ident parts
  | .timedelta d s u => .timedelta d s u
  | .path cls posix => if ctx.depthZero then .call cls [phCall (builtin nmStr)] [] else .path cls posix
  | .int cls val lit => if ctx.depthZero then phCall (cls.getD (builtin nmInt)) else .int cls val lit
  | .float cls kind lit n d =>
      if ctx.depthZero then phCall (cls.getD (builtin nmFloat))
      else if kind == 0 then .float cls kind lit n d
      else if ctx.nested.depthZero then .call (cls.getD (builtin nmFloat)) [phCall (builtin nmStr)] []
      else .float cls kind lit n d
  | .str cls isBytes s =>
      if ctx.depthZero then phCall (cls.getD (builtin (if isBytes then nmBytes else nmStr))) else .str cls isBytes s
  | .frozenset cls xs =>
      let fn := cls.getD (builtin nmFrozenset)
      if ctx.depthLeft.any (· == 0) then phCall fn
      else match withTruncation xs.length ctx.maxSeqLen none with
        | some t => .call fn [.trailing (.seq 0 none (if xs.length == 1 then shownL ctx.nested xs else takeOpt ctx.maxSeqLen (shownL ctx.nested xs))) t] []
        | none => .frozenset cls (shownL ctx.nested xs)
  | .call f args kwargs =>
      if ctx.depthLeft.any (· == 0) then phCall f
      else if hugCall args kwargs then .call f (shownL ctx args) []
      else .call f (shownL ctx.nested args) (shownKw ctx.nested kwargs)
  | .seq kind cls xs =>
      let fn := cls.getD (builtin (seqName kind))
      if xs.length == 0 then
        (if kind != 2 && cls.isNone then .seq kind cls [] else if ctx.depthLeft.any (· == 0) then phCall fn else .seq kind cls [])
      else if ctx.depthZero then
        (if kind != 2 then (if cls.isNone then phLit kind else .call fn [phLit kind] []) else phCall fn)
      else cutSeq ctx kind cls xs.length (shownL ctx.nested xs)
  | .dict cls kvs =>
      let fn := cls.getD (builtin nmDict)
      if ctx.depthZero then (if cls.isNone then phLit 2 else .call fn [phLit 2] [])
      else
        let ps := shownPairs ctx kvs
        let ps := takeOpt ctx.maxSeqLen (if ctx.sortKeys then sortK ps else ps)
        match withTruncation kvs.length ctx.maxSeqLen none with
        | some t => .trailing (.dict cls (ps.map (·.2))) t
        | none => .dict cls (ps.map (·.2))
def shownL (ctx : Ctx) : List PyVal → List PyVal
  | [] => []
  | v :: r => shown ctx v :: shownL ctx r
def shownKw (ctx : Ctx) : List (Str × PyVal) → List (Str × PyVal)
  | [] => []
  | (k, v) :: r => (k, shown ctx v) :: shownKw ctx r
/-- original key (for sorting), shown key, shown value -/
def shownPairs (ctx : Ctx) : List (PyVal × PyVal) → List (PyVal × PyVal × PyVal)
  | [] => []
  | (k, v) :: r =>
    (k, shownKey k (shown ctx.nested k), shown ctx.nested v) :: shownPairs ctx r
end

@[simp] theorem free_depthZero (x : Ctx) : x.free.depthZero = false := rfl
@[simp] theorem free_depthLeft (x : Ctx) : x.free.depthLeft = none := rfl
@[simp] theorem free_maxSeqLen (x : Ctx) : x.free.maxSeqLen = none := rfl
@[simp] theorem free_sortKeys (x : Ctx) : x.free.sortKeys = false := rfl
@[simp] theorem free_nested (x : Ctx) : x.nested.free = x.free.nested := rfl
@[simp] theorem nested_maxSeqLen (x : Ctx) : x.nested.maxSeqLen = x.maxSeqLen := rfl
@[simp] theorem nested_sortKeys (x : Ctx) : x.nested.sortKeys = x.sortKeys := rfl

@[simp] theorem withTruncation_noLimit (len : Nat) (t : Option PS) : withTruncation len none t = t := rfl

theorem truncationText_ne (k : Nat) : truncationText k ≠ [] := by simp [truncationText, asciiPS]

theorem withTruncation_none {len : Nat} {msl : Option Nat} (h : withTruncation len msl none = none) :
    (∀ t, withTruncation len msl t = t) ∧ (∀ {α : Type} (xs : List α), xs.length = len → takeOpt msl xs = xs) := by
  unfold withTruncation at h
  cases msl with
  | none => exact ⟨fun t => rfl, fun xs _ => rfl⟩
  | some n =>
    simp only at h
    split at h
    · cases h
    · rename_i hgt
      refine ⟨fun t => by simp [withTruncation, hgt], fun xs hl => ?_⟩
      simp only [takeOpt]
      exact List.take_of_length_le (by omega)

theorem withTruncation_some {len : Nat} {msl : Option Nat} {t : PS} (h : withTruncation len msl none = some t) :
    t ≠ [] ∧ (∃ n, msl = some n ∧ len > n) ∧ (∀ t0, (withTruncation len msl t0).isSome = true) := by
  unfold withTruncation at h
  cases msl with
  | none => cases h
  | some n =>
    simp only at h
    split at h
    · rename_i hgt
      cases h
      refine ⟨truncationText_ne _, ⟨n, rfl, hgt⟩, fun t0 => ?_⟩
      simp only [withTruncation, hgt, if_true]
      cases t0 with
      | none => rfl
      | some x => simp only []; split <;> rfl
    · cases h

theorem canonL_length (ctx : Ctx) : ∀ (xs : List PyVal), (canonL ctx xs).length = xs.length
  | [] => rfl
  | _ :: r => by simp [canonL, canonL_length ctx r]

theorem canonL_take (ctx : Ctx) (n : Nat) : ∀ (xs : List PyVal), canonL ctx (xs.take n) = (canonL ctx xs).take n := by
  induction n with
  | zero => intro xs; simp [canonL]
  | succ n ih =>
    intro xs
    cases xs with
    | nil => simp [canonL]
    | cons x r => simp [canonL, ih r]

theorem canonL_takeOpt (ctx : Ctx) (n : Option Nat) (xs : List PyVal) : canonL ctx (takeOpt n xs) = takeOpt n (canonL ctx xs) := by
  cases n with
  | none => rfl
  | some k => exact canonL_take ctx k xs

theorem shownL_length (ctx : Ctx) : ∀ (xs : List PyVal), (shownL ctx xs).length = xs.length
  | [] => rfl
  | _ :: r => by simp [shownL, shownL_length ctx r]

theorem nonEmpty_some {t : PS} (h : t ≠ []) : nonEmpty? (some t) = some t := by
  simp [nonEmpty?, h]

/-- a non-empty list / tuple / set above the depth cut: limit N on the value = no limit on the cut value -/
theorem seq_shown (ctx : Ctx) (kind : Nat) (cls : Option QualName) (xs ys : List PyVal) (tr : Option PS)
    (hlen : ys.length = xs.length) (hels : canonL ctx.nested xs = canonL ctx.free.nested ys)
    (h0 : ctx.maxSeqLen ≠ some 0) (hne : (xs.length == 0) = false) (hz : ctx.depthZero = false) :
    seqCanon ctx kind cls xs.length (canonL ctx.nested xs) (nonEmpty? tr) =
      canonW ctx.free (cutSeq ctx kind cls xs.length ys) tr := by
  have hlen0 : xs.length ≠ 0 := by simpa using hne
  unfold cutSeq
  cases htr : withTruncation xs.length ctx.maxSeqLen none with
  | none =>
    obtain ⟨h1, h2⟩ := withTruncation_none htr
    simp only [canonW]
    unfold seqCanon
    simp only [hne, hz, hlen, free_depthZero, free_maxSeqLen, Bool.false_eq_true, if_false, h1]
    rw [h2 (canonL ctx.nested xs) (canonL_length _ _), hels]
    simp [withTruncation, takeOpt]
  | some t =>
    obtain ⟨h1, ⟨n, hn, hgt⟩, h3⟩ := withTruncation_some htr
    have hn0 : n ≠ 0 := by intro e; subst e; exact h0 hn
    have hl1 : (xs.length == 1) = false := by simp; omega
    simp only [canonW, hl1, Bool.false_eq_true, if_false]
    unfold seqCanon
    have hyl : (takeOpt ctx.maxSeqLen ys).length = n := by
      simp only [hn, takeOpt, List.length_take, hlen]; omega
    have hy0 : ((takeOpt ctx.maxSeqLen ys).length == 0) = false := by simp [hyl, hn0]
    simp only [hne, hz, hy0, free_depthZero, free_maxSeqLen, Bool.false_eq_true, if_false, hl1, nonEmpty_some h1]
    have hsome := h3 (nonEmpty? tr)
    cases hw : withTruncation xs.length ctx.maxSeqLen (nonEmpty? tr) with
    | none => rw [hw] at hsome; cases hsome
    | some t2 =>
      simp only [withTruncation, canonL_takeOpt, ← hels]
      simp [takeOpt]

/-! ### dicts -/

theorem dictPairToks_congr : ∀ (xs ys : List (PyVal × List CT × List CT)), xs.map (·.2) = ys.map (·.2) →
    dictPairToks xs = dictPairToks ys
  | [], [], _ => rfl
  | [], _ :: _, h => by simp at h
  | _ :: _, [], h => by simp at h
  | [(a, kt, vt)], [(b, kt', vt')], h => by
    simp only [List.map_cons, List.map_nil, List.cons.injEq, Prod.mk.injEq, and_true] at h
    simp [dictPairToks, h.1, h.2]
  | [_], _ :: _ :: _, h => by simp at h
  | _ :: _ :: _, [_], h => by simp at h
  | (a, kt, vt) :: x2 :: xr, (b, kt', vt') :: y2 :: yr, h => by
    simp only [List.map_cons, List.cons.injEq, Prod.mk.injEq] at h
    have ih := dictPairToks_congr (x2 :: xr) (y2 :: yr) (by simp [h.2.1, h.2.2])
    simp only [dictPairToks, h.1.1, h.1.2, ih]

theorem canonPairs_length (ctx : Ctx) : ∀ (kvs : List (PyVal × PyVal)), (canonPairs ctx kvs).length = kvs.length
  | [] => rfl
  | (_, _) :: r => by simp [canonPairs, canonPairs_length ctx r]

theorem canonPairs_payload (ctx : Ctx) : ∀ (qs : List (PyVal × PyVal)),
    (canonPairs ctx qs).map (·.2) = qs.map fun (k, v) => (keyCanon k (canonW ctx.nested k none), canonW ctx.nested v none)
  | [] => rfl
  | (k, v) :: r => by simp [canonPairs, canonPairs_payload ctx r]

theorem depthAny_of_zero {x : Ctx} (h : x.depthZero = false) : x.depthLeft.any (· == 0) = false := by
  unfold Ctx.depthZero at h
  cases hd : x.depthLeft with
  | none => rfl
  | some n =>
    rw [hd] at h
    simp only [Option.any_some]
    cases n with
    | zero => simp at h
    | succ k => rfl

theorem emptyCallToks_free {x : Ctx} (h : x.depthZero = false) (fn : QualName) : emptyCallToks x fn = emptyCallToks x.free fn := by
  simp [emptyCallToks, depthAny_of_zero h]

/-- payload tokens of a shown pair, printed without limits -/
def spToks (ctx : Ctx) (p : PyVal × PyVal) : List CT × List CT :=
  (keyCanon p.1 (canonW ctx.nested p.1 none), canonW ctx.nested p.2 none)

theorem dict_shown (ctx : Ctx) (cls : Option QualName) (kvs : List (PyVal × PyVal)) (sp : List (PyVal × PyVal × PyVal))
    (tr : Option PS) (hsl : sp.length = kvs.length)
    (hp : canonPairs ctx kvs = sp.map fun q => (q.1, spToks ctx.free q.2))
    (h0 : ctx.maxSeqLen ≠ some 0) (hz : ctx.depthZero = false) :
    dictCanon ctx cls (canonPairs ctx kvs) (nonEmpty? tr) =
      canonW ctx.free (match withTruncation kvs.length ctx.maxSeqLen none with
        | some t => .trailing (.dict cls ((takeOpt ctx.maxSeqLen (if ctx.sortKeys then sortK sp else sp)).map (·.2))) t
        | none => .dict cls ((takeOpt ctx.maxSeqLen (if ctx.sortKeys then sortK sp else sp)).map (·.2))) tr := by
  -- the shown pairs, sorted and cut, carry the tokens of the sorted and cut token pairs
  have hsorted : takeOpt ctx.maxSeqLen (if ctx.sortKeys = true then sortK (canonPairs ctx kvs) else canonPairs ctx kvs) =
      (takeOpt ctx.maxSeqLen (if ctx.sortKeys = true then sortK sp else sp)).map fun q => (q.1, spToks ctx.free q.2) := by
    rw [hp, takeOpt_map]
    split
    · rw [sortK_map (spToks ctx.free) sp]
    · rfl
  generalize hps : takeOpt ctx.maxSeqLen (if ctx.sortKeys = true then sortK sp else sp) = ps at hsorted
  have hbody : dictPairToks (ps.map fun q => (q.1, spToks ctx.free q.2)) = dictPairToks (canonPairs ctx.free (ps.map (·.2))) := by
    apply dictPairToks_congr
    rw [canonPairs_payload]
    simp [List.map_map, Function.comp_def, spToks]
  have hcl := canonPairs_length ctx kvs
  unfold dictCanon
  simp only [hz, Bool.false_eq_true, if_false, hsorted, hcl]
  cases htr : withTruncation kvs.length ctx.maxSeqLen none with
  | none =>
    obtain ⟨h1, h2⟩ := withTruncation_none htr
    simp only [canonW]
    unfold dictCanon
    simp only [free_depthZero, free_maxSeqLen, free_sortKeys, Bool.false_eq_true, if_false, h1, takeOpt, withTruncation_noLimit, hbody]
    by_cases hcn : cls.isNone = true
    · simp [hcn]
    · simp only [hcn, if_false, Bool.false_eq_true]
      rw [emptyCallToks_free hz]
      have : (canonPairs ctx.free (ps.map (·.2))).isEmpty = (ps.map fun q => (q.1, spToks ctx.free q.2)).isEmpty := by
        cases ps <;> simp [canonPairs]
      rw [this]
  | some t =>
    obtain ⟨h1, ⟨n, hn, hgt⟩, h3⟩ := withTruncation_some htr
    have hn0 : n ≠ 0 := by intro e; subst e; exact h0 hn
    simp only [canonW]
    unfold dictCanon
    simp only [free_depthZero, free_maxSeqLen, free_sortKeys, Bool.false_eq_true, if_false, takeOpt, withTruncation_noLimit,
      nonEmpty_some h1, hbody]
    have hsome := h3 (nonEmpty? tr)
    by_cases hcn : cls.isNone = true
    · simp [hcn]
    · simp only [hcn, if_false, Bool.false_eq_true]
      cases hw : withTruncation kvs.length ctx.maxSeqLen (nonEmpty? tr) with
      | none => rw [hw] at hsome; cases hsome
      | some t2 => simp

/-! ### the main induction -/

mutual
def noTd : PyVal → Bool
  | .timedelta _ _ _ => false
  | .seq _ _ xs => noTdL xs
  | .frozenset _ xs => noTdL xs
  | .dict _ kvs => noTdP kvs
  | .call _ args kwargs => noTdL args && noTdK kwargs
  | .commented v _ => noTd v
  | .trailing v _ => noTd v
  | _ => true
def noTdL : List PyVal → Bool
  | [] => true
  | v :: r => noTd v && noTdL r
def noTdK : List (Str × PyVal) → Bool
  | [] => true
  | (_, v) :: r => noTd v && noTdK r
def noTdP : List (PyVal × PyVal) → Bool
  | [] => true
  | (k, v) :: r => noTd k && noTd v && noTdP r
end

theorem depthZero_of_any {x : Ctx} (h : ¬ x.depthLeft.any (· == 0) = true) : x.depthZero = false := by
  unfold Ctx.depthZero
  cases hd : x.depthLeft with
  | none => rfl
  | some n =>
    rw [hd] at h
    cases n with
    | zero => simp at h
    | succ k => rfl

theorem huggable_shown (ctx : Ctx) (hz : ctx.depthZero = false) : ∀ (a : PyVal),
    isHuggable (stripComments (shown ctx a)) = isHuggable (stripComments a)
  | .commented v t => by simp only [shown, stripComments]; exact huggable_shown ctx hz v
  | .trailing v t => by simp only [shown, stripComments]; exact huggable_shown ctx hz v
  | .none => rfl
  | .ellipsis => rfl
  | .bool _ => rfl
  | .opaque _ => rfl
  | .ident _ => rfl
  | .timedelta _ _ _ => rfl
  | .path _ _ => by simp only [shown, hz]; rfl
  | .int _ _ _ => by simp only [shown, hz]; rfl
  | .float _ kind _ _ _ => by
      simp only [shown, hz, Bool.false_eq_true, if_false]
      split
      · rfl
      · split <;> rfl
  | .str _ _ _ => by simp only [shown, hz]; rfl
  | .frozenset _ xs => by
      simp only [shown]
      split
      · rfl
      · split <;> rfl
  | .call _ _ _ => by
      simp only [shown]
      split
      · rfl
      · split <;> rfl
  | .seq kind cls xs => by
      simp only [shown, hz, Bool.false_eq_true, if_false]
      split
      · split
        · rename_i h1 h2
          have : xs = [] := by simpa using h1
          subst this; rfl
        · rename_i h1 h2
          have : xs = [] := by simpa using h1
          subst this
          split <;> simp [stripComments, isHuggable, phCall] <;>
            (cases kind with
              | zero => cases cls <;> simp_all [isHuggable]
              | succ k => cases k with
                | zero => cases cls <;> simp_all [isHuggable]
                | succ j => rfl)
      · unfold cutSeq
        split <;> simp only [stripComments] <;>
          (cases kind with
            | zero => cases cls <;> rfl
            | succ k => cases k with
              | zero => cases cls <;> rfl
              | succ j => rfl)
  | .dict cls kvs => by
      simp only [shown, hz, Bool.false_eq_true, if_false]
      split <;> simp only [stripComments] <;> cases cls <;> rfl

theorem hugCall_shown (ctx : Ctx) (hz : ctx.depthZero = false) (args : List PyVal) (kwargs : List (Str × PyVal))
    (h : hugCall args kwargs = true) : hugCall (shownL ctx args) [] = true ∧ kwargs = [] := by
  unfold hugCall at h
  split at h
  · rename_i a
    simp only [shownL, hugCall]
    exact ⟨by rw [huggable_shown ctx hz a]; exact h, by simp⟩
  · cases h

/-- placeholders are never hugged: a value that is not a plain list / tuple / dict is not shown as one, whatever the depth -/
theorem not_huggable_shown (ctx : Ctx) : ∀ (a : PyVal),
    isHuggable (stripComments (shown ctx a)) = true → isHuggable (stripComments a) = true
  | .commented v t => by simp only [shown, stripComments]; exact not_huggable_shown ctx v
  | .trailing v t => by simp only [shown, stripComments]; exact not_huggable_shown ctx v
  | .none => id
  | .ellipsis => id
  | .bool _ => id
  | .opaque _ => id
  | .ident _ => id
  | .timedelta _ _ _ => id
  | .path _ _ => by simp only [shown]; split <;> simp [stripComments, isHuggable]
  | .int _ _ _ => by simp only [shown]; split <;> simp [stripComments, isHuggable, phCall]
  | .float _ kind _ _ _ => by
      simp only [shown]
      split
      · simp [stripComments, isHuggable, phCall]
      · split
        · simp [stripComments, isHuggable]
        · split <;> simp [stripComments, isHuggable]
  | .str _ _ _ => by simp only [shown]; split <;> simp [stripComments, isHuggable, phCall]
  | .frozenset _ xs => by
      simp only [shown]
      split
      · simp [stripComments, isHuggable, phCall]
      · split <;> simp [stripComments, isHuggable]
  | .call _ _ _ => by
      simp only [shown]
      split
      · simp [stripComments, isHuggable, phCall]
      · split <;> simp [stripComments, isHuggable]
  | .seq kind cls xs => by
      by_cases hz : ctx.depthZero = true
      · simp only [shown, hz, if_true]
        split
        · rename_i h1
          have : xs = [] := by simpa using h1
          subst this
          split
          · exact id
          · split
            · simp [stripComments, isHuggable, phCall]
            · exact id
        · split
          · split <;> simp [stripComments, isHuggable, phLit]
          · simp [stripComments, isHuggable, phCall]
      · have hz' : ctx.depthZero = false := by simpa using hz
        rw [huggable_shown ctx hz']; exact id
  | .dict cls kvs => by
      by_cases hz : ctx.depthZero = true
      · simp only [shown, hz, if_true]
        split <;> simp [stripComments, isHuggable, phLit]
      · have hz' : ctx.depthZero = false := by simpa using hz
        rw [huggable_shown ctx hz']; exact id

theorem hugCall_shown_false (ctx ctx' : Ctx) (args : List PyVal) (kwargs : List (Str × PyVal))
    (h : ¬ hugCall args kwargs = true) : hugCall (shownL ctx' args) (shownKw ctx kwargs) = false := by
  cases args with
  | nil => cases kwargs <;> rfl
  | cons a r =>
    cases r with
    | cons b r2 => cases kwargs <;> rfl
    | nil =>
      cases kwargs with
      | cons k kr => obtain ⟨k1, k2⟩ := k; rfl
      | nil =>
        simp only [shownL, shownKw, hugCall] at h ⊢
        cases hh : isHuggable (stripComments (shown ctx' a))
        · rfl
        · exact absurd (not_huggable_shown ctx' a hh) h

def isStrVal : PyVal → Bool
  | .str _ _ _ => true
  | _ => false

theorem keyCanon_nonstr (k : PyVal) (h : isStrVal k = false) (x : List CT) : keyCanon k x = x := by
  cases k <;> simp [keyCanon] <;> simp [isStrVal] at h

theorem shown_not_str (ctx : Ctx) (k : PyVal) (h : isStrVal k = false) : isStrVal (shown ctx k) = false := by
  cases k with
  | str _ _ _ => simp [isStrVal] at h
  | seq kind cls xs =>
    simp only [shown]
    split
    · split
      · rfl
      · split <;> rfl
    · split
      · split
        · split <;> rfl
        · rfl
      · unfold cutSeq; split <;> rfl
  | dict cls kvs =>
    simp only [shown]
    split
    · split <;> rfl
    · split <;> rfl
  | frozenset cls xs =>
    simp only [shown]
    split
    · rfl
    · split <;> rfl
  | call f a k =>
    simp only [shown]
    split
    · rfl
    · split <;> rfl
  | float cls kind lit n d =>
    simp only [shown]
    split
    · rfl
    · split
      · rfl
      · split <;> rfl
  | int _ _ _ => simp only [shown]; split <;> rfl
  | path _ _ => simp only [shown]; split <;> rfl
  | _ => rfl

theorem canon_call_ph (ctx : Ctx) (f : QualName) (ph : PyVal) (tr : Option PS) (hh : isHuggable (stripComments ph) = false) :
    canonW ctx.free (.call f [ph] []) tr = callToks f [canonW ctx.free.nested ph none] := by
  simp [canonW, hugCall, hh, canonL, canonKw]

theorem hug_phCall (fn : QualName) : isHuggable (stripComments (phCall fn)) = false := rfl
theorem hug_phLit (k : Nat) : isHuggable (stripComments (phLit k)) = false := rfl

mutual
theorem shown_ok : (v : PyVal) → (ctx : Ctx) → (tr : Option PS) → ctx.maxSeqLen ≠ some 0 →
    (ctx.depthLeft = none ∨ noTd v = true) → canonW ctx v tr = canonW ctx.free (shown ctx v) tr
  | .commented v t, ctx, tr, h0, htd => by
      simp only [canonW, shown]; exact shown_ok v ctx tr h0 (by simpa [noTd] using htd)
  | .trailing v t, ctx, tr, h0, htd => by
      simp only [canonW, shown]; exact shown_ok v ctx (some t) h0 (by simpa [noTd] using htd)
  | .none, _, _, _, _ => by simp [canonW, shown]
  | .ellipsis, _, _, _, _ => by simp [canonW, shown]
  | .bool _, _, _, _, _ => by simp [canonW, shown]
  | .opaque _, _, _, _, _ => by simp [canonW, shown]
  | .ident _, _, _, _, _ => by simp [canonW, shown]
  | .timedelta d s u, ctx, tr, _, htd => by
      rcases htd with h | h
      · simp only [canonW, shown]
        exact toksOf_timedeltaDoc _ _ (by simp [h, Ctx.free]) d s u
      · simp [noTd] at h
  | .path cls posix, ctx, tr, _, _ => by
      simp only [shown]
      by_cases hz : ctx.depthZero = true
      · simp only [hz, if_true]
        rw [canon_call_ph _ _ _ _ (hug_phCall _), canon_phCall]
        simp [canonW, hz]
      · simp [hz, canonW]
  | .int cls val lit, ctx, tr, _, _ => by
      simp only [shown]
      by_cases hz : ctx.depthZero = true
      · simp [hz, canonW, canon_phCall]
      · simp [hz, canonW]
  | .float cls kind lit n d, ctx, tr, _, _ => by
      simp only [shown]
      by_cases hz : ctx.depthZero = true
      · simp [hz, canonW, canon_phCall]
      · simp only [hz, Bool.false_eq_true, if_false]
        by_cases hk : (kind == 0) = true
        · simp [hk, canonW, hz]
        · simp only [hk, Bool.false_eq_true, if_false]
          by_cases hn : ctx.nested.depthZero = true
          · simp only [hn, if_true]
            rw [canon_call_ph _ _ _ _ (hug_phCall _), canon_phCall]
            simp [canonW, hz, hk, hn]
          · have hn' : ctx.free.nested.depthZero = false := rfl
            simp [hn, canonW, hz, hk, hn']
  | .str cls isBytes s, ctx, tr, _, _ => by
      simp only [shown]
      by_cases hz : ctx.depthZero = true
      · simp [hz, canonW, canon_phCall]
      · simp [hz, canonW]
  | .frozenset cls xs, ctx, tr, h0, htd => by
      have ih := shownL_ok xs ctx.nested (by simpa using h0) (by
        rcases htd with h | h
        · exact Or.inl (by simp [Ctx.nested, h])
        · exact Or.inr (by simpa [noTd] using h))
      simp only [shown]
      by_cases ha : ctx.depthLeft.any (· == 0) = true
      · simp [ha, canonW, canon_phCall]
      · have hz := depthZero_of_any ha
        simp only [ha, Bool.false_eq_true, if_false]
        by_cases he : xs = []
        · subst he
          simp [canonW, ha, withTruncation, shownL]
          cases ctx.maxSeqLen <;> simp [canonW, shownL]
        · have hne : (xs.length == 0) = false := by simp [he]
          have hsl := shownL_length ctx.nested xs
          have hseq := seq_shown ctx 0 none xs (shownL ctx.nested xs) none hsl (by simpa using ih) h0 hne hz
          have hxe : xs.isEmpty = false := by simp [he]
          simp only [canonW, ha, Bool.false_eq_true, if_false, hxe]
          simp only [nonEmpty?] at hseq
          rw [hseq]
          unfold cutSeq
          cases htr : withTruncation xs.length ctx.maxSeqLen none with
          | some t =>
            simp only []
            have : hugCall [PyVal.trailing (.seq 0 none (if (xs.length == 1) = true then shownL ctx.nested xs else takeOpt ctx.maxSeqLen (shownL ctx.nested xs))) t] [] = true := rfl
            simp only [canonW, free_depthLeft, Option.any_none, Bool.false_eq_true, if_false, this, if_true, canonL]
          | none =>
            have hye : (shownL ctx.nested xs).isEmpty = false := by
              cases hx : shownL ctx.nested xs with
              | nil => rw [hx] at hsl; simp at hsl; exact absurd hsl.symm (by simpa using he)
              | cons _ _ => rfl
            simp only [canonW, free_depthLeft, Option.any_none, Bool.false_eq_true, if_false, hye, nonEmpty?]
  | .call f args kwargs, ctx, tr, h0, htd => by
      have htd' : (ctx.depthLeft = none ∨ noTdL args = true) ∧ (ctx.depthLeft = none ∨ noTdK kwargs = true) := by
        rcases htd with h | h
        · exact ⟨Or.inl h, Or.inl h⟩
        · simp only [noTd, Bool.and_eq_true] at h; exact ⟨Or.inr h.1, Or.inr h.2⟩
      simp only [shown]
      by_cases ha : ctx.depthLeft.any (· == 0) = true
      · simp [ha, canonW, canon_phCall]
      · have hz := depthZero_of_any ha
        simp only [ha, Bool.false_eq_true, if_false]
        by_cases hh : hugCall args kwargs = true
        · obtain ⟨h1, h2⟩ := hugCall_shown ctx hz args kwargs hh
          have ih := shownL_ok args ctx h0 htd'.1
          simp only [hh, if_true, canonW, ha, Bool.false_eq_true, if_false, free_depthLeft, Option.any_none, h1, ih]
        · have h1 := hugCall_shown_false ctx.nested ctx.nested args kwargs hh
          have ihA := shownL_ok args ctx.nested (by simpa using h0) (by
            rcases htd'.1 with h | h
            · exact Or.inl (by simp [Ctx.nested, h])
            · exact Or.inr h)
          have ihK := shownKw_ok kwargs ctx.nested (by simpa using h0) (by
            rcases htd'.2 with h | h
            · exact Or.inl (by simp [Ctx.nested, h])
            · exact Or.inr h)
          simp only [hh, Bool.false_eq_true, if_false, canonW, ha, free_depthLeft, Option.any_none, h1, ihA, ihK, free_nested]
  | .seq kind cls xs, ctx, tr, h0, htd => by
      have ih := shownL_ok xs ctx.nested (by simpa using h0) (by
        rcases htd with h | h
        · exact Or.inl (by simp [Ctx.nested, h])
        · exact Or.inr (by simpa [noTd] using h))
      simp only [shown]
      by_cases hl : (xs.length == 0) = true
      · have he : xs = [] := by simpa using hl
        subst he
        simp only [List.length_nil, beq_self_eq_true, if_true, canonW, canonL]
        by_cases hk : (kind != 2 && cls.isNone) = true
        · simp [hk, seqCanon, canonW, canonL]
        · simp only [hk, Bool.false_eq_true, if_false]
          by_cases ha : ctx.depthLeft.any (· == 0) = true
          · simp [ha, seqCanon, hk, emptyCallToks, canon_phCall]
          · simp [ha, seqCanon, hk, emptyCallToks, canonW, canonL]
      · have hne : (xs.length == 0) = false := by simpa using hl
        simp only [hne, Bool.false_eq_true, if_false]
        by_cases hz : ctx.depthZero = true
        · simp only [hz, if_true, canonW]
          unfold seqCanon
          simp only [hne, hz, Bool.false_eq_true, if_false, if_true]
          by_cases hk : (kind != 2) = true
          · simp only [hk, if_true]
            by_cases hc : cls.isNone = true
            · simp [hc, canon_phLit]
            · simp only [hc, Bool.false_eq_true, if_false]
              rw [canon_call_ph _ _ _ _ (hug_phLit _), canon_phLit]
          · simp [hk, canon_phCall]
        · have hz' : ctx.depthZero = false := by simpa using hz
          simp only [hz', Bool.false_eq_true, if_false, canonW]
          exact seq_shown ctx kind cls xs _ tr (shownL_length _ _) (by simpa using ih) h0 hne hz'
  | .dict cls kvs, ctx, tr, h0, htd => by
      have ih := shownPairs_ok kvs ctx h0 (by
        rcases htd with h | h
        · exact Or.inl h
        · exact Or.inr (by simpa [noTd] using h))
      simp only [shown]
      by_cases hz : ctx.depthZero = true
      · simp only [hz, if_true, canonW]
        unfold dictCanon
        simp only [hz, if_true]
        by_cases hc : cls.isNone = true
        · simp [hc, canon_phLit, bracketToks]
        · simp only [hc, Bool.false_eq_true, if_false]
          rw [canon_call_ph _ _ _ _ (hug_phLit _), canon_phLit]
          simp [bracketToks]
      · have hz' : ctx.depthZero = false := by simpa using hz
        simp only [hz', Bool.false_eq_true, if_false, canonW]
        exact dict_shown ctx cls kvs _ tr ih.2 ih.1 h0 hz'

theorem shownL_ok : (xs : List PyVal) → (ctx : Ctx) → ctx.maxSeqLen ≠ some 0 →
    (ctx.depthLeft = none ∨ noTdL xs = true) → canonL ctx xs = canonL ctx.free (shownL ctx xs)
  | [], _, _, _ => rfl
  | v :: r, ctx, h0, htd => by
      have h1 : (ctx.depthLeft = none ∨ noTd v = true) ∧ (ctx.depthLeft = none ∨ noTdL r = true) := by
        rcases htd with h | h
        · exact ⟨Or.inl h, Or.inl h⟩
        · simp only [noTdL, Bool.and_eq_true] at h; exact ⟨Or.inr h.1, Or.inr h.2⟩
      simp only [canonL, shownL, shown_ok v ctx none h0 h1.1, shownL_ok r ctx h0 h1.2]

theorem shownKw_ok : (kws : List (Str × PyVal)) → (ctx : Ctx) → ctx.maxSeqLen ≠ some 0 →
    (ctx.depthLeft = none ∨ noTdK kws = true) → canonKw ctx kws = canonKw ctx.free (shownKw ctx kws)
  | [], _, _, _ => rfl
  | (k, v) :: r, ctx, h0, htd => by
      have h1 : (ctx.depthLeft = none ∨ noTd v = true) ∧ (ctx.depthLeft = none ∨ noTdK r = true) := by
        rcases htd with h | h
        · exact ⟨Or.inl h, Or.inl h⟩
        · simp only [noTdK, Bool.and_eq_true] at h; exact ⟨Or.inr h.1, Or.inr h.2⟩
      simp only [canonKw, shownKw, shown_ok v ctx none h0 h1.1, shownKw_ok r ctx h0 h1.2]

theorem shownPairs_ok : (kvs : List (PyVal × PyVal)) → (ctx : Ctx) → ctx.maxSeqLen ≠ some 0 →
    (ctx.depthLeft = none ∨ noTdP kvs = true) →
    canonPairs ctx kvs = (shownPairs ctx kvs).map (fun q => (q.1, spToks ctx.free q.2)) ∧
      (shownPairs ctx kvs).length = kvs.length
  | [], _, _, _ => ⟨rfl, rfl⟩
  | (k, v) :: r, ctx, h0, htd => by
      have h1 : (ctx.depthLeft = none ∨ noTd k = true) ∧ (ctx.depthLeft = none ∨ noTd v = true) ∧ (ctx.depthLeft = none ∨ noTdP r = true) := by
        rcases htd with h | h
        · exact ⟨Or.inl h, Or.inl h, Or.inl h⟩
        · simp only [noTdP, Bool.and_eq_true] at h; exact ⟨Or.inr h.1.1, Or.inr h.1.2, Or.inr h.2⟩
      have nst : ∀ (w : PyVal), (ctx.depthLeft = none ∨ noTd w = true) → (ctx.nested.depthLeft = none ∨ noTd w = true) := by
        intro w hw
        rcases hw with h | h
        · exact Or.inl (by simp [Ctx.nested, h])
        · exact Or.inr h
      obtain ⟨ih1, ih2⟩ := shownPairs_ok r ctx h0 h1.2.2
      have hk := shown_ok k ctx.nested none (by simpa using h0) (nst k h1.1)
      have hv := shown_ok v ctx.nested none (by simpa using h0) (nst v h1.2.1)
      refine ⟨?_, by simp [shownPairs, ih2]⟩
      simp only [canonPairs, shownPairs, List.map_cons, ih1, spToks, hv, free_nested]
      congr 2
      -- the key: str / bytes keys are printed directly, the others through the nested context
      by_cases hs : isStrVal k = true
      · cases k <;> simp [isStrVal] at hs
        simp [keyCanon, shownKey]
      · have hs' : isStrVal k = false := by simpa using hs
        have hs2 := shown_not_str ctx.nested k hs'
        have e : shownKey k (shown ctx.nested k) = shown ctx.nested k := by
          cases k <;> first | rfl | (simp [isStrVal] at hs')
        rw [e, keyCanon_nonstr k hs', keyCanon_nonstr _ hs2, hk]
        rfl
end

/-! ### the shown value is well formed -/

theorem wfVals_iff : ∀ (xs : List PyVal), wfVals xs ↔ ∀ x ∈ xs, wfVal x
  | [] => by simp [wfVals]
  | v :: r => by simp [wfVals, wfVals_iff r]

theorem wfPairs_iff : ∀ (qs : List (PyVal × PyVal)), wfPairs qs ↔ ∀ q ∈ qs, wfVal q.1 ∧ wfVal q.2
  | [] => by simp [wfPairs]
  | (k, v) :: r => by simp [wfPairs, wfPairs_iff r, and_assoc]

theorem wf_phCall (fn : QualName) : wfVal (phCall fn) := trivial
theorem wf_phLit (k : Nat) : wfVal (phLit k) := trivial

theorem wfVals_takeOpt (n : Option Nat) (xs : List PyVal) (h : wfVals xs) : wfVals (takeOpt n xs) := by
  rw [wfVals_iff] at *
  intro x hx
  exact h x (mem_takeOpt _ _ _ hx)

mutual
theorem wf_shown : (v : PyVal) → (ctx : Ctx) → wfVal v → wfVal (shown ctx v)
  | .commented v t, ctx, h => by simp only [shown, wfVal] at *; exact wf_shown v ctx h
  | .trailing v t, ctx, h => by simp only [shown, wfVal] at *; exact wf_shown v ctx h
  | .none, _, _ => trivial
  | .ellipsis, _, _ => trivial
  | .bool _, _, _ => trivial
  | .opaque _, _, _ => trivial
  | .ident _, _, _ => trivial
  | .timedelta _ _ _, _, _ => trivial
  | .path cls posix, ctx, h => by
      simp only [shown]; split
      · simp [wfVal, wfVals, wfKws, wf_phCall]
      · exact h
  | .int _ _ _, ctx, h => by simp only [shown]; split <;> trivial
  | .float _ _ _ _ _, ctx, h => by
      simp only [shown]; split
      · trivial
      · split
        · trivial
        · split
          · simp [wfVal, wfVals, wfKws, wf_phCall]
          · trivial
  | .str _ _ _, ctx, h => by
      simp only [shown]; split
      · trivial
      · exact h
  | .frozenset cls xs, ctx, h => by
      have ih := wfL_shown xs ctx.nested (by simpa [wfVal] using h)
      simp only [shown]; split
      · trivial
      · split
        · simp only [wfVal, wfVals, wfKws, and_true]
          split
          · exact ih
          · exact wfVals_takeOpt _ _ ih
        · simpa [wfVal] using ih
  | .call f args kwargs, ctx, h => by
      have h' : wfVals args ∧ wfKws kwargs := by simpa [wfVal] using h
      simp only [shown]; split
      · trivial
      · split
        · simp only [wfVal, wfKws, and_true]; exact wfL_shown args ctx h'.1
        · simp only [wfVal]; exact ⟨wfL_shown args ctx.nested h'.1, wfK_shown kwargs ctx.nested h'.2⟩
  | .seq kind cls xs, ctx, h => by
      have ih := wfL_shown xs ctx.nested (by simpa [wfVal] using h)
      simp only [shown]; split
      · split
        · simp [wfVal, wfVals]
        · split
          · trivial
          · simp [wfVal, wfVals]
      · split
        · split
          · split
            · trivial
            · simp [wfVal, wfVals, wfKws, wf_phLit]
          · trivial
        · unfold cutSeq
          split
          · simp only [wfVal]
            split
            · exact ih
            · exact wfVals_takeOpt _ _ ih
          · simpa [wfVal] using ih
  | .dict cls kvs, ctx, h => by
      have ih := wfP_shown kvs ctx (by simpa [wfVal] using h)
      have key : wfPairs ((takeOpt ctx.maxSeqLen (if ctx.sortKeys = true then sortK (shownPairs ctx kvs) else shownPairs ctx kvs)).map (·.2)) := by
        rw [wfPairs_iff]
        intro q hq
        simp only [List.mem_map] at hq
        obtain ⟨p, hp, rfl⟩ := hq
        have h1 := mem_takeOpt _ _ _ hp
        have h2 : p ∈ shownPairs ctx kvs := by
          split at h1
          · exact (C01.sortK_perm _).mem_iff.mp h1
          · exact h1
        exact ih p h2
      simp only [shown]; split
      · split
        · trivial
        · simp [wfVal, wfVals, wfKws, wf_phLit]
      · split <;> simpa only [wfVal] using key

theorem wfL_shown : (xs : List PyVal) → (ctx : Ctx) → wfVals xs → wfVals (shownL ctx xs)
  | [], _, _ => trivial
  | v :: r, ctx, h => by
      simp only [wfVals, shownL] at *
      exact ⟨wf_shown v ctx h.1, wfL_shown r ctx h.2⟩

theorem wfK_shown : (kws : List (Str × PyVal)) → (ctx : Ctx) → wfKws kws → wfKws (shownKw ctx kws)
  | [], _, _ => trivial
  | (k, v) :: r, ctx, h => by
      simp only [wfKws, shownKw] at *
      exact ⟨wf_shown v ctx h.1, wfK_shown r ctx h.2⟩

theorem wfP_shown : (kvs : List (PyVal × PyVal)) → (ctx : Ctx) → wfPairs kvs →
    ∀ p ∈ shownPairs ctx kvs, wfVal p.2.1 ∧ wfVal p.2.2
  | [], _, _ => by simp [shownPairs]
  | (k, v) :: r, ctx, h => by
      simp only [wfPairs] at h
      intro p hp
      simp only [shownPairs, List.mem_cons] at hp
      rcases hp with rfl | hp
      · refine ⟨?_, wf_shown v ctx.nested h.2.1⟩
        simp only [shownKey]
        split
        · exact h.1
        · exact wf_shown k ctx.nested h.1
      · exact wfP_shown r ctx h.2.2 p hp
end

end Tok
end PP
