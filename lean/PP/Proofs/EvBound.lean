/-
The string evaluator of `pretty_str` only ever builds documents of size linear in the string:
`Cfg.EvBounded { ev := evalStr, .. }`.  This discharges the one hypothesis of `C04.sound` for the configuration that
`pformat` actually uses, so engine soundness applies to `pformatM` unconditionally.
-/
import PP.Model.StrDoc
import PP.Model.Normalize
import PP.Proofs.Sound
import PP.Proofs.Escape
import PP.Proofs.StrLines
namespace PP
namespace Pr
open Doc PyStr

theorem hexN_length (w v : Nat) : (hexN w v).length = w := by
  induction w generalizing v with
  | zero => simp [hexN]
  | succ w ih => simp [hexN, ih]

theorem reprCharStr_len (q : Nat) (c : PChar) : (reprCharStr q c).length ≤ 10 := by
  unfold reprCharStr reprRestStr
  split
  · simp
  · simp only []
    repeat' split
    all_goals simp [hexN_length]

theorem reprCharBytes_len (q : Nat) (c : PChar) : (reprCharBytes q c).length ≤ 10 := by
  unfold reprCharBytes reprRestBytes
  split
  · simp
  · simp only []
    repeat' split
    all_goals simp [hexN_length]

theorem reprBody_len (isBytes : Bool) (q : Nat) (s : PS) : (reprBody isBytes q s).length ≤ 10 * s.length := by
  unfold reprBody
  induction s with
  | nil => simp
  | cons c r ih =>
    simp only [List.flatMap_cons, List.length_append, List.length_cons]
    have : ((if isBytes then reprCharBytes q else reprCharStr q) c).length ≤ 10 := by
      cases isBytes
      · exact reprCharStr_len q c
      · exact reprCharBytes_len q c
    omega

theorem escapeSplit_len (fuel : Nat) : ∀ (s cur : Str),
    (escapeSplit s fuel cur).length ≤ s.length + (if cur.isEmpty then 0 else 1) := by
  induction fuel with
  | zero => intro s cur; simp [escapeSplit]
  | succ fuel ih =>
    intro s cur
    cases s with
    | nil => simp only [escapeSplit]; split <;> simp
    | cons c r =>
      simp only [escapeSplit]
      split
      · have := ih r (c :: cur)
        simp only [List.isEmpty_cons] at this
        simp only [List.length_cons]
        split <;> simp_all <;> omega
      · rename_i hn
        have hn' : 1 ≤ escapeMatchLen (c :: r) := by
          have : escapeMatchLen (c :: r) ≠ 0 := by simpa using hn
          omega
        have := ih ((c :: r).drop (escapeMatchLen (c :: r))) []
        simp only [List.isEmpty_nil, if_true, List.length_drop, List.length_cons, Nat.add_zero] at this
        simp only [List.length_append, List.length_cons]
        split <;> simp <;> omega

theorem rsizes_map_const {α} (f : α → Doc) (k : Nat) (hf : ∀ x, rsize (f x) = k) (ps : List α) :
    rsizes (ps.map f) = k * ps.length := by
  induction ps with
  | nil => simp [rsizes]
  | cons p r ih => simp only [List.map_cons, rsizes, ih, hf, List.length_cons, Nat.mul_succ]; omega

theorem rsize_highlight (s : Str) : rsize (highlightEscapes s) ≤ 1 + 3 * s.length := by
  unfold highlightEscapes
  split
  · simp [rsize]
  · have := escapeSplit_len (s.length + 1) s []
    simp only [List.isEmpty_nil, if_true, Nat.add_zero] at this
    rw [rsize, rsizes_map_const _ 3 (by intro x; simp [tk, rsize])]
    omega

theorem rsize_singleLine (isBytes : Bool) (q : Nat) (hq : q = SQ ∨ q = DQ) (s : PS) :
    rsize (singleLineStr isBytes q s) ≤ 30 * s.length + 10 := by
  have h1 := rsize_highlight (escapeForQuote isBytes q s)
  have h2 := reprBody_len isBytes q s
  rw [← escapeForQuote_eq isBytes q hq s] at h2
  unfold singleLineStr
  generalize highlightEscapes (escapeForQuote isBytes q s) = hl at h1
  generalize (escapeForQuote isBytes q s).length = n at h1 h2
  cases isBytes <;> simp only [rsize, rsizes, tk, if_true, Bool.false_eq_true, if_false] <;> omega

theorem rsizes_intersperse (ls : List PS) (isBytes : Bool) (q : Nat) (hq : q = SQ ∨ q = DQ) :
    rsizes (intersperse .hardline (ls.map (singleLineStr isBytes q))) ≤ 30 * ls.flatten.length + 11 * ls.length := by
  induction ls with
  | nil => simp [intersperse, rsizes]
  | cons l r ih =>
    have hl := rsize_singleLine isBytes q hq l
    cases r with
    | nil => simp only [List.map_cons, List.map_nil, intersperse, rsizes, List.flatten_cons, List.flatten_nil,
               List.append_nil, List.length_cons, List.length_nil]; omega
    | cons l2 r2 =>
      simp only [List.map_cons, intersperse, rsizes, List.flatten_cons, List.length_append, List.length_cons] at ih ⊢
      simp only [rsize]
      omega

theorem rsize_wrap (ind : Int) (c : QualName) (d : Doc) (hc : commented? d = none) :
    rsize (buildFncall ind (generalIdentifier c) [d] [] false none) ≤ rsize d + 30 := by
  simp only [buildFncall, List.map_nil, List.isEmpty_cons, Bool.false_and, Bool.false_eq_true, if_false,
    buildFncall.buildRest, List.append_nil, List.length_cons, List.length_nil, fncallParts, hc,
    Nat.zero_add, beq_self_eq_true, Bool.not_true, if_true]
  simp only [rsize, rsizes, size, generalIdentifier, tk, LPAREN, RPAREN, softline]
  omega

theorem detQ (s : PS) : determineQuote s = SQ ∨ determineQuote s = DQ := by
  unfold determineQuote; repeat' split
  all_goals simp

/-- every document the evaluator can return, at any indentation, column and widths, is linear in the string -/
theorem rsize_evalStr (sp : StrSpec) (i c w rw : Int) : rsize (evalStr sp i c w rw) ≤ sp.bound := by
  have hq := detQ sp.s
  have hflat := rsize_singleLine sp.isBytes (determineQuote sp.s) hq sp.s
  have hfc : commented? (singleLineStr sp.isBytes (determineQuote sp.s) sp.s) = none := rfl
  have hwf := fun cn => rsize_wrap sp.ppIndent cn _ hfc
  unfold evalStr StrSpec.bound
  simp only []
  split
  · cases hcls : sp.cls with
    | none => simp only []; omega
    | some cn => simp only []; have := hwf cn; omega
  · split
    · cases hcls : sp.cls with
      | none => simp only []; omega
      | some cn => simp only []; have := hwf cn; omega
    · rename_i hlen
      generalize hls : strToLines sp.isBytes sp.slashPattern _ _ (determineQuote sp.s) sp.s = ls at hlen ⊢
      have hj : ls.flatten = sp.s := by rw [← hls]; exact strToLines_join _ _ _ _ _ _
      have hn : ∀ l ∈ ls, l ≠ [] := by rw [← hls]; exact strToLines_nonempty _ _ _ _ _ _
      have hk : ls.length ≤ sp.s.length := by
        rw [← hj]
        clear hls hlen hj
        induction ls with
        | nil => simp
        | cons l r ih =>
          have : 0 < l.length := List.length_pos_iff.mpr (hn l (by simp))
          have := ih (fun x hx => hn x (by simp [hx]))
          simp only [List.flatten_cons, List.length_append, List.length_cons]; omega
      have hp := rsizes_intersperse ls sp.isBytes (determineQuote sp.s) hq
      rw [hj] at hp
      generalize intersperse Doc.hardline (ls.map (singleLineStr sp.isBytes (determineQuote sp.s))) = parts at hp ⊢
      have hs1 : 1 ≤ sp.s.length := by omega
      cases hcls : sp.cls with
      | some cn =>
        simp only [Option.isSome_some, if_true, beq_self_eq_true]
        have := rsize_wrap sp.ppIndent cn (.ab (.cat parts)) rfl
        simp only [rsize] at this; omega
      | none =>
        simp only [Option.isSome_none, Bool.false_eq_true, if_false]
        split
        · simp only [rsize]; omega
        · split
          · simp only [rsize]; omega
          · simp only [rsize, rsizes]
            split <;> simp only [rsize, LPAREN, RPAREN, tk] <;> omega

/-- **the hypothesis of `C04.sound` holds for the configuration `pformat` uses** -/
theorem evalStr_bounded (w rw : Int) (smart : Bool) : Cfg.EvBounded { w := w, rw := rw, smart := smart, ev := evalStr } := by
  intro sp i c
  exact Nat.le_trans (size_normalize _) (rsize_evalStr sp i c w rw)

end Pr
end PP
