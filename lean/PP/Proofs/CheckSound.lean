/-
The executable matcher `checkLay` (the oracle used on implementation outputs) is sound for the reference semantics:
whatever it accepts is a rendering in `Lay`.
-/
import PP.Spec.CheckLay
namespace PP
open Doc

variable {E : StrSpec → Doc → Prop}

theorem mem_dedup {x : MState} {xs : List MState} : x ∈ dedup xs ↔ x ∈ xs := List.mem_eraseDups

theorem modesOr_orBrk {m m' : Mode} {f : Bool} (h : m' ∈ modesOr m f) : m.orBrk f m' := by
  unfold modesOr at h
  split at h
  · rename_i hc
    simp only [Bool.and_eq_true, beq_iff_eq] at hc
    simp only [List.mem_cons, List.mem_nil_iff, or_false] at h
    rcases h with rfl | rfl
    · exact Or.inl hc.2.symm
    · exact Or.inr ⟨hc.1, rfl⟩
  · simp only [List.mem_cons, List.mem_nil_iff, or_false] at h
    exact Or.inl h

mutual
theorem matchDoc_sound (strict : Bool) : ∀ (d : Doc) (i : Int) (m : Mode) (out : List SDoc) (c : Int) (r : List SDoc) (c' : Int),
    (r, c') ∈ matchDoc strict d i m (out, c) → ∃ o, out = o ++ r ∧ Lay E d i m c o c'
  | .nil, i, m, out, c, r, c', h => by
      simp only [matchDoc, List.mem_cons, List.mem_nil_iff, or_false, Prod.mk.injEq] at h
      obtain ⟨rfl, rfl⟩ := h
      exact ⟨[], rfl, .nil⟩
  | .text s, i, m, out, c, r, c', h => by
      simp only [matchDoc] at h
      split at h
      · rename_i t rest
        simp only [List.mem_append] at h
        rcases h with h | h
        · split at h
          · rename_i hts
            simp only [List.mem_cons, List.mem_nil_iff, or_false, Prod.mk.injEq] at h
            obtain ⟨rfl, rfl⟩ := h
            subst hts
            exact ⟨[.text t], rfl, .text⟩
          · simp at h
        · split at h
          · rename_i hs
            simp only [List.mem_cons, List.mem_nil_iff, or_false, Prod.mk.injEq] at h
            obtain ⟨rfl, rfl⟩ := h
            subst hs
            exact ⟨[], rfl, .textE⟩
          · simp at h
      · split at h
        · rename_i hs
          simp only [List.mem_cons, List.mem_nil_iff, or_false, Prod.mk.injEq] at h
          obtain ⟨rfl, rfl⟩ := h
          subst hs
          exact ⟨[], rfl, .textE⟩
        · simp at h
  | .hardline, i, m, out, c, r, c', h => by
      simp only [matchDoc] at h
      split at h
      · rename_i k rest
        split at h
        · rename_i hk
          simp only [List.mem_cons, List.mem_nil_iff, or_false, Prod.mk.injEq] at h
          obtain ⟨rfl, rfl⟩ := h
          subst hk
          exact ⟨[.line k], rfl, .hardline⟩
        · simp at h
      · simp at h
  | .cat ds, i, m, out, c, r, c', h => by
      simp only [matchDoc, mem_dedup, List.mem_flatMap] at h
      obtain ⟨m', hm', h⟩ := h
      obtain ⟨st, hst, o, ho, hl⟩ := matchList_sound strict ds i m' [(out, c)] r c' h
      simp only [List.mem_cons, List.mem_nil_iff, or_false] at hst
      subst hst
      exact ⟨o, ho, .cat m' (modesOr_orBrk (by simpa [forces] using hm')) hl⟩
  | .nest j d, i, m, out, c, r, c', h => by
      simp only [matchDoc, mem_dedup, List.mem_flatMap] at h
      obtain ⟨m', hm', h⟩ := h
      obtain ⟨o, ho, hl⟩ := matchDoc_sound strict d (i + j) m' out c r c' h
      exact ⟨o, ho, .nest m' (modesOr_orBrk (by simpa [forces] using hm')) hl⟩
  | .group d, i, m, out, c, r, c', h => by
      simp only [matchDoc] at h
      split at h
      · obtain ⟨o, ho, hl⟩ := matchDoc_sound strict d i .brk out c r c' h
        exact ⟨o, ho, .group .brk hl⟩
      · simp only [mem_dedup, List.mem_append] at h
        rcases h with h | h
        · obtain ⟨o, ho, hl⟩ := matchDoc_sound strict d i .flat out c r c' h
          exact ⟨o, ho, .group .flat hl⟩
        · obtain ⟨o, ho, hl⟩ := matchDoc_sound strict d i .brk out c r c' h
          exact ⟨o, ho, .group .brk hl⟩
  | .choice l b f, i, m, out, c, r, c', h => by
      simp only [matchDoc] at h
      split at h
      · rename_i hm
        have : m = .flat := by simpa using hm
        subst this
        obtain ⟨o, ho, hl⟩ := matchDoc_sound strict f i .flat out c r c' h
        exact ⟨o, ho, .choiceF hl⟩
      · rename_i hm
        have : m = .brk := by cases m <;> simp_all
        subst this
        obtain ⟨o, ho, hl⟩ := matchDoc_sound strict b i .brk out c r c' h
        exact ⟨o, ho, .choiceB hl⟩
  | .ab d, i, m, out, c, r, c', h => by
      simp only [matchDoc] at h
      obtain ⟨o, ho, hl⟩ := matchDoc_sound strict d i .brk out c r c' h
      exact ⟨o, ho, .ab hl⟩
  | .fill ds, i, m, out, c, r, c', h => by
      simp only [matchDoc] at h
      obtain ⟨st, hst, o, ho, hl⟩ := matchFill_sound strict ds i [(out, c)] r c' h
      simp only [List.mem_cons, List.mem_nil_iff, or_false] at hst
      subst hst
      exact ⟨o, ho, .fill hl⟩
  | .ann a d, i, m, out, c, r, c', h => by
      simp only [matchDoc] at h
      split at h
      · rename_i b rest
        split at h
        · rename_i hab
          subst hab
          simp only [List.mem_filterMap] at h
          obtain ⟨⟨o1, c1⟩, hmem, hsel⟩ := h
          obtain ⟨o, ho, hl⟩ := matchDoc_sound strict d i m rest c o1 c1 hmem
          simp only at hsel
          split at hsel
          · rename_i b' r'
            split at hsel
            · rename_i hab'
              subst hab'
              simp only [Option.some.injEq, Prod.mk.injEq] at hsel
              obtain ⟨rfl, rfl⟩ := hsel
              refine ⟨.push a :: o ++ [.pop a], ?_, .ann hl⟩
              rw [ho]; simp
            · cases hsel
          · cases hsel
        · simp at h
      · simp at h
  | .align d, i, m, out, c, r, c', h => by
      simp only [matchDoc, mem_dedup, List.mem_flatMap] at h
      obtain ⟨m', hm', h⟩ := h
      obtain ⟨o, ho, hl⟩ := matchDoc_sound strict d (i + (c - i)) m' out c r c' h
      exact ⟨o, ho, .align (.nest m' (modesOr_orBrk (by simpa [forces] using hm')) hl)⟩
  | .pstr sp, i, m, out, c, r, c', h => by simp [matchDoc] at h

theorem matchList_sound (strict : Bool) : ∀ (ds : List Doc) (i : Int) (m : Mode) (sts : List MState) (r : List SDoc) (c' : Int),
    (r, c') ∈ matchList strict ds i m sts → ∃ st ∈ sts, ∃ o, st.1 = o ++ r ∧ LayL E ds i m st.2 o c'
  | [], i, m, sts, r, c', h => by
      simp only [matchList] at h
      exact ⟨(r, c'), h, [], rfl, .nil⟩
  | d :: ds, i, m, sts, r, c', h => by
      simp only [matchList] at h
      obtain ⟨st1, hst1, o2, ho2, hl2⟩ := matchList_sound strict ds i m _ r c' h
      simp only [mem_dedup, List.mem_flatMap] at hst1
      obtain ⟨st, hst, hmem⟩ := hst1
      obtain ⟨out, c⟩ := st
      obtain ⟨o1, c1⟩ := st1
      obtain ⟨o, ho, hl⟩ := matchDoc_sound strict d i m out c o1 c1 hmem
      refine ⟨(out, c), hst, o ++ o2, ?_, .cons hl hl2⟩
      simp only at ho2 ⊢
      rw [ho, ho2, List.append_assoc]

theorem matchFill_sound (strict : Bool) : ∀ (ds : List Doc) (i : Int) (sts : List MState) (r : List SDoc) (c' : Int),
    (r, c') ∈ matchFill strict ds i sts → ∃ st ∈ sts, ∃ o, st.1 = o ++ r ∧ LayF E ds i st.2 o c'
  | [], i, sts, r, c', h => by
      simp only [matchFill] at h
      exact ⟨(r, c'), h, [], rfl, .nil⟩
  | d :: ds, i, sts, r, c', h => by
      simp only [matchFill] at h
      obtain ⟨st1, hst1, o2, ho2, hl2⟩ := matchFill_sound strict ds i _ r c' h
      simp only [mem_dedup, List.mem_flatMap, List.mem_append] at hst1
      obtain ⟨st, hst, hmem⟩ := hst1
      obtain ⟨out, c⟩ := st
      obtain ⟨o1, c1⟩ := st1
      rcases hmem with hmem | hmem
      · obtain ⟨o, ho, hl⟩ := matchDoc_sound strict d i .flat out c o1 c1 hmem
        refine ⟨(out, c), hst, o ++ o2, ?_, .cons .flat hl hl2⟩
        simp only at ho2 ⊢
        rw [ho, ho2, List.append_assoc]
      · obtain ⟨o, ho, hl⟩ := matchDoc_sound strict d i .brk out c o1 c1 hmem
        refine ⟨(out, c), hst, o ++ o2, ?_, .cons .brk hl hl2⟩
        simp only at ho2 ⊢
        rw [ho, ho2, List.append_assoc]
end

/-- **the oracle is sound**: an output accepted by `checkLay` (strict or not) is a rendering of the document in the
reference semantics, started at column 0 with indentation 0 in break mode — exactly the judgement of `C04.sound`. -/
theorem checkLay_sound (strict : Bool) (d : Doc) (out : List SDoc) (h : checkLay strict d out = true) :
    ∃ c', Lay E d 0 .brk 0 out c' := by
  unfold checkLay at h
  simp only [List.any_eq_true] at h
  obtain ⟨⟨r, c'⟩, hmem, hr⟩ := h
  have hr' : r = [] := by simpa using hr
  subst hr'
  obtain ⟨o, ho, hl⟩ := matchDoc_sound (E := E) strict d 0 .brk out 0 [] c' hmem
  rw [List.append_nil] at ho
  subst ho
  exact ⟨c', hl⟩

end PP

/-! ### completeness of the non-strict matcher on documents without string contextuals: the oracle raises no false alarm -/

namespace PP
open Doc

namespace Doc
mutual
def noPstr : Doc → Bool
  | .pstr _ => false
  | .cat ds => noPstrL ds
  | .nest _ d => noPstr d
  | .group d => noPstr d
  | .choice _ b f => noPstr b && noPstr f
  | .ab d => noPstr d
  | .fill ds => noPstrL ds
  | .ann _ d => noPstr d
  | .align d => noPstr d
  | _ => true
def noPstrL : List Doc → Bool
  | [] => true
  | d :: ds => noPstr d && noPstrL ds
end
end Doc

variable {E : StrSpec → Doc → Prop}

theorem orBrk_modesOr {m m' : Mode} {f : Bool} (h : m.orBrk f m') : m' ∈ modesOr m f := by
  unfold modesOr
  rcases h with rfl | ⟨hf, rfl⟩
  · split
    · rename_i hc
      simp only [Bool.and_eq_true, beq_iff_eq] at hc
      simp [hc.2]
    · simp
  · cases m <;> simp [hf]

mutual
theorem matchDoc_complete : ∀ {d i m c o c'}, Lay E d i m c o c' → noPstr d = true →
    ∀ r, (r, c') ∈ matchDoc false d i m (o ++ r, c)
  | _, _, _, _, _, _, .nil, _, r => by simp [matchDoc]
  | _, _, _, _, _, _, .textE, _, r => by
      simp only [matchDoc, List.nil_append]
      split <;> simp
  | _, _, _, _, _, _, .text (s := s), _, r => by
      simp [matchDoc]
  | _, _, _, _, _, _, .hardline, _, r => by simp [matchDoc]
  | _, _, _, _, _, _, .cat m' hm hl, hp, r => by
      simp only [noPstr] at hp
      simp only [matchDoc, mem_dedup, List.mem_flatMap]
      exact ⟨m', orBrk_modesOr (by simpa [forces] using hm), matchList_complete hl hp r _ (by simp)⟩
  | _, _, _, _, _, _, .nest m' hm h, hp, r => by
      simp only [noPstr] at hp
      simp only [matchDoc, mem_dedup, List.mem_flatMap]
      exact ⟨m', orBrk_modesOr (by simpa [forces] using hm), matchDoc_complete h hp r⟩
  | _, _, _, _, _, _, .group m' h, hp, r => by
      simp only [noPstr] at hp
      simp only [matchDoc, Bool.false_and, Bool.false_eq_true, if_false, mem_dedup, List.mem_append]
      cases m'
      · exact Or.inr (matchDoc_complete h hp r)
      · exact Or.inl (matchDoc_complete h hp r)
  | _, _, _, _, _, _, .choiceF h, hp, r => by
      simp only [noPstr, Bool.and_eq_true] at hp
      simp only [matchDoc, beq_self_eq_true, if_true]
      exact matchDoc_complete h hp.2 r
  | _, _, _, _, _, _, .choiceB h, hp, r => by
      simp only [noPstr, Bool.and_eq_true] at hp
      simp only [matchDoc]
      exact matchDoc_complete h hp.1 r
  | _, _, _, _, _, _, .ab h, hp, r => by
      simp only [noPstr] at hp
      simp only [matchDoc]
      exact matchDoc_complete h hp r
  | _, _, _, _, _, _, .fill hl, hp, r => by
      simp only [noPstr] at hp
      simp only [matchDoc]
      exact matchFill_complete hl hp r _ (by simp)
  | _, _, _, _, _, _, .ann (a := a) (out := o) (c' := cE) h, hp, r => by
      simp only [noPstr] at hp
      have ih := matchDoc_complete h hp (.pop a :: r)
      simp only [matchDoc, List.cons_append, if_true, List.mem_filterMap]
      refine ⟨(.pop a :: r, cE), ?_, ?_⟩
      · simpa [List.append_assoc] using ih
      · simp
  | _, _, _, _, _, _, .align h, hp, r => by
      simp only [noPstr] at hp
      cases h with
      | nest m' hm h' =>
        simp only [matchDoc, mem_dedup, List.mem_flatMap]
        exact ⟨m', orBrk_modesOr (by simpa [forces] using hm), matchDoc_complete h' hp r⟩
  | _, _, _, _, _, _, .pstr _ _, hp, _ => by simp [noPstr] at hp

theorem matchList_complete : ∀ {ds i m c o c'}, LayL E ds i m c o c' → noPstrL ds = true →
    ∀ r (sts : List MState), (o ++ r, c) ∈ sts → (r, c') ∈ matchList false ds i m sts
  | _, _, _, _, _, _, .nil, _, r, sts, h => by simpa [matchList] using h
  | _, _, _, _, _, _, .cons (o1 := o1) (o2 := o2) hd hl, hp, r, sts, h => by
      simp only [noPstrL, Bool.and_eq_true] at hp
      simp only [matchList]
      apply matchList_complete hl hp.2 r
      simp only [mem_dedup, List.mem_flatMap]
      refine ⟨_, h, ?_⟩
      have := matchDoc_complete hd hp.1 (o2 ++ r)
      simpa [List.append_assoc] using this

theorem matchFill_complete : ∀ {ds i c o c'}, LayF E ds i c o c' → noPstrL ds = true →
    ∀ r (sts : List MState), (o ++ r, c) ∈ sts → (r, c') ∈ matchFill false ds i sts
  | _, _, _, _, _, .nil, _, r, sts, h => by simpa [matchFill] using h
  | _, _, _, _, _, .cons (o1 := o1) (o2 := o2) m' hd hl, hp, r, sts, h => by
      simp only [noPstrL, Bool.and_eq_true] at hp
      simp only [matchFill]
      apply matchFill_complete hl hp.2 r
      simp only [mem_dedup, List.mem_flatMap, List.mem_append]
      refine ⟨_, h, ?_⟩
      have := matchDoc_complete hd hp.1 (o2 ++ r)
      cases m'
      · exact Or.inr (by simpa [List.append_assoc] using this)
      · exact Or.inl (by simpa [List.append_assoc] using this)
end

/-- **the non-strict oracle raises no false alarm**: every rendering in `Lay` of a document without string contextuals
is accepted.  Together with `checkLay_sound`: `checkLay false d out = true ↔ ∃ c', Lay E d 0 brk 0 out c'`. -/
theorem checkLay_complete (d : Doc) (out : List SDoc) (hp : noPstr d = true) {c' : Int} (h : Lay E d 0 .brk 0 out c') :
    checkLay false d out = true := by
  unfold checkLay
  simp only [List.any_eq_true]
  refine ⟨([], c'), ?_, rfl⟩
  have := matchDoc_complete h hp []
  simpa using this

theorem checkLay_iff (d : Doc) (out : List SDoc) (hp : noPstr d = true) :
    checkLay false d out = true ↔ ∃ c', Lay E d 0 .brk 0 out c' :=
  ⟨checkLay_sound false d out, fun ⟨_, h⟩ => checkLay_complete d out hp h⟩

end PP
