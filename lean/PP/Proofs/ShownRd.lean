/-
With max_seq_len ≥ 1 (any depth limit, any sort flag) the shown value of a readable value is readable: truncation keeps a
prefix of every container and wraps it in a trailing comment, sorting permutes dict entries, a truncated frozenset becomes
`frozenset([...])` written as a call, a node at the depth cut becomes a placeholder (`name(...)`, `[...]`, `(...)`, `{...}`)
that the reader reads too.  So the reader theorem applies to truncated, sorted and depth-limited output.
-/
import PP.Proofs.ReaderRT
import PP.Proofs.Shown
import PP.Proofs.ShownC01
import PP.Proofs.NoBite
namespace PP
namespace Tok
open Doc PyStr Pr

theorem inRdL_iff : ∀ (xs : List PyVal), inRdL xs = true ↔ ∀ x ∈ xs, inRd x = true
  | [] => by simp [inRdL]
  | v :: r => by simp [inRdL, inRdL_iff r]

theorem inRdP_iff : ∀ (qs : List (PyVal × PyVal)), inRdP qs = true ↔ ∀ q ∈ qs, inRd q.1 = true ∧ inRd q.2 = true
  | [] => by simp [inRdP]
  | (k, v) :: r => by simp [inRdP, inRdP_iff r, and_assoc]

/-- the limits under which the shown value stays readable: max_seq_len ≠ 0 (the property's N ≥ 1) -/
def Trunc (ctx : Ctx) : Prop := ctx.maxSeqLen ≠ some 0

theorem Trunc.nested {ctx : Ctx} (h : Trunc ctx) : Trunc ctx.nested := h

theorem any_eq_dz (ctx : Ctx) : ctx.depthLeft.any (· == 0) = ctx.depthZero := by
  unfold Ctx.depthZero
  cases ctx.depthLeft with
  | none => rfl
  | some n => cases n <;> simp

/-! ### placeholders are readable -/

theorem phName_of_okName (s : Str) (h : okName s = true) : phName s = true := by
  simp only [okName, Bool.and_eq_true, Bool.not_eq_true'] at h
  simp only [phName, Bool.and_eq_true, Bool.not_eq_true']
  exact ⟨⟨h.1.1.1.1.1, h.1.1.1.1.2⟩, h.2⟩

theorem inRd_phCall (fn : QualName) (h : phName fn.2 = true) : inRd (phCall fn) = true := by
  simp [phCall, inRd, identPh, h, sEll]

theorem inRd_phLit (kind : Nat) : inRd (phLit kind) = true := by
  unfold phLit
  by_cases h0 : (kind == 0) = true
  · simp [h0, inRd, identPh, sEll]
  · by_cases h1 : (kind == 1) = true
    · simp [h0, h1, inRd, identPh, sEll]
    · simp [h0, h1, inRd, identPh, sEll]

theorem phName_cls (cls : Option QualName) (hc : clsOk cls = true) (nm : Str) (hb : phName nm = true) :
    phName (cls.getD (builtin nm)).2 = true := by
  cases cls with
  | none => exact hb
  | some q => exact phName_of_okName _ hc

theorem phName_seqName (kind : Nat) : phName (seqName kind) = true := by
  unfold seqName; split
  · decide
  · split <;> decide

theorem emptyDictSub_ph (fn : QualName) : emptyDictSub (phCall fn) = false := rfl
theorem emptyDictSub_phLit (k : Nat) : emptyDictSub (phLit k) = false := rfl

theorem takeOpt_ne_nil {α : Type} {n : Option Nat} (hn : n ≠ some 0) {xs : List α} (h : xs ≠ []) : takeOpt n xs ≠ [] := by
  cases n with
  | none => exact h
  | some k =>
    cases k with
    | zero => exact absurd rfl hn
    | succ k => cases xs with
      | nil => exact absurd rfl h
      | cons x r => simp [takeOpt]

theorem mem_takeOpt' {α : Type} (n : Option Nat) (xs : List α) (x : α) (h : x ∈ takeOpt n xs) : x ∈ xs := mem_takeOpt n xs x h

theorem shownL_ne_nil (ctx : Ctx) {xs : List PyVal} (h : xs ≠ []) : shownL ctx xs ≠ [] := by
  cases xs with
  | nil => exact absurd rfl h
  | cons x r => simp [shownL]

/-- the list a (possibly truncated) sequence shows is non-empty when the sequence is -/
theorem cut_ne_nil (ctx : Ctx) (hT : Trunc ctx) {xs : List PyVal} (h : xs ≠ []) :
    (if xs.length == 1 then shownL ctx.nested xs else takeOpt ctx.maxSeqLen (shownL ctx.nested xs)) ≠ [] := by
  split
  · exact shownL_ne_nil _ h
  · exact takeOpt_ne_nil hT (shownL_ne_nil _ h)

theorem inRdL_sub {xs ys : List PyVal} (h : ∀ x ∈ ys, x ∈ xs) (hx : inRdL xs = true) : inRdL ys = true := by
  rw [inRdL_iff] at hx ⊢
  exact fun y hy => hx y (h y hy)

theorem inRdL_cut (ctx : Ctx) {xs : List PyVal} (n : Nat) (h : inRdL (shownL ctx.nested xs) = true) :
    inRdL (if n == 1 then shownL ctx.nested xs else takeOpt ctx.maxSeqLen (shownL ctx.nested xs)) = true := by
  split
  · exact h
  · exact inRdL_sub (fun x hx => mem_takeOpt' _ _ x hx) h

/-- the shown value of something that is not an empty dict-subclass instance is not one either -/
theorem emptyDictSub_shown (ctx : Ctx) (hT : Trunc ctx) : ∀ (v : PyVal), emptyDictSub (shown ctx v) = true → emptyDictSub v = true
  | .commented v t, h => by simp only [shown, emptyDictSub] at h ⊢; exact emptyDictSub_shown ctx hT v h
  | .trailing v t, h => by simp only [shown, emptyDictSub] at h ⊢; exact emptyDictSub_shown ctx hT v h
  | .none, h => by simp [shown, emptyDictSub] at h
  | .ellipsis, h => by simp [shown, emptyDictSub] at h
  | .bool _, h => by simp [shown, emptyDictSub] at h
  | .opaque _, h => by simp [shown, emptyDictSub] at h
  | .ident _, h => by simp [shown, emptyDictSub] at h
  | .timedelta _ _ _, h => by simp [shown, emptyDictSub] at h
  | .path _ _, h => by simp only [shown] at h; split at h <;> simp [emptyDictSub] at h
  | .int _ _ _, h => by simp only [shown] at h; split at h <;> simp [emptyDictSub, phCall] at h
  | .str _ _ _, h => by simp only [shown] at h; split at h <;> simp [emptyDictSub, phCall] at h
  | .float _ kind _ _ _, h => by
      simp only [shown] at h
      split at h
      · simp [emptyDictSub, phCall] at h
      · split at h
        · simp [emptyDictSub] at h
        · split at h <;> simp [emptyDictSub] at h
  | .frozenset _ xs, h => by
      simp only [shown] at h
      split at h
      · simp [emptyDictSub, phCall] at h
      · split at h <;> simp [emptyDictSub] at h
  | .call _ args kwargs, h => by
      simp only [shown] at h
      split at h
      · simp [emptyDictSub, phCall] at h
      · split at h <;> simp [emptyDictSub] at h
  | .seq kind cls xs, h => by
      simp only [shown] at h
      split at h
      · split at h
        · simp [emptyDictSub] at h
        · split at h <;> simp [emptyDictSub, phCall] at h
      · split at h
        · split at h
          · split at h <;> simp [emptyDictSub, phLit] at h
          · simp [emptyDictSub, phCall] at h
        · unfold cutSeq at h
          split at h <;> simp [emptyDictSub] at h
  | .dict cls kvs, h => by
      simp only [shown] at h
      split at h
      · split at h <;> simp [emptyDictSub, phLit] at h
      · have hlen : (if ctx.sortKeys = true then sortK (shownPairs ctx kvs) else shownPairs ctx kvs).length = kvs.length := by
          split
          · rw [(C01.sortK_perm _).length_eq, shownPairs_length]
          · exact shownPairs_length _ _
        generalize (if ctx.sortKeys = true then sortK (shownPairs ctx kvs) else shownPairs ctx kvs) = sp at h hlen
        cases kvs with
        | nil =>
          cases cls with
          | none => split at h <;> simp [emptyDictSub] at h
          | some q => simp [emptyDictSub]
        | cons kv r =>
          exfalso
          have hne : (takeOpt ctx.maxSeqLen sp).map (·.2) ≠ [] := by
            have : sp ≠ [] := by intro e; rw [e] at hlen; simp at hlen
            have := takeOpt_ne_nil hT this
            simpa using this
          obtain ⟨a, b, hl⟩ := List.exists_cons_of_ne_nil hne
          rw [hl] at h
          split at h
          · cases cls <;> simp [emptyDictSub] at h
          · cases cls <;> simp [emptyDictSub] at h

theorem isListLit_cons (y : PyVal) (ys : List PyVal) : isListLit (.seq 0 none (y :: ys)) = true := rfl

theorem isListLit_of_ne_nil {l : List PyVal} (h : l ≠ []) : isListLit (.seq 0 none l) = true := by
  cases l with
  | nil => exact absurd rfl h
  | cons y ys => rfl

/-- a non-empty list literal (under comments) is shown as one -/
theorem isListLit_shown (ctx : Ctx) (hT : Trunc ctx) (hz : ctx.depthZero = false) : ∀ (x : PyVal), isListLit (stripComments x) = true →
    isListLit (stripComments (shown ctx x)) = true
  | .commented v t, h => by simp only [shown, stripComments] at h ⊢; exact isListLit_shown ctx hT hz v h
  | .trailing v t, h => by simp only [shown, stripComments] at h ⊢; exact isListLit_shown ctx hT hz v h
  | .seq kind cls xs, h => by
      simp only [stripComments] at h
      obtain ⟨y, ys, e⟩ := isListLit_spec _ h
      injection e with e1 e2 e3
      subst e1 e2 e3
      have hl : ((y :: ys).length == 0) = false := by simp
      simp only [shown, hl, hz, Bool.false_eq_true, if_false]
      unfold cutSeq
      split
      · simp only [stripComments]
        exact isListLit_of_ne_nil (cut_ne_nil ctx hT (by simp))
      · simp only [stripComments]
        exact isListLit_of_ne_nil (shownL_ne_nil _ (by simp))
  | .frozenset _ _, h => by simp [stripComments, isListLit] at h
  | .dict _ _, h => by simp [stripComments, isListLit] at h
  | .call _ _ _, h => by simp [stripComments, isListLit] at h
  | .none, h => by simp [stripComments, isListLit] at h
  | .ellipsis, h => by simp [stripComments, isListLit] at h
  | .bool _, h => by simp [stripComments, isListLit] at h
  | .int _ _ _, h => by simp [stripComments, isListLit] at h
  | .float _ _ _ _ _, h => by simp [stripComments, isListLit] at h
  | .str _ _ _, h => by simp [stripComments, isListLit] at h
  | .opaque _, h => by simp [stripComments, isListLit] at h
  | .timedelta _ _ _, h => by simp [stripComments, isListLit] at h
  | .ident _, h => by simp [stripComments, isListLit] at h
  | .path _ _, h => by simp [stripComments, isListLit] at h

theorem nmFrozenset_eq : (builtin nmFrozenset).2 = sFrozenset := rfl

mutual
/-- **the shown value of a readable value is readable** (max_seq_len ≥ 1; any depth limit, any sort flag) -/
theorem inRd_shown : (v : PyVal) → (ctx : Ctx) → Trunc ctx → inRd v = true → inRd (shown ctx v) = true
  | .commented v t, ctx, hT, h => by simp only [shown, inRd] at *; exact inRd_shown v ctx hT h
  | .trailing v t, ctx, hT, h => by
      simp only [inRd, Bool.and_eq_true, Bool.or_eq_true, Bool.not_eq_true'] at h
      simp only [shown, inRd, Bool.and_eq_true, Bool.or_eq_true, Bool.not_eq_true']
      refine ⟨inRd_shown v ctx hT h.1, ?_⟩
      rcases h.2 with h2 | h2
      · exact Or.inl h2
      · right
        cases he : emptyDictSub (shown ctx v) with
        | false => rfl
        | true => rw [emptyDictSub_shown ctx hT v he] at h2; cases h2
  | .none, _, _, _ => rfl
  | .ellipsis, _, _, _ => rfl
  | .bool _, _, _, _ => rfl
  | .ident parts, _, _, h => by simp only [shown]; exact h
  | .int cls val lit, ctx, hT, h => by
      simp only [inRd, Bool.and_eq_true] at h
      simp only [shown]
      split
      · exact inRd_phCall _ (phName_cls cls h.1 nmInt (by decide))
      · simp only [inRd, Bool.and_eq_true]; exact h
  | .float cls kind lit n d, ctx, hT, h => by
      simp only [inRd, Bool.and_eq_true] at h
      simp only [shown]
      split
      · exact inRd_phCall _ (phName_cls cls h.1 nmFloat (by decide))
      · split
        · simp only [inRd, Bool.and_eq_true]; exact h
        · split
          · -- inf / nan one level above the cut: `float(str(...))`
            have hph : inRd (phCall (builtin nmStr)) = true := inRd_phCall _ (by decide)
            rw [inRd, inRdL, inRdL, inRdK, hph]
            simp only [Bool.and_true, Bool.or_eq_true]
            cases cls with
            | some q => exact Or.inl (Or.inl (by simpa [clsOk] using h.1))
            | none => exact Or.inr (by simp [floatPh, builtin, nmFloat, sFloat, soleStrPh, phCall, strPhParts])
          · simp only [inRd, Bool.and_eq_true]; exact h
  | .str cls b s, ctx, hT, h => by
      simp only [inRd] at h
      simp only [shown]
      split
      · refine inRd_phCall _ (phName_cls cls h _ ?_)
        split <;> decide
      · simp only [inRd]; exact h
  | .frozenset cls xs, ctx, hT, h => by
      simp only [inRd, Bool.and_eq_true] at h
      have ih := inRdL_shown xs ctx.nested hT.nested h.2
      simp only [shown]
      split
      · exact inRd_phCall _ (phName_cls cls h.1 nmFrozenset (by decide))
      · split
        · rename_i t ht
          obtain ⟨_, ⟨n, hn, hgt⟩, _⟩ := withTruncation_some ht
          have hne : xs ≠ [] := by intro e; rw [e] at hgt; simp at hgt
          have hcut := cut_ne_nil ctx hT hne
          have hin : inRd (PyVal.trailing (.seq 0 none (if xs.length == 1 then shownL ctx.nested xs else takeOpt ctx.maxSeqLen (shownL ctx.nested xs))) t) = true := by
            simp only [inRd, clsOk, Bool.true_and, emptyDictSub, Bool.not_false, Bool.or_true, Bool.and_true, Bool.and_eq_true, decide_eq_true_eq]
            exact ⟨by omega, inRdL_cut ctx xs.length ih⟩
          rw [inRd, inRdL, inRdL, inRdK, hin]
          simp only [Bool.and_true, Bool.or_eq_true]
          cases cls with
          | some q => exact Or.inl (Or.inl (by simpa [clsOk] using h.1))
          | none =>
            refine Or.inl (Or.inr ?_)
            simp only [Option.getD_none, fsetLit, nmFrozenset_eq, beq_self_eq_true, List.isEmpty_nil, Bool.true_and, soleListLit, stripComments]
            exact isListLit_of_ne_nil hcut
        · simp only [inRd, Bool.and_eq_true]; exact ⟨h.1, ih⟩
  | .call f args kwargs, ctx, hT, h => by
      simp only [inRd, Bool.and_eq_true] at h
      obtain ⟨⟨hn, ha⟩, hk⟩ := h
      -- the three ways a call is readable
      have hcases : okName f.2 = true ∨ fsetLit f args kwargs = true ∨ floatPh f args kwargs = true := by
        rcases Bool.or_eq_true _ _ |>.mp hn with h1 | h1
        · rcases Bool.or_eq_true _ _ |>.mp h1 with h2 | h2
          · exact Or.inl h2
          · exact Or.inr (Or.inl h2)
        · exact Or.inr (Or.inr h1)
      simp only [shown]
      split
      · -- at the cut: `name(...)`
        refine inRd_phCall _ ?_
        rcases hcases with h1 | h1 | h1
        · exact phName_of_okName _ h1
        · simp only [fsetLit, Bool.and_eq_true, beq_iff_eq] at h1; rw [h1.1.1]; decide
        · simp only [floatPh, Bool.and_eq_true, beq_iff_eq] at h1; rw [h1.1.1]; decide
      · rename_i hany
        have hz : ctx.depthZero = false := by rw [← any_eq_dz]; simpa using hany
        by_cases hh : hugCall args kwargs = true
        · simp only [hh, if_true, inRd, inRdK, Bool.and_true, Bool.and_eq_true]
          refine ⟨?_, inRdL_shown args ctx hT ha⟩
          rcases hcases with h1 | h1 | h1
          · simp [h1]
          · -- `frozenset([...])` written as a call stays one
            simp only [fsetLit, Bool.and_eq_true, beq_iff_eq, List.isEmpty_iff] at h1
            obtain ⟨⟨hname, hk0⟩, hshape⟩ := h1
            have : fsetLit f (shownL ctx args) [] = true := by
              simp only [fsetLit, hname, beq_self_eq_true, List.isEmpty_nil, Bool.true_and]
              cases args with
              | nil => simp [soleListLit] at hshape
              | cons x r =>
                cases r with
                | nil => simp only [shownL, soleListLit] at hshape ⊢; exact isListLit_shown ctx hT hz x hshape
                | cons x2 r2 => simp [soleListLit] at hshape
            simp [this]
          · -- `float(str(...))` does not hug
            exfalso
            simp only [floatPh, Bool.and_eq_true, beq_iff_eq, List.isEmpty_iff] at h1
            obtain ⟨⟨_, hk0⟩, hshape⟩ := h1
            subst hk0
            cases args with
            | nil => simp [soleStrPh] at hshape
            | cons x r =>
              cases r with
              | cons x2 r2 => cases x <;> simp [soleStrPh] at hshape
              | nil =>
                cases x with
                | ident parts => simp [hugCall, stripComments, isHuggable] at hh
                | _ => simp [soleStrPh] at hshape
        · simp only [hh, Bool.false_eq_true, if_false, inRd, Bool.and_eq_true]
          refine ⟨⟨?_, inRdL_shown args ctx.nested hT.nested ha⟩, inRdK_shown kwargs ctx.nested hT.nested hk⟩
          rcases hcases with h1 | h1 | h1
          · simp [h1]
          · -- a frozenset literal call has one huggable argument and no keywords: it hugs
            exfalso
            simp only [fsetLit, Bool.and_eq_true, beq_iff_eq, List.isEmpty_iff] at h1
            obtain ⟨⟨_, hk0⟩, hshape⟩ := h1
            subst hk0
            cases args with
            | nil => simp [soleListLit] at hshape
            | cons x r =>
              cases r with
              | cons x2 r2 => simp [soleListLit] at hshape
              | nil =>
                simp only [soleListLit] at hshape
                obtain ⟨y, ys, e⟩ := isListLit_spec _ hshape
                exact hh (by simp [hugCall, e, isHuggable])
          · -- `float(str(...))`: the placeholder argument is shown as itself
            simp only [floatPh, Bool.and_eq_true, beq_iff_eq, List.isEmpty_iff] at h1
            obtain ⟨⟨hname, hk0⟩, hshape⟩ := h1
            subst hk0
            have : floatPh f (shownL ctx.nested args) (shownKw ctx.nested []) = true := by
              cases args with
              | nil => simp [soleStrPh] at hshape
              | cons x r =>
                cases r with
                | cons x2 r2 => cases x <;> simp [soleStrPh] at hshape
                | nil =>
                  cases x with
                  | ident parts => simp only [floatPh, hname, shownL, shown, shownKw, soleStrPh] at hshape ⊢; simpa using hshape
                  | _ => simp [soleStrPh] at hshape
            simp [this]
  | .seq kind cls xs, ctx, hT, h => by
      simp only [inRd, Bool.and_eq_true, decide_eq_true_eq] at h
      obtain ⟨⟨hc, hk⟩, hxs⟩ := h
      have ih := inRdL_shown xs ctx.nested hT.nested hxs
      simp only [shown]
      split
      · rename_i hl0
        have : xs = [] := by
          cases xs with
          | nil => rfl
          | cons a b => simp at hl0
        subst this
        split
        · simp [inRd, hc, hk, inRdL]
        · split
          · exact inRd_phCall _ (phName_cls cls hc _ (phName_seqName kind))
          · simp [inRd, hc, hk, inRdL]
      · split
        · -- at the cut
          split
          · split
            · exact inRd_phLit kind
            · rename_i hcn
              have hph := inRd_phLit kind
              rw [inRd, inRdL, inRdL, inRdK, hph]
              simp only [Bool.and_true, Bool.or_eq_true]
              cases cls with
              | none => simp at hcn
              | some q => exact Or.inl (Or.inl (by simpa [clsOk] using hc))
          · exact inRd_phCall _ (phName_cls cls hc _ (phName_seqName kind))
        · unfold cutSeq
          split
          · simp only [inRd, emptyDictSub, Bool.not_false, Bool.or_true, Bool.and_true, Bool.and_eq_true, decide_eq_true_eq]
            exact ⟨⟨hc, hk⟩, inRdL_cut ctx xs.length ih⟩
          · simp only [inRd, Bool.and_eq_true, decide_eq_true_eq]
            exact ⟨⟨hc, hk⟩, ih⟩
  | .dict cls kvs, ctx, hT, h => by
      simp only [inRd, Bool.and_eq_true] at h
      have ih := inRdP_shown kvs ctx hT h.2
      simp only [shown]
      split
      · -- at the cut
        split
        · exact inRd_phLit 2
        · rename_i hcn
          have hph := inRd_phLit 2
          rw [inRd, inRdL, inRdL, inRdK, hph]
          simp only [Bool.and_true, Bool.or_eq_true]
          cases cls with
          | none => simp at hcn
          | some q => exact Or.inl (Or.inl (by simpa [clsOk] using h.1))
      · have hmem : ∀ q ∈ (takeOpt ctx.maxSeqLen (if ctx.sortKeys = true then sortK (shownPairs ctx kvs) else shownPairs ctx kvs)).map (·.2),
            inRd q.1 = true ∧ inRd q.2 = true := by
          intro q hq
          simp only [List.mem_map] at hq
          obtain ⟨p, hp, rfl⟩ := hq
          have hp1 := mem_takeOpt' _ _ p hp
          have hp' : p ∈ shownPairs ctx kvs := by
            split at hp1
            · exact (C01.sortK_perm _).mem_iff.mp hp1
            · exact hp1
          exact ih p hp'
        have hdict : inRd (.dict cls ((takeOpt ctx.maxSeqLen (if ctx.sortKeys = true then sortK (shownPairs ctx kvs) else shownPairs ctx kvs)).map (·.2))) = true := by
          simp only [inRd, Bool.and_eq_true]
          exact ⟨h.1, (inRdP_iff _).mpr hmem⟩
        split
        · rename_i t ht
          obtain ⟨_, ⟨n, hn, hgt⟩, _⟩ := withTruncation_some ht
          simp only [inRd, Bool.and_eq_true, Bool.or_eq_true, Bool.not_eq_true']
          refine ⟨by simpa [inRd] using hdict, Or.inr ?_⟩
          have hlen : (if ctx.sortKeys = true then sortK (shownPairs ctx kvs) else shownPairs ctx kvs).length = kvs.length := by
            split
            · rw [(C01.sortK_perm _).length_eq, shownPairs_length]
            · exact shownPairs_length _ _
          have hne : (takeOpt ctx.maxSeqLen (if ctx.sortKeys = true then sortK (shownPairs ctx kvs) else shownPairs ctx kvs)).map (·.2) ≠ [] := by
            have : (if ctx.sortKeys = true then sortK (shownPairs ctx kvs) else shownPairs ctx kvs) ≠ [] := by
              intro e; rw [e] at hlen; simp at hlen; omega
            have := takeOpt_ne_nil hT this
            simpa using this
          obtain ⟨a, b, hl⟩ := List.exists_cons_of_ne_nil hne
          rw [hl]
          cases cls <;> rfl
        · exact hdict
  | .opaque _, _, _, h => by simp [inRd] at h
  | .timedelta _ _ _, _, _, h => by simp [inRd] at h
  | .path cls posix, ctx, _, h => by
      simp only [inRd] at h
      simp only [shown]
      split
      · have hph : inRd (phCall (builtin nmStr)) = true := inRd_phCall _ (by decide)
        rw [inRd, inRdL, inRdL, inRdK, hph]; simp [h]
      · simpa [inRd] using h

theorem inRdL_shown : (xs : List PyVal) → (ctx : Ctx) → Trunc ctx → inRdL xs = true → inRdL (shownL ctx xs) = true
  | [], _, _, _ => rfl
  | v :: r, ctx, hT, h => by
      simp only [inRdL, Bool.and_eq_true, shownL] at *
      exact ⟨inRd_shown v ctx hT h.1, inRdL_shown r ctx hT h.2⟩

theorem inRdK_shown : (kws : List (Str × PyVal)) → (ctx : Ctx) → Trunc ctx → inRdK kws = true → inRdK (shownKw ctx kws) = true
  | [], _, _, _ => rfl
  | (k, v) :: r, ctx, hT, h => by
      simp only [inRdK, Bool.and_eq_true, shownKw] at *
      exact ⟨⟨h.1.1, inRd_shown v ctx hT h.1.2⟩, inRdK_shown r ctx hT h.2⟩

theorem inRdP_shown : (kvs : List (PyVal × PyVal)) → (ctx : Ctx) → Trunc ctx → inRdP kvs = true →
    ∀ p ∈ shownPairs ctx kvs, inRd p.2.1 = true ∧ inRd p.2.2 = true
  | [], _, _, _ => by simp [shownPairs]
  | (k, v) :: r, ctx, hT, h => by
      simp only [inRdP, Bool.and_eq_true] at h
      intro p hp
      simp only [shownPairs, List.mem_cons] at hp
      rcases hp with rfl | hp
      · refine ⟨?_, inRd_shown v ctx.nested hT.nested h.1.2⟩
        simp only [shownKey]
        split
        · exact h.1.1
        · exact inRd_shown k ctx.nested hT.nested h.1.1
      · exact inRdP_shown r ctx hT h.2 p hp
end

end Tok
end PP
