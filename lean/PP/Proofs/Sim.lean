/-
C05: the simulation argument.  While the (erased) predicate accepts the current stack with budget `left`, the
text the machine really emits before its next line break fits in `left`.
-/
import PP.Proofs.FitsE
namespace PP
open Doc

/-- width of the text emitted before the first line break -/
def firstLine : List SDoc → Int
  | [] => 0
  | .text s :: r => s.length + firstLine r
  | .line _ :: _ => 0
  | .push _ :: r => firstLine r
  | .pop _ :: r => firstLine r

theorem sim (cfg : Cfg) (stk : List Triple) (col : Int) (left : Int)
    (hc : AllClassic stk) (h : fitsE left (strip stk) = true) :
    firstLine (run cfg stk col) ≤ left := by
  have h0 := fitsE_nonneg h
  fun_induction run cfg stk col generalizing left with
  | case1 => simpa [firstLine] using h0
  | case2 col i m r a ih => simp only [firstLine]; exact ih _ hc.tail (by simpa using h) h0
  | case3 col i m r ih => exact ih _ hc.tail (by simpa [fitsE_dnil h0] using h) h0
  | case4 col i m r ih => simpa [firstLine] using h0
  | case5 col i m r s ih =>
    simp only [firstLine]
    have h' : fitsE (left - s.length) (strip r) = true := by simpa [fitsE_text h0] using h
    have := ih _ hc.tail h' (fitsE_nonneg h'); omega
  | case6 col i m r ds ih =>
    have hcat : Classic (.cat ds) := hc.head
    cases hcat with
    | cat hds => exact ih _ (AllClassic.pushAll hds hc.tail) (by simpa [fitsE_cat h0] using h) h0
  | case7 col i m r d ih =>
    have ha : Classic (.align d) := hc.head
    cases ha with
    | align hd =>
      exact ih _ (AllClassic.cons (it := .doc _) (classic_alignAt hd) hc.tail)
        (by simpa [fitsE_align h0, fitsE_alignAt h0] using h) h0
  | case8 col i m r sp ih => exact absurd (hc.head : Classic (.pstr sp)) (by intro h; cases h)
  | case9 col i m r a d ih =>
    have hann : Classic (.ann a d) := hc.head
    cases hann with
    | ann hd =>
      simp only [firstLine]
      exact ih _ (AllClassic.cons (it := .doc d) hd (AllClassic.cons (it := .pop a) trivial hc.tail))
        (by simpa [fitsE_ann h0] using h) h0
  | case10 col i m r l b f ih =>
    have hch : Classic (.choice l b f) := hc.head
    exact ih _ (AllClassic.cons (it := .doc _) (classic_pick hch) hc.tail) (by simpa [fitsE_choice h0] using h) h0
  | case11 col i m r j d ih =>
    have hn : Classic (.nest j d) := hc.head
    cases hn with
    | nest hd => exact ih _ (AllClassic.cons (it := .doc d) hd hc.tail) (by simpa [fitsE_nest h0] using h) h0
  | case12 col i m r d ih => simp [fitsE_ab h0] at h
  | case13 col i m r d a fit ih =>
    have hg : Classic (.group d) := hc.head
    cases hg with
    | group hd =>
      refine ih _ (AllClassic.cons (it := .doc d) hd hc.tail) ?_ h0
      have h' : fitsE left ((.flat, d) :: strip r) = true := by simpa [fitsE_group h0] using h
      refine fitsE_mono left _ _ ?_ h'
      simp only [strip_doc]
      exact .cons (Mode.le_flat _) hd (RelP.refl_strip hc.tail)
  | case14 col i m r ih => exact absurd (hc.head : Classic (.fill [])) (by intro h; cases h)
  | case15 col i m r x a fit ih => exact absurd (hc.head : Classic (.fill [x])) (by intro h; cases h)
  | case16 col i m r x ws a fit ih => exact absurd (hc.head : Classic (.fill [x, ws])) (by intro h; cases h)
  | case17 col i m r x ws y rest a fit fit2 ih =>
    exact absurd (hc.head : Classic (.fill (x :: ws :: y :: rest))) (by intro h; cases h)

/-- the decision taken at a group (both strategies) implies the erased predicate on the flat stack -/
theorem fits_imp_fitsE (cfg : Cfg) (mn mw : Int) (stk : List Triple) (hc : AllClassic stk)
    (h : fits cfg mn mw stk = true) : fitsE mw (strip stk) = true := by
  unfold fits at h
  split at h
  · rw [← fitsFast_eq_fitsE cfg mw mw stk hc]; exact smart_imp_fast cfg mn mw mw stk h
  · rw [← fitsFast_eq_fitsE cfg mw mw stk hc]; exact h

end PP
