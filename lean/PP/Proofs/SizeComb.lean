/-
C12: sizes of the documents the helpers build (`sequence_of_docs`, `build_fncall`, the parts of `pretty_dict`) are linear
in the sizes of their arguments plus the comments they carry.  `rsize` is the measure of `Model/Doc.lean` (a choice counts
its larger alternative), so a comment shown above *or* after an element is paid once.
-/
import PP.Proofs.SizeComment
import PP.Model.Values
namespace PP
namespace Pr
open Doc PyStr

/-- document of the comment an element carries -/
def cwC (d : Doc) : Nat := match commented? d with | some (c, _) => cw c | none => 0

/-- size of an element document plus the document of the comment it carries (which its parent builds) -/
def celt (d : Doc) : Nat := rsize d + cwC d

def sumBy {α} (f : α → Nat) : List α → Nat
  | [] => 0
  | x :: r => f x + sumBy f r

theorem sumBy_append {α} (f : α → Nat) (xs ys : List α) : sumBy f (xs ++ ys) = sumBy f xs + sumBy f ys := by
  induction xs with
  | nil => simp [sumBy]
  | cons x r ih => simp [sumBy, ih]; omega

theorem rsizes_append (xs ys : List Doc) : rsizes (xs ++ ys) = rsizes xs + rsizes ys := by
  induction xs with
  | nil => simp [rsizes]
  | cons x r ih => simp [rsizes, ih]; omega

theorem commented_rsize {d : Doc} {c : PS} {inner : Doc} (h : commented? d = some (c, inner)) : rsize d = 2 + rsize inner := by
  cases d <;> simp [commented?] at h
  rename_i a d'; cases a <;> simp [commented?] at h
  obtain ⟨_, h2⟩ := h; subst h2; simp [rsize]

theorem commented_eq' {d : Doc} {c : PS} {inner : Doc} (h : commented? d = some (c, inner)) : d = .ann (.comment c) inner := by
  cases d <;> simp [commented?] at h
  rename_i a d'; cases a <;> simp [commented?] at h
  obtain ⟨h1, h2⟩ := h; subst h1; subst h2; rfl

theorem rsize_le_celt (d : Doc) : rsize d ≤ celt d := by unfold celt; omega

@[simp] theorem rsize_COMMA : rsize COMMA = 3 := rfl
@[simp] theorem rsize_line : rsize line = 2 := rfl
@[simp] theorem rsize_softline : rsize softline = 2 := rfl
@[simp] theorem size_softline : size softline = 2 := rfl
@[simp] theorem rsize_LPAREN : rsize LPAREN = 3 := rfl
@[simp] theorem rsize_RPAREN : rsize RPAREN = 3 := rfl
@[simp] theorem size_COMMA : size COMMA = 3 := rfl
@[simp] theorem rsize_COLON : rsize COLON = 3 := rfl
@[simp] theorem size_COLON : size COLON = 3 := rfl
@[simp] theorem size_line : size line = 2 := rfl

/-! ### sequence_of_docs -/

theorem rsizes_seqGo (dangle : Bool) (n : Nat) : ∀ (docs : List Doc) (idx : Nat),
    rsizes (seqParts.go dangle n docs idx) ≤ sumBy (fun d => celt d + 12) docs
  | [], _ => by simp [seqParts.go, rsizes, sumBy]
  | d :: r, idx => by
    have ih := rsizes_seqGo dangle n r (idx + 1)
    rw [seqParts.go]
    cases hc : commented? d with
    | none =>
      have h0 : rsize d ≤ celt d := rsize_le_celt d
      simp only [sumBy]
      split <;> simp only [rsizes, rsize] <;> (try simp) <;> omega
    | some p =>
      obtain ⟨c, inner⟩ := p
      have hcd := rsize_commentdoc c
      have hsd := size_commentdoc c
      have hs := size_le_rsize d
      have hce : celt d = rsize d + cw c := by simp [celt, cwC, hc]
      simp only [sumBy, rsizes, rsize, size, sizes]
      have e1 : ∀ (b : Prop) [Decidable b], rsize (if b then COMMA else .nil) ≤ 3 := by intro b _; split <;> simp [rsize]
      have e2 : ∀ (b : Prop) [Decidable b], size (if b then COMMA else .nil) ≤ 3 := by intro b _; split <;> simp [size]
      have e3 : ∀ (b : Prop) [Decidable b], rsize (if b then Doc.hardline else .nil) ≤ 1 := by intro b _; split <;> simp [rsize]
      have e4 : ∀ (b : Prop) [Decidable b], size (if b then Doc.hardline else .nil) ≤ 1 := by intro b _; split <;> simp [size]
      have a1 := e1 (!(idx + 1 == n) || dangle) ; have a2 := e2 (!(idx + 1 == n) || dangle)
      have a3 := e3 (!(idx + 1 == n)) ; have a4 := e4 (!(idx + 1 == n))
      omega

theorem rsize_sequenceOfDocs (ind : Int) (left right : Doc) (docs : List Doc) (dangle fb : Bool) :
    rsize (sequenceOfDocs ind left docs right dangle fb) ≤ rsize left + rsize right + sumBy (fun d => celt d + 12) docs + 16 := by
  have hgo := rsizes_seqGo dangle docs.length docs 0
  have h1 : rsizes (seqParts docs dangle) ≤ sumBy (fun d => celt d + 12) docs := by unfold seqParts; exact hgo
  have h2 : rsizes (seqParts docs dangle ++ [COMMA]) ≤ sumBy (fun d => celt d + 12) docs + 3 := by
    rw [rsizes_append]; simp only [rsizes, rsize_COMMA]; omega
  unfold sequenceOfDocs
  simp only []
  repeat' split
  all_goals (simp only [rsize, bracket, rsizes, rsize_softline]; omega)

/-! ### build_fncall -/

theorem rsizes_fncallParts (n : Nat) : ∀ (docs : List Doc) (idx : Nat) (hc : Bool),
    rsizes (fncallParts n docs idx hc).1 ≤ sumBy (fun d => celt d + 14) docs
  | [], _, _ => by simp [fncallParts, rsizes, sumBy]
  | d :: r, idx, hc => by
    rw [fncallParts]
    cases hcm : commented? d with
    | none =>
      have ih := rsizes_fncallParts n r (idx + 1) hc
      have h0 : rsize d ≤ celt d := rsize_le_celt d
      simp only [sumBy, rsizes]
      repeat' split
      all_goals (simp only [rsize, rsizes, rsize_COMMA, rsize_line]; omega)
    | some p =>
      obtain ⟨c, inner⟩ := p
      have ih := rsizes_fncallParts n r (idx + 1) true
      have hcd := rsize_commentdoc c
      have hsd := size_commentdoc c
      have hr := commented_rsize hcm
      have hs := size_le_rsize inner
      have hce : celt d = rsize d + cw c := by simp [celt, cwC, hcm]
      simp only [sumBy, rsizes]
      repeat' split
      all_goals (simp only [rsize, rsizes, size, sizes, rsize_COMMA, size_COMMA, rsize_line]; omega)

theorem celt_kwargDoc (b : Str) (d : Doc) : celt (kwargDoc b d) ≤ celt d + 7 := by
  unfold kwargDoc
  cases hcm : commented? d with
  | none => simp [celt, cwC, commented?, hcm, rsize, rsizes, keywordArg, tk, ASSIGN_OP]; omega
  | some p =>
    obtain ⟨c, inner⟩ := p
    have := commented_eq' hcm
    subst this
    simp [celt, cwC, commented?, rsize, rsizes, keywordArg, tk, ASSIGN_OP]; omega

theorem rsize_buildRest (ind : Int) (fn : Doc) (all : List Doc) :
    rsize (buildFncall.buildRest ind fn all none) ≤ rsize fn + sumBy (fun d => celt d + 14) all + 16 := by
  have h := rsizes_fncallParts all.length all 0 false
  unfold buildFncall.buildRest
  simp only [Bool.false_eq_true, if_false]
  split <;> simp only [rsize, rsizes, rsize_LPAREN, rsize_RPAREN, rsize_softline] <;> omega

theorem sumBy_kw (g : Str × Doc → Doc) (hg : ∀ p, g p = kwargDoc p.1 p.2) (kw : List (Str × Doc)) :
    sumBy (fun d => celt d + 14) (kw.map g) ≤ sumBy (fun p => celt p.2 + 21) kw := by
  induction kw with
  | nil => simp [sumBy]
  | cons p r ih =>
    have := celt_kwargDoc p.1 p.2
    simp only [List.map_cons, sumBy, hg]; omega

theorem rsize_buildFncall (ind : Int) (fn : Doc) (args : List Doc) (kw : List (Str × Doc)) (hug : Bool) :
    rsize (buildFncall ind fn args kw hug none) ≤
      rsize fn + sumBy (fun d => celt d + 14) args + sumBy (fun p => celt p.2 + 21) kw + 16 := by
  have hall : sumBy (fun d => celt d + 14) (args ++ kw.map fun x => kwargDoc x.1 x.2) ≤
      sumBy (fun d => celt d + 14) args + sumBy (fun p => celt p.2 + 21) kw := by
    rw [sumBy_append]; have := sumBy_kw (fun x => kwargDoc x.1 x.2) (fun p => rfl) kw; omega
  have hr := rsize_buildRest ind fn (args ++ kw.map fun x => kwargDoc x.1 x.2)
  unfold buildFncall
  simp only []
  split
  · simp only [rsize, rsizes, rsize_LPAREN, rsize_RPAREN]; omega
  · split
    · split
      · rename_i a _ _ _
        have := rsize_le_celt a
        simp only [rsize, rsizes, rsize_LPAREN, rsize_RPAREN, sumBy]; omega
      · omega
    · omega

/-! ### pretty_dict -/

def cwO : Option PS → Nat
  | some t => cw t
  | none => 0

theorem rsize_dictPart (ind : Int) (last : Bool) (kdoc vdoc : Doc) (kc vc : Option PS) (rer : Doc) :
    rsize (dictPart ind last kdoc vdoc kc vc rer) ≤ rsize kdoc + cwO kc + cwO vc + max (rsize rer) (rsize vdoc) + 25 := by
  have hs := size_le_rsize vdoc
  have hm1 : rsize rer ≤ max (rsize rer) (rsize vdoc) := Nat.le_max_left _ _
  have hm2 : rsize vdoc ≤ max (rsize rer) (rsize vdoc) := Nat.le_max_right _ _
  generalize max (rsize rer) (rsize vdoc) = M at hm1 hm2 ⊢
  unfold dictPart
  cases kc with
  | none =>
    cases vc with
    | none => cases last <;> simp [rsize, rsizes, cwO] <;> omega
    | some c =>
      have hcd := rsize_commentdoc c
      have hsd := size_commentdoc c
      cases last <;> simp [rsize, rsizes, size, sizes, cwO] <;> omega
  | some k =>
    have hkd := rsize_commentdoc k
    cases vc with
    | none => cases last <;> simp [rsize, rsizes, cwO] <;> omega
    | some c =>
      have hcd := rsize_commentdoc c
      have hsd := size_commentdoc c
      cases last <;> simp [rsize, rsizes, size, sizes, cwO] <;> omega

/-- cost of one pair: key document and its comment, value document (or its re-rendering) and its comment -/
def pairCost (pd : PairDocs) : Nat :=
  celt pd.2.1 + cwC pd.2.2.1 + max (rsize pd.2.2.2) (rsize pd.2.2.1) + 25

theorem nonEmpty_cwO (c : Option PS) : cwO (nonEmpty? c) ≤ cwO c := by
  cases c with
  | none => simp [nonEmpty?, cwO]
  | some t => simp only [nonEmpty?]; split <;> simp [cwO]

theorem rsizes_dictPartsOf (ind : Int) (n : Nat) : ∀ (pds : List PairDocs) (idx : Nat),
    rsizes (dictPartsOf ind n pds idx).1 ≤ sumBy pairCost pds
  | [], _ => by simp [dictPartsOf, rsizes, sumBy]
  | pd :: r, idx => by
    obtain ⟨k, kdoc0, vdoc0, rer⟩ := pd
    have ih := rsizes_dictPartsOf ind n r (idx + 1)
    rw [dictPartsOf]
    simp only [rsizes, sumBy, pairCost]
    have e0 : cwO (nonEmpty? none) = 0 := rfl
    cases hkc : commented? kdoc0 <;> cases hvc : commented? vdoc0 <;> simp only []
    · have h := rsize_dictPart ind (idx + 1 == n) kdoc0 vdoc0 (nonEmpty? none) (nonEmpty? none) rer
      simp only [celt, cwC, hkc, hvc]
      omega
    · rename_i p; obtain ⟨c, d⟩ := p
      have h := rsize_dictPart ind (idx + 1 == n) kdoc0 d (nonEmpty? none) (nonEmpty? (some c)) rer
      have h1 : cwO (nonEmpty? (some c)) ≤ cw c := nonEmpty_cwO (some c)
      have h2 := commented_rsize hvc
      simp only [celt, cwC, hkc, hvc]
      omega
    · rename_i p; obtain ⟨c, d⟩ := p
      have h := rsize_dictPart ind (idx + 1 == n) d vdoc0 (nonEmpty? (some c)) (nonEmpty? none) rer
      have h1 : cwO (nonEmpty? (some c)) ≤ cw c := nonEmpty_cwO (some c)
      have h2 := commented_rsize hkc
      simp only [celt, cwC, hkc, hvc]
      omega
    · rename_i p1 p2; obtain ⟨c1, d1⟩ := p1; obtain ⟨c2, d2⟩ := p2
      have h := rsize_dictPart ind (idx + 1 == n) d1 d2 (nonEmpty? (some c1)) (nonEmpty? (some c2)) rer
      have h1 : cwO (nonEmpty? (some c1)) ≤ cw c1 := nonEmpty_cwO (some c1)
      have h1' : cwO (nonEmpty? (some c2)) ≤ cw c2 := nonEmpty_cwO (some c2)
      have h2 := commented_rsize hkc
      have h3 := commented_rsize hvc
      simp only [celt, cwC, hkc, hvc]
      omega

end Pr
end PP
