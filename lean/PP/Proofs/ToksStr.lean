/-
The string evaluator is layout-invariant: every document `pretty_str`'s evaluator can return — one literal, or several
adjacent literals under any of the four multi-line strategies, in a constructor call for a subclass — carries the
canonical tokens of the value up to `TEq` (literal splitting and redundant parentheses).
-/
import PP.Proofs.Toks
import PP.Proofs.RoundTrip
import PP.Proofs.StrLines
import PP.Proofs.EvBound
namespace PP
namespace Tok
open Doc PyStr Pr

/-! ### highlight_escapes only cuts the escaped text into pieces -/

theorem escapeSplit_join (fuel : Nat) : ∀ (s cur : Str), s.length < fuel →
    ((escapeSplit s fuel cur).map (·.1)).flatten = cur.reverse ++ s := by
  induction fuel with
  | zero => intro s cur h; omega
  | succ fuel ih =>
    intro s cur h
    cases s with
    | nil => simp only [escapeSplit]; split <;> simp_all
    | cons c r =>
      simp only [escapeSplit]
      split
      · rw [ih r (c :: cur) (by simp at h; omega)]; simp
      · rename_i hn
        have hn' : 1 ≤ escapeMatchLen (c :: r) := by
          have : escapeMatchLen (c :: r) ≠ 0 := by simpa using hn
          omega
        have hlen : ((c :: r).drop (escapeMatchLen (c :: r))).length < fuel := by
          simp only [List.length_drop, List.length_cons] at h ⊢; omega
        simp only [List.map_append, List.map_cons, List.flatten_append, List.flatten_cons, ih _ [] hlen,
          List.reverse_nil, List.nil_append, List.take_append_drop]
        split <;> simp_all

theorem textOfL_map {α} (f : α → Doc) (g : α → Str) (h : ∀ x, textOf (f x) = g x) (ps : List α) :
    textOfL (ps.map f) = (ps.map g).flatten := by
  induction ps with
  | nil => simp [textOfL]
  | cons p r ih => simp only [List.map_cons, textOfL, ih, h, List.flatten_cons]

theorem plainL_map {α} (f : α → Doc) (h : ∀ x, Plain (f x) = true) (ps : List α) : PlainL (ps.map f) = true := by
  induction ps with
  | nil => simp [PlainL]
  | cons p r ih => simp only [List.map_cons, PlainL, ih, h, Bool.and_self]

theorem textOf_highlight (s : Str) : textOf (highlightEscapes s) = s := by
  unfold highlightEscapes
  split
  · rename_i h; simp only [textOf]; simpa using h.symm
  · rw [textOf, textOfL_map _ (·.1) (by intro x; simp [tk, textOf]), escapeSplit_join _ _ _ (by omega)]; simp

theorem plain_highlight (s : Str) : Plain (highlightEscapes s) = true := by
  unfold highlightEscapes
  split
  · rfl
  · rw [Plain, plainL_map _ (by intro x; simp [tk, Plain])]

theorem decodeLit_quoted (q : Nat) (hq : q = SQ ∨ q = DQ) (body : Str) :
    decodeLit (q :: (body ++ [q])) = unescape q body := by
  have : (q == SQ || q == DQ) = true := by rcases hq with h | h <;> simp [h]
  simp [decodeLit, this]

/-- tokens of one literal piece -/
def pieceToks (isBytes : Bool) (l : PS) : List CT :=
  (if isBytes then [CT.code [98]] else []) ++ [.lit (some (cps l))]

theorem toksOf_singleLine (isBytes : Bool) (q : Nat) (hq : q = SQ ∨ q = DQ) (l : PS)
    (hw : ∀ c ∈ l, c.cp < (if isBytes then 256 else 1114112)) :
    toksOf (singleLineStr isBytes q l) = pieceToks isBytes l := by
  have hd := decodeLit_quoted q hq (escapeForQuote isBytes q l)
  rw [PyStr.unescape_escape isBytes q hq l hw] at hd
  unfold singleLineStr pieceToks
  cases isBytes <;>
    simp [toksOf, toksOfL, tk, textOf, textOfL, textOf_highlight, isBlank, tStr, tComment, tAffix, hd]

theorem tinv_singleLine (P) (isBytes : Bool) (q : Nat) (l : PS) : TInv P (singleLineStr isBytes q l) := by
  unfold singleLineStr
  cases isBytes <;>
    simp [TInv, TInvL, tk, tStr, tComment, tAffix, Plain, PlainL, plain_highlight]

/-! ### adjacent pieces are one literal -/

theorem cps_append (a b : PS) : cps (a ++ b) = cps a ++ cps b := by simp [cps]

theorem pieces_teq (isBytes : Bool) : ∀ (ls : List PS), ls ≠ [] →
    TEq (ls.flatMap (pieceToks isBytes)) (pieceToks isBytes ls.flatten)
  | [], h => absurd rfl h
  | [l], _ => by simp; exact .refl _
  | l :: l2 :: r, _ => by
    have ih := pieces_teq isBytes (l2 :: r) (by simp)
    rw [List.flatMap_cons, List.flatten_cons]
    refine .trans (.app (.refl _) ih) ?_
    unfold pieceToks
    rw [cps_append]
    cases isBytes
    · exact .symm (.split _ _)
    · exact .symm (.splitB _ _)

theorem toksOfL_pieces (isBytes : Bool) (q : Nat) (hq : q = SQ ∨ q = DQ) : ∀ (ls : List PS),
    (∀ l ∈ ls, ∀ c ∈ l, c.cp < (if isBytes then 256 else 1114112)) →
    toksOfL (intersperse .hardline (ls.map (singleLineStr isBytes q))) = ls.flatMap (pieceToks isBytes)
  | [], _ => rfl
  | [l], hw => by
    simp only [List.map_cons, List.map_nil, intersperse, toksOfL, List.append_nil, List.flatMap_cons, List.flatMap_nil]
    exact toksOf_singleLine isBytes q hq l (hw l (by simp))
  | l :: l2 :: r, hw => by
    have ih := toksOfL_pieces isBytes q hq (l2 :: r) (fun x hx => hw x (by simp [hx]))
    simp only [List.map_cons, intersperse, toksOfL, List.flatMap_cons] at ih ⊢
    rw [ih, toksOf_singleLine isBytes q hq l (hw l (by simp))]
    simp [toksOf]

theorem tinvL_pieces (P) (isBytes : Bool) (q : Nat) : ∀ (ls : List PS),
    TInvL P (intersperse .hardline (ls.map (singleLineStr isBytes q)))
  | [] => trivial
  | [l] => by simp only [List.map_cons, List.map_nil, intersperse, TInvL]; exact ⟨tinv_singleLine P _ _ _, trivial⟩
  | l :: l2 :: r => by
    have ih := tinvL_pieces P isBytes q (l2 :: r)
    simp only [List.map_cons, intersperse, TInvL] at ih ⊢
    exact ⟨tinv_singleLine P _ _ _, trivial, ih⟩

/-! ### the constructor call around a subclass instance -/

def nameToks (c : QualName) : List CT := if isBlank c.2 then [] else [.code c.2]

theorem toksOf_wrap (ind : Int) (c : QualName) (d : Doc) (hc : commented? d = none) :
    toksOf (buildFncall ind (generalIdentifier c) [d] [] false none) =
      nameToks c ++ [.code [40]] ++ toksOf d ++ [.code [41]] := by
  simp only [buildFncall, List.map_nil, List.isEmpty_cons, Bool.false_and, Bool.false_eq_true, if_false,
    buildFncall.buildRest, List.append_nil, List.length_cons, List.length_nil, fncallParts, hc,
    Nat.zero_add, beq_self_eq_true, Bool.not_true, if_true]
  unfold nameToks
  cases hb : c.1 <;>
    simp [toksOf, toksOfL, generalIdentifier, tk, LPAREN, RPAREN, softline, hb, tBuiltin, tFn, tPunct, tComment, tStr, isBlank]

theorem tinv_wrap (P) (ind : Int) (c : QualName) (d : Doc) (hc : commented? d = none) (hd : TInv P d) :
    TInv P (buildFncall ind (generalIdentifier c) [d] [] false none) := by
  simp only [buildFncall, List.map_nil, List.isEmpty_cons, Bool.false_and, Bool.false_eq_true, if_false,
    buildFncall.buildRest, List.append_nil, List.length_cons, List.length_nil, fncallParts, hc,
    Nat.zero_add, beq_self_eq_true, Bool.not_true, if_true]
  cases hb : c.1 <;>
    simp [TInv, TInvL, toksOf, generalIdentifier, tk, LPAREN, RPAREN, softline, hb, tBuiltin, tFn, tPunct, tComment, tStr, hd] <;>
    exact .refl _

/-! ### the evaluator -/

/-- code points of a `str` are below 0x110000, bytes below 256 -/
def wfStr (isBytes : Bool) (s : PS) : Prop := ∀ c ∈ s, c.cp < (if isBytes then 256 else 1114112)

theorem paren_pieces (isBytes : Bool) (ls : List PS) (h2 : 2 ≤ ls.length) :
    TEq (.code [40] :: ls.flatMap (pieceToks isBytes) ++ [.code [41]]) (ls.flatMap (pieceToks isBytes)) := by
  apply TEq.paren
  · have : ∀ (xs : List PS), ((xs.flatMap (pieceToks isBytes)).filter isLit).length = xs.length := by
      intro xs
      induction xs with
      | nil => rfl
      | cons x r ih =>
        simp only [List.flatMap_cons, List.filter_append, List.length_append, ih, List.length_cons]
        cases isBytes <;> simp [pieceToks, isLit, List.filter] <;> omega
    rw [this]; exact h2
  · simp only [List.all_flatMap, List.all_eq_true]
    intro x _
    cases isBytes <;> simp [pieceToks, isLitOrB]

theorem evalStr_tokens (sp : StrSpec) (hw : wfStr sp.isBytes sp.s) (i c w rw : Int) :
    TInv (fun _ => False) (evalStr sp i c w rw) ∧ TEq (toksOf (evalStr sp i c w rw)) (strCanon sp) := by
  have hq := detQ sp.s
  have hflat := toksOf_singleLine sp.isBytes (determineQuote sp.s) hq sp.s hw
  have hfi := tinv_singleLine (fun _ => False) sp.isBytes (determineQuote sp.s) sp.s
  have hfc : commented? (singleLineStr sp.isBytes (determineQuote sp.s) sp.s) = none := rfl
  have flatCase : TInv (fun _ => False) (match sp.cls with
        | none => singleLineStr sp.isBytes (determineQuote sp.s) sp.s
        | some c => buildFncall sp.ppIndent (generalIdentifier c) [singleLineStr sp.isBytes (determineQuote sp.s) sp.s] [] false none) ∧
      TEq (toksOf (match sp.cls with
        | none => singleLineStr sp.isBytes (determineQuote sp.s) sp.s
        | some c => buildFncall sp.ppIndent (generalIdentifier c) [singleLineStr sp.isBytes (determineQuote sp.s) sp.s] [] false none))
        (strCanon sp) := by
    unfold strCanon
    cases sp.cls with
    | none => simp only []; rw [hflat]; exact ⟨hfi, .refl _⟩
    | some cn =>
      simp only []
      rw [toksOf_wrap _ _ _ hfc, hflat]
      exact ⟨tinv_wrap _ _ _ _ hfc hfi, .refl _⟩
  unfold evalStr
  simp only []
  split
  · exact flatCase
  · split
    · exact flatCase
    · rename_i hlen
      generalize hls : strToLines sp.isBytes sp.slashPattern _ _ (determineQuote sp.s) sp.s = ls at hlen ⊢
      have hj : ls.flatten = sp.s := by rw [← hls]; exact strToLines_join _ _ _ _ _ _
      have hwl : ∀ l ∈ ls, ∀ c ∈ l, c.cp < (if sp.isBytes then 256 else 1114112) := by
        intro l hl c hc
        exact hw c (by rw [← hj]; exact List.mem_flatten.mpr ⟨l, hl, hc⟩)
      have hne : ls ≠ [] := by intro e; simp [e] at hlen
      have h2 : 2 ≤ ls.length := by omega
      have hpt := toksOfL_pieces sp.isBytes (determineQuote sp.s) hq ls hwl
      have hpi := tinvL_pieces (fun _ => False) sp.isBytes (determineQuote sp.s) ls
      have hpe := pieces_teq sp.isBytes ls hne
      rw [hj] at hpe
      generalize intersperse Doc.hardline (ls.map (singleLineStr sp.isBytes (determineQuote sp.s))) = parts at hpt hpi ⊢
      unfold strCanon
      cases hcls : sp.cls with
      | some cn =>
        simp only [Option.isSome_some, if_true, beq_self_eq_true]
        rw [toksOf_wrap _ _ _ rfl]
        refine ⟨tinv_wrap _ _ _ _ rfl (by simpa only [TInv] using hpi), ?_⟩
        simp only [toksOf, hpt]
        exact .app (.app (.refl _) hpe) (.refl _)
      | none =>
        simp only [Option.isSome_none, Bool.false_eq_true, if_false]
        split
        · simp only [TInv, toksOf, hpt]; exact ⟨hpi, hpe⟩
        · split
          · simp only [TInv, toksOf, hpt]; exact ⟨hpi, hpe⟩
          · split
            · -- PARENS
              refine ⟨by simp [TInv, TInvL, LPAREN, RPAREN, tk, tPunct, tComment, tStr, hpi], ?_⟩
              simp only [toksOf, toksOfL, hpt, LPAREN, RPAREN, tk, tPunct, tComment, tStr]
              simp [isBlank]
              exact .trans (paren_pieces sp.isBytes ls h2) hpe
            · -- INDENTED
              refine ⟨by simp [TInv, TInvL, hpi], ?_⟩
              simp only [toksOf, toksOfL, hpt]
              simp [isBlank]
              exact hpe

/-- the predicate a string contextual has to satisfy: a well-formed value -/
def StrOk (sp : StrSpec) : Prop := wfStr sp.isBytes sp.s

end Tok
end PP
