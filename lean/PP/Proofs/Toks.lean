/-
Token invariance over the reference semantics: for a document whose choices carry the same code tokens on both
branches (`TInv`), *every* rendering in `Lay` — hence every layout the engine can pick, at any width — has the code tokens
`toksOf d`, up to `TEq`.
-/
import PP.Spec.Lay
import PP.Spec.Tokens
namespace PP
namespace Tok
open Doc PyStr

mutual
/-- the text of a literal region: fragments of a choice-free document, in order -/
def textOf : Doc → Str
  | .text s => s
  | .cat ds => textOfL ds
  | .ann _ d => textOf d
  | _ => []
def textOfL : List Doc → Str
  | [] => []
  | d :: r => textOf d ++ textOfL r
end

mutual
def Plain : Doc → Bool
  | .nil => true
  | .text _ => true
  | .cat ds => PlainL ds
  | .ann _ d => Plain d
  | _ => false
def PlainL : List Doc → Bool
  | [] => true
  | d :: r => Plain d && PlainL r
end

/-- canonical tokens of a string / bytes value printed by `pretty_str`: one literal, inside a constructor call for a subclass -/
def strCanon (sp : StrSpec) : List CT :=
  let l : List CT := (if sp.isBytes then [.code [98]] else []) ++ [.lit (some (cps sp.s))]
  match sp.cls with
  | none => l
  | some c => (if isBlank c.2 then [] else [.code c.2]) ++ [.code [40]] ++ l ++ [.code [41]]

mutual
/-- code tokens of a document, read off its broken alternatives -/
def toksOf : Doc → List CT
  | .nil => []
  | .text s => if isBlank s then [] else [.code s]
  | .hardline => []
  | .cat ds => toksOfL ds
  | .nest _ d => toksOf d
  | .group d => toksOf d
  | .choice _ b _ => toksOf b
  | .ab d => toksOf d
  | .fill ds => toksOfL ds
  | .ann (.tok t) d =>
      if t == Pr.tComment then [] else if t == Pr.tStr then [.lit (decodeLit (textOf d))] else toksOf d
  | .ann _ d => toksOf d
  | .align d => toksOf d
  | .pstr sp => strCanon sp
def toksOfL : List Doc → List CT
  | [] => []
  | d :: r => toksOf d ++ toksOfL r
end

mutual
/-- layout-invariant documents: both alternatives of every choice carry the same tokens, literal regions are plain
text, string contextuals satisfy `P` -/
def TInv (P : StrSpec → Prop) : Doc → Prop
  | .nil => True
  | .text _ => True
  | .hardline => True
  | .cat ds => TInvL P ds
  | .nest _ d => TInv P d
  | .group d => TInv P d
  | .choice _ b f => TInv P b ∧ TInv P f ∧ TEq (toksOf b) (toksOf f)
  | .ab d => TInv P d
  | .fill ds => TInvL P ds
  | .ann (.tok t) d =>
      if t == Pr.tComment then True else if t == Pr.tStr then Plain d = true else TInv P d
  | .ann _ d => TInv P d
  | .align d => TInv P d
  | .pstr sp => P sp
def TInvL (P : StrSpec → Prop) : List Doc → Prop
  | [] => True
  | d :: r => TInv P d ∧ TInvL P r
end

mutual
theorem TInv.mono {P Q : StrSpec → Prop} (h : ∀ sp, P sp → Q sp) : ∀ (d : Doc), TInv P d → TInv Q d
  | .nil, _ => trivial
  | .text _, _ => trivial
  | .hardline, _ => trivial
  | .cat ds, hi => by simp only [TInv] at *; exact TInvL.mono h ds hi
  | .nest _ d, hi => by simp only [TInv] at *; exact TInv.mono h d hi
  | .group d, hi => by simp only [TInv] at *; exact TInv.mono h d hi
  | .choice _ b f, hi => by
      simp only [TInv] at *; exact ⟨TInv.mono h b hi.1, TInv.mono h f hi.2.1, hi.2.2⟩
  | .ab d, hi => by simp only [TInv] at *; exact TInv.mono h d hi
  | .fill ds, hi => by simp only [TInv] at *; exact TInvL.mono h ds hi
  | .ann (.tok t) d, hi => by
      simp only [TInv] at *
      split
      · trivial
      · rename_i h1
        simp only [h1] at hi
        split
        · rename_i h2; simpa [h2] using hi
        · rename_i h2; simp only [h2] at hi; exact TInv.mono h d hi
  | .ann (.comment _) d, hi => by simp only [TInv] at *; exact TInv.mono h d hi
  | .ann (.other _) d, hi => by simp only [TInv] at *; exact TInv.mono h d hi
  | .align d, hi => by simp only [TInv] at *; exact TInv.mono h d hi
  | .pstr sp, hi => by simp only [TInv] at *; exact h sp hi
theorem TInvL.mono {P Q : StrSpec → Prop} (h : ∀ sp, P sp → Q sp) : ∀ (ds : List Doc), TInvL P ds → TInvL Q ds
  | [], _ => trivial
  | d :: r, hi => by simp only [TInvL] at *; exact ⟨TInv.mono h d hi.1, TInvL.mono h r hi.2⟩
end

variable {E : StrSpec → Doc → Prop}

/-! ### inside a comment region nothing is a token -/
mutual
theorem lay_comment : ∀ {d i m c o c'}, Lay E d i m c o c' → ∀ k, runCT (.comment k) o = (.comment k, [])
  | _, _, _, _, _, _, .nil, _ => rfl
  | _, _, _, _, _, _, .textE, _ => rfl
  | _, _, _, _, _, _, .text, _ => rfl
  | _, _, _, _, _, _, .hardline, _ => rfl
  | _, _, _, _, _, _, .cat _ _ hl, k => layL_comment hl k
  | _, _, _, _, _, _, .nest _ _ h, k => lay_comment h k
  | _, _, _, _, _, _, .group _ h, k => lay_comment h k
  | _, _, _, _, _, _, .choiceF h, k => lay_comment h k
  | _, _, _, _, _, _, .choiceB h, k => lay_comment h k
  | _, _, _, _, _, _, .ab h, k => lay_comment h k
  | _, _, _, _, _, _, .fill hl, k => layF_comment hl k
  | _, _, _, _, _, _, .ann (a := a) h, k => by
      rw [runCT_ann]
      simp only [step]
      rw [lay_comment h (k + 1)]
      simp
  | _, _, _, _, _, _, .align h, k => lay_comment h k
  | _, _, _, _, _, _, .pstr _ h, k => lay_comment h k
theorem layL_comment : ∀ {ds i m c o c'}, LayL E ds i m c o c' → ∀ k, runCT (.comment k) o = (.comment k, [])
  | _, _, _, _, _, _, .nil, _ => rfl
  | _, _, _, _, _, _, .cons hd hl, k => by rw [runCT_append, lay_comment hd k, layL_comment hl k]; rfl
theorem layF_comment : ∀ {ds i c o c'}, LayF E ds i c o c' → ∀ k, runCT (.comment k) o = (.comment k, [])
  | _, _, _, _, _, .nil, _ => rfl
  | _, _, _, _, _, .cons _ hd hl, k => by rw [runCT_append, lay_comment hd k, layF_comment hl k]; rfl
end

/-! ### inside a literal region the text accumulates -/
mutual
theorem lay_str : ∀ {d i m c o c'}, Lay E d i m c o c' → Plain d = true →
    ∀ k acc, runCT (.str k acc) o = (.str k (acc ++ textOf d), [])
  | _, _, _, _, _, _, .nil, _, _, _ => by simp [runCT, textOf]
  | _, _, _, _, _, _, .textE, _, _, _ => by simp [runCT, textOf]
  | _, _, _, _, _, _, .text, _, _, _ => by simp [runCT, step, textOf]
  | _, _, _, _, _, _, .hardline, hp, _, _ => by simp [Plain] at hp
  | _, _, _, _, _, _, .cat _ _ hl, hp, k, acc => by
      simp only [Plain] at hp; simpa [textOf] using layL_str hl hp k acc
  | _, _, _, _, _, _, .nest _ _ h, hp, _, _ => by simp [Plain] at hp
  | _, _, _, _, _, _, .group _ h, hp, _, _ => by simp [Plain] at hp
  | _, _, _, _, _, _, .choiceF h, hp, _, _ => by simp [Plain] at hp
  | _, _, _, _, _, _, .choiceB h, hp, _, _ => by simp [Plain] at hp
  | _, _, _, _, _, _, .ab h, hp, _, _ => by simp [Plain] at hp
  | _, _, _, _, _, _, .fill hl, hp, _, _ => by simp [Plain] at hp
  | _, _, _, _, _, _, .ann (a := a) h, hp, k, acc => by
      simp only [Plain] at hp
      rw [runCT_ann]
      simp only [step]
      rw [lay_str h hp (k + 1) acc]
      simp [textOf]
  | _, _, _, _, _, _, .align h, hp, _, _ => by simp [Plain] at hp
  | _, _, _, _, _, _, .pstr _ h, hp, _, _ => by simp [Plain] at hp
theorem layL_str : ∀ {ds i m c o c'}, LayL E ds i m c o c' → PlainL ds = true →
    ∀ k acc, runCT (.str k acc) o = (.str k (acc ++ textOfL ds), [])
  | _, _, _, _, _, _, .nil, _, _, _ => by simp [runCT, textOfL]
  | _, _, _, _, _, _, .cons hd hl, hp, k, acc => by
      simp only [PlainL, Bool.and_eq_true] at hp
      rw [runCT_append, lay_str hd hp.1 k acc, layL_str hl hp.2 k]
      simp [textOfL]
end

/-! ### outside: the tokens of the document -/

/-- `o` read in normal mode ends in normal mode with tokens `ts` -/
def RunN (o : List SDoc) (ts : List CT) : Prop := runCT .normal o = (.normal, ts)

theorem RunN.nil : RunN [] [] := rfl
theorem RunN.append {o1 o2 t1 t2} (h1 : RunN o1 t1) (h2 : RunN o2 t2) : RunN (o1 ++ o2) (t1 ++ t2) := by
  unfold RunN at *; rw [runCT_append, h1, h2]

variable {P : StrSpec → Prop}

mutual
theorem lay_normal (hP : ∀ sp, P sp → ∀ d, E sp d → TInv (fun _ => False) d ∧ TEq (toksOf d) (strCanon sp)) :
    ∀ {d i m c o c'}, Lay E d i m c o c' → TInv P d → ∃ ts, RunN o ts ∧ TEq ts (toksOf d)
  | _, _, _, _, _, _, .nil, _ => ⟨[], rfl, .refl _⟩
  | _, _, _, _, _, _, .textE, _ => ⟨[], rfl, by simp [toksOf, isBlank]; exact .refl _⟩
  | _, _, _, _, _, _, .text (s := s), _ => ⟨_, by simp [RunN, runCT, step]; rfl, by simp only [toksOf]; exact .refl _⟩
  | _, _, _, _, _, _, .hardline, _ => ⟨[], rfl, .refl _⟩
  | _, _, _, _, _, _, .cat _ _ hl, hi => by simp only [TInv, toksOf] at *; exact layL_normal hP hl hi
  | _, _, _, _, _, _, .nest _ _ h, hi => by simp only [TInv, toksOf] at *; exact lay_normal hP h hi
  | _, _, _, _, _, _, .group _ h, hi => by simp only [TInv, toksOf] at *; exact lay_normal hP h hi
  | _, _, _, _, _, _, .choiceF h, hi => by
      simp only [TInv, toksOf] at *
      obtain ⟨ts, h1, h2⟩ := lay_normal hP h hi.2.1
      exact ⟨ts, h1, .trans h2 (.symm hi.2.2)⟩
  | _, _, _, _, _, _, .choiceB h, hi => by simp only [TInv, toksOf] at *; exact lay_normal hP h hi.1
  | _, _, _, _, _, _, .ab h, hi => by simp only [TInv, toksOf] at *; exact lay_normal hP h hi
  | _, _, _, _, _, _, .fill hl, hi => by simp only [TInv, toksOf] at *; exact layF_normal hP hl hi
  | _, _, _, _, _, _, .ann (a := a) (d := d) h, hi => by
      cases a with
      | tok t =>
        simp only [TInv, toksOf] at *
        by_cases h1 : (t == Pr.tComment) = true
        · exact ⟨[], run_comment_region t h1 _ (lay_comment h 0), by simp [h1]; exact .refl _⟩
        · simp only [h1] at hi ⊢
          by_cases h2 : (t == Pr.tStr) = true
          · simp only [h2, if_true] at hi ⊢
            exact ⟨_, run_str_region t h1 h2 _ _ (by simpa using lay_str h hi 0 []), .refl _⟩
          · simp only [h2] at hi ⊢
            obtain ⟨ts, r1, r2⟩ := lay_normal hP h hi
            exact ⟨ts, run_other_region _ (by intro t' e; cases e; exact ⟨h1, h2⟩) _ _ r1, r2⟩
      | comment s =>
        simp only [TInv, toksOf] at *
        obtain ⟨ts, r1, r2⟩ := lay_normal hP h hi
        exact ⟨ts, run_other_region _ (by intro t' e; cases e) _ _ r1, r2⟩
      | other n =>
        simp only [TInv, toksOf] at *
        obtain ⟨ts, r1, r2⟩ := lay_normal hP h hi
        exact ⟨ts, run_other_region _ (by intro t' e; cases e) _ _ r1, r2⟩
  | _, _, _, _, _, _, .align h, hi => by
      have := lay_normal hP h (by simpa only [TInv] using hi)
      simpa only [toksOf] using this
  | _, _, _, _, _, _, .pstr (sp := sp) (d := d) he h, hi => by
      simp only [TInv] at hi
      obtain ⟨i1, i2⟩ := hP sp hi d he
      obtain ⟨ts, r1, r2⟩ := lay_normal hP h (TInv.mono (fun _ hf => hf.elim) d i1)
      exact ⟨ts, r1, .trans r2 (by simpa only [toksOf] using i2)⟩
theorem layL_normal (hP : ∀ sp, P sp → ∀ d, E sp d → TInv (fun _ => False) d ∧ TEq (toksOf d) (strCanon sp)) :
    ∀ {ds i m c o c'}, LayL E ds i m c o c' → TInvL P ds → ∃ ts, RunN o ts ∧ TEq ts (toksOfL ds)
  | _, _, _, _, _, _, .nil, _ => ⟨[], rfl, .refl _⟩
  | _, _, _, _, _, _, .cons hd hl, hi => by
      simp only [TInvL, toksOfL] at *
      obtain ⟨t1, a1, a2⟩ := lay_normal hP hd hi.1
      obtain ⟨t2, b1, b2⟩ := layL_normal hP hl hi.2
      exact ⟨t1 ++ t2, a1.append b1, .app a2 b2⟩
theorem layF_normal (hP : ∀ sp, P sp → ∀ d, E sp d → TInv (fun _ => False) d ∧ TEq (toksOf d) (strCanon sp)) :
    ∀ {ds i c o c'}, LayF E ds i c o c' → TInvL P ds → ∃ ts, RunN o ts ∧ TEq ts (toksOfL ds)
  | _, _, _, _, _, .nil, _ => ⟨[], rfl, .refl _⟩
  | _, _, _, _, _, .cons _ hd hl, hi => by
      simp only [TInvL, toksOfL] at *
      obtain ⟨t1, a1, a2⟩ := lay_normal hP hd hi.1
      obtain ⟨t2, b1, b2⟩ := layF_normal hP hl hi.2
      exact ⟨t1 ++ t2, a1.append b1, .app a2 b2⟩
end

/-- **every rendering of a layout-invariant document has the document's code tokens** -/
theorem ctoks_lay (hP : ∀ sp, P sp → ∀ d, E sp d → TInv (fun _ => False) d ∧ TEq (toksOf d) (strCanon sp))
    {d i m c o c'} (h : Lay E d i m c o c') (hi : TInv P d) : TEq (ctoks o) (toksOf d) := by
  obtain ⟨ts, r1, r2⟩ := lay_normal hP h hi
  unfold ctoks; unfold RunN at r1; rw [r1]; exact r2

end Tok
end PP
