/-
C05 helper lemmas: the fast fitting predicate equals a predicate `fitsE` on the stack with indentation and
annotation pops *erased*; `fitsE` is monotone in the modes (pointwise more-broken stacks still fit) for classic
documents; the smart predicate implies the fast one.
-/
import PP.Model.Layout
namespace PP
open Doc

/-- Classic documents (C05): text, concat, nest, group, line / softline (any `flat_choice` whose broken
alternative is `hardline` and whose flat alternative is a text or nil), hardline, always_break, annotate, align
(hence `hang`). -/
inductive Classic : Doc → Prop
  | nil : Classic .nil
  | text : Classic (.text s)
  | hardline : Classic .hardline
  | cat : (∀ d ∈ ds, Classic d) → Classic (.cat ds)
  | nest : Classic d → Classic (.nest j d)
  | group : Classic d → Classic (.group d)
  | line : Classic (.choice l .hardline (.text s))
  | softline : Classic (.choice l .hardline .nil)
  | ab : Classic d → Classic (.ab d)
  | ann : Classic d → Classic (.ann a d)
  | align : Classic d → Classic (.align d)

def ClassicItem : Item → Prop
  | .doc d => Classic d
  | .pop _ => True

abbrev Pair := Mode × Doc
def pSize : List Pair → Nat
  | [] => 0
  | (_, d) :: r => d.size + pSize r
def pushAllP (m : Mode) (ds : List Doc) (stk : List Pair) : List Pair :=
  match ds with
  | [] => stk
  | d :: r => (m, d) :: pushAllP m r stk
@[simp] theorem pSize_pushAllP (m ds stk) : pSize (pushAllP m ds stk) = Doc.sizes ds + pSize stk := by
  induction ds with
  | nil => simp [pushAllP, Doc.sizes]
  | cons d r ih => simp [pushAllP, Doc.sizes, pSize, ih]; omega

/-- the fast predicate with indentation, nest amounts and annotation pops erased; contextual documents are
outside the classic algebra and make it fail -/
def fitsE (left : Int) (stk : List Pair) : Bool :=
  if left < 0 then false else
  match stk with
  | [] => true
  | (m, d) :: r =>
      match d with
      | .nil => fitsE left r
      | .text s => fitsE (left - s.length) r
      | .cat ds => fitsE left (pushAllP m ds r)
      | .ann _ d => fitsE left ((m, d) :: r)
      | .fill ds => fitsE left (pushAllP m ds r)
      | .nest _ d => fitsE left ((m, d) :: r)
      | .ab _ => false
      | .hardline => true
      | .choice l b f => fitsE left ((m, pick m l b f) :: r)
      | .group d => fitsE left ((.flat, d) :: r)
      | .align d => fitsE left ((m, d.normalize) :: r)
      | .pstr _ => false
termination_by pSize stk
decreasing_by
  all_goals simp_wf
  all_goals simp only [pSize, Doc.size, pSize_pushAllP]
  all_goals first
    | omega
    | (have := Doc.sizes_le_sizesF ‹List Doc›; omega)
    | (exact Nat.add_lt_add_right (size_pick _ _ _ _) _)
    | (have := Doc.size_normalize ‹Doc›; omega)

theorem fitsE_nonneg {left stk} (h : fitsE left stk = true) : 0 ≤ left := by
  unfold fitsE at h; split at h
  · simp at h
  · omega

section unfold
variable {left : Int} (h0 : 0 ≤ left) {m : Mode} {r : List Pair}
include h0
theorem fitsE_nil' : fitsE left [] = true := by unfold fitsE; simp [Int.not_lt.mpr h0]
theorem fitsE_dnil : fitsE left ((m, .nil) :: r) = fitsE left r := by rw [fitsE]; simp [Int.not_lt.mpr h0]
theorem fitsE_text {s} : fitsE left ((m, .text s) :: r) = fitsE (left - s.length) r := by rw [fitsE]; simp [Int.not_lt.mpr h0]
theorem fitsE_cat {ds} : fitsE left ((m, .cat ds) :: r) = fitsE left (pushAllP m ds r) := by rw [fitsE]; simp [Int.not_lt.mpr h0]
theorem fitsE_ann {a d} : fitsE left ((m, .ann a d) :: r) = fitsE left ((m, d) :: r) := by rw [fitsE]; simp [Int.not_lt.mpr h0]
theorem fitsE_nest {j d} : fitsE left ((m, .nest j d) :: r) = fitsE left ((m, d) :: r) := by rw [fitsE]; simp [Int.not_lt.mpr h0]
theorem fitsE_ab {d} : fitsE left ((m, .ab d) :: r) = false := by rw [fitsE]; simp [Int.not_lt.mpr h0]
theorem fitsE_hard : fitsE left ((m, .hardline) :: r) = true := by rw [fitsE]; simp [Int.not_lt.mpr h0]
theorem fitsE_choice {l b f} : fitsE left ((m, .choice l b f) :: r) = fitsE left ((m, pick m l b f) :: r) := by
  rw [fitsE]; simp [Int.not_lt.mpr h0]
theorem fitsE_group {d} : fitsE left ((m, .group d) :: r) = fitsE left ((.flat, d) :: r) := by rw [fitsE]; simp [Int.not_lt.mpr h0]
theorem fitsE_align {d} : fitsE left ((m, .align d) :: r) = fitsE left ((m, d.normalize) :: r) := by rw [fitsE]; simp [Int.not_lt.mpr h0]
/-- the document `align(d)` evaluates to — `Nest(column - indent, d).normalize()` — is read by the erased predicate as
the normalised `d`, whatever the column and the indentation are -/
theorem fitsE_alignAt {k d} : fitsE left ((m, alignAt k d) :: r) = fitsE left ((m, d.normalize) :: r) := by
  unfold alignAt
  simp only [Doc.normalize]
  split
  · rename_i hab
    generalize Doc.normalize d = n at *
    cases n <;> simp [Doc.isAb] at hab
    rw [fitsE_ab h0, fitsE_ab h0]
  · rw [fitsE_nest h0]
end unfold

def strip : List Triple → List Pair
  | [] => []
  | (_, m, .doc d) :: r => (m, d) :: strip r
  | (_, _, .pop _) :: r => strip r
@[simp] theorem strip_nil : strip [] = [] := rfl
@[simp] theorem strip_doc (i m d r) : strip ((i, m, .doc d) :: r) = (m, d) :: strip r := rfl
@[simp] theorem strip_pop (i m a r) : strip ((i, m, .pop a) :: r) = strip r := rfl
@[simp] theorem strip_pushAll (i m ds r) : strip (pushAll i m ds r) = pushAllP m ds (strip r) := by
  induction ds with
  | nil => rfl
  | cons d ds ih => simp [pushAll, pushAllP, ih]

def AllClassic (stk : List Triple) : Prop := ∀ t ∈ stk, ClassicItem t.2.2

theorem AllClassic.tail {t r} (h : AllClassic (t :: r)) : AllClassic r :=
  fun x hx => h x (by simp [hx])
theorem AllClassic.head {i m it r} (h : AllClassic ((i, m, it) :: r)) : ClassicItem it :=
  h (i, m, it) (by simp)
theorem AllClassic.cons {i m it r} (h1 : ClassicItem it) (h2 : AllClassic r) : AllClassic ((i, m, it) :: r) := by
  intro t ht; simp at ht; rcases ht with rfl | ht
  · exact h1
  · exact h2 t ht
theorem AllClassic.pushAll {i m ds r} (h1 : ∀ d ∈ ds, Classic d) (h2 : AllClassic r) : AllClassic (pushAll i m ds r) := by
  induction ds with
  | nil => exact h2
  | cons d ds ih => exact .cons (it := .doc d) (h1 d (by simp)) (ih (fun x hx => h1 x (by simp [hx])))

theorem classic_pick {m l b f} (h : Classic (.choice l b f)) : Classic (pick m l b f) := by
  cases h <;> cases m <;> cases l <;> simp [pick, Doc.normalize] <;> constructor

/-! ### classic documents are closed under `normalize` (what `align` evaluates to is normalised when it is read) -/

theorem Classic.unAb {n : Doc} (h : Classic n) : Classic n.unAb := by
  cases h <;> simp only [Doc.unAb] <;> first | assumption | constructor <;> assumption
theorem Classic.wrapAb {p : Bool} {n : Doc} (h : Classic n) : Classic (Doc.wrapAb p n) := by
  cases p <;> simp only [Doc.wrapAb] <;> first | exact h | exact .ab h

theorem classic_catStep {n : Doc} {acc : List Doc × Bool} (hn : Classic n) (ha : ∀ x ∈ acc.1, Classic x) :
    ∀ x ∈ (Doc.catStep n acc).1, Classic x := by
  intro x hx
  cases hn <;> simp only [Doc.catStep, List.mem_append, List.mem_singleton] at hx
  all_goals first
    | exact ha x hx
    | (rcases hx with hx | hx
       · exact ha x hx
       · first
           | (subst hx; constructor <;> assumption)
           | (rename_i hds; exact hds x hx)
           | (subst hx; assumption))

mutual
theorem classic_normalize : (d : Doc) → Classic d → Classic d.normalize
  | .nil, _ => by simp only [Doc.normalize]; exact .nil
  | .text s, _ => by simp only [Doc.normalize]; split <;> constructor
  | .hardline, _ => by simp only [Doc.normalize]; exact .hardline
  | .choice l b f, h => by cases h <;> simp only [Doc.normalize] <;> constructor
  | .align d, h => by simpa only [Doc.normalize] using h
  | .pstr sp, h => by cases h
  | .fill ds, h => by cases h
  | .ann a d, h => by
      cases h with
      | ann hd => simp only [Doc.normalize]; exact .ann (classic_normalize d hd)
  | .ab d, h => by
      cases h with
      | ab hd =>
        have := classic_normalize d hd
        simp only [Doc.normalize]; split
        · exact this
        · exact .ab this
  | .nest j d, h => by
      cases h with
      | nest hd =>
        have := classic_normalize d hd
        simp only [Doc.normalize]; split
        · exact .ab (.nest this.unAb)
        · exact .nest this
  | .group d, h => by
      cases h with
      | group hd =>
        have := classic_normalize d hd
        simp only [Doc.normalize]; split
        · exact this
        · split
          · exact .nil
          · exact .group this
  | .cat ds, h => by
      cases h with
      | cat hds =>
        have := classic_normCat ds ([], false) hds (by simp)
        simp only [Doc.normalize]
        generalize Doc.normCat ds ([], false) = r at this
        obtain ⟨xs, p⟩ := r
        match xs with
        | [] => exact .nil
        | [x] => exact (this x (by simp)).wrapAb
        | x :: y :: zs => exact Classic.wrapAb (.cat this)
theorem classic_normCat : (ds : List Doc) → (acc : List Doc × Bool) → (∀ d ∈ ds, Classic d) → (∀ x ∈ acc.1, Classic x) →
    ∀ x ∈ (Doc.normCat ds acc).1, Classic x
  | [], acc, _, ha => by simpa only [Doc.normCat] using ha
  | d :: ds, acc, hds, ha => by
      simp only [Doc.normCat]
      exact classic_normCat ds _ (fun x hx => hds x (by simp [hx]))
        (classic_catStep (classic_normalize d (hds d (by simp))) ha)
end

theorem classic_alignAt {k : Int} {d : Doc} (h : Classic d) : Classic (alignAt k d) :=
  classic_normalize _ (.nest h)

/-- on classic stacks the fast predicate never looks at indentation, nest amounts or annotation pops -/
theorem fitsFast_eq_fitsE (cfg : Cfg) (mw left : Int) (stk : List Triple) (hc : AllClassic stk) :
    fitsFast cfg mw left stk = fitsE left (strip stk) := by
  fun_induction fitsFast cfg mw left stk with
  | case1 left stk hl => unfold fitsE; simp [hl]
  | case2 left hl => simp [fitsE_nil' (Int.not_lt.mp hl)]
  | case3 left hl i m r a ih => simpa using ih hc.tail
  | case4 left hl i m r ih => simpa [fitsE_dnil (Int.not_lt.mp hl)] using ih hc.tail
  | case5 left hl i m r s ih => simpa [fitsE_text (Int.not_lt.mp hl)] using ih hc.tail
  | case6 left hl i m r ds ih =>
    have hcat : Classic (.cat ds) := hc.head
    cases hcat with
    | cat hds => simpa [fitsE_cat (Int.not_lt.mp hl)] using ih (AllClassic.pushAll hds hc.tail)
  | case7 left hl i m r a d ih =>
    have hann : Classic (.ann a d) := hc.head
    cases hann with
    | ann hd => simpa [fitsE_ann (Int.not_lt.mp hl)] using ih (AllClassic.cons (it := .doc d) hd hc.tail)
  | case8 left hl i m r ds ih => exact absurd (hc.head : Classic (.fill ds)) (by intro h; cases h)
  | case9 left hl i m r j d ih =>
    have hn : Classic (.nest j d) := hc.head
    cases hn with
    | nest hd => simpa [fitsE_nest (Int.not_lt.mp hl)] using ih (AllClassic.cons (it := .doc d) hd hc.tail)
  | case10 left hl i m r d => simp [fitsE_ab (Int.not_lt.mp hl)]
  | case11 left hl i m r => simp [fitsE_hard (Int.not_lt.mp hl)]
  | case12 left hl i m r l b f ih =>
    have hch : Classic (.choice l b f) := hc.head
    simpa [fitsE_choice (Int.not_lt.mp hl)] using ih (AllClassic.cons (it := .doc _) (classic_pick hch) hc.tail)
  | case13 left hl i m r d ih =>
    have hg : Classic (.group d) := hc.head
    cases hg with
    | group hd => simpa [fitsE_group (Int.not_lt.mp hl)] using ih (AllClassic.cons (it := .doc d) hd hc.tail)
  | case14 left hl i m r d ih =>
    have ha : Classic (.align d) := hc.head
    cases ha with
    | align hd =>
      simpa [fitsE_align (Int.not_lt.mp hl), fitsE_alignAt (Int.not_lt.mp hl)]
        using ih (AllClassic.cons (it := .doc _) (classic_alignAt hd) hc.tail)
  | case15 left hl i m r sp ih => exact absurd (hc.head : Classic (.pstr sp)) (by intro h; cases h)

/-- the smart predicate is at least as strict as the fast one -/
theorem smart_imp_fast (cfg : Cfg) (mn mw left : Int) (stk : List Triple)
    (h : fitsSmart cfg mn mw left stk = true) : fitsFast cfg mw left stk = true := by
  fun_induction fitsSmart cfg mn mw left stk with
  | case1 => simp at h
  | case2 left hl => unfold fitsFast; simp [hl]
  | case3 left hl i m r a ih => unfold fitsFast; simp [hl]; exact ih h
  | case4 left hl i m r ih => unfold fitsFast; simp [hl]; exact ih h
  | case5 left hl i m r s ih => unfold fitsFast; simp [hl]; exact ih h
  | case6 left hl i m r ds ih => unfold fitsFast; simp [hl]; exact ih h
  | case7 left hl i m r a d ih => unfold fitsFast; simp [hl]; exact ih h
  | case8 left hl i m r ds ih => unfold fitsFast; simp [hl]; exact ih h
  | case9 left hl i m r j d ih => unfold fitsFast; simp [hl]; exact ih h
  | case10 left hl i m r d => simp at h
  | case11 left hl i m r hi ih => unfold fitsFast; simp [hl]
  | case12 left hl i m r hi => unfold fitsFast; simp [hl]
  | case13 left hl i m r l b f ih => unfold fitsFast; simp [hl]; exact ih h
  | case14 left hl i m r d ih => unfold fitsFast; simp [hl]; exact ih h
  | case15 left hl i m r d ih => unfold fitsFast; simp [hl]; exact ih h
  | case16 left hl i m r sp ih => unfold fitsFast; simp [hl]; exact ih h

/-! ### monotonicity in the modes -/

def Mode.le : Mode → Mode → Prop
  | .brk, _ => True
  | .flat, .flat => True
  | .flat, .brk => False
theorem Mode.le_refl (m : Mode) : Mode.le m m := by cases m <;> simp [Mode.le]
theorem Mode.le_flat (m : Mode) : Mode.le m .flat := by cases m <;> simp [Mode.le]

/-- same documents, pointwise more-broken modes -/
inductive RelP : List Pair → List Pair → Prop
  | nil : RelP [] []
  | cons : Mode.le m' m → Classic d → RelP r' r → RelP ((m', d) :: r') ((m, d) :: r)

theorem RelP.pushAllP {m m' ds r r'} (hm : Mode.le m' m) (hc : ∀ d ∈ ds, Classic d) (hr : RelP r' r) :
    RelP (pushAllP m' ds r') (pushAllP m ds r) := by
  induction ds with
  | nil => exact hr
  | cons d ds ih => exact .cons hm (hc d (by simp)) (ih (fun x hx => hc x (by simp [hx])))

theorem RelP.refl_strip : ∀ {stk : List Triple}, AllClassic stk → RelP (strip stk) (strip stk)
  | [], _ => .nil
  | (i, m, .doc d) :: r, h => .cons (Mode.le_refl m) h.head (RelP.refl_strip h.tail)
  | (i, m, .pop a) :: r, h => by simpa using RelP.refl_strip h.tail

theorem fitsE_mono (left : Int) (stk stk' : List Pair) (hrel : RelP stk' stk)
    (h : fitsE left stk = true) : fitsE left stk' = true := by
  fun_induction fitsE left stk generalizing stk' with
  | case1 => simp at h
  | case2 left hl => cases hrel; exact fitsE_nil' (Int.not_lt.mp hl)
  | case3 left hl m r ih =>
    cases hrel with
    | cons hm hc hr => rw [fitsE_dnil (Int.not_lt.mp hl)]; exact ih _ hr h
  | case4 left hl m r s ih =>
    cases hrel with
    | cons hm hc hr => rw [fitsE_text (Int.not_lt.mp hl)]; exact ih _ hr h
  | case5 left hl m r ds ih =>
    cases hrel with
    | cons hm hc hr =>
      rw [fitsE_cat (Int.not_lt.mp hl)]
      cases hc with
      | cat hds => exact ih _ (RelP.pushAllP hm hds hr) h
  | case6 left hl m r a d ih =>
    cases hrel with
    | cons hm hc hr =>
      rw [fitsE_ann (Int.not_lt.mp hl)]
      cases hc with
      | ann hd => exact ih _ (.cons hm hd hr) h
  | case7 left hl m r ds ih =>
    cases hrel with
    | cons hm hc hr => cases hc
  | case8 left hl m r j d ih =>
    cases hrel with
    | cons hm hc hr =>
      rw [fitsE_nest (Int.not_lt.mp hl)]
      cases hc with
      | nest hd => exact ih _ (.cons hm hd hr) h
  | case9 left hl m r d => simp at h
  | case10 left hl m r =>
    cases hrel with
    | cons hm hc hr => exact fitsE_hard (Int.not_lt.mp hl)
  | case11 left hl m r l b f ih =>
    cases hrel with
    | @cons m' _ _ _ _ hm hc hr =>
      rw [fitsE_choice (Int.not_lt.mp hl)]
      cases m' with
      | brk =>
        have : pick .brk l b f = .hardline := by
          cases hc <;> cases l <;> simp [pick, Doc.normalize]
        rw [this]; exact fitsE_hard (Int.not_lt.mp hl)
      | flat =>
        cases m with
        | brk => exact absurd hm (by simp [Mode.le])
        | flat => exact ih _ (.cons hm (classic_pick hc) hr) h
  | case12 left hl m r d ih =>
    cases hrel with
    | cons hm hc hr =>
      rw [fitsE_group (Int.not_lt.mp hl)]
      cases hc with
      | group hd => exact ih _ (.cons (by simp [Mode.le]) hd hr) h
  | case13 left hl m r d ih =>
    cases hrel with
    | cons hm hc hr =>
      rw [fitsE_align (Int.not_lt.mp hl)]
      cases hc with
      | align hd => exact ih _ (.cons hm (classic_normalize d hd) hr) h
  | case14 left hl m r sp => simp at h

end PP
