/-
Closure of the reference semantics under normalisation:  `Lay (normalize d) ⊆ Lay d`.
This is what lets one soundness proof cover the top-level `normalize_doc`, every evaluation of a contextual
document and every lazily normalised `FlatChoice` branch.
-/
import PP.Spec.Lay
namespace PP
open Doc

variable {E : StrSpec → Doc → Prop}

/-! ### inversion lemmas -/

theorem LayL.inv_cons {x : Doc} {xs i m c o c2} (h : LayL E (x :: xs) i m c o c2) :
    ∃ o1 o2 c1, o = o1 ++ o2 ∧ Lay E x i m c o1 c1 ∧ LayL E xs i m c1 o2 c2 := by
  generalize hz : (x :: xs) = zs at h
  cases h with
  | nil => cases hz
  | cons hd hl => cases hz; exact ⟨_, _, _, rfl, hd, hl⟩

theorem LayL.inv_nil {i m c o c2} (h : LayL E [] i m c o c2) : o = [] ∧ c2 = c := by
  generalize hz : ([] : List Doc) = zs at h
  cases h with
  | nil => exact ⟨rfl, rfl⟩
  | cons hd hl => cases hz

theorem LayL.append : ∀ {xs ys : List Doc} {i m c o1 c1 o2 c2}, LayL E xs i m c o1 c1 → LayL E ys i m c1 o2 c2 →
    LayL E (xs ++ ys) i m c (o1 ++ o2) c2
  | [], ys, _, _, _, _, _, _, _, h1, h2 => by
      obtain ⟨rfl, rfl⟩ := h1.inv_nil; simpa using h2
  | x :: xs, ys, _, _, _, _, _, _, _, h1, h2 => by
      obtain ⟨oa, ob, ca, rfl, hx, hxs⟩ := h1.inv_cons
      simpa [List.append_assoc] using LayL.cons hx (LayL.append hxs h2)

theorem LayL.split : ∀ {xs ys : List Doc} {i m c o c2}, LayL E (xs ++ ys) i m c o c2 →
    ∃ o1 o2 c1, o = o1 ++ o2 ∧ LayL E xs i m c o1 c1 ∧ LayL E ys i m c1 o2 c2
  | [], ys, _, _, c, o, _, h => ⟨[], o, c, by simp, .nil, by simpa using h⟩
  | x :: xs, ys, _, _, _, _, _, h => by
      obtain ⟨oa, ob, ca, rfl, hx, hrest⟩ := LayL.inv_cons (by simpa using h)
      obtain ⟨o1, o2, c1, rfl, h1, h2⟩ := LayL.split hrest
      exact ⟨_, _, _, by simp [List.append_assoc], .cons hx h1, h2⟩

theorem LayL.single {x : Doc} {i m c o c'} (h : LayL E [x] i m c o c') : Lay E x i m c o c' := by
  obtain ⟨o1, o2, c1, rfl, hx, hn⟩ := h.inv_cons
  obtain ⟨rfl, rfl⟩ := hn.inv_nil
  simpa using hx

theorem Lay.inv_ab {d : Doc} {i m c o c'} (h : Lay E (.ab d) i m c o c') : Lay E d i .brk c o c' := by
  cases h; assumption

theorem Lay.inv_cat {ds : List Doc} {i m c o c'} (h : Lay E (.cat ds) i m c o c') :
    ∃ m', m.orBrk (forces (.cat ds)) m' ∧ LayL E ds i m' c o c' := by
  cases h; exact ⟨_, ‹_›, ‹_›⟩

theorem Lay.inv_nest {j d i m c o c'} (h : Lay E (.nest j d) i m c o c') :
    ∃ m', m.orBrk (forces (.nest j d)) m' ∧ Lay E d (i + j) m' c o c' := by
  cases h; exact ⟨_, ‹_›, ‹_›⟩

theorem Lay.inv_group {d i m c o c'} (h : Lay E (.group d) i m c o c') : ∃ m', Lay E d i m' c o c' := by
  cases h; exact ⟨_, ‹_›⟩

theorem Lay.inv_fill {ds i m c o c'} (h : Lay E (.fill ds) i m c o c') : LayF E ds i c o c' := by
  cases h; assumption

theorem Lay.inv_nil {i m c o c'} (h : Lay E .nil i m c o c') : o = [] ∧ c' = c := by
  cases h; exact ⟨rfl, rfl⟩

theorem Lay.inv_ann {a d i m c o c'} (h : Lay E (.ann a d) i m c o c') :
    ∃ o1, o = .push a :: o1 ++ [.pop a] ∧ Lay E d i m c o1 c' := by
  cases h; exact ⟨_, rfl, ‹_›⟩

/-! ### simp facts -/

@[simp] theorem isAb_ab (d : Doc) : (Doc.ab d).isAb = true := rfl
@[simp] theorem unAb_ab (d : Doc) : (Doc.ab d).unAb = d := rfl

theorem forcesAny_append (xs ys : List Doc) : forcesAny (xs ++ ys) = (forcesAny xs || forcesAny ys) := by
  induction xs with
  | nil => simp [forcesAny]
  | cons x xs ih => simp [forcesAny, ih, Bool.or_assoc]

theorem not_isAb_of_clean {d : Doc} (h : forces d = false) : d.isAb = false := by
  cases d <;> simp_all [forces, isAb]

theorem anyAb_fillKeep (ds : List Doc) : anyAb (fillKeep ds) = anyAb ds := by
  induction ds with
  | nil => rfl
  | cons d ds ih =>
    simp only [fillKeep]; split
    · rename_i h; cases d <;> simp [isNil] at h; simp [anyAb, isAb, ih]
    · simp [anyAb, ih]

theorem anyAb_false_of_fillKeep_nil {ds : List Doc} (h : fillKeep ds = []) : anyAb ds = false := by
  rw [← anyAb_fillKeep, h]; rfl

/-! ### normal form: `normalize d` is an `AlwaysBreak` exactly when `d` forces a break -/

/-- invariant of one loop step of `Concat.normalize` -/
theorem catStep_inv (n : Doc) (fd : Bool) (acc : List Doc × Bool)
    (h1 : n.isAb = fd) (h2 : fd = false → forces n = false) :
    (catStep n acc).2 = (acc.2 || fd) ∧
    (fd = false → forcesAny acc.1 = false → forcesAny (catStep n acc).1 = false) ∧
    ((acc.2 = true → acc.1 ≠ []) → ((catStep n acc).2 = true → (catStep n acc).1 ≠ [])) := by
  subst h1
  cases n <;> simp_all [catStep, isAb, forces, forcesAny_append, forcesAny]

mutual
theorem norm_props : (d : Doc) →
    (normalize d).isAb = forces d ∧ (forces d = false → forces (normalize d) = false)
  | .nil => by simp [normalize, isAb, forces]
  | .text s => by by_cases hs : s = [] <;> simp [normalize, isAb, forces, hs]
  | .hardline => by simp [normalize, isAb, forces]
  | .choice l b f => by simp [normalize, isAb, forces]
  | .align d => by simp [normalize, isAb, forces]
  | .pstr sp => by simp [normalize, isAb, forces]
  | .ann a d => by simp [normalize, isAb, forces]
  | .fill ds => by
      simp only [normalize]
      split
      · rename_i h; simp [isAb, forces, anyAb_false_of_fillKeep_nil h]
      · rename_i xs hne
        cases hp : anyAb ds
        · simp [wrapAb, isAb, forces, hp, anyAb_fillKeep]
        · simp [wrapAb, isAb, forces, hp]
  | .ab d => by
      obtain ⟨h1, h2⟩ := norm_props d
      simp only [normalize]
      split
      · rename_i hab; simp [forces, hab]
      · simp [forces, isAb]
  | .nest j d => by
      obtain ⟨h1, h2⟩ := norm_props d
      simp only [normalize]
      split
      · rename_i hab; simp [forces, ← h1, hab]
      · rename_i hab
        simp only [forces, isAb, ← h1]
        simp only [Bool.not_eq_true] at hab
        exact ⟨hab.symm, fun _ => h2 (by rw [← h1]; exact hab)⟩
  | .group d => by
      obtain ⟨h1, h2⟩ := norm_props d
      simp only [normalize]
      split
      · rename_i hab; simp [forces, ← h1, hab]
      · rename_i hab
        simp only [Bool.not_eq_true] at hab
        have hfd : forces d = false := by rw [← h1]; exact hab
        split
        · simp [forces, isAb, hfd]
        · simp [forces, isAb, hfd, h2 hfd]
  | .cat ds => by
      obtain ⟨hf, hc, hne⟩ := normCat_inv ds ([], false)
      have hne := hne (by simp)
      simp only [normalize, forces]
      simp only [Bool.false_or] at hf
      generalize normCat ds ([], false) = r at hf hc hne
      obtain ⟨xs, p⟩ := r
      simp only at hf hc hne
      subst hf
      cases hp : forcesAny ds
      · have hc' := hc hp (by simp [forcesAny])
        match xs, hc' with
        | [], _ => simp [isAb, forces]
        | [x], hc' =>
          have hx : forces x = false := by simpa [forcesAny] using hc'
          simp [wrapAb, not_isAb_of_clean hx, hx]
        | x :: y :: zs, hc' => simp [wrapAb, isAb, forces, hc']
      · match xs with
        | [] => exact absurd rfl (hne hp)
        | [x] => simp [wrapAb, isAb, forces]
        | x :: y :: zs => simp [wrapAb, isAb, forces]
theorem normCat_inv : (ds : List Doc) → (acc : List Doc × Bool) →
    (normCat ds acc).2 = (acc.2 || forcesAny ds) ∧
    (forcesAny ds = false → forcesAny acc.1 = false → forcesAny (normCat ds acc).1 = false) ∧
    ((acc.2 = true → acc.1 ≠ []) → ((normCat ds acc).2 = true → (normCat ds acc).1 ≠ []))
  | [], acc => by simp [normCat, forcesAny]
  | d :: ds, acc => by
      obtain ⟨h1, h2⟩ := norm_props d
      obtain ⟨a1, a2, a3⟩ := catStep_inv (normalize d) (forces d) acc h1 (by intro h; exact h2 h)
      obtain ⟨b1, b2, b3⟩ := normCat_inv ds (catStep (normalize d) acc)
      refine ⟨by simp [normCat, b1, a1, forcesAny, Bool.or_assoc], ?_, ?_⟩
      · intro hf hacc
        simp only [forcesAny, Bool.or_eq_false_iff] at hf
        simp only [normCat]
        exact b2 hf.2 (a2 hf.1 hacc)
      · intro hacc
        simp only [normCat]
        exact b3 (a3 hacc)
end

/-! ### closure -/

theorem layF_of_fillKeep : ∀ {ds : List Doc} {i c o c'}, LayF E (fillKeep ds) i c o c' → LayF E ds i c o c'
  | [], _, _, _, _, h => by simpa [fillKeep] using h
  | d :: ds, i, c, o, c', h => by
      simp only [fillKeep] at h
      split at h
      · rename_i hn
        cases d <;> simp [isNil] at hn
        simpa using LayF.cons .brk (Lay.nil (E := E) (i := i) (m := .brk) (c := c)) (layF_of_fillKeep h)
      · generalize hz : d :: fillKeep ds = zs at h
        cases h with
        | nil => cases hz
        | cons m' hd hl => cases hz; exact .cons m' hd (layF_of_fillKeep hl)

/-- peel the contribution of one normalised child off the accumulator -/
theorem catStep_lay (n : Doc) (acc : List Doc × Bool) {i mm c o c'}
    (hflag : n.isAb = true → mm = .brk)
    (h : LayL E (catStep n acc).1 i mm c o c') :
    ∃ o1 o2 c1, o = o1 ++ o2 ∧ LayL E acc.1 i mm c o1 c1 ∧ Lay E n i mm c1 o2 c' := by
  cases n with
  | cat xs =>
    obtain ⟨o1, o2, c1, rfl, h1, h2⟩ := LayL.split (by simpa [catStep] using h)
    exact ⟨o1, o2, c1, rfl, h1, .cat mm (Or.inl rfl) h2⟩
  | ab x =>
    obtain ⟨o1, o2, c1, rfl, h1, h2⟩ := LayL.split (by simpa [catStep] using h)
    have := hflag rfl; subst this
    exact ⟨o1, o2, c1, rfl, h1, .ab h2.single⟩
  | nil => exact ⟨o, [], c', by simp, by simpa [catStep] using h, .nil⟩
  | text s | hardline | nest j d | group d | choice l b f | fill ds | ann a d | align d | pstr sp =>
    obtain ⟨o1, o2, c1, rfl, h1, h2⟩ := LayL.split (by simpa [catStep] using h)
    exact ⟨o1, o2, c1, rfl, h1, h2.single⟩

theorem catStep_flag (n : Doc) (acc : List Doc × Bool) : (catStep n acc).2 = (acc.2 || n.isAb) := by
  cases n <;> simp [catStep, isAb]

theorem normCat_flag_mono (ds : List Doc) (acc : List Doc × Bool) (h : acc.2 = true) :
    (normCat ds acc).2 = true := by
  induction ds generalizing acc with
  | nil => simpa [normCat] using h
  | cons d ds ih =>
    simp only [normCat]
    apply ih
    simp [catStep_flag, h]

theorem lay_of_isAb {n : Doc} {i m c o c'} (hab : n.isAb = true) (h : Lay E n.unAb i .brk c o c') :
    Lay E n i m c o c' := by
  cases n <;> simp [isAb] at hab
  exact .ab (by simpa using h)

theorem lay_brk_of_isAb {n : Doc} {i m c o c'} (hab : n.isAb = true) (h : Lay E n i m c o c') :
    Lay E n i .brk c o c' := by
  cases n <;> simp [isAb] at hab
  exact .ab h.inv_ab

mutual
theorem lay_normalize : (d : Doc) → ∀ {i m c o c'}, Lay E (normalize d) i m c o c' → Lay E d i m c o c'
  | .nil, _, _, _, _, _, h => by simpa [normalize] using h
  | .text s, _, _, _, _, _, h => by
      by_cases hs : s = []
      · subst hs; simp [normalize] at h; obtain ⟨rfl, rfl⟩ := h.inv_nil; exact .textE
      · simpa [normalize, hs] using h
  | .hardline, _, _, _, _, _, h => by simpa [normalize] using h
  | .align d, _, _, _, _, _, h => by simpa [normalize] using h
  | .pstr sp, _, _, _, _, _, h => by simpa [normalize] using h
  | .choice l b f, i, m, c, o, c', h => by
      simp only [normalize] at h
      generalize hn : Doc.choice true b f = x at h
      cases h <;> cases hn
      · exact .choiceF ‹_›
      · exact .choiceB ‹_›
  | .fill ds, i, m, c, o, c', h => by
      simp only [normalize] at h
      split at h
      · rename_i hk
        obtain ⟨rfl, rfl⟩ := h.inv_nil
        exact .fill (layF_of_fillKeep (by rw [hk]; exact .nil))
      · rename_i xs hne
        cases hp : anyAb ds
        · simp only [wrapAb, hp] at h
          exact .fill (layF_of_fillKeep h.inv_fill)
        · simp only [wrapAb, hp] at h
          exact .fill (layF_of_fillKeep h.inv_ab.inv_fill)
  | .ann a d, i, m, c, o, c', h => by
      simp only [normalize] at h
      obtain ⟨o1, rfl, hd⟩ := h.inv_ann
      exact .ann (lay_normalize d hd)
  | .ab d, i, m, c, o, c', h => by
      simp only [normalize] at h
      split at h
      · rename_i hab
        exact .ab (lay_normalize d (lay_brk_of_isAb hab h))
      · exact .ab (lay_normalize d h.inv_ab)
  | .nest j d, i, m, c, o, c', h => by
      obtain ⟨hA, hC⟩ := norm_props d
      simp only [normalize] at h
      split at h
      · rename_i hab
        obtain ⟨m', hm, hd⟩ := h.inv_ab.inv_nest
        have hm' : m' = .brk := by rcases hm with hq | ⟨_, hq⟩ <;> exact hq
        subst hm'
        exact .nest .brk (Or.inr ⟨by simp [forces, ← hA, hab], rfl⟩) (lay_normalize d (lay_of_isAb hab hd))
      · rename_i hab
        simp only [Bool.not_eq_true] at hab
        obtain ⟨m', hm, hd⟩ := h.inv_nest
        have hfd : forces d = false := by rw [← hA]; exact hab
        have hm' : m' = m := by
          rcases hm with hq | ⟨hf, _⟩
          · exact hq
          · simp [forces, hC hfd] at hf
        subst hm'
        exact .nest _ (Or.inl rfl) (lay_normalize d hd)
  | .group d, i, m, c, o, c', h => by
      simp only [normalize] at h
      split at h
      · rename_i hab
        exact .group .brk (lay_normalize d (lay_brk_of_isAb hab h))
      · split at h
        · rename_i hnil
          have : Lay E (normalize d) i .flat c o c' := by
            generalize hn : normalize d = n at h hnil
            cases n <;> simp [isNil] at hnil
            obtain ⟨rfl, rfl⟩ := h.inv_nil; exact .nil
          exact .group .flat (lay_normalize d this)
        · obtain ⟨m', h⟩ := h.inv_group
          exact .group m' (lay_normalize d h)
  | .cat ds, i, m, c, o, c', h => by
      obtain ⟨hf, hc, hne⟩ := normCat_inv ds ([], false)
      have hne := hne (by simp)
      simp only [Bool.false_or] at hf
      simp only [normalize] at h
      -- the mode the children were laid out in
      have key : ∃ mm, m.orBrk (forces (.cat ds)) mm ∧ ((normCat ds ([], false)).2 = true → mm = .brk) ∧
          LayL E (normCat ds ([], false)).1 i mm c o c' := by
        generalize normCat ds ([], false) = r at hc hf hne h
        obtain ⟨xs, p⟩ := r
        simp only at hc hf hne h
        subst hf
        cases hp : forcesAny ds
        · have hc' := hc hp (by simp [forcesAny])
          match xs, hc', h with
          | [], _, h =>
            obtain ⟨rfl, rfl⟩ := h.inv_nil
            exact ⟨m, Or.inl rfl, by simp, .nil⟩
          | [x], _, h =>
            simp [wrapAb, hp] at h
            exact ⟨m, Or.inl rfl, by simp, by simpa using LayL.cons h .nil⟩
          | x :: y :: zs, hc', h =>
            simp [wrapAb, hp] at h
            obtain ⟨m', hm, hl⟩ := h.inv_cat
            have : m' = m := by
              rcases hm with h | ⟨hf, _⟩
              · exact h
              · simp [forces, hc'] at hf
            subst this
            exact ⟨m', Or.inl rfl, by simp, hl⟩
        · match xs, h with
          | [], h => exact absurd rfl (hne hp)
          | [x], h =>
            simp [wrapAb, hp] at h
            exact ⟨.brk, Or.inr ⟨by simp [forces, hp], rfl⟩, by simp, by simpa using LayL.cons h.inv_ab .nil⟩
          | x :: y :: zs, h =>
            simp [wrapAb, hp] at h
            obtain ⟨m', hm, hl⟩ := h.inv_ab.inv_cat
            have : m' = .brk := by rcases hm with h | ⟨_, h⟩ <;> exact h
            subst this
            exact ⟨.brk, Or.inr ⟨by simp [forces, hp], rfl⟩, by simp, hl⟩
      obtain ⟨mm, hmm, hflag, hl⟩ := key
      obtain ⟨o1, o2, c1, rfl, h1, h2⟩ := normCat_lay ds ([], false) hflag hl
      obtain ⟨rfl, rfl⟩ := h1.inv_nil
      exact .cat mm hmm (by simpa using h2)
theorem normCat_lay : (ds : List Doc) → (acc : List Doc × Bool) → ∀ {i mm c o c'},
    ((normCat ds acc).2 = true → mm = .brk) → LayL E (normCat ds acc).1 i mm c o c' →
    ∃ o1 o2 c1, o = o1 ++ o2 ∧ LayL E acc.1 i mm c o1 c1 ∧ LayL E ds i mm c1 o2 c'
  | [], acc, _, _, c, o, c', _, h => ⟨o, [], c', by simp, by simpa [normCat] using h, .nil⟩
  | d :: ds, acc, i, mm, c, o, c', hflag, h => by
      simp only [normCat] at h hflag
      obtain ⟨oa, ob, ca, rfl, ha, hb⟩ := normCat_lay ds (catStep (normalize d) acc) hflag h
      have hfl : (normalize d).isAb = true → mm = .brk := by
        intro hab
        apply hflag
        apply normCat_flag_mono
        simp [catStep_flag, hab]
      obtain ⟨o1, o2, c1, rfl, h1, h2⟩ := catStep_lay (normalize d) acc hfl ha
      exact ⟨o1, o2 ++ ob, c1, by simp [List.append_assoc], h1, .cons (lay_normalize d h2) hb⟩
end

end PP
