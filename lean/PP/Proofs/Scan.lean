/-
C06: a budget-free description of what the fitting predicate looks at.  `scanE stk` is the width of the text on
the current line — the flat group on top of the stack and whatever follows it, up to the first line break — or
`none` if a forced-break document (`always_break`; the contextual documents of `pretty_str` count as such here) starts on that
line; `align(d)` is read as the normalised `d`.
`fitsE left stk = true ↔ scanE stk = some n ∧ n ≤ left`.
-/
import PP.Proofs.FitsE
namespace PP
open Doc

def scanE (stk : List Pair) : Option Nat :=
  match stk with
  | [] => some 0
  | (m, d) :: r =>
      match d with
      | .nil => scanE r
      | .text s => (scanE r).map (s.length + ·)
      | .cat ds => scanE (pushAllP m ds r)
      | .ann _ d => scanE ((m, d) :: r)
      | .fill ds => scanE (pushAllP m ds r)
      | .nest _ d => scanE ((m, d) :: r)
      | .ab _ => none
      | .hardline => some 0
      | .choice l b f => scanE ((m, pick m l b f) :: r)
      | .group d => scanE ((.flat, d) :: r)
      | .align d => scanE ((m, d.normalize) :: r)
      | .pstr _ => none
termination_by pSize stk
decreasing_by
  all_goals simp_wf
  all_goals simp only [pSize, Doc.size, pSize_pushAllP]
  all_goals first
    | omega
    | (have := Doc.sizes_le_sizesF ‹List Doc›; omega)
    | (exact Nat.add_lt_add_right (size_pick _ _ _ _) _)
    | (have := Doc.size_normalize ‹Doc›; omega)

theorem fitsE_iff_scan (left : Int) (stk : List Pair) :
    fitsE left stk = true ↔ 0 ≤ left ∧ ∃ n, scanE stk = some n ∧ (n : Int) ≤ left := by
  fun_induction fitsE left stk with
  | case1 left stk hl => simp; omega
  | case2 left hl => simp [scanE]; omega
  | case3 left hl m r ih => rw [scanE]; simpa using ih
  | case4 left hl m r s ih =>
    rw [scanE, ih]
    constructor
    · rintro ⟨h0, n, hn, hle⟩
      exact ⟨by omega, s.length + n, by simp [hn], by push_cast; omega⟩
    · rintro ⟨h0, n, hn, hle⟩
      cases hs : scanE r with
      | none => simp [hs] at hn
      | some k =>
        simp [hs] at hn; subst hn
        push_cast at hle
        exact ⟨by omega, k, rfl, by omega⟩
  | case5 left hl m r ds ih => rw [scanE]; simpa using ih
  | case6 left hl m r a d ih => rw [scanE]; simpa using ih
  | case7 left hl m r ds ih => rw [scanE]; simpa using ih
  | case8 left hl m r j d ih => rw [scanE]; simpa using ih
  | case9 left hl m r d => simp [scanE]
  | case10 left hl m r => simp [scanE]; omega
  | case11 left hl m r l b f ih => rw [scanE]; simpa using ih
  | case12 left hl m r d ih => rw [scanE]; simpa using ih
  | case13 left hl m r d ih => rw [scanE]; simpa using ih
  | case14 left hl m r sp => simp [scanE]

end PP
