/-
With no depth limit and no max_seq_len the shown value of a built-in literal value is again one (only the order of dict
entries may change, under sort_dict_keys), so the reader theorem applies to sorted output too.
-/
import PP.Proofs.ReaderRT
import PP.Proofs.Shown
namespace PP
namespace Tok
open Doc PyStr Pr

theorem inC01L_iff : ∀ (xs : List PyVal), inC01L xs = true ↔ ∀ x ∈ xs, inC01 x = true
  | [] => by simp [inC01L]
  | v :: r => by simp [inC01L, inC01L_iff r]

theorem inC01P_iff : ∀ (qs : List (PyVal × PyVal)), inC01P qs = true ↔ ∀ q ∈ qs, inC01 q.1 = true ∧ inC01 q.2 = true
  | [] => by simp [inC01P]
  | (k, v) :: r => by simp [inC01P, inC01P_iff r, and_assoc]

/-- no limit can bite -/
def NoLimits (ctx : Ctx) : Prop := ctx.depthLeft = none ∧ ctx.maxSeqLen = none

theorem NoLimits.nested {ctx : Ctx} (h : NoLimits ctx) : NoLimits ctx.nested := ⟨by simp [Ctx.nested, h.1], h.2⟩

mutual
theorem inC01_shown : (v : PyVal) → (ctx : Ctx) → NoLimits ctx → inC01 v = true → inC01 (shown ctx v) = true
  | .commented v t, ctx, hn, h => by simp only [shown, inC01] at *; exact inC01_shown v ctx hn h
  | .trailing v t, ctx, hn, h => by simp only [shown, inC01] at *; exact inC01_shown v ctx hn h
  | .none, _, _, _ => rfl
  | .ellipsis, _, _, _ => rfl
  | .bool _, _, _, _ => rfl
  | .int cls val lit, ctx, hn, h => by simp [shown, Ctx.depthZero, hn.1]; exact h
  | .float cls kind lit n d, ctx, hn, h => by
      have : ctx.nested.depthZero = false := by simp [Ctx.depthZero, Ctx.nested, hn.1]
      have hnd : ctx.nested.depthLeft = none := by simp [Ctx.nested, hn.1]
      simp only [shown, Ctx.depthZero, hn.1, hnd]
      simp
      exact h
  | .str cls b s, ctx, hn, h => by simp [shown, Ctx.depthZero, hn.1]; exact h
  | .frozenset cls xs, ctx, hn, h => by
      simp only [inC01, Bool.and_eq_true] at h
      have ih := inC01L_shown xs ctx.nested hn.nested h.2
      simp [shown, hn.1, hn.2, withTruncation, inC01, h.1, ih]
  | .seq kind cls xs, ctx, hn, h => by
      simp only [inC01, Bool.and_eq_true] at h
      have ih := inC01L_shown xs ctx.nested hn.nested h.2
      simp only [shown, hn.1, Option.any_none, Ctx.depthZero]
      simp
      have hk : kind ≤ 2 := by simpa using h.1.2
      split
      · simp [inC01, h.1.1, inC01L, hk]
      · simp [cutSeq, hn.2, withTruncation, inC01, h.1.1, ih, hk]
  | .dict cls kvs, ctx, hn, h => by
      simp only [inC01, Bool.and_eq_true] at h
      have ih := inC01P_shown kvs ctx hn h.2
      simp only [shown, hn.2, Ctx.depthZero, hn.1, withTruncation, takeOpt]
      simp
      simp only [inC01, h.1, Bool.true_and]
      rw [inC01P_iff]
      intro q hq
      simp only [List.mem_map] at hq
      obtain ⟨p, hp, rfl⟩ := hq
      have hp' : p ∈ shownPairs ctx kvs := by
        split at hp
        · exact (C01.sortK_perm _).mem_iff.mp hp
        · exact hp
      exact ih p hp'
  | .opaque _, _, _, h => by simp [inC01] at h
  | .ident _, _, _, h => by simp [inC01] at h
  | .timedelta _ _ _, _, _, h => by simp [inC01] at h
  | .path _ _, _, _, h => by simp [inC01] at h
  | .call _ _ _, _, _, h => by simp [inC01] at h

theorem inC01L_shown : (xs : List PyVal) → (ctx : Ctx) → NoLimits ctx → inC01L xs = true → inC01L (shownL ctx xs) = true
  | [], _, _, _ => rfl
  | v :: r, ctx, hn, h => by
      simp only [inC01L, Bool.and_eq_true, shownL] at *
      exact ⟨inC01_shown v ctx hn h.1, inC01L_shown r ctx hn h.2⟩

theorem inC01P_shown : (kvs : List (PyVal × PyVal)) → (ctx : Ctx) → NoLimits ctx → inC01P kvs = true →
    ∀ p ∈ shownPairs ctx kvs, inC01 p.2.1 = true ∧ inC01 p.2.2 = true
  | [], _, _, _ => by simp [shownPairs]
  | (k, v) :: r, ctx, hn, h => by
      simp only [inC01P, Bool.and_eq_true] at h
      intro p hp
      simp only [shownPairs, List.mem_cons] at hp
      rcases hp with rfl | hp
      · refine ⟨?_, inC01_shown v ctx.nested hn.nested h.1.2⟩
        simp only [shownKey]
        split
        · exact h.1.1
        · exact inC01_shown k ctx.nested hn.nested h.1.1
      · exact inC01P_shown r ctx hn h.2 p hp
end

end Tok
end PP
