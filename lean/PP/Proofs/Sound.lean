/-
Soundness of the layout machine w.r.t. the reference semantics: whatever `run` emits for a stack is a
rendering, in the sense of `Lay`, of the documents on that stack — for both strategies, every width and ribbon.
-/
import PP.Model.Layout
import PP.Proofs.LayNormalize
namespace PP
open Doc

/-- the evaluations a `pstr` node can take under a configuration -/
def Cfg.Ev (cfg : Cfg) (sp : StrSpec) (d : Doc) : Prop := ∃ i c, d = cfg.ev sp i c cfg.w cfg.rw

/-- the size clamp of `Cfg.evC` never fires (true of the real string evaluator, see Proofs/StrBound.lean) -/
def Cfg.EvBounded (cfg : Cfg) : Prop := ∀ sp i c, (cfg.ev sp i c cfg.w cfg.rw).normalize.size ≤ sp.bound

theorem Cfg.evC_eq {cfg : Cfg} (h : cfg.EvBounded) (sp i c) :
    cfg.evC sp i c = (cfg.ev sp i c cfg.w cfg.rw).normalize := by
  unfold Cfg.evC; simp [h sp i c]

variable {E : StrSpec → Doc → Prop}

theorem layStk_pushAll {i m ds r c out} (h : LayStk E (pushAll i m ds r) c out) :
    ∃ o1 o2 c1, out = o1 ++ o2 ∧ LayL E ds i m c o1 c1 ∧ LayStk E r c1 o2 := by
  induction ds generalizing c out with
  | nil => exact ⟨[], out, c, by simp, .nil, h⟩
  | cons d ds ih =>
    cases h with
    | doc hd hr =>
      obtain ⟨o1, o2, c1, rfl, hl, hs⟩ := ih hr
      exact ⟨_, _, _, by simp [List.append_assoc], .cons hd hl, hs⟩

theorem LayStk.inv_doc {i m d r c out} (h : LayStk E ((i, m, .doc d) :: r) c out) :
    ∃ o1 o2 c1, out = o1 ++ o2 ∧ Lay E d i m c o1 c1 ∧ LayStk E r c1 o2 := by
  generalize hs : ((i, m, Item.doc d) :: r) = stk at h
  cases h with
  | nil => cases hs
  | doc hd hr => cases hs; exact ⟨_, _, _, rfl, hd, hr⟩
  | pop hr => cases hs

theorem LayStk.inv_pop {i m a r c out} (h : LayStk E ((i, m, .pop a) :: r) c out) :
    ∃ o, out = .pop a :: o ∧ LayStk E r c o := by
  generalize hs : ((i, m, Item.pop a) :: r) = stk at h
  cases h with
  | nil => cases hs
  | doc hd hr => cases hs
  | pop hr => cases hs; exact ⟨_, rfl, hr⟩

theorem lay_pick {m l b f i c o c'} (h : Lay E (pick m l b f) i m c o c') : Lay E (.choice l b f) i m c o c' := by
  unfold pick at h
  cases m with
  | flat => exact .choiceF (by simpa using h)
  | brk =>
    simp only [reduceCtorEq, if_false] at h
    cases l with
    | true => exact .choiceB (lay_normalize b (by simpa using h))
    | false => exact .choiceB (by simpa using h)

theorem run_sound (cfg : Cfg) (hb : cfg.EvBounded) (stk : List Triple) (col : Int) :
    LayStk cfg.Ev stk col (run cfg stk col) := by
  fun_induction run cfg stk col with
  | case1 => exact .nil
  | case2 col i m r a ih => exact .pop ih
  | case3 col i m r ih => simpa using LayStk.doc .nil ih
  | case4 col i m r ih => simpa using LayStk.doc .hardline ih
  | case5 col i m r s ih => simpa using LayStk.doc .text ih
  | case6 col i m r ds ih =>
    obtain ⟨o1, o2, c1, h, hl, hs⟩ := layStk_pushAll ih
    rw [h]; exact .doc (.cat m (Or.inl rfl) hl) hs
  | case7 col i m r d ih =>
    obtain ⟨o1, o2, c1, h, hd, hr⟩ := ih.inv_doc
    rw [h]; exact .doc (.align (lay_normalize _ hd)) hr
  | case8 col i m r sp ih =>
    obtain ⟨o1, o2, c1, h, hd, hr⟩ := ih.inv_doc
    rw [Cfg.evC_eq hb] at hd
    rw [h]; exact .doc (.pstr ⟨i, col, rfl⟩ (lay_normalize _ hd)) hr
  | case9 col i m r a d ih =>
    obtain ⟨o1, o2, c1, h, hd, hr⟩ := ih.inv_doc
    obtain ⟨o3, h3, hr⟩ := hr.inv_pop
    have := LayStk.doc (.ann (a := a) hd) hr
    rw [h, h3]; simpa [List.append_assoc] using this
  | case10 col i m r l b f ih =>
    obtain ⟨o1, o2, c1, h, hd, hr⟩ := ih.inv_doc
    rw [h]; exact .doc (lay_pick hd) hr
  | case11 col i m r j d ih =>
    obtain ⟨o1, o2, c1, h, hd, hr⟩ := ih.inv_doc
    rw [h]; exact .doc (.nest m (Or.inl rfl) hd) hr
  | case12 col i m r d ih =>
    obtain ⟨o1, o2, c1, h, hd, hr⟩ := ih.inv_doc
    rw [h]; exact .doc (.ab hd) hr
  | case13 col i m r d a fit ih =>
    obtain ⟨o1, o2, c1, h, hd, hr⟩ := ih.inv_doc
    rw [h]; exact .doc (.group _ hd) hr
  | case14 col i m r ih => simpa using LayStk.doc (.fill .nil) ih
  | case15 col i m r x a fit ih =>
    obtain ⟨o1, o2, c1, h, hd, hr⟩ := ih.inv_doc
    have := LayStk.doc (.fill (m := m) (.cons _ hd .nil)) hr
    rw [h]; simpa using this
  | case16 col i m r x ws a fit ih =>
    obtain ⟨o1, o2, c1, h, hd, hr⟩ := ih.inv_doc
    obtain ⟨o3, o4, c2, h2, hd2, hr⟩ := hr.inv_doc
    have := LayStk.doc (.fill (m := m) (.cons _ hd (.cons _ hd2 .nil))) hr
    rw [h, h2]; simpa [List.append_assoc] using this
  | case17 col i m r x ws y rest a fit fit2 ih =>
    obtain ⟨o1, o2, c1, h, hd, hr⟩ := ih.inv_doc
    obtain ⟨o3, o4, c2, h2, hd2, hr⟩ := hr.inv_doc
    obtain ⟨o5, o6, c3, h3, hd3, hr⟩ := hr.inv_doc
    have := LayStk.doc (.fill (m := m) (.cons _ hd (.cons _ hd2 hd3.inv_fill))) hr
    rw [h, h2, h3]; simpa [List.append_assoc] using this

/-- C04 at the level of `layout`: the emitted stream is a rendering of the document. -/
theorem layout_sound (cfg : Cfg) (hb : cfg.EvBounded) (d : Doc) :
    ∃ c', Lay cfg.Ev d 0 .brk 0 (layout cfg d) c' := by
  have h := run_sound cfg hb [(0, .brk, .doc d.normalize)] 0
  obtain ⟨o1, o2, c1, heq, hd, hr⟩ := h.inv_doc
  cases hr
  refine ⟨c1, ?_⟩
  unfold layout
  rw [heq]; simpa using lay_normalize d hd

end PP
