/-
C09 at the level of code tokens: `comment()` annotations are exactly token-inert.
`dropComments v` removes every `comment()` wrapper (trailing comments stay: they add a trailing comma, see below).
-/
import PP.Proofs.ToksVal
import PP.Proofs.Shown
namespace PP
namespace Tok
open Doc PyStr Pr

mutual
def dropComments : PyVal → PyVal
  | .commented v _ => dropComments v
  | .trailing v t => .trailing (dropComments v) t
  | .seq k c xs => .seq k c (dropL xs)
  | .frozenset c xs => .frozenset c (dropL xs)
  | .dict c kvs => .dict c (dropP kvs)
  | .call f args kwargs => .call f (dropL args) (dropK kwargs)
  | v => v
def dropL : List PyVal → List PyVal
  | [] => []
  | v :: r => dropComments v :: dropL r
def dropK : List (Str × PyVal) → List (Str × PyVal)
  | [] => []
  | (k, v) :: r => (k, dropComments v) :: dropK r
def dropP : List (PyVal × PyVal) → List (PyVal × PyVal)
  | [] => []
  | (k, v) :: r => (dropComments k, dropComments v) :: dropP r
end

mutual
/-- no comment wrapper at all inside the value -/
def commentFree : PyVal → Bool
  | .commented _ _ => false
  | .trailing _ _ => false
  | .seq _ _ xs => commentFreeL xs
  | .frozenset _ xs => commentFreeL xs
  | .dict _ kvs => commentFreeP kvs
  | .call _ args kwargs => commentFreeL args && commentFreeK kwargs
  | _ => true
def commentFreeL : List PyVal → Bool
  | [] => true
  | v :: r => commentFree v && commentFreeL r
def commentFreeK : List (Str × PyVal) → Bool
  | [] => true
  | (_, v) :: r => commentFree v && commentFreeK r
def commentFreeP : List (PyVal × PyVal) → Bool
  | [] => true
  | (k, v) :: r => commentFree k && commentFree v && commentFreeP r
end

mutual
/-- a dict key whose comments sit where the sort key ignores them: around the key itself and, for a tuple key, around
(or, again for tuples, inside) its elements -/
def keyOk : PyVal → Bool
  | .commented v _ => keyOk v
  | .trailing v _ => keyOk v
  | .seq kind _ xs => if kind == 1 then keyOkL xs else commentFreeL xs
  | .frozenset _ xs => commentFreeL xs
  | .dict _ kvs => commentFreeP kvs
  | .call _ args kwargs => commentFreeL args && commentFreeK kwargs
  | _ => true
def keyOkL : List PyVal → Bool
  | [] => true
  | v :: r => keyOk v && keyOkL r
end

mutual
/-- every dict key, at every level, carries comments only where the sort key ignores them (`keyOk`) -/
def keysPlain : PyVal → Bool
  | .commented v _ => keysPlain v
  | .trailing v _ => keysPlain v
  | .seq _ _ xs => keysPlainL xs
  | .frozenset _ xs => keysPlainL xs
  | .dict _ kvs => keysPlainP kvs
  | .call _ args kwargs => keysPlainL args && keysPlainK kwargs
  | _ => true
def keysPlainL : List PyVal → Bool
  | [] => true
  | v :: r => keysPlain v && keysPlainL r
def keysPlainK : List (Str × PyVal) → Bool
  | [] => true
  | (_, v) :: r => keysPlain v && keysPlainK r
def keysPlainP : List (PyVal × PyVal) → Bool
  | [] => true
  | (k, v) :: r => keyOk k && keysPlain v && keysPlainP r
end

mutual
theorem drop_commentFree : ∀ (v : PyVal), commentFree v = true → dropComments v = v
  | .commented _ _, h => by simp [commentFree] at h
  | .trailing _ _, h => by simp [commentFree] at h
  | .seq k c xs, h => by simp only [commentFree] at h; simp [dropComments, dropL_commentFree xs h]
  | .frozenset c xs, h => by simp only [commentFree] at h; simp [dropComments, dropL_commentFree xs h]
  | .dict c kvs, h => by simp only [commentFree] at h; simp [dropComments, dropP_commentFree kvs h]
  | .call f a k, h => by
      simp only [commentFree, Bool.and_eq_true] at h
      simp [dropComments, dropL_commentFree a h.1, dropK_commentFree k h.2]
  | .none, _ => rfl
  | .ellipsis, _ => rfl
  | .bool _, _ => rfl
  | .opaque _, _ => rfl
  | .ident _, _ => rfl
  | .timedelta _ _ _, _ => rfl
  | .path _ _, _ => rfl
  | .int _ _ _, _ => rfl
  | .float _ _ _ _ _, _ => rfl
  | .str _ _ _, _ => rfl
theorem dropL_commentFree : ∀ (xs : List PyVal), commentFreeL xs = true → dropL xs = xs
  | [], _ => rfl
  | v :: r, h => by
      simp only [commentFreeL, Bool.and_eq_true] at h
      simp [dropL, drop_commentFree v h.1, dropL_commentFree r h.2]
theorem dropK_commentFree : ∀ (xs : List (Str × PyVal)), commentFreeK xs = true → dropK xs = xs
  | [], _ => rfl
  | (k, v) :: r, h => by
      simp only [commentFreeK, Bool.and_eq_true] at h
      simp [dropK, drop_commentFree v h.1, dropK_commentFree r h.2]
theorem dropP_commentFree : ∀ (xs : List (PyVal × PyVal)), commentFreeP xs = true → dropP xs = xs
  | [], _ => rfl
  | (k, v) :: r, h => by
      simp only [commentFreeP, Bool.and_eq_true] at h
      simp [dropP, drop_commentFree k h.1.1, drop_commentFree v h.1.2, dropP_commentFree r h.2]
end

/-- dropping comments does not change what a value is under its wrappers, as far as hugging and key ordering look -/
theorem strip_drop : ∀ (v : PyVal), commentFree (stripComments v) = true → stripComments (dropComments v) = stripComments v
  | .commented v t, h => by simp only [stripComments, dropComments] at *; exact strip_drop v h
  | .trailing v t, h => by simp only [stripComments, dropComments] at *; exact strip_drop v h
  | .seq k c xs, h => by simp only [stripComments] at h ⊢; rw [drop_commentFree _ h]; rfl
  | .frozenset c xs, h => by simp only [stripComments] at h ⊢; rw [drop_commentFree _ h]; rfl
  | .dict c kvs, h => by simp only [stripComments] at h ⊢; rw [drop_commentFree _ h]; rfl
  | .call f a k, h => by simp only [stripComments] at h ⊢; rw [drop_commentFree _ h]; rfl
  | .none, _ => rfl
  | .ellipsis, _ => rfl
  | .bool _, _ => rfl
  | .opaque _, _ => rfl
  | .ident _, _ => rfl
  | .timedelta _ _ _, _ => rfl
  | .path _ _, _ => rfl
  | .int _ _ _, _ => rfl
  | .float _ _ _ _ _, _ => rfl
  | .str _ _ _, _ => rfl

theorem huggable_drop : ∀ (v : PyVal), isHuggable (stripComments (dropComments v)) = isHuggable (stripComments v)
  | .commented v t => by simp only [stripComments, dropComments]; exact huggable_drop v
  | .trailing v t => by simp only [stripComments, dropComments]; exact huggable_drop v
  | .seq k c xs => by
      simp only [stripComments, dropComments]
      cases k with
      | zero => cases c <;> rfl
      | succ j => cases j with
        | zero => cases c <;> rfl
        | succ _ => rfl
  | .frozenset _ _ => rfl
  | .dict c kvs => by simp only [stripComments, dropComments]; cases c <;> rfl
  | .call _ _ _ => rfl
  | .none => rfl
  | .ellipsis => rfl
  | .bool _ => rfl
  | .opaque _ => rfl
  | .ident _ => rfl
  | .timedelta _ _ _ => rfl
  | .path _ _ => rfl
  | .int _ _ _ => rfl
  | .float _ _ _ _ _ => rfl
  | .str _ _ _ => rfl

theorem hugCall_drop (args : List PyVal) (kwargs : List (Str × PyVal)) : hugCall (dropL args) (dropK kwargs) = hugCall args kwargs := by
  cases args with
  | nil => cases kwargs <;> rfl
  | cons a r =>
    cases r with
    | cons b r2 => cases kwargs <;> rfl
    | nil =>
      cases kwargs with
      | cons k kr => obtain ⟨k1, k2⟩ := k; rfl
      | nil => simp only [dropL, dropK, hugCall]; exact huggable_drop a

mutual
theorem commentFree_keyOk : ∀ (v : PyVal), commentFree v = true → keyOk v = true
  | .commented _ _, h => by simp [commentFree] at h
  | .trailing _ _, h => by simp [commentFree] at h
  | .seq kind c xs, h => by
      simp only [commentFree] at h
      simp only [keyOk]
      split
      · exact commentFreeL_keyOkL xs h
      · exact h
  | .frozenset _ _, h => by simpa [commentFree, keyOk] using h
  | .dict _ _, h => by simpa [commentFree, keyOk] using h
  | .call _ _ _, h => by simpa [commentFree, keyOk] using h
  | .none, _ => rfl
  | .ellipsis, _ => rfl
  | .bool _, _ => rfl
  | .opaque _, _ => rfl
  | .ident _, _ => rfl
  | .timedelta _ _ _, _ => rfl
  | .path _ _, _ => rfl
  | .int _ _ _, _ => rfl
  | .float _ _ _ _ _, _ => rfl
  | .str _ _ _, _ => rfl
theorem commentFreeL_keyOkL : ∀ (xs : List PyVal), commentFreeL xs = true → keyOkL xs = true
  | [], _ => rfl
  | v :: r, h => by
      simp only [commentFreeL, Bool.and_eq_true] at h
      simp only [keyOkL, Bool.and_eq_true]
      exact ⟨commentFree_keyOk v h.1, commentFreeL_keyOkL r h.2⟩
end

mutual
/-- dropping `comment()` wrappers does not change what a key is ordered by -/
theorem sortKey_drop : ∀ (v : PyVal), keyOk v = true → sortKey (dropComments v) = sortKey v
  | .commented v t, h => by simp only [sortKey, dropComments]; exact sortKey_drop v (by simpa [keyOk] using h)
  | .trailing v t, h => by simp only [sortKey, dropComments]; exact sortKey_drop v (by simpa [keyOk] using h)
  | .seq kind c xs, h => by
      simp only [keyOk] at h
      simp only [dropComments, sortKey]
      by_cases hk : (kind == 1) = true
      · simp only [hk, if_true] at h ⊢
        rw [sortKeyL_drop xs h]
      · simp only [hk, Bool.false_eq_true, if_false] at h ⊢
        rw [dropL_commentFree xs h]
  | .frozenset c xs, h => by
      simp only [keyOk] at h; simp only [dropComments, sortKey]; rw [dropL_commentFree xs h]
  | .dict c kvs, h => by
      simp only [keyOk] at h; simp only [dropComments, sortKey]; rw [dropP_commentFree kvs h]
  | .call f a k, h => by
      simp only [keyOk, Bool.and_eq_true] at h
      simp only [dropComments, sortKey]; rw [dropL_commentFree a h.1, dropK_commentFree k h.2]
  | .none, _ => rfl
  | .ellipsis, _ => rfl
  | .bool _, _ => rfl
  | .opaque _, _ => rfl
  | .ident _, _ => rfl
  | .timedelta _ _ _, _ => rfl
  | .path _ _, _ => rfl
  | .int _ _ _, _ => rfl
  | .float _ _ _ _ _, _ => rfl
  | .str _ _ _, _ => rfl
theorem sortKeyL_drop : ∀ (xs : List PyVal), keyOkL xs = true → sortKeyL (dropL xs) = sortKeyL xs
  | [], _ => rfl
  | v :: r, h => by
      simp only [keyOkL, Bool.and_eq_true] at h
      simp only [dropL, sortKeyL, sortKey_drop v h.1, sortKeyL_drop r h.2]
end

/-! ### sorting looks at keys only through `sortKey` -/

theorem insertK_key {α} (g : PyVal → PyVal) (x : PyVal × α) (xs : List (PyVal × α))
    (hx : sortKey (g x.1) = sortKey x.1) (hxs : ∀ p ∈ xs, sortKey (g p.1) = sortKey p.1) :
    insertK (g x.1, x.2) (xs.map fun p => (g p.1, p.2)) = (insertK x xs).map fun p => (g p.1, p.2) := by
  induction xs with
  | nil => rfl
  | cons y r ih =>
    have hy := hxs y (by simp)
    simp only [List.map_cons, insertK, hx, hy]
    split
    · simp only [List.map_cons]
      rw [ih (fun p hp => hxs p (by simp [hp]))]
    · rfl

theorem sortK_key {α} (g : PyVal → PyVal) (xs : List (PyVal × α)) (h : ∀ p ∈ xs, sortKey (g p.1) = sortKey p.1) :
    sortK (xs.map fun p => (g p.1, p.2)) = (sortK xs).map fun p => (g p.1, p.2) := by
  unfold sortK
  rw [← List.map_reverse]
  have hrev : ∀ p ∈ xs.reverse, sortKey (g p.1) = sortKey p.1 := fun p hp => h p (by simpa using hp)
  generalize xs.reverse = ys at hrev
  have key : ∀ (ys acc : List (PyVal × α)), (∀ p ∈ ys, sortKey (g p.1) = sortKey p.1) →
      (∀ p ∈ acc, sortKey (g p.1) = sortKey p.1) →
      (ys.map fun p => (g p.1, p.2)).foldl (fun acc x => insertK x acc) (acc.map fun p => (g p.1, p.2)) =
      (ys.foldl (fun acc x => insertK x acc) acc).map fun p => (g p.1, p.2) := by
    intro ys
    induction ys with
    | nil => intro acc _ _; rfl
    | cons y r ih =>
      intro acc hy ha
      simp only [List.map_cons, List.foldl_cons]
      rw [insertK_key g y acc (hy y (by simp)) ha]
      apply ih _ (fun p hp => hy p (by simp [hp]))
      intro p hp
      have := (C01.insertK_perm y acc).mem_iff.mp hp
      simp only [List.mem_cons] at this
      rcases this with rfl | h'
      · exact hy _ (by simp)
      · exact ha p h'
  simpa using key ys [] hrev (by simp)

mutual
theorem commentFree_keysPlain : ∀ (v : PyVal), commentFree v = true → keysPlain v = true
  | .commented _ _, h => by simp [commentFree] at h
  | .trailing _ _, h => by simp [commentFree] at h
  | .seq _ _ xs, h => by simp only [commentFree, keysPlain] at *; exact cfL xs h
  | .frozenset _ xs, h => by simp only [commentFree, keysPlain] at *; exact cfL xs h
  | .dict _ kvs, h => by simp only [commentFree, keysPlain] at *; exact cfP kvs h
  | .call _ a k, h => by
      simp only [commentFree, keysPlain, Bool.and_eq_true] at *; exact ⟨cfL a h.1, cfK k h.2⟩
  | .none, _ => rfl
  | .ellipsis, _ => rfl
  | .bool _, _ => rfl
  | .opaque _, _ => rfl
  | .ident _, _ => rfl
  | .timedelta _ _ _, _ => rfl
  | .path _ _, _ => rfl
  | .int _ _ _, _ => rfl
  | .float _ _ _ _ _, _ => rfl
  | .str _ _ _, _ => rfl
theorem cfL : ∀ (xs : List PyVal), commentFreeL xs = true → keysPlainL xs = true
  | [], _ => rfl
  | v :: r, h => by
      simp only [commentFreeL, keysPlainL, Bool.and_eq_true] at *; exact ⟨commentFree_keysPlain v h.1, cfL r h.2⟩
theorem cfK : ∀ (xs : List (Str × PyVal)), commentFreeK xs = true → keysPlainK xs = true
  | [], _ => rfl
  | (_, v) :: r, h => by
      simp only [commentFreeK, keysPlainK, Bool.and_eq_true] at *; exact ⟨commentFree_keysPlain v h.1, cfK r h.2⟩
theorem cfP : ∀ (xs : List (PyVal × PyVal)), commentFreeP xs = true → keysPlainP xs = true
  | [], _ => rfl
  | (k, v) :: r, h => by
      simp only [commentFreeP, keysPlainP, Bool.and_eq_true] at *
      exact ⟨⟨commentFree_keyOk k h.1.1, commentFree_keysPlain v h.1.2⟩, cfP r h.2⟩
end

mutual
/-- a key that is fit for sorting has only such keys inside -/
theorem keyOk_keysPlain : ∀ (v : PyVal), keyOk v = true → keysPlain v = true
  | .commented v _, h => by simp only [keyOk, keysPlain] at *; exact keyOk_keysPlain v h
  | .trailing v _, h => by simp only [keyOk, keysPlain] at *; exact keyOk_keysPlain v h
  | .seq kind _ xs, h => by
      simp only [keyOk] at h
      simp only [keysPlain]
      by_cases hk : (kind == 1) = true
      · simp only [hk, if_true] at h; exact keyOkL_keysPlainL xs h
      · simp only [hk, Bool.false_eq_true, if_false] at h; exact cfL xs h
  | .frozenset _ xs, h => by simp only [keyOk] at h; simp only [keysPlain]; exact cfL xs h
  | .dict _ kvs, h => by simp only [keyOk] at h; simp only [keysPlain]; exact cfP kvs h
  | .call _ a k, h => by
      simp only [keyOk, Bool.and_eq_true] at h
      simp only [keysPlain, Bool.and_eq_true]; exact ⟨cfL a h.1, cfK k h.2⟩
  | .none, _ => rfl
  | .ellipsis, _ => rfl
  | .bool _, _ => rfl
  | .opaque _, _ => rfl
  | .ident _, _ => rfl
  | .timedelta _ _ _, _ => rfl
  | .path _ _, _ => rfl
  | .int _ _ _, _ => rfl
  | .float _ _ _ _ _, _ => rfl
  | .str _ _ _, _ => rfl
theorem keyOkL_keysPlainL : ∀ (xs : List PyVal), keyOkL xs = true → keysPlainL xs = true
  | [], _ => rfl
  | v :: r, h => by
      simp only [keyOkL, Bool.and_eq_true] at h
      simp only [keysPlainL, Bool.and_eq_true]
      exact ⟨keyOk_keysPlain v h.1, keyOkL_keysPlainL r h.2⟩
end

theorem keysPlain_strip : ∀ (v : PyVal), keysPlain v = keysPlain (stripComments v)
  | .commented v t => by simp only [keysPlain, stripComments]; exact keysPlain_strip v
  | .trailing v t => by simp only [keysPlain, stripComments]; exact keysPlain_strip v
  | .seq _ _ _ => rfl
  | .frozenset _ _ => rfl
  | .dict _ _ => rfl
  | .call _ _ _ => rfl
  | .none => rfl
  | .ellipsis => rfl
  | .bool _ => rfl
  | .opaque _ => rfl
  | .ident _ => rfl
  | .timedelta _ _ _ => rfl
  | .path _ _ => rfl
  | .int _ _ _ => rfl
  | .float _ _ _ _ _ => rfl
  | .str _ _ _ => rfl

theorem dropL_length : ∀ (xs : List PyVal), (dropL xs).length = xs.length
  | [] => rfl
  | _ :: r => by simp [dropL, dropL_length r]

theorem dropL_isEmpty (xs : List PyVal) : (dropL xs).isEmpty = xs.isEmpty := by cases xs <;> rfl

theorem nested_none {ctx : Ctx} (h : ctx.depthLeft = none) : ctx.nested.depthLeft = none := by simp [Ctx.nested, h]

theorem depthZero_none {ctx : Ctx} (h : ctx.depthLeft = none) : ctx.depthZero = false := by simp [Ctx.depthZero, h]

/-- the tokens of a dict key do not depend on a comment around it (no depth limit: a commented str key goes through
pretty_python_value, which applies the depth test that bare str keys skip — finding K5) -/
theorem keyCanon_drop (ctx : Ctx) (hd : ctx.depthLeft = none) (k : PyVal)
    (ih : canonW ctx.nested k none = canonW ctx.nested (dropComments k) none) :
    keyCanon k (canonW ctx.nested k none) = keyCanon (dropComments k) (canonW ctx.nested (dropComments k) none) := by
  have hz := depthZero_none (nested_none hd)
  cases k with
  | commented v t =>
    -- the key itself is not a str node; its stripped form may be
    have e1 : keyCanon (.commented v t) (canonW ctx.nested (.commented v t) none) = canonW ctx.nested (.commented v t) none := rfl
    rw [e1, ih]
    generalize hk : dropComments (PyVal.commented v t) = k'
    cases k' <;> simp [keyCanon, canonW, hz]
  | str cls b s => rfl
  | trailing v t => rw [← ih]; rfl
  | seq _ _ _ => rw [← ih]; rfl
  | frozenset _ _ => rw [← ih]; rfl
  | dict _ _ => rw [← ih]; rfl
  | call _ _ _ => rw [← ih]; rfl
  | none => rfl
  | ellipsis => rfl
  | bool _ => rfl
  | «opaque» _ => rfl
  | ident _ => rfl
  | timedelta _ _ _ => rfl
  | path _ _ => rfl
  | int _ _ _ => rfl
  | float _ _ _ _ _ => rfl

mutual
theorem comment_inert : (v : PyVal) → (ctx : Ctx) → (tr : Option PS) → ctx.depthLeft = none →
    (ctx.sortKeys = false ∨ keysPlain v = true) → canonW ctx v tr = canonW ctx (dropComments v) tr
  | .commented v t, ctx, tr, hd, hk => by
      simp only [canonW, dropComments]; exact comment_inert v ctx tr hd (by simpa [keysPlain] using hk)
  | .trailing v t, ctx, tr, hd, hk => by
      simp only [canonW, dropComments]; exact comment_inert v ctx (some t) hd (by simpa [keysPlain] using hk)
  | .none, _, _, _, _ => rfl
  | .ellipsis, _, _, _, _ => rfl
  | .bool _, _, _, _, _ => rfl
  | .opaque _, _, _, _, _ => rfl
  | .ident _, _, _, _, _ => rfl
  | .timedelta _ _ _, _, _, _, _ => rfl
  | .path _ _, _, _, _, _ => rfl
  | .int _ _ _, _, _, _, _ => rfl
  | .float _ _ _ _ _, _, _, _, _ => rfl
  | .str _ _ _, _, _, _, _ => rfl
  | .frozenset cls xs, ctx, tr, hd, hk => by
      have ih := commentL_inert xs ctx.nested (nested_none hd) (by simpa [keysPlain] using hk)
      simp only [canonW, dropComments, dropL_length, dropL_isEmpty, ih]
  | .seq kind cls xs, ctx, tr, hd, hk => by
      have ih := commentL_inert xs ctx.nested (nested_none hd) (by simpa [keysPlain] using hk)
      simp only [canonW, dropComments, dropL_length, ih]
  | .call f args kwargs, ctx, tr, hd, hk => by
      have hk' : (ctx.sortKeys = false ∨ keysPlainL args = true) ∧ (ctx.sortKeys = false ∨ keysPlainK kwargs = true) := by
        rcases hk with h | h
        · exact ⟨Or.inl h, Or.inl h⟩
        · simp only [keysPlain, Bool.and_eq_true] at h; exact ⟨Or.inr h.1, Or.inr h.2⟩
      have i1 := commentL_inert args ctx hd hk'.1
      have i2 := commentL_inert args ctx.nested (nested_none hd) hk'.1
      have i3 := commentK_inert kwargs ctx.nested (nested_none hd) hk'.2
      simp only [canonW, dropComments, hugCall_drop, i1, i2, i3]
  | .dict cls kvs, ctx, tr, hd, hk => by
      have ih := commentP_inert kvs ctx hd (by simpa [keysPlain] using hk)
      simp only [canonW, dropComments]
      unfold dictCanon
      have hlen : (canonPairs ctx (dropP kvs)).length = (canonPairs ctx kvs).length := by rw [ih.1]; simp
      simp only [hlen]
      have hsort : (takeOpt ctx.maxSeqLen (if ctx.sortKeys = true then sortK (canonPairs ctx (dropP kvs)) else canonPairs ctx (dropP kvs))) =
          (takeOpt ctx.maxSeqLen (if ctx.sortKeys = true then sortK (canonPairs ctx kvs) else canonPairs ctx kvs)).map
            (fun p => (dropComments p.1, p.2)) := by
        rw [ih.1, takeOpt_map]
        split
        · rename_i hs
          rw [sortK_key dropComments (canonPairs ctx kvs) (by
            rcases hk with h | h
            · rw [h] at hs; cases hs
            · exact ih.2 (by simpa [keysPlain] using h))]
        · rfl
      rw [hsort]
      have hb : ∀ (ps : List (PyVal × List CT × List CT)), dictPairToks (ps.map fun p => (dropComments p.1, p.2)) = dictPairToks ps := by
        intro ps; apply dictPairToks_congr; simp [List.map_map, Function.comp_def]
      have he : ∀ (ps : List (PyVal × List CT × List CT)), (ps.map fun p => (dropComments p.1, p.2)).isEmpty = ps.isEmpty := by
        intro ps; cases ps <;> rfl
      simp only [hb, he]

theorem commentL_inert : (xs : List PyVal) → (ctx : Ctx) → ctx.depthLeft = none →
    (ctx.sortKeys = false ∨ keysPlainL xs = true) → canonL ctx xs = canonL ctx (dropL xs)
  | [], _, _, _ => rfl
  | v :: r, ctx, hd, hk => by
      have hk' : (ctx.sortKeys = false ∨ keysPlain v = true) ∧ (ctx.sortKeys = false ∨ keysPlainL r = true) := by
        rcases hk with h | h
        · exact ⟨Or.inl h, Or.inl h⟩
        · simp only [keysPlainL, Bool.and_eq_true] at h; exact ⟨Or.inr h.1, Or.inr h.2⟩
      simp only [canonL, dropL, comment_inert v ctx none hd hk'.1, commentL_inert r ctx hd hk'.2]

theorem commentK_inert : (kws : List (Str × PyVal)) → (ctx : Ctx) → ctx.depthLeft = none →
    (ctx.sortKeys = false ∨ keysPlainK kws = true) → canonKw ctx kws = canonKw ctx (dropK kws)
  | [], _, _, _ => rfl
  | (k, v) :: r, ctx, hd, hk => by
      have hk' : (ctx.sortKeys = false ∨ keysPlain v = true) ∧ (ctx.sortKeys = false ∨ keysPlainK r = true) := by
        rcases hk with h | h
        · exact ⟨Or.inl h, Or.inl h⟩
        · simp only [keysPlainK, Bool.and_eq_true] at h; exact ⟨Or.inr h.1, Or.inr h.2⟩
      simp only [canonKw, dropK, comment_inert v ctx none hd hk'.1, commentK_inert r ctx hd hk'.2]

theorem commentP_inert : (kvs : List (PyVal × PyVal)) → (ctx : Ctx) → ctx.depthLeft = none →
    (ctx.sortKeys = false ∨ keysPlainP kvs = true) →
    canonPairs ctx (dropP kvs) = (canonPairs ctx kvs).map (fun p => (dropComments p.1, p.2)) ∧
      (keysPlainP kvs = true → ∀ p ∈ canonPairs ctx kvs, sortKey (dropComments p.1) = sortKey p.1)
  | [], _, _, _ => ⟨rfl, by simp [canonPairs]⟩
  | (k, v) :: r, ctx, hd, hk => by
      have hk' : (ctx.sortKeys = false ∨ keysPlain k = true) ∧ (ctx.sortKeys = false ∨ keysPlain v = true) ∧
          (ctx.sortKeys = false ∨ keysPlainP r = true) := by
        rcases hk with h | h
        · exact ⟨Or.inl h, Or.inl h, Or.inl h⟩
        · simp only [keysPlainP, Bool.and_eq_true] at h
          exact ⟨Or.inr (keyOk_keysPlain k h.1.1), Or.inr h.1.2, Or.inr h.2⟩
      have ik := comment_inert k ctx.nested none (nested_none hd) hk'.1
      have iv := comment_inert v ctx.nested none (nested_none hd) hk'.2.1
      obtain ⟨ir1, ir2⟩ := commentP_inert r ctx hd hk'.2.2
      refine ⟨?_, ?_⟩
      · simp only [dropP, canonPairs, List.map_cons, ir1, ← iv, ← keyCanon_drop ctx hd k ik]
      · intro hp p hmem
        simp only [keysPlainP, Bool.and_eq_true] at hp
        simp only [canonPairs, List.mem_cons] at hmem
        rcases hmem with rfl | hmem
        · exact sortKey_drop k hp.1.1
        · exact ir2 hp.2 p hmem
end

mutual
theorem wf_drop : (v : PyVal) → wfVal v → wfVal (dropComments v)
  | .commented v t, h => by simp only [wfVal, dropComments] at *; exact wf_drop v h
  | .trailing v t, h => by simp only [wfVal, dropComments] at *; exact wf_drop v h
  | .seq _ _ xs, h => by simp only [wfVal, dropComments] at *; exact wfL_drop xs h
  | .frozenset _ xs, h => by simp only [wfVal, dropComments] at *; exact wfL_drop xs h
  | .dict _ kvs, h => by simp only [wfVal, dropComments] at *; exact wfP_drop kvs h
  | .call _ a k, h => by simp only [wfVal, dropComments] at *; exact ⟨wfL_drop a h.1, wfK_drop k h.2⟩
  | .none, _ => trivial
  | .ellipsis, _ => trivial
  | .bool _, _ => trivial
  | .opaque _, _ => trivial
  | .ident _, _ => trivial
  | .timedelta _ _ _, _ => trivial
  | .path _ _, h => h
  | .int _ _ _, _ => trivial
  | .float _ _ _ _ _, _ => trivial
  | .str _ _ _, h => h
theorem wfL_drop : (xs : List PyVal) → wfVals xs → wfVals (dropL xs)
  | [], _ => trivial
  | v :: r, h => by simp only [wfVals, dropL] at *; exact ⟨wf_drop v h.1, wfL_drop r h.2⟩
theorem wfK_drop : (xs : List (Str × PyVal)) → wfKws xs → wfKws (dropK xs)
  | [], _ => trivial
  | (_, v) :: r, h => by simp only [wfKws, dropK] at *; exact ⟨wf_drop v h.1, wfK_drop r h.2⟩
theorem wfP_drop : (xs : List (PyVal × PyVal)) → wfPairs xs → wfPairs (dropP xs)
  | [], _ => trivial
  | (k, v) :: r, h => by simp only [wfPairs, dropP] at *; exact ⟨wf_drop k h.1, wf_drop v h.2.1, wfP_drop r h.2.2⟩
end

end Tok
end PP
