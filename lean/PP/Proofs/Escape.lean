/-
C02: `escape_str_for_quote(q, s)` — repr, then (if repr chose the other quote) two `str.replace` chains — is exactly
repr's escaping carried out with quote `q`:  `escapeForQuote isBytes q s = reprBody isBytes q s`.
-/
import PP.Model.PyStr
namespace PP
namespace PyStr

/-- replacing a one-character pattern distributes over concatenation -/
theorem replaceAll_single_append (a : Nat) (rep : Str) (xs ys : Str) :
    replaceAll [a] rep (xs ++ ys) = replaceAll [a] rep xs ++ replaceAll [a] rep ys := by
  induction xs with
  | nil => simp [replaceAll]
  | cons c r ih =>
    simp only [List.cons_append]
    rw [replaceAll, replaceAll]
    by_cases hc : c = a
    · subst hc
      simp [List.isPrefixOf, ih]
    · have h1 : ¬ ([a].isPrefixOf (c :: (r ++ ys)) = true) := by simp [List.isPrefixOf]; exact fun h => hc h.symm
      have h2 : ¬ ([a].isPrefixOf (c :: r) = true) := by simp [List.isPrefixOf]; exact fun h => hc h.symm
      simp [h1, h2, ih]

theorem replaceAll_single_flatMap {α} (a : Nat) (rep : Str) (f : α → Str) (xs : List α) :
    replaceAll [a] rep (xs.flatMap f) = xs.flatMap (fun x => replaceAll [a] rep (f x)) := by
  induction xs with
  | nil => simp [replaceAll]
  | cons x r ih => simp [List.flatMap_cons, replaceAll_single_append, ih]

/-- a pattern whose first character does not occur is never found -/
theorem replaceAll_absent (pat rep : Str) (a : Nat) (p : Str) (hp : pat = a :: p) :
    ∀ (s : Str), a ∉ s → replaceAll pat rep s = s
  | [], _ => by simp [replaceAll]
  | c :: r, h => by
    rw [replaceAll]
    have hc : c ≠ a := fun e => h (by simp [e])
    have : ¬ (pat.isPrefixOf (c :: r) = true) := by
      subst hp; simp [List.isPrefixOf]; intro e; exact absurd e.symm hc
    simp [this]
    exact replaceAll_absent pat rep a p hp r (fun hm => h (by simp [hm]))

end PyStr
end PP

namespace PP
namespace PyStr

/-! ### scanning lemmas for the two-character pattern `\q` -/

theorem rep2_skip (q c : Nat) (rep r : Str) (hc : c ≠ BS) :
    replaceAll [BS, q] rep (c :: r) = c :: replaceAll [BS, q] rep r := by
  rw [replaceAll]
  have : ¬ ([BS, q].isPrefixOf (c :: r) = true) := by
    simp [List.isPrefixOf]; intro e; exact absurd e.symm hc
  simp [this]

theorem rep2_hit (q : Nat) (rep r : Str) :
    replaceAll [BS, q] rep (BS :: q :: r) = rep ++ replaceAll [BS, q] rep r := by
  rw [replaceAll]; simp [List.isPrefixOf]

theorem rep2_miss (q y : Nat) (rep r : Str) (hy : y ≠ q) :
    replaceAll [BS, q] rep (BS :: y :: r) = BS :: replaceAll [BS, q] rep (y :: r) := by
  rw [replaceAll]
  have : ¬ ([BS, q].isPrefixOf (BS :: y :: r) = true) := by
    simp [List.isPrefixOf]; intro e; exact absurd e.symm hy
  simp [this]

theorem rep2_last (q : Nat) (rep : Str) : replaceAll [BS, q] rep [BS] = [BS] := by
  rw [replaceAll]; simp [List.isPrefixOf, replaceAll]

theorem rep2_noBS (q : Nat) (rep : Str) : ∀ (t r : Str), BS ∉ t →
    replaceAll [BS, q] rep (t ++ r) = t ++ replaceAll [BS, q] rep r
  | [], r, _ => rfl
  | c :: t, r, h => by
    have hc : c ≠ BS := fun e => h (by simp [e])
    simp only [List.cons_append]
    rw [rep2_skip q c rep _ hc, rep2_noBS q rep t r (fun hm => h (by simp [hm]))]

/-! ### the shape of one character's image under repr -/

/-- the four shapes of `repr`'s image of one character when quoting with `q`:
the escaped quote, the escaped backslash, another escape (`\` + a character that is neither `\` nor a quote + hex
digits), or the character itself -/
inductive Img (q : Nat) : Str → Prop
  | quote : Img q [BS, q]
  | bslash : Img q [BS, BS]
  | esc (y : Nat) (t : Str) : y ≠ BS → y ≠ SQ → y ≠ DQ → BS ∉ t → SQ ∉ t → DQ ∉ t → Img q (BS :: y :: t)
  | raw (c : Nat) : c ≠ BS → c ≠ q → Img q [c]

theorem hexDigit_range (n : Nat) (h : n < 16) : (48 ≤ hexDigit n ∧ hexDigit n ≤ 57) ∨ (97 ≤ hexDigit n ∧ hexDigit n ≤ 102) := by
  unfold hexDigit; split <;> omega

theorem hexN_safe : ∀ (w v : Nat), ∀ x ∈ hexN w v, x ≠ BS ∧ x ≠ SQ ∧ x ≠ DQ
  | 0, _, x, h => by simp [hexN] at h
  | w + 1, v, x, h => by
    simp only [hexN, List.mem_append, List.mem_singleton] at h
    rcases h with h | rfl
    · exact hexN_safe w (v / 16) x h
    · have := hexDigit_range (v % 16) (Nat.mod_lt _ (by omega))
      simp only [BS, SQ, DQ]; omega

theorem notMem_hexN (w v a : Nat) (ha : a = BS ∨ a = SQ ∨ a = DQ) : a ∉ hexN w v := by
  intro h
  have := hexN_safe w v a h
  rcases ha with rfl | rfl | rfl <;> simp_all

end PyStr
end PP

namespace PP
namespace PyStr

/-- shape of the image of a character that is neither the quote in use nor a backslash -/
inductive RestImg (cp : Nat) : Str → Prop
  | esc (y : Nat) (t : Str) : y ≠ BS → y ≠ SQ → y ≠ DQ → BS ∉ t → SQ ∉ t → DQ ∉ t → RestImg cp (BS :: y :: t)
  | raw : RestImg cp [cp]

theorem restImg_str (c : PChar) : RestImg c.cp (reprRestStr c) := by
  unfold reprRestStr
  simp only []
  split
  · exact .esc 116 [] (by decide) (by decide) (by decide) (by simp) (by simp) (by simp)
  split
  · exact .esc 110 [] (by decide) (by decide) (by decide) (by simp) (by simp) (by simp)
  split
  · exact .esc 114 [] (by decide) (by decide) (by decide) (by simp) (by simp) (by simp)
  split
  · exact .esc 120 _ (by decide) (by decide) (by decide) (notMem_hexN _ _ _ (Or.inl rfl)) (notMem_hexN _ _ _ (Or.inr (Or.inl rfl))) (notMem_hexN _ _ _ (Or.inr (Or.inr rfl)))
  split
  · exact .raw
  split
  · exact .raw
  split
  · exact .esc 120 _ (by decide) (by decide) (by decide) (notMem_hexN _ _ _ (Or.inl rfl)) (notMem_hexN _ _ _ (Or.inr (Or.inl rfl))) (notMem_hexN _ _ _ (Or.inr (Or.inr rfl)))
  split
  · exact .esc 117 _ (by decide) (by decide) (by decide) (notMem_hexN _ _ _ (Or.inl rfl)) (notMem_hexN _ _ _ (Or.inr (Or.inl rfl))) (notMem_hexN _ _ _ (Or.inr (Or.inr rfl)))
  · exact .esc 85 _ (by decide) (by decide) (by decide) (notMem_hexN _ _ _ (Or.inl rfl)) (notMem_hexN _ _ _ (Or.inr (Or.inl rfl))) (notMem_hexN _ _ _ (Or.inr (Or.inr rfl)))

theorem restImg_bytes (c : PChar) : RestImg c.cp (reprRestBytes c) := by
  unfold reprRestBytes
  simp only []
  split
  · exact .esc 116 [] (by decide) (by decide) (by decide) (by simp) (by simp) (by simp)
  split
  · exact .esc 110 [] (by decide) (by decide) (by decide) (by simp) (by simp) (by simp)
  split
  · exact .esc 114 [] (by decide) (by decide) (by decide) (by simp) (by simp) (by simp)
  split
  · exact .esc 120 _ (by decide) (by decide) (by decide) (notMem_hexN _ _ _ (Or.inl rfl)) (notMem_hexN _ _ _ (Or.inr (Or.inl rfl))) (notMem_hexN _ _ _ (Or.inr (Or.inr rfl)))
  · exact .raw

/-- a quote character that is not escaped is printed as itself -/
theorem rest_quote_str (c : PChar) (h : c.cp = SQ ∨ c.cp = DQ) : reprRestStr c = [c.cp] := by
  unfold reprRestStr; rcases h with h | h <;> simp [h, SQ, DQ]
theorem rest_quote_bytes (c : PChar) (h : c.cp = SQ ∨ c.cp = DQ) : reprRestBytes c = [c.cp] := by
  unfold reprRestBytes; rcases h with h | h <;> simp [h, SQ, DQ]

/-- generic per-character facts, for `str` and `bytes` alike -/
structure CharRepr (rest : PChar → Str) : Prop where
  shape : ∀ c, RestImg c.cp (rest c)
  quote : ∀ c, (c.cp = SQ ∨ c.cp = DQ) → rest c = [c.cp]

def charOf (rest : PChar → Str) (q : Nat) (c : PChar) : Str :=
  if c.cp == q || c.cp == BS then [BS, c.cp] else rest c

theorem img_of (rest : PChar → Str) (hr : CharRepr rest) (q : Nat) (hq : q = SQ ∨ q = DQ) (c : PChar) :
    Img q (charOf rest q c) := by
  unfold charOf
  split
  · rename_i h
    simp only [Bool.or_eq_true, beq_iff_eq] at h
    rcases h with h | h
    · rw [h]; exact .quote
    · rw [h]; exact .bslash
  · rename_i h
    simp only [Bool.or_eq_true, beq_iff_eq, not_or] at h
    have hs := hr.shape c
    generalize rest c = img at hs ⊢
    cases hs with
    | esc y t h1 h2 h3 h4 h5 h6 => exact .esc y t h1 h2 h3 h4 h5 h6
    | raw => exact .raw _ h.2 h.1

/-- what the first replace chain turns an image into: `\q` becomes `q`, everything else stays -/
def unq (q : Nat) (img : Str) : Str := if img = [BS, q] then [q] else img

theorem scan_img (q : Nat) (hq : q = SQ ∨ q = DQ) (img : Str) (h : Img q img) (rest : Str) (hr : rest.head? ≠ some q) :
    replaceAll [BS, q] [q] (img ++ rest) = unq q img ++ replaceAll [BS, q] [q] rest := by
  have hqb : q ≠ BS := by rcases hq with rfl | rfl <;> decide
  cases h with
  | quote => simp [unq, rep2_hit]
  | bslash =>
    have hne : ([BS, BS] : Str) ≠ [BS, q] := by intro e; simp at e; exact hqb e.symm
    simp only [unq, hne, if_false, List.cons_append, List.nil_append]
    rw [rep2_miss q BS _ _ (fun e => hqb e.symm)]
    cases rest with
    | nil => simp [rep2_last, replaceAll]
    | cons z r =>
      have hz : z ≠ q := by intro e; apply hr; simp [e]
      rw [rep2_miss q z _ _ hz]
  | esc y t hy1 hy2 hy3 hb hs hd =>
    have hyq : y ≠ q := by rcases hq with rfl | rfl <;> assumption
    have hne : (BS :: y :: t) ≠ [BS, q] := by intro e; simp at e; exact hyq e.1
    simp only [unq, hne, if_false, List.cons_append]
    rw [rep2_miss q y _ _ hyq, rep2_skip q y _ _ hy1, rep2_noBS q _ t rest hb]
  | raw c hc1 hc2 =>
    have hne : ([c] : Str) ≠ [BS, q] := by simp
    simp only [unq, hne, if_false, List.cons_append, List.nil_append]
    rw [rep2_skip q c _ _ hc1]

theorem img_head (q : Nat) (img : Str) (h : Img q img) (hq : q = SQ ∨ q = DQ) : ∃ c r, img = c :: r ∧ c ≠ q := by
  have hqb : q ≠ BS := by rcases hq with rfl | rfl <;> decide
  cases h with
  | quote => exact ⟨BS, _, rfl, fun e => hqb e.symm⟩
  | bslash => exact ⟨BS, _, rfl, fun e => hqb e.symm⟩
  | esc y t _ _ _ _ _ _ => exact ⟨BS, _, rfl, fun e => hqb e.symm⟩
  | raw c _ hc => exact ⟨c, _, rfl, hc⟩

/-- first replace chain over a whole body: every `\q` image becomes `q`, nothing else changes -/
theorem scan_body (q : Nat) (hq : q = SQ ∨ q = DQ) (f : PChar → Str) (hf : ∀ c, Img q (f c)) :
    ∀ (s : PS), replaceAll [BS, q] [q] (s.flatMap f) = s.flatMap (fun c => unq q (f c)) ∧
      (s.flatMap f).head? ≠ some q
  | [] => by simp [replaceAll]
  | c :: r => by
    obtain ⟨ih1, ih2⟩ := scan_body q hq f hf r
    constructor
    · simp only [List.flatMap_cons]
      rw [scan_img q hq (f c) (hf c) _ ih2, ih1]
    · obtain ⟨x, t, e, hx⟩ := img_head q (f c) (hf c) hq
      simp only [List.flatMap_cons, e, List.cons_append, List.head?_cons]
      intro h; exact hx (by simpa using h)

theorem rep1_absent (a : Nat) (rep s : Str) (h : a ∉ s) : replaceAll [a] rep s = s :=
  replaceAll_absent [a] rep a [] rfl s h

theorem rep1_hit (a : Nat) (rep : Str) : replaceAll [a] rep [a] = rep := by
  rw [replaceAll]; simp [List.isPrefixOf, replaceAll]

/-- second replace chain, one character: re-escaping for the other quote gives repr's image for that quote -/
theorem requote (rest : PChar → Str) (hr : CharRepr rest) (q q' : Nat)
    (hq : (q = SQ ∧ q' = DQ) ∨ (q = DQ ∧ q' = SQ)) (c : PChar) :
    replaceAll [q'] [BS, q'] (unq q (charOf rest q c)) = charOf rest q' c := by
  have hne : q ≠ q' := by rcases hq with ⟨rfl, rfl⟩ | ⟨rfl, rfl⟩ <;> decide
  have hqb : q ≠ BS ∧ q' ≠ BS := by rcases hq with ⟨rfl, rfl⟩ | ⟨rfl, rfl⟩ <;> decide
  have hqq : (q = SQ ∨ q = DQ) ∧ (q' = SQ ∨ q' = DQ) := by rcases hq with ⟨rfl, rfl⟩ | ⟨rfl, rfl⟩ <;> simp
  by_cases h1 : c.cp = q
  · have e1 : charOf rest q c = [BS, q] := by simp [charOf, h1]
    have e2 : charOf rest q' c = [q] := by
      have := hr.quote c (by rw [h1]; exact hqq.1)
      simp [charOf, h1, hne, hqb.1, this]
    rw [e1, e2]
    simp only [unq, if_true]
    exact rep1_absent q' _ [q] (by simp; exact fun e => hne e.symm)
  · by_cases hb : c.cp = BS
    · have e1 : charOf rest q c = [BS, BS] := by simp [charOf, hb]
      have e2 : charOf rest q' c = [BS, BS] := by simp [charOf, hb]
      have hu : unq q [BS, BS] = [BS, BS] := by
        simp [unq]; exact fun e => hqb.1 e.symm
      rw [e1, e2, hu]
      exact rep1_absent q' _ _ (by simp; exact hqb.2)
    · have e1 : charOf rest q c = rest c := by simp [charOf, h1, hb]
      have hu : unq q (rest c) = rest c := by
        unfold unq; split
        · rename_i heq
          exfalso
          have hs := hr.shape c
          generalize rest c = img at hs heq
          cases hs with
          | esc y t hy1 hy2 hy3 _ _ _ =>
            simp at heq
            rcases hqq.1 with rfl | rfl
            · exact hy2 heq.1
            · exact hy3 heq.1
          | raw => simp at heq
        · rfl
      rw [e1, hu]
      by_cases h2 : c.cp = q'
      · have e2 : charOf rest q' c = [BS, q'] := by simp [charOf, h2]
        have := hr.quote c (by rw [h2]; exact hqq.2)
        rw [this, e2, h2, rep1_hit]
      · have e2 : charOf rest q' c = rest c := by simp [charOf, h2, hb]
        rw [e2]
        apply rep1_absent
        have hsh := hr.shape c
        generalize rest c = img at hsh ⊢
        cases hsh with
        | esc y t hy1 hy2 hy3 hb' hs hd =>
          simp only [List.mem_cons, not_or]
          refine ⟨hqb.2, ?_, ?_⟩
          · rcases hqq.2 with rfl | rfl
            · exact fun e => hy2 e.symm
            · exact fun e => hy3 e.symm
          · rcases hqq.2 with rfl | rfl <;> assumption
        | raw => simp; exact fun e => h2 e.symm

/-- escape_str_for_quote over a generic character function -/
theorem escape_generic (rest : PChar → Str) (hr : CharRepr rest) (q rq : Nat) (hq : q = SQ ∨ q = DQ)
    (hrq : rq = SQ ∨ rq = DQ) (s : PS) :
    (if rq == q then s.flatMap (charOf rest rq)
     else if q == SQ then replaceAll [SQ] [BS, SQ] (replaceAll [BS, DQ] [DQ] (s.flatMap (charOf rest rq)))
     else replaceAll [DQ] [BS, DQ] (replaceAll [BS, SQ] [SQ] (s.flatMap (charOf rest rq)))) =
    s.flatMap (charOf rest q) := by
  by_cases he : rq = q
  · simp [he]
  · have hne : ¬ (rq == q) = true := by simpa using he
    rw [if_neg hne]
    rcases hq with rfl | rfl
    · -- q = SQ, so rq = DQ
      have hrq' : rq = DQ := by rcases hrq with h | h; exact absurd h he; exact h
      subst hrq'
      rw [if_pos (by decide)]
      rw [(scan_body DQ (Or.inr rfl) _ (img_of rest hr DQ (Or.inr rfl)) s).1, replaceAll_single_flatMap]
      congr 1; funext c
      exact requote rest hr DQ SQ (Or.inr ⟨rfl, rfl⟩) c
    · have hrq' : rq = SQ := by rcases hrq with h | h; exact h; exact absurd h he
      subst hrq'
      rw [if_neg (by decide)]
      rw [(scan_body SQ (Or.inl rfl) _ (img_of rest hr SQ (Or.inl rfl)) s).1, replaceAll_single_flatMap]
      congr 1; funext c
      exact requote rest hr SQ DQ (Or.inl ⟨rfl, rfl⟩) c

theorem reprQuote_is_quote (s : PS) : reprQuote s = SQ ∨ reprQuote s = DQ := by
  unfold reprQuote; split <;> simp

/-- **escape_str_for_quote(q, s) is repr's escaping with quote q** — for `str` and `bytes`, every value and both
quotes: whichever quote `repr` picked, the two `replace` chains turn its output into the escaping for `q` -/
theorem escapeForQuote_eq (isBytes : Bool) (q : Nat) (hq : q = SQ ∨ q = DQ) (s : PS) :
    escapeForQuote isBytes q s = reprBody isBytes q s := by
  unfold escapeForQuote reprBody
  simp only []
  cases isBytes with
  | true =>
    have hr : CharRepr reprRestBytes := ⟨restImg_bytes, rest_quote_bytes⟩
    have e : ∀ q', reprCharBytes q' = charOf reprRestBytes q' := fun _ => rfl
    simpa [e] using escape_generic reprRestBytes hr q (reprQuote s) hq (reprQuote_is_quote s) s
  | false =>
    have hr : CharRepr reprRestStr := ⟨restImg_str, rest_quote_str⟩
    have e : ∀ q', reprCharStr q' = charOf reprRestStr q' := fun _ => rfl
    simpa [e] using escape_generic reprRestStr hr q (reprQuote s) hq (reprQuote_is_quote s) s

end PyStr
end PP
