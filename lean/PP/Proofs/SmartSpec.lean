/-
C06, reason (c): what the smart look-ahead demands, without budgets that run down.  `demands cfg mn budget acc stk` walks the
stack like `smart_fitting_predicate` and lists one pair `(budget, chars)` per output line it looks at: the line the group starts
on (budget = what page and ribbon leave), and then every following line as long as each line break it passes is indented MORE
than `mn` = min(column, indentation) at the group — those lines get the budget `page width − their indentation` (the ribbon is
not consulted for them).  `none`: a forced break starts on one of these lines.  `fitsSmart = true ↔ every demand is met`.
(For documents without `align` and string contextuals, whose evaluation depends on the column the predicate has in mind.)
-/
import PP.Proofs.FitsE
namespace PP
open Doc

/-- classic documents without `align` -/
inductive Classic0 : Doc → Prop
  | nil : Classic0 .nil
  | text : Classic0 (.text s)
  | hardline : Classic0 .hardline
  | cat : (∀ d ∈ ds, Classic0 d) → Classic0 (.cat ds)
  | nest : Classic0 d → Classic0 (.nest j d)
  | group : Classic0 d → Classic0 (.group d)
  | line : Classic0 (.choice l .hardline (.text s))
  | softline : Classic0 (.choice l .hardline .nil)
  | ab : Classic0 d → Classic0 (.ab d)
  | ann : Classic0 d → Classic0 (.ann a d)

theorem Classic0.classic {d : Doc} (h : Classic0 d) : Classic d := by
  induction h with
  | nil => exact .nil
  | text => exact .text
  | hardline => exact .hardline
  | cat _ ih => exact .cat ih
  | nest _ ih => exact .nest ih
  | group _ ih => exact .group ih
  | line => exact .line
  | softline => exact .softline
  | ab _ ih => exact .ab ih
  | ann _ ih => exact .ann ih

def Classic0Item : Item → Prop
  | .doc d => Classic0 d
  | .pop _ => True

def AllClassic0 (stk : List Triple) : Prop := ∀ t ∈ stk, Classic0Item t.2.2

theorem AllClassic0.tail {t r} (h : AllClassic0 (t :: r)) : AllClassic0 r := fun x hx => h x (by simp [hx])
theorem AllClassic0.head {i m it r} (h : AllClassic0 ((i, m, it) :: r)) : Classic0Item it := h (i, m, it) (by simp)
theorem AllClassic0.cons {i m it r} (h1 : Classic0Item it) (h2 : AllClassic0 r) : AllClassic0 ((i, m, it) :: r) := by
  intro t ht; simp at ht; rcases ht with rfl | ht
  · exact h1
  · exact h2 t ht
theorem AllClassic0.pushAll {i m ds r} (h1 : ∀ d ∈ ds, Classic0 d) (h2 : AllClassic0 r) : AllClassic0 (pushAll i m ds r) := by
  induction ds with
  | nil => exact h2
  | cons d ds ih => exact .cons (it := .doc d) (h1 d (by simp)) (ih (fun x hx => h1 x (by simp [hx])))
theorem AllClassic0.allClassic {stk} (h : AllClassic0 stk) : AllClassic stk := by
  intro t ht
  have := h t ht
  obtain ⟨i, m, it⟩ := t
  cases it with
  | doc d => exact Classic0.classic this
  | pop a => trivial

theorem classic0_pick {m l b f} (h : Classic0 (.choice l b f)) : Classic0 (pick m l b f) := by
  cases h <;> cases m <;> cases l <;> simp [pick, Doc.normalize] <;> constructor

/-- the demands of the smart look-ahead: `(budget, characters)` per line it looks at -/
def demands (cfg : Cfg) (mn : Int) (budget : Int) (acc : Nat) (stk : List Triple) : Option (List (Int × Nat)) :=
  match stk with
  | [] => some [(budget, acc)]
  | (i, m, it) :: r =>
    match it with
    | .pop _ => demands cfg mn budget acc r
    | .doc d =>
      match d with
      | .nil => demands cfg mn budget acc r
      | .text s => demands cfg mn budget (acc + s.length) r
      | .cat ds => demands cfg mn budget acc (pushAll i m ds r)
      | .ann _ d => demands cfg mn budget acc ((i, m, .doc d) :: r)
      | .fill ds => demands cfg mn budget acc (pushAll i m ds r)
      | .nest j d => demands cfg mn budget acc ((i + j, m, .doc d) :: r)
      | .ab _ => none
      | .hardline =>
          if i > mn then (demands cfg mn (cfg.w - i) 0 r).map ((budget, acc) :: ·) else some [(budget, acc)]
      | .choice l b f => demands cfg mn budget acc ((i, m, .doc (pick m l b f)) :: r)
      | .group d => demands cfg mn budget acc ((i, .flat, .doc d) :: r)
      | .align _ => none
      | .pstr _ => none
termination_by stkSize stk
decreasing_by
  all_goals simp_wf
  all_goals simp only [stkSize, Item.size, Doc.size, stkSize_pushAll]
  all_goals first
    | omega
    | (have := Doc.sizes_le_sizesF ‹List Doc›; omega)
    | (exact Nat.add_lt_add_right (size_pick _ _ _ _) _)

def Met (obs : List (Int × Nat)) : Prop := ∀ p ∈ obs, (p.2 : Int) ≤ p.1

/-- the first demand is for the current line and counts at least what is already on it -/
theorem demands_head (cfg : Cfg) (mn budget : Int) (acc : Nat) (stk : List Triple) (obs : List (Int × Nat))
    (h : demands cfg mn budget acc stk = some obs) : ∃ n rest, obs = (budget, n) :: rest ∧ acc ≤ n := by
  fun_induction demands cfg mn budget acc stk generalizing obs with
  | case1 budget acc => cases h; exact ⟨acc, [], rfl, Nat.le_refl _⟩
  | case2 budget acc i m r a ih => exact ih obs h
  | case3 budget acc i m r ih => exact ih obs h
  | case4 budget acc i m r s ih =>
    obtain ⟨n, rest, e, hn⟩ := ih obs h
    exact ⟨n, rest, e, by omega⟩
  | case5 budget acc i m r ds ih => exact ih obs h
  | case6 budget acc i m r a d ih => exact ih obs h
  | case7 budget acc i m r ds ih => exact ih obs h
  | case8 budget acc i m r j d ih => exact ih obs h
  | case9 budget acc i m r d => cases h
  | case10 budget acc i m r hi ih =>
    cases hd : demands cfg mn (cfg.w - i) 0 r with
    | none => simp [hd] at h
    | some o => simp [hd] at h; exact ⟨acc, o, h.symm, Nat.le_refl _⟩
  | case11 budget acc i m r hi => cases h; exact ⟨acc, [], rfl, Nat.le_refl _⟩
  | case12 budget acc i m r l b f ih => exact ih obs h
  | case13 budget acc i m r d ih => exact ih obs h
  | case14 budget acc i m r d => cases h
  | case15 budget acc i m r sp => cases h

theorem met_cons {b : Int} {n : Nat} {rest : List (Int × Nat)} : Met ((b, n) :: rest) ↔ (n : Int) ≤ b ∧ Met rest := by
  simp [Met]

/-- **the smart predicate holds iff every demand is met** (documents without `align` / string contextuals) -/
theorem fitsSmart_iff_demands (cfg : Cfg) (mn mw left : Int) (stk : List Triple) (hc : AllClassic0 stk)
    (budget : Int) (acc : Nat) (hl : left = budget - acc) :
    fitsSmart cfg mn mw left stk = true ↔ ∃ obs, demands cfg mn budget acc stk = some obs ∧ Met obs := by
  fun_induction fitsSmart cfg mn mw left stk generalizing budget acc with
  | case1 left stk hneg =>
    constructor
    · intro h; cases h
    · rintro ⟨obs, hd, hm⟩
      obtain ⟨n, rest, e, hn⟩ := demands_head cfg mn budget acc stk obs hd
      subst e
      have := (met_cons.mp hm).1
      omega
  | case2 left hl0 =>
    rw [demands]
    constructor
    · intro _; exact ⟨_, rfl, by simp [Met]; omega⟩
    · intro _; rfl
  | case3 left hl0 i m r a ih => rw [demands]; exact ih hc.tail budget acc hl
  | case4 left hl0 i m r ih => rw [demands]; exact ih hc.tail budget acc hl
  | case5 left hl0 i m r s ih =>
    rw [demands]; exact ih hc.tail budget (acc + s.length) (by push_cast; omega)
  | case6 left hl0 i m r ds ih =>
    have hcat : Classic0 (.cat ds) := hc.head
    cases hcat with
    | cat hds => rw [demands]; exact ih (AllClassic0.pushAll hds hc.tail) budget acc hl
  | case7 left hl0 i m r a d ih =>
    have hann : Classic0 (.ann a d) := hc.head
    cases hann with
    | ann hd => rw [demands]; exact ih (AllClassic0.cons (it := .doc d) hd hc.tail) budget acc hl
  | case8 left hl0 i m r ds ih => exact absurd (hc.head : Classic0 (.fill ds)) (by intro h; cases h)
  | case9 left hl0 i m r j d ih =>
    have hn : Classic0 (.nest j d) := hc.head
    cases hn with
    | nest hd => rw [demands]; exact ih (AllClassic0.cons (it := .doc d) hd hc.tail) budget acc hl
  | case10 left hl0 i m r d =>
    rw [demands]; simp
  | case11 left hl0 i m r hi ih =>
    rw [demands]
    simp only [hi, if_true]
    rw [ih hc.tail (cfg.w - i) 0 (by simp)]
    constructor
    · rintro ⟨obs, hd, hm⟩
      exact ⟨(budget, acc) :: obs, by simp [hd], met_cons.mpr ⟨by omega, hm⟩⟩
    · rintro ⟨obs, hd, hm⟩
      cases hd' : demands cfg mn (cfg.w - i) 0 r with
      | none => simp [hd'] at hd
      | some o =>
        simp [hd'] at hd; subst hd
        exact ⟨o, rfl, (met_cons.mp hm).2⟩
  | case12 left hl0 i m r hi =>
    rw [demands]
    simp only [hi, if_false]
    constructor
    · intro _; exact ⟨_, rfl, by simp [Met]; omega⟩
    · intro _; trivial
  | case13 left hl0 i m r l b f ih =>
    have hch : Classic0 (.choice l b f) := hc.head
    rw [demands]; exact ih (AllClassic0.cons (it := .doc _) (classic0_pick hch) hc.tail) budget acc hl
  | case14 left hl0 i m r d ih =>
    have hg : Classic0 (.group d) := hc.head
    cases hg with
    | group hd => rw [demands]; exact ih (AllClassic0.cons (it := .doc d) hd hc.tail) budget acc hl
  | case15 left hl0 i m r d ih => exact absurd (hc.head : Classic0 (.align d)) (by intro h; cases h)
  | case16 left hl0 i m r sp ih => exact absurd (hc.head : Classic0 (.pstr sp)) (by intro h; cases h)

end PP
