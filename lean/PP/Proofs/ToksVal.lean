/-
Tokens of printed values: `canonW ctx v tr` — a function of the value, the depth / max_seq_len / sort settings and the
trailing comment, but *not* of the indent, the width or the ribbon — is the token sequence of every document the printers
build for `v` (`toksOf (toDocW ctx v c tr) = canonW ctx v tr`), and those documents are layout-invariant (`TInv`).
-/
import PP.Proofs.ToksComb
import PP.Props.Values
namespace PP
namespace Tok
open Doc PyStr Pr

def callToks (fn : QualName) (args : List (List CT)) : List CT := cd fn.2 ++ [LP] ++ seqToks args false ++ [RP]
def ellToks (fn : QualName) : List CT := cd fn.2 ++ [LP, ELL, RP]
def emptyCallToks (ctx : Ctx) (fn : QualName) : List CT :=
  if ctx.depthLeft.any (· == 0) then ellToks fn else cd fn.2 ++ [LP, RP]
def wrapToks (cls : Option QualName) (inner : List CT) : List CT :=
  match cls with | none => inner | some q => callToks q [inner]
def bracketToks (kind : Nat) : CT × CT :=
  if kind == 0 then (.code [91], .code [93]) else if kind == 1 then (LP, RP) else (.code [123], .code [125])

@[simp] theorem toksOf_ellipsisCall (fn : QualName) : toksOf (ellipsisCall fn) = ellToks fn := by
  simp [ellipsisCall, ellToks, toksOf, toksOfL]
@[simp] theorem tinv_ellipsisCall (P) (fn : QualName) : TInv P (ellipsisCall fn) := by
  simp [ellipsisCall, TInv, TInvL]
@[simp] theorem toksOf_emptyCall (ctx : Ctx) (fn : QualName) : toksOf (emptyCall ctx fn) = emptyCallToks ctx fn := by
  unfold emptyCall emptyCallToks; split <;> simp [toksOf, toksOfL]
@[simp] theorem tinv_emptyCall (P) (ctx : Ctx) (fn : QualName) : TInv P (emptyCall ctx fn) := by
  unfold emptyCall; split <;> simp [TInv, TInvL]

theorem toksOf_brackets (kind : Nat) :
    toksOf (brackets kind).1 = [(bracketToks kind).1] ∧ toksOf (brackets kind).2 = [(bracketToks kind).2] := by
  unfold brackets bracketToks; split
  · simp
  · split <;> simp

theorem tinv_brackets (P) (kind : Nat) : TInv P (brackets kind).1 ∧ TInv P (brackets kind).2 := by
  unfold brackets; split
  · simp
  · split <;> simp

theorem takeOpt_map {α β} (f : α → β) (n : Option Nat) (xs : List α) : (takeOpt n xs).map f = takeOpt n (xs.map f) := by
  cases n <;> simp [takeOpt, List.map_take]

/-- hugged single-argument call -/
theorem toksOf_hug1 (ind : Int) (fn : QualName) (a : Doc) :
    toksOf (buildFncall ind (generalIdentifier fn) [a] [] true none) = callToks fn [toksOf a] := by
  rw [toksOf_buildFncall]; simp [callToks]

/-! ### lists, tuples, sets -/

def seqCanon (ctx : Ctx) (kind : Nat) (cls : Option QualName) (len : Nat) (els : List (List CT)) (tr : Option PS) : List CT :=
  let fn := cls.getD (builtin (seqName kind))
  let (l, r) := bracketToks kind
  let tr := withTruncation len ctx.maxSeqLen tr
  if len == 0 then
    if kind != 2 && cls.isNone then [l, r] else emptyCallToks ctx fn
  else if ctx.depthZero then
    if kind != 2 then
      let literal := [l, ELL, r]
      if cls.isNone then literal else callToks fn [literal]
    else ellToks fn
  else
    let els := if len == 1 then els else takeOpt ctx.maxSeqLen els
    let dangle := kind == 1 && len == 1
    let (els, dangle) := match tr with
      | some _ => (els ++ [[]], false)
      | none => (els, dangle)
    let literal := [l] ++ seqToks els dangle ++ [r]
    if cls.isNone then literal else callToks fn [literal]

theorem toksOf_seqDoc (ctx : Ctx) (kind : Nat) (cls : Option QualName) (len : Nat) (els : List Doc) (tr : Option PS)
    (hlen : els.length = len) :
    toksOf (seqDoc ctx kind cls len els tr) = seqCanon ctx kind cls len (els.map toksOf) tr := by
  obtain ⟨hb1, hb2⟩ := toksOf_brackets kind
  unfold seqDoc seqCanon
  simp only []
  split
  · split <;> simp [toksOf, toksOfL, hb1, hb2]
  · rename_i hl0
    split
    · split
      · split
        · simp [toksOf, toksOfL, hb1, hb2]
        · rw [toksOf_hug1]; simp [toksOf, toksOfL, hb1, hb2]
      · simp
    · -- the general case
      cases htr : withTruncation len ctx.maxSeqLen tr with
      | some t =>
        simp only [Option.isSome_some]
        have hseq := toksOf_sequenceOfDocs ctx.indent (brackets kind).1 (brackets kind).2
          ((if (len == 1) = true then els else takeOpt ctx.maxSeqLen els) ++ [commentdoc t]) false true (by simp)
        split
        · rw [hseq]; simp [hb1, hb2, List.map_append, takeOpt_map]
          split <;> simp [takeOpt_map]
        · rw [toksOf_hug1, hseq]; simp [hb1, hb2, List.map_append, takeOpt_map]
          split <;> simp [takeOpt_map]
      | none =>
        simp only [Option.isSome_none]
        have hnn : (if (len == 1) = true then els else takeOpt ctx.maxSeqLen els) ≠ [] := by
          have hlen0 : len ≠ 0 := by simpa using hl0
          split
          · intro e; subst e; simp at hlen; omega
          · -- not truncated, so every element is kept
            unfold withTruncation at htr
            cases hm : ctx.maxSeqLen with
            | none => simp [takeOpt]; intro e; subst e; simp at hlen; omega
            | some n =>
              simp only [hm] at htr
              split at htr
              · split at htr <;> (try split at htr) <;> cases htr
              · rename_i hgt
                simp only [takeOpt]
                intro e
                have h1 : (els.take n).length = min n els.length := List.length_take
                rw [e] at h1
                simp only [List.length_nil] at h1
                omega
        have hseq := toksOf_sequenceOfDocs ctx.indent (brackets kind).1 (brackets kind).2
          (if (len == 1) = true then els else takeOpt ctx.maxSeqLen els) (kind == 1 && len == 1) false hnn
        split
        · rw [hseq]; simp [hb1, hb2, takeOpt_map]
          split <;> simp [takeOpt_map]
        · rw [toksOf_hug1, hseq]; simp [hb1, hb2, takeOpt_map]
          split <;> simp [takeOpt_map]

theorem tinv_hug1 (P) (ind : Int) (fn : QualName) (a : Doc) (h : TInv P a) :
    TInv P (buildFncall ind (generalIdentifier fn) [a] [] true none) :=
  tinv_buildFncall P _ _ _ _ _ (by simp) (by simp [TInvL, h]) (by simp)

theorem tinvL_takeOpt (P) (n : Option Nat) : ∀ (xs : List Doc), TInvL P xs → TInvL P (takeOpt n xs) := by
  cases n with
  | none => intro xs h; exact h
  | some k =>
    simp only [takeOpt]
    induction k with
    | zero => intro xs _; simp [TInvL]
    | succ k ih =>
      intro xs h
      cases xs with
      | nil => simp [TInvL]
      | cons x r => simp only [List.take_succ_cons, TInvL] at h ⊢; exact ⟨h.1, ih r h.2⟩

theorem tinv_seqDoc (P) (ctx : Ctx) (kind : Nat) (cls : Option QualName) (len : Nat) (els : List Doc) (tr : Option PS)
    (hels : TInvL P els) : TInv P (seqDoc ctx kind cls len els tr) := by
  obtain ⟨hb1, hb2⟩ := tinv_brackets P kind
  have hels' : TInvL P (if (len == 1) = true then els else takeOpt ctx.maxSeqLen els) := by
    split
    · exact hels
    · exact tinvL_takeOpt P _ _ hels
  unfold seqDoc
  simp only []
  split
  · split <;> simp [TInv, TInvL, hb1, hb2]
  · split
    · split
      · split
        · simp [TInv, TInvL, hb1, hb2]
        · exact tinv_hug1 P _ _ _ (by simp [TInv, TInvL, hb1, hb2])
      · simp
    · cases withTruncation len ctx.maxSeqLen tr with
      | some t =>
        simp only []
        have hs := tinv_sequenceOfDocs P ctx.indent (brackets kind).1 (brackets kind).2
          ((if (len == 1) = true then els else takeOpt ctx.maxSeqLen els) ++ [commentdoc t]) false (some t).isSome hb1 hb2
          ((tinvL_append P _ _).mpr ⟨hels', by simp [TInvL]⟩)
        split
        · exact hs
        · exact tinv_hug1 P _ _ _ hs
      | none =>
        simp only []
        have hs := tinv_sequenceOfDocs P ctx.indent (brackets kind).1 (brackets kind).2
          (if (len == 1) = true then els else takeOpt ctx.maxSeqLen els) (kind == 1 && len == 1) (none : Option PS).isSome hb1 hb2 hels'
        split
        · exact hs
        · exact tinv_hug1 P _ _ _ hs

/-! documents that are never a comment annotation themselves -/

theorem nc_buildFncall (ind : Int) (fn : Doc) (args : List Doc) (kw : List (Str × Doc)) (hug : Bool) :
    commented? (buildFncall ind fn args kw hug none) = none := by
  unfold buildFncall
  simp only []
  split
  · rfl
  · have hr : ∀ all, commented? (buildFncall.buildRest ind fn all none) = none := by
      intro all; unfold buildFncall.buildRest; simp only [Bool.false_eq_true, if_false]; split <;> rfl
    split
    · split
      · rfl
      · exact hr _
    · exact hr _

theorem nc_sequenceOfDocs (ind : Int) (l r : Doc) (docs : List Doc) (dg fb : Bool) :
    commented? (sequenceOfDocs ind l docs r dg fb) = none := by
  unfold sequenceOfDocs; simp only []; split <;> rfl

theorem nc_emptyCall (ctx : Ctx) (fn : QualName) : commented? (emptyCall ctx fn) = none := by
  unfold emptyCall; split <;> rfl

theorem nc_seqDoc (ctx : Ctx) (kind : Nat) (cls : Option QualName) (len : Nat) (els : List Doc) (tr : Option PS) :
    commented? (seqDoc ctx kind cls len els tr) = none := by
  unfold seqDoc
  simp only []
  split
  · split
    · rfl
    · exact nc_emptyCall _ _
  · split
    · split
      · split
        · rfl
        · exact nc_buildFncall _ _ _ _ _
      · rfl
    · cases withTruncation len ctx.maxSeqLen tr <;> simp only [] <;> split <;>
        first | exact nc_sequenceOfDocs _ _ _ _ _ _ | exact nc_buildFncall _ _ _ _ _

/-! ### dicts -/

theorem toksOf_dictPart (ind : Int) (last : Bool) (kdoc vdoc : Doc) (kc vc : Option PS) (rer : Doc) :
    toksOf (dictPart ind last kdoc vdoc kc vc rer) =
      toksOf kdoc ++ [COLON_T] ++ (if vc.isSome then toksOf rer else toksOf vdoc) ++ (if last then [] else [COMMA_T]) := by
  unfold dictPart
  cases kc <;> cases vc <;> cases last <;> simp [toksOf, toksOfL, isBlank]

theorem tinv_dictPart (P) (ind : Int) (last : Bool) (kdoc vdoc : Doc) (kc vc : Option PS) (rer : Doc)
    (hk : TInv P kdoc) (hv : TInv P vdoc) (hr : vc.isSome → TInv P rer ∧ toksOf rer = toksOf vdoc) :
    TInv P (dictPart ind last kdoc vdoc kc vc rer) := by
  unfold dictPart
  cases kc <;> cases vc <;> cases last <;>
    simp [TInv, TInvL, toksOf, toksOfL, isBlank, hk, hv] <;>
    (first | exact ⟨(hr rfl).1, by rw [(hr rfl).2]; exact TEq.refl _⟩ | skip)

def dictPairToks : List (PyVal × List CT × List CT) → List CT
  | [] => []
  | [(_, kt, vt)] => kt ++ [COLON_T] ++ vt
  | (_, kt, vt) :: p2 :: r => kt ++ [COLON_T] ++ vt ++ [COMMA_T] ++ dictPairToks (p2 :: r)

def pdToks (pd : PairDocs) : PyVal × List CT × List CT := (pd.1, toksOf pd.2.1, toksOf pd.2.2.1)

/-- the re-rendered value (used when the value carries a comment) has the tokens of the value document and is invariant -/
def RerOk (P : StrSpec → Prop) (pd : PairDocs) : Prop :=
  ∀ c d, commented? pd.2.2.1 = some (c, d) → TInv P pd.2.2.2 ∧ toksOf pd.2.2.2 = toksOf pd.2.2.1

theorem toksOfL_dictPartsOf (P) (ind : Int) (n : Nat) : ∀ (pds : List PairDocs) (idx : Nat), idx + pds.length = n →
    (∀ pd ∈ pds, RerOk P pd) →
    toksOfL (dictPartsOf ind n pds idx).1 = dictPairToks (pds.map pdToks)
  | [], _, _, _ => by simp [dictPartsOf, toksOfL, dictPairToks]
  | [pd], idx, hn, hr => by
    obtain ⟨k, kdoc0, vdoc0, rer⟩ := pd
    have hlast : (idx + 1 == n) = true := by simp at hn; simp [hn]
    have hro := hr (k, kdoc0, vdoc0, rer) (by simp)
    simp only [RerOk] at hro
    rw [dictPartsOf]
    simp only [hlast, dictPartsOf, toksOfL, List.append_nil, List.map_cons, List.map_nil, dictPairToks, pdToks, toksOf_dictPart]
    cases hkc : commented? kdoc0 <;> cases hvc : commented? vdoc0 <;> simp only []
    · simp [nonEmpty?]
    · rename_i p; obtain ⟨c, d⟩ := p
      have := toksOf_commented hvc
      have h2 := (hro c d hvc).2
      simp only [nonEmpty?]; split <;> simp [this, h2]
    · rename_i p; obtain ⟨c, d⟩ := p
      simp [nonEmpty?, toksOf_commented hkc]
    · rename_i p1 p2; obtain ⟨c1, d1⟩ := p1; obtain ⟨c2, d2⟩ := p2
      have := toksOf_commented hvc
      have h2 := (hro c2 d2 hvc).2
      simp only [nonEmpty?]; split <;> simp [this, h2, toksOf_commented hkc]
  | pd :: pd2 :: r, idx, hn, hr => by
    obtain ⟨k, kdoc0, vdoc0, rer⟩ := pd
    have hlast : (idx + 1 == n) = false := by simp at hn; simp; omega
    have ih := toksOfL_dictPartsOf P ind n (pd2 :: r) (idx + 1) (by simp at hn ⊢; omega) (fun x hx => hr x (by simp [hx]))
    have hro := hr (k, kdoc0, vdoc0, rer) (by simp)
    simp only [RerOk] at hro
    rw [dictPartsOf]
    simp only [hlast, toksOfL, List.map_cons, dictPairToks, pdToks, toksOf_dictPart]
    simp only [List.map_cons, pdToks] at ih
    rw [ih]
    cases hkc : commented? kdoc0 <;> cases hvc : commented? vdoc0 <;> simp only []
    · simp [nonEmpty?]
    · rename_i p; obtain ⟨c, d⟩ := p
      have := toksOf_commented hvc
      have h2 := (hro c d hvc).2
      simp only [nonEmpty?]; split <;> simp [this, h2]
    · rename_i p; obtain ⟨c, d⟩ := p
      simp [nonEmpty?, toksOf_commented hkc]
    · rename_i p1 p2; obtain ⟨c1, d1⟩ := p1; obtain ⟨c2, d2⟩ := p2
      have := toksOf_commented hvc
      have h2 := (hro c2 d2 hvc).2
      simp only [nonEmpty?]; split <;> simp [this, h2, toksOf_commented hkc]

theorem tinvL_dictPartsOf (P) (ind : Int) (n : Nat) : ∀ (pds : List PairDocs) (idx : Nat),
    (∀ pd ∈ pds, TInv P pd.2.1 ∧ TInv P pd.2.2.1 ∧ RerOk P pd) →
    TInvL P (dictPartsOf ind n pds idx).1
  | [], _, _ => by simp [dictPartsOf, TInvL]
  | pd :: r, idx, hr => by
    obtain ⟨k, kdoc0, vdoc0, rer⟩ := pd
    have ih := tinvL_dictPartsOf P ind n r (idx + 1) (fun x hx => hr x (by simp [hx]))
    obtain ⟨hk, hv, hro⟩ := hr (k, kdoc0, vdoc0, rer) (by simp)
    simp only [RerOk] at hro
    simp only at hk hv
    rw [dictPartsOf]
    simp only [TInvL, ih, and_true]
    cases hkc : commented? kdoc0 <;> cases hvc : commented? vdoc0 <;> simp only []
    · exact tinv_dictPart P _ _ _ _ _ _ _ hk hv (by simp [nonEmpty?])
    · rename_i p; obtain ⟨c, d⟩ := p
      refine tinv_dictPart P _ _ _ _ _ _ _ hk ((tinv_commented P hvc).mpr hv) ?_
      intro _
      exact ⟨(hro c d hvc).1, by rw [(hro c d hvc).2, toksOf_commented hvc]⟩
    · rename_i p; obtain ⟨c, d⟩ := p
      exact tinv_dictPart P _ _ _ _ _ _ _ ((tinv_commented P hkc).mpr hk) hv (by simp [nonEmpty?])
    · rename_i p1 p2; obtain ⟨c1, d1⟩ := p1; obtain ⟨c2, d2⟩ := p2
      refine tinv_dictPart P _ _ _ _ _ _ _ ((tinv_commented P hkc).mpr hk) ((tinv_commented P hvc).mpr hv) ?_
      intro _
      exact ⟨(hro c2 d2 hvc).1, by rw [(hro c2 d2 hvc).2, toksOf_commented hvc]⟩

theorem insertK_map {α β} (f : α → β) (x : PyVal × α) (xs : List (PyVal × α)) :
    (insertK x xs).map (fun p => (p.1, f p.2)) = insertK (x.1, f x.2) (xs.map fun p => (p.1, f p.2)) := by
  induction xs with
  | nil => rfl
  | cons y r ih => simp only [insertK, List.map_cons]; split <;> simp [ih]

theorem sortK_map {α β} (f : α → β) (xs : List (PyVal × α)) :
    (sortK xs).map (fun p => (p.1, f p.2)) = sortK (xs.map fun p => (p.1, f p.2)) := by
  unfold sortK
  rw [← List.map_reverse]
  generalize xs.reverse = ys
  have key : ∀ (ys acc : List (PyVal × α)),
      (ys.foldl (fun acc x => insertK x acc) acc).map (fun p => (p.1, f p.2)) =
      (ys.map fun p => (p.1, f p.2)).foldl (fun acc x => insertK x acc) (acc.map fun p => (p.1, f p.2)) := by
    intro ys
    induction ys with
    | nil => intro acc; rfl
    | cons y r ih => intro acc; simp only [List.foldl_cons, List.map_cons, ih, insertK_map]
  simpa using key ys []

theorem dictPartsOf_length (ind : Int) (n : Nat) : ∀ (pds : List PairDocs) (idx : Nat),
    (dictPartsOf ind n pds idx).1.length = pds.length
  | [], _ => by simp [dictPartsOf]
  | pd :: r, idx => by
    obtain ⟨k, kdoc0, vdoc0, rer⟩ := pd
    rw [dictPartsOf]
    simp [dictPartsOf_length ind n r (idx + 1)]

def dictCanon (ctx : Ctx) (cls : Option QualName) (pairs : List (PyVal × List CT × List CT)) (tr : Option PS) : List CT :=
  let fn := cls.getD (builtin nmDict)
  if ctx.depthZero then
    let literal := [CT.code [123], ELL, .code [125]]
    if cls.isNone then literal else callToks fn [literal]
  else
    let tr := withTruncation pairs.length ctx.maxSeqLen tr
    let ps := takeOpt ctx.maxSeqLen (if ctx.sortKeys then sortK pairs else pairs)
    let doc := [CT.code [123]] ++ dictPairToks ps ++ [.code [125]]
    if cls.isNone then doc
    else if ps.isEmpty && tr.isNone then emptyCallToks ctx fn
    else callToks fn [doc]

theorem mem_takeOpt {α} (n : Option Nat) (xs : List α) (x : α) (h : x ∈ takeOpt n xs) : x ∈ xs := by
  cases n with
  | none => exact h
  | some k => exact List.mem_of_mem_take h

theorem toksOf_dictDoc (P) (ctx : Ctx) (cls : Option QualName) (pds : List PairDocs) (tr : Option PS)
    (hr : ∀ pd ∈ pds, RerOk P pd) :
    toksOf (dictDoc ctx cls pds tr) = dictCanon ctx cls (pds.map pdToks) tr := by
  unfold dictDoc dictCanon
  simp only []
  split
  · split
    · simp [toksOf, toksOfL]
    · rw [toksOf_hug1]; simp [toksOf, toksOfL]
  · have hmap : (takeOpt ctx.maxSeqLen (if ctx.sortKeys = true then sortPDs pds else pds)).map pdToks =
        takeOpt ctx.maxSeqLen (if ctx.sortKeys = true then sortK (pds.map pdToks) else pds.map pdToks) := by
      rw [takeOpt_map]
      split
      · congr 1
        exact sortK_map (fun (x : Doc × Doc × Doc) => (toksOf x.1, toksOf x.2.1)) pds
      · rfl
    have hmem : ∀ pd ∈ takeOpt ctx.maxSeqLen (if ctx.sortKeys = true then sortPDs pds else pds), RerOk P pd := by
      intro pd h
      have h1 := mem_takeOpt _ _ _ h
      split at h1
      · exact hr pd ((C01.sortK_perm pds).mem_iff.mp h1)
      · exact hr pd h1
    generalize hps : takeOpt ctx.maxSeqLen (if ctx.sortKeys = true then sortPDs pds else pds) = ps at hmap hmem
    have hparts := toksOfL_dictPartsOf P ctx.indent ps.length ps 0 (by simp) hmem
    rw [← hmap]
    simp only [List.length_map, List.isEmpty_iff, List.map_eq_nil_iff]
    have hbody : ∀ (t : Option PS), toksOfL (match t with
        | some t => (dictPartsOf ctx.indent ps.length ps 0).1 ++ [Doc.cat [.hardline, commentdoc t]]
        | none => (dictPartsOf ctx.indent ps.length ps 0).1) = dictPairToks (ps.map pdToks) := by
      intro t; cases t <;> simp [toksOfL_append, hparts, toksOfL, toksOf]
    have hdoc : ∀ (t : Option PS) (b : Bool), toksOf (if b = true then
          Doc.ab (bracket ctx.indent LBRACE (.cat (match t with
            | some t => (dictPartsOf ctx.indent ps.length ps 0).1 ++ [Doc.cat [.hardline, commentdoc t]]
            | none => (dictPartsOf ctx.indent ps.length ps 0).1)) RBRACE)
        else .group (bracket ctx.indent LBRACE (.cat (match t with
            | some t => (dictPartsOf ctx.indent ps.length ps 0).1 ++ [Doc.cat [.hardline, commentdoc t]]
            | none => (dictPartsOf ctx.indent ps.length ps 0).1)) RBRACE)) =
        [CT.code [123]] ++ dictPairToks (ps.map pdToks) ++ [.code [125]] := by
      intro t b; cases b <;> simp [toksOf, hbody t]
    have hlen := dictPartsOf_length ctx.indent ps.length ps 0
    generalize withTruncation pds.length ctx.maxSeqLen tr = t
    split
    · exact hdoc t _
    · cases t with
      | some tt =>
        simp only [Option.isNone_some, Bool.and_false, Bool.false_eq_true, if_false]
        rw [if_neg (by simp)]
        rw [toksOf_hug1]
        exact congrArg (fun x => callToks (cls.getD (builtin nmDict)) [x]) (hdoc (some tt) _)
      | none =>
        simp only [Option.isNone_none, Bool.and_true]
        by_cases hps0 : ps = []
        · subst hps0
          simp [dictPartsOf]
        · have h1 : (dictPartsOf ctx.indent ps.length ps 0).1 ≠ [] := by
            intro e; rw [e] at hlen; simp at hlen; exact hps0 (List.eq_nil_of_length_eq_zero hlen.symm)
          have h2 : ¬ ((List.map pdToks ps).isEmpty = true) := by simpa using hps0
          rw [if_neg h1, if_neg h2]
          rw [toksOf_hug1]
          exact congrArg (fun x => callToks (cls.getD (builtin nmDict)) [x]) (hdoc none _)

theorem tinv_dictDoc (P) (ctx : Ctx) (cls : Option QualName) (pds : List PairDocs) (tr : Option PS)
    (hr : ∀ pd ∈ pds, TInv P pd.2.1 ∧ TInv P pd.2.2.1 ∧ RerOk P pd) :
    TInv P (dictDoc ctx cls pds tr) := by
  unfold dictDoc
  simp only []
  split
  · split
    · simp [TInv, TInvL]
    · exact tinv_hug1 P _ _ _ (by simp [TInv, TInvL])
  · have hmem : ∀ pd ∈ takeOpt ctx.maxSeqLen (if ctx.sortKeys = true then sortPDs pds else pds),
        TInv P pd.2.1 ∧ TInv P pd.2.2.1 ∧ RerOk P pd := by
      intro pd h
      have h1 := mem_takeOpt _ _ _ h
      split at h1
      · exact hr pd ((C01.sortK_perm pds).mem_iff.mp h1)
      · exact hr pd h1
    generalize takeOpt ctx.maxSeqLen (if ctx.sortKeys = true then sortPDs pds else pds) = ps at hmem
    have hparts := tinvL_dictPartsOf P ctx.indent ps.length ps 0 hmem
    have hbody : ∀ (t : Option PS), TInvL P (match t with
        | some t => (dictPartsOf ctx.indent ps.length ps 0).1 ++ [Doc.cat [.hardline, commentdoc t]]
        | none => (dictPartsOf ctx.indent ps.length ps 0).1) := by
      intro t; cases t
      · exact hparts
      · simp only []; rw [tinvL_append]; exact ⟨hparts, by simp [TInv, TInvL]⟩
    have hdoc : ∀ (t : Option PS) (b : Bool), TInv P (if b = true then
          Doc.ab (bracket ctx.indent LBRACE (.cat (match t with
            | some t => (dictPartsOf ctx.indent ps.length ps 0).1 ++ [Doc.cat [.hardline, commentdoc t]]
            | none => (dictPartsOf ctx.indent ps.length ps 0).1)) RBRACE)
        else .group (bracket ctx.indent LBRACE (.cat (match t with
            | some t => (dictPartsOf ctx.indent ps.length ps 0).1 ++ [Doc.cat [.hardline, commentdoc t]]
            | none => (dictPartsOf ctx.indent ps.length ps 0).1)) RBRACE)) := by
      intro t b
      have := tinv_bracket P ctx.indent LBRACE (.cat (match t with
            | some t => (dictPartsOf ctx.indent ps.length ps 0).1 ++ [Doc.cat [.hardline, commentdoc t]]
            | none => (dictPartsOf ctx.indent ps.length ps 0).1)) RBRACE (by simp) (by simp only [TInv]; exact hbody t) (by simp)
      cases b
      · simp only [Bool.false_eq_true, if_false, TInv]; exact this
      · simp only [if_true, TInv]; exact this
    generalize withTruncation pds.length ctx.maxSeqLen tr = t
    by_cases hcn : cls.isNone = true
    · rw [if_pos hcn]; exact hdoc t _
    · rw [if_neg hcn]
      cases t with
      | none =>
        simp only []
        by_cases he : (dictPartsOf ctx.indent ps.length ps 0).1.isEmpty = true
        · rw [if_pos he]; simp
        · rw [if_neg he]; exact tinv_hug1 P _ _ _ (hdoc none _)
      | some tt =>
        simp only []
        rw [if_neg (by simp)]
        exact tinv_hug1 P _ _ _ (hdoc (some tt) _)

theorem nc_ite (c : Prop) [Decidable c] (a b : Doc) (ha : commented? a = none) (hb : commented? b = none) :
    commented? (if c then a else b) = none := by split <;> assumption

theorem nc_dictDoc (ctx : Ctx) (cls : Option QualName) (pds : List PairDocs) (tr : Option PS) :
    commented? (dictDoc ctx cls pds tr) = none := by
  unfold dictDoc
  simp only []
  split
  · split
    · rfl
    · exact nc_buildFncall _ _ _ _ _
  · by_cases hcn : cls.isNone = true
    · rw [if_pos hcn]; exact nc_ite _ _ _ rfl rfl
    · rw [if_neg hcn]
      exact nc_ite _ _ _ (nc_emptyCall _ _) (nc_buildFncall _ _ _ _ _)

/-! ### leaves -/

def identToks (parts : List (Nat × Str)) : List CT := parts.flatMap fun p => tkToks p.1 p.2

theorem toksOfL_map_tk (parts : List (Nat × Str)) :
    toksOfL (parts.map fun (t, s) => tk t s) = identToks parts := by
  induction parts with
  | nil => rfl
  | cons p r ih => simp only [List.map_cons, toksOfL, toksOf_tk, ih, identToks, List.flatMap_cons]

theorem tinvL_map_tk (P) (parts : List (Nat × Str)) : TInvL P (parts.map fun (t, s) => tk t s) := by
  induction parts with
  | nil => trivial
  | cons p r ih => simp only [List.map_cons, TInvL, tinv_tk, ih, and_self]

theorem toksOf_identDoc (parts : List (Nat × Str)) : toksOf (identDoc parts) = identToks parts := by
  unfold identDoc
  split
  · simp [identToks]
  · simp only [toksOf]; exact toksOfL_map_tk parts

theorem tinv_identDoc (P) (parts : List (Nat × Str)) : TInv P (identDoc parts) := by
  unfold identDoc
  split
  · simp
  · simp only [TInv]; exact tinvL_map_tk P parts

theorem nc_identDoc (parts : List (Nat × Str)) : commented? (identDoc parts) = none := by
  unfold identDoc; split <;> rfl

theorem toksOf_wrapC (c : Option PS) (d : Doc) : toksOf (wrapC c d) = toksOf d := by
  unfold wrapC; split <;> simp [toksOf]

theorem tinv_wrapC (P) (c : Option PS) (d : Doc) : TInv P (wrapC c d) ↔ TInv P d := by
  unfold wrapC; split <;> simp [TInv]

theorem isSome_wrapC (c : Option PS) (d : Doc) (h : commented? d = none) :
    (commented? (wrapC c d)).isSome = (nonEmpty? c).isSome := by
  unfold wrapC; split
  · rename_i t ht; simp [commented?, ht]
  · rename_i ht; simp [h, ht]

theorem intDoc_depth (ctx ctx' : Ctx) (h : ctx.depthLeft = ctx'.depthLeft) (n : Int) : intDoc ctx n = intDoc ctx' n := by
  simp [intDoc, Ctx.depthZero, h]

theorem toksOf_intDoc (ctx : Ctx) (n : Int) :
    toksOf (intDoc ctx n) = if ctx.depthZero then ellToks (builtin nmInt) else cd (intLit n) := by
  unfold intDoc; split <;> simp [tkToks, tInt, tComment, tStr]

@[simp] theorem tinv_intDoc (P) (ctx : Ctx) (n : Int) : TInv P (intDoc ctx n) := by
  unfold intDoc; split <;> simp

/-- the keyword documents of pretty_timedelta -/
def tdKw (ctx : Ctx) (d s u : Int) : List (Str × Doc) :=
  let (_, days, hours, minutes, seconds, ms, us) := timedeltaParts d s u
  let nctx := ctx.nested
  let attrs : List (Str × Int) := [(str_ "days", days), (str_ "hours", hours), (str_ "minutes", minutes),
    (str_ "seconds", seconds), (str_ "milliseconds", ms), (str_ "microseconds", us)]
  let kw : List (Str × Doc) := (attrs.filter fun (_, v) => v != 0).map fun (k, v) => (k, intDoc nctx v)
  match kw with
    | (k, dd) :: rest =>
      if days != 0 then
        let years := days / 365
        let rem := days % 365
        if years != 0 then
          let pre := if years > 1 then [intDoc ctx years, Doc.text [32], MUL_OP, .text [32]] else []
          let post := if rem != 0 then [Doc.text [32], ADD_OP, .text [32], intDoc ctx rem] else []
          (k, Doc.cat (pre ++ [intDoc ctx 365] ++ post)) :: rest
        else (k, dd) :: rest
      else (k, dd) :: rest
    | [] => []

theorem timedeltaDoc_eq (ctx : Ctx) (d s u : Int) :
    timedeltaDoc ctx d s u =
      if ctx.depthZero then ellipsisCall nmTimedelta
      else
        let doc := Doc.group (buildFncall ctx.indent (generalIdentifier nmTimedelta) [] (tdKw ctx d s u) false none)
        if (timedeltaParts d s u).1 then .cat [NEG_OP, doc] else doc := by
  unfold timedeltaDoc tdKw
  rfl

theorem tdKw_depth (ctx ctx' : Ctx) (h : ctx.depthLeft = ctx'.depthLeft) (d s u : Int) : tdKw ctx d s u = tdKw ctx' d s u := by
  have h1 : ∀ n, intDoc ctx n = intDoc ctx' n := intDoc_depth ctx ctx' h
  have h2 : ∀ n, intDoc ctx.nested n = intDoc ctx'.nested n := intDoc_depth _ _ (by simp [Ctx.nested, h])
  unfold tdKw
  simp only [h1, h2]

theorem tinv_tdKw (P) (ctx : Ctx) (d s u : Int) : ∀ p ∈ tdKw ctx d s u, TInv P p.2 := by
  unfold tdKw
  simp only []
  have hbase : ∀ (attrs : List (Str × Int)), ∀ p ∈ (attrs.filter fun (_, v) => v != 0).map (fun (k, v) => (k, intDoc ctx.nested v)), TInv P p.2 := by
    intro attrs p hp
    simp only [List.mem_map] at hp
    obtain ⟨a, _, rfl⟩ := hp
    simp
  generalize hkw : ((([(str_ "days", (timedeltaParts d s u).2.1), (str_ "hours", (timedeltaParts d s u).2.2.1),
      (str_ "minutes", (timedeltaParts d s u).2.2.2.1), (str_ "seconds", (timedeltaParts d s u).2.2.2.2.1),
      (str_ "milliseconds", (timedeltaParts d s u).2.2.2.2.2.1), (str_ "microseconds", (timedeltaParts d s u).2.2.2.2.2.2)] :
      List (Str × Int)).filter fun (_, v) => v != 0).map fun (k, v) => (k, intDoc ctx.nested v)) = kw
  have hk : ∀ p ∈ kw, TInv P p.2 := by rw [← hkw]; exact hbase _
  intro p hp
  cases kw with
  | nil => simp at hp
  | cons x rest =>
    obtain ⟨k, dd⟩ := x
    simp only [] at hp
    split at hp
    · split at hp
      · simp only [List.mem_cons] at hp
        rcases hp with rfl | hp
        · simp only [TInv]
          rw [tinvL_append, tinvL_append]
          refine ⟨⟨?_, by simp [TInvL]⟩, ?_⟩
          · split <;> simp [TInvL, TInv]
          · split <;> simp [TInvL, TInv]
        · exact hk p (by simp [hp])
      · exact hk p hp
    · exact hk p hp

theorem toksOf_timedeltaDoc (ctx ctx' : Ctx) (h : ctx.depthLeft = ctx'.depthLeft) (d s u : Int) :
    toksOf (timedeltaDoc ctx d s u) = toksOf (timedeltaDoc ctx' d s u) := by
  have hz : ctx.depthZero = ctx'.depthZero := by simp [Ctx.depthZero, h]
  rw [timedeltaDoc_eq, timedeltaDoc_eq, tdKw_depth ctx ctx' h, hz]
  split
  · rfl
  · simp only []
    split <;> simp only [toksOf, toksOfL, toksOf_buildFncall]

theorem tinv_timedeltaDoc (P) (ctx : Ctx) (d s u : Int) : TInv P (timedeltaDoc ctx d s u) := by
  rw [timedeltaDoc_eq]
  have hb := tinv_buildFncall P ctx.indent (generalIdentifier nmTimedelta) [] (tdKw ctx d s u) false (by simp) trivial
    (tinv_tdKw P ctx d s u)
  split
  · simp
  · simp only []
    split <;> simp [TInv, TInvL, hb]

theorem nc_timedeltaDoc (ctx : Ctx) (d s u : Int) : commented? (timedeltaDoc ctx d s u) = none := by
  rw [timedeltaDoc_eq]
  split
  · rfl
  · simp only []; split <;> rfl

/-! ### the canonical tokens of a value -/

/-- the part of a context that tokens may depend on: depth, max_seq_len, sort_dict_keys (indent and the multi-line string
strategy erased) -/
def _root_.PP.Pr.Ctx.norm (x : Ctx) : Ctx := { x with indent := 0, strategy := 0 }


mutual
def wfVal : PyVal → Prop
  | .str _ isBytes s => wfStr isBytes s
  | .seq _ _ xs => wfVals xs
  | .frozenset _ xs => wfVals xs
  | .dict _ kvs => wfPairs kvs
  | .call _ args kwargs => wfVals args ∧ wfKws kwargs
  | .path _ posix => wfStr false posix
  | .commented v _ => wfVal v
  | .trailing v _ => wfVal v
  | _ => True
def wfVals : List PyVal → Prop
  | [] => True
  | v :: r => wfVal v ∧ wfVals r
def wfKws : List (Str × PyVal) → Prop
  | [] => True
  | (_, v) :: r => wfVal v ∧ wfKws r
def wfPairs : List (PyVal × PyVal) → Prop
  | [] => True
  | (k, v) :: r => wfVal k ∧ wfVal v ∧ wfPairs r
end

/-- str / bytes keys are printed by `pretty_str` directly (no depth check); other keys through pretty_python_value -/
def keyCanon (k : PyVal) (viaPPV : List CT) : List CT :=
  match k with
  | .str cls isBytes s => strCanon { s := s, isBytes := isBytes, cls := cls }
  | _ => viaPPV

theorem keyDoc_ok (ctx : Ctx) (k : PyVal) (d : Doc) (hw : wfVal k) (hd : TInv StrOk d) :
    TInv StrOk (keyDoc ctx k d) ∧ toksOf (keyDoc ctx k d) = keyCanon k (toksOf d) := by
  unfold keyDoc keyCanon
  split
  · refine ⟨?_, by simp [toksOf, strCanon]⟩
    simp only [TInv, StrOk]; simpa [wfVal] using hw
  · rename_i hne
    refine ⟨hd, ?_⟩
    split
    · rename_i cls isBytes s; exact absurd rfl (hne cls isBytes s)
    · rfl

def floatName (kind : Nat) : Str := if kind == 1 then [105, 110, 102] else if kind == 2 then [45, 105, 110, 102] else [110, 97, 110]

mutual
def canonW (ctx : Ctx) : PyVal → Option PS → List CT
  | .commented v _, tr => canonW ctx v tr
  | .trailing v t, _ => canonW ctx v (some t)
  | .none, _ => [.code [78, 111, 110, 101]]
  | .ellipsis, _ => [ELL]
  | .bool b, _ => [.code (if b then [84, 114, 117, 101] else [70, 97, 108, 115, 101])]
  | .opaque r, _ => cd r
  | .ident parts, _ => identToks parts
  | .timedelta d s u, _ => toksOf (timedeltaDoc { ctx with indent := 0 } d s u)
  | .path cls posix, _ =>
      callToks cls [if ctx.depthZero then ellToks (builtin nmStr) else [.lit (some (cps posix))]]
  | .int cls _ lit, _ => if ctx.depthZero then ellToks (cls.getD (builtin nmInt)) else wrapToks cls (cd lit)
  | .float cls kind lit _ _, _ =>
      let fn := cls.getD (builtin nmFloat)
      if ctx.depthZero then ellToks fn
      else if kind == 0 then wrapToks cls (cd lit)
      else callToks fn [if ctx.nested.depthZero then ellToks (builtin nmStr) else [.lit (some (floatName kind))]]
  | .str cls isBytes s, _ =>
      if ctx.depthZero then ellToks (cls.getD (builtin (if isBytes then nmBytes else nmStr)))
      else strCanon { s := s, isBytes := isBytes, cls := cls }
  | .frozenset cls xs, _ =>
      let fn := cls.getD (builtin nmFrozenset)
      if ctx.depthLeft.any (· == 0) then ellToks fn
      else if xs.isEmpty then cd fn.2 ++ [LP, RP]
      else callToks fn [seqCanon ctx 0 none xs.length (canonL ctx.nested xs) none]
  | .call f args kwargs, _ =>
      if ctx.depthLeft.any (· == 0) then ellToks f
      else if hugCall args kwargs then callToks f (canonL ctx args)
      else callToks f (canonL ctx.nested args ++ canonKw ctx.nested kwargs)
  | .seq kind cls xs, tr => seqCanon ctx kind cls xs.length (canonL ctx.nested xs) (nonEmpty? tr)
  | .dict cls kvs, tr => dictCanon ctx cls (canonPairs ctx kvs) (nonEmpty? tr)
def canonL (ctx : Ctx) : List PyVal → List (List CT)
  | [] => []
  | v :: r => canonW ctx v none :: canonL ctx r
def canonKw (ctx : Ctx) : List (Str × PyVal) → List (List CT)
  | [] => []
  | (k, v) :: r => (cd k ++ [EQ_T] ++ canonW ctx v none) :: canonKw ctx r
def canonPairs (ctx : Ctx) : List (PyVal × PyVal) → List (PyVal × List CT × List CT)
  | [] => []
  | (k, v) :: r =>
    (k, keyCanon k (canonW ctx.nested k none), canonW ctx.nested v none) :: canonPairs ctx r
end

@[simp] theorem norm_depthLeft (x : Ctx) : x.norm.depthLeft = x.depthLeft := rfl
@[simp] theorem norm_maxSeqLen (x : Ctx) : x.norm.maxSeqLen = x.maxSeqLen := rfl
@[simp] theorem norm_sortKeys (x : Ctx) : x.norm.sortKeys = x.sortKeys := rfl
@[simp] theorem norm_depthZero (x : Ctx) : x.norm.depthZero = x.depthZero := rfl
@[simp] theorem norm_nested (x : Ctx) : x.nested.norm = x.norm.nested := rfl
@[simp] theorem norm_withStrategy (x : Ctx) (s : Nat) : (x.withStrategy s).norm = x.norm := rfl
@[simp] theorem norm_seqElCtx (x : Ctx) (n : Nat) : (seqElCtx x n).norm = x.norm.nested := rfl
@[simp] theorem withStrategy_depthZero (x : Ctx) (s : Nat) : (x.withStrategy s).depthZero = x.depthZero := rfl
@[simp] theorem withStrategy_depthLeft (x : Ctx) (s : Nat) : (x.withStrategy s).depthLeft = x.depthLeft := rfl
@[simp] theorem withStrategy_indent (x : Ctx) (s : Nat) : (x.withStrategy s).indent = x.indent := rfl
@[simp] theorem nested_indent (x : Ctx) : x.nested.indent = x.indent := rfl

theorem seqCanon_norm (x : Ctx) (kind cls len els tr) : seqCanon x.norm kind cls len els tr = seqCanon x kind cls len els tr := rfl
theorem dictCanon_norm (x : Ctx) (cls pairs tr) : dictCanon x.norm cls pairs tr = dictCanon x cls pairs tr := rfl

/-- what the printers guarantee for one value -/
def ValOk (ctx : Ctx) (v : PyVal) (c tr : Option PS) : Prop :=
  TInv StrOk (toDocW ctx v c tr) ∧ toksOf (toDocW ctx v c tr) = canonW ctx.norm v tr ∧
    (commented? (toDocW ctx v c tr)).isSome = (nonEmpty? (commentOf v c)).isSome ∧
    (commented? (toDocW ctx v c tr)).map (·.1) = nonEmpty? (commentOf v c)

theorem valOk_of (ctx : Ctx) (v : PyVal) (c tr : Option PS) (inner : Doc) (hd : toDocW ctx v c tr = wrapC c inner)
    (hco : commentOf v c = c) (hi : TInv StrOk inner) (ht : toksOf inner = canonW ctx.norm v tr)
    (hn : commented? inner = none) : ValOk ctx v c tr := by
  unfold ValOk
  rw [hd, tinv_wrapC, toksOf_wrapC, isSome_wrapC c inner hn, hco]
  refine ⟨hi, ht, rfl, ?_⟩
  unfold wrapC
  split
  · rename_i t ht'; simp [commented?, ht']
  · rename_i ht'; simp [hn, ht']

theorem wf_asciiPS_float (kind : Nat) : wfStr false (asciiPS (floatName kind)) := by
  unfold floatName wfStr
  split
  · simp [asciiPS]
  · split <;> simp [asciiPS]

theorem cps_asciiPS (s : Str) : cps (asciiPS s) = s := by
  simp [cps, asciiPS, List.map_map, Function.comp_def]

mutual
theorem toDocW_ok : (v : PyVal) → (ctx : Ctx) → (c tr : Option PS) → wfVal v → ValOk ctx v c tr
  | .commented v t, ctx, c, tr, hw => by
      have ih := toDocW_ok v ctx (some t) tr (by simpa [wfVal] using hw)
      unfold ValOk at *; simpa [toDocW, canonW, commentOf] using ih
  | .trailing v t, ctx, c, tr, hw => by
      have ih := toDocW_ok v ctx c (some t) (by simpa [wfVal] using hw)
      unfold ValOk at *; simpa [toDocW, canonW, commentOf] using ih
  | .none, ctx, c, tr, _ => valOk_of ctx _ c tr _ (by rw [toDocW]) rfl (by simp) (by simp [canonW, tkToks, tKW, tComment, tStr, cd, isBlank]) rfl
  | .ellipsis, ctx, c, tr, _ => valOk_of ctx _ c tr _ (by rw [toDocW]) rfl (by simp) (by simp [canonW]) rfl
  | .bool b, ctx, c, tr, _ => valOk_of ctx _ c tr _ (by rw [toDocW]) rfl (by simp)
      (by cases b <;> simp [canonW, tkToks, tKW, tComment, tStr, cd, isBlank]) rfl
  | .opaque r, ctx, c, tr, _ => valOk_of ctx _ c tr _ (by rw [toDocW]) rfl (by simp [TInv])
      (by simp [canonW, toksOf, cd]) rfl
  | .ident parts, ctx, c, tr, _ => valOk_of ctx _ c tr _ (by rw [toDocW]) rfl (tinv_identDoc _ _)
      (by simp [canonW, toksOf_identDoc]) (nc_identDoc _)
  | .timedelta d s u, ctx, c, tr, _ => valOk_of ctx _ c tr _ (by rw [toDocW]) rfl (tinv_timedeltaDoc _ _ _ _ _)
      (by simp only [canonW]; exact toksOf_timedeltaDoc ctx { ctx.norm with indent := 0 } rfl d s u) (nc_timedeltaDoc _ _ _ _)
  | .path cls posix, ctx, c, tr, hw => by
      refine valOk_of ctx _ c tr _ (by rw [toDocW]) rfl ?_ ?_ (nc_buildFncall _ _ _ _ _)
      · refine tinv_buildFncall _ _ _ _ _ _ (by simp) ?_ (by simp)
        simp only [TInvL, and_true]
        split
        · simp
        · simp only [TInv, StrOk]; simpa [wfVal] using hw
      · rw [toksOf_buildFncall]
        simp only [canonW, callToks, norm_depthZero, toksOf_gi, List.map_nil, List.append_nil, List.map_cons]
        by_cases hz : ctx.depthZero = true <;> simp [hz, toksOf, strCanon]
  | .int cls val lit, ctx, c, tr, _ => by
      refine valOk_of ctx _ c tr _ (by simp only [toDocW]; exact rfl) rfl ?_ ?_ ?_
      · split
        · simp
        · split
          · simp
          · exact tinv_buildFncall _ _ _ _ _ _ (by simp) (by simp [TInvL]) (by simp)
      · simp only [canonW, norm_depthZero]
        by_cases hz : ctx.depthZero = true
        · simp [hz]
        · simp only [hz, Bool.false_eq_true, if_false]
          cases cls with
          | none => simp [wrapToks, tkToks, tInt, tComment, tStr]
          | some q => rw [toksOf_buildFncall]; simp [wrapToks, callToks, tkToks, tInt, tComment, tStr, seqToks]
      · split
        · rfl
        · split
          · rfl
          · exact nc_buildFncall _ _ _ _ _
  | .float cls kind lit num den, ctx, c, tr, _ => by
      refine valOk_of ctx _ c tr _ (by simp only [toDocW]; exact rfl) rfl ?_ ?_ ?_
      · split
        · simp
        · split
          · split
            · simp
            · exact tinv_buildFncall _ _ _ _ _ _ (by simp) (by simp [TInvL]) (by simp)
          · refine tinv_buildFncall _ _ _ _ _ _ (by simp) ?_ (by simp)
            simp only [TInvL, and_true]
            split
            · simp
            · simp only [TInv, StrOk]; exact wf_asciiPS_float kind
      · simp only [canonW, norm_depthZero]
        by_cases hz : ctx.depthZero = true
        · simp [hz]
        · simp only [hz, Bool.false_eq_true, if_false]
          by_cases hk : (kind == 0) = true
          · simp only [hk, if_true]
            cases cls with
            | none => simp [wrapToks, tkToks, tFloat, tComment, tStr]
            | some q => rw [toksOf_buildFncall]; simp [wrapToks, callToks, tkToks, tFloat, tComment, tStr, seqToks]
          · simp only [hk, Bool.false_eq_true, if_false]
            rw [toksOf_buildFncall]
            simp only [callToks, toksOf_gi, List.map_nil, List.append_nil, List.map_cons]
            have : (ctx.nested.withStrategy 1).depthZero = ctx.norm.nested.depthZero := rfl
            rw [this]
            by_cases hn : ctx.norm.nested.depthZero = true <;> simp [hn, toksOf, strCanon, cps_asciiPS, floatName]
      · split
        · rfl
        · split
          · split
            · rfl
            · exact nc_buildFncall _ _ _ _ _
          · exact nc_buildFncall _ _ _ _ _
  | .str cls isBytes s, ctx, c, tr, hw => by
      refine valOk_of ctx _ c tr _ (by rw [toDocW]) rfl ?_ ?_ ?_
      · split
        · simp
        · simp only [TInv, StrOk]; simpa [wfVal] using hw
      · simp only [canonW, norm_depthZero]
        by_cases hz : ctx.depthZero = true <;> simp [hz, toksOf, strCanon]
      · split <;> rfl
  | .frozenset cls xs, ctx, c, tr, hw => by
      obtain ⟨h1, h2, h3⟩ := toDocs_ok xs (seqElCtx ctx xs.length) (by simpa [wfVal] using hw)
      refine valOk_of ctx _ c tr _ (by rw [toDocW]) rfl ?_ ?_ ?_
      · simp only []
        split
        · simp
        · split
          · simp [TInv, TInvL]
          · exact tinv_hug1 _ _ _ _ (tinv_seqDoc _ _ _ _ _ _ _ h1)
      · simp only [canonW, norm_depthLeft]
        by_cases hz : ctx.depthLeft.any (· == 0) = true
        · simp [hz]
        · simp only [hz, Bool.false_eq_true, if_false]
          by_cases he : xs.isEmpty = true
          · simp [he, toksOf, toksOfL]
          · simp only [he, Bool.false_eq_true, if_false]
            rw [toksOf_hug1, toksOf_seqDoc _ _ _ _ _ _ h3, h2, norm_seqElCtx, seqCanon_norm]
      · simp only []
        split
        · rfl
        · split
          · rfl
          · exact nc_buildFncall _ _ _ _ _
  | .call f args kwargs, ctx, c, tr, hw => by
      have hw' : wfVals args ∧ wfKws kwargs := by simpa [wfVal] using hw
      obtain ⟨a1, a2, _⟩ := toDocs_ok args ctx hw'.1
      obtain ⟨b1, b2, _⟩ := toDocs_ok args (ctx.nested.withStrategy 1) hw'.1
      obtain ⟨k1, k2⟩ := toKwDocs_ok kwargs (ctx.nested.withStrategy 1) hw'.2
      refine valOk_of ctx _ c tr _ (by rw [toDocW]) rfl ?_ ?_ ?_
      · unfold callDoc
        split
        · simp
        · split
          · exact tinv_buildFncall _ _ _ _ _ _ (by simp) a1 (by simp)
          · exact tinv_buildFncall _ _ _ _ _ _ (by simp) b1 k1
      · unfold callDoc
        simp only [canonW, norm_depthLeft]
        by_cases hz : ctx.depthLeft.any (· == 0) = true
        · simp [hz]
        · simp only [hz, Bool.false_eq_true, if_false]
          by_cases hh : hugCall args kwargs = true
          · simp only [hh, if_true]
            rw [toksOf_buildFncall]; simp [callToks, a2]
          · simp only [hh, Bool.false_eq_true, if_false]
            rw [toksOf_buildFncall]
            simp only [List.map_append, b2, k2, callToks, toksOf_gi, norm_withStrategy, norm_nested]
      · unfold callDoc
        split
        · rfl
        · split <;> exact nc_buildFncall _ _ _ _ _
  | .seq kind cls xs, ctx, c, tr, hw => by
      obtain ⟨h1, h2, h3⟩ := toDocs_ok xs (seqElCtx ctx xs.length) (by simpa [wfVal] using hw)
      refine valOk_of ctx _ c tr _ (by rw [toDocW]) rfl (tinv_seqDoc _ _ _ _ _ _ _ h1) ?_ (nc_seqDoc _ _ _ _ _ _)
      rw [toksOf_seqDoc _ _ _ _ _ _ h3, h2]
      simp only [canonW, norm_seqElCtx, seqCanon_norm]
  | .dict cls kvs, ctx, c, tr, hw => by
      obtain ⟨h1, h2⟩ := dictDocs_ok kvs ctx (by simpa [wfVal] using hw)
      refine valOk_of ctx _ c tr _ (by rw [toDocW]) rfl (tinv_dictDoc _ _ _ _ _ h1) ?_ (nc_dictDoc _ _ _ _)
      rw [toksOf_dictDoc StrOk _ _ _ _ (fun pd hpd => (h1 pd hpd).2.2), h2]
      simp only [canonW, dictCanon_norm]

theorem toDocs_ok : (vs : List PyVal) → (ctx : Ctx) → wfVals vs →
    TInvL StrOk (toDocs ctx vs) ∧ (toDocs ctx vs).map toksOf = canonL ctx.norm vs ∧ (toDocs ctx vs).length = vs.length
  | [], _, _ => ⟨trivial, rfl, rfl⟩
  | v :: r, ctx, hw => by
      simp only [wfVals] at hw
      obtain ⟨a, b, _⟩ := toDocW_ok v ctx none none hw.1
      obtain ⟨c, d, e⟩ := toDocs_ok r ctx hw.2
      simp only [toDocs, TInvL, List.map_cons, canonL, List.length_cons]
      exact ⟨⟨a, c⟩, by rw [b, d], by rw [e]⟩

theorem toKwDocs_ok : (kws : List (Str × PyVal)) → (ctx : Ctx) → wfKws kws →
    (∀ p ∈ toKwDocs ctx kws, TInv StrOk p.2) ∧
    ((toKwDocs ctx kws).map fun (b, d) => kwargDoc b d).map toksOf = canonKw ctx.norm kws
  | [], _, _ => ⟨by simp [toKwDocs], rfl⟩
  | (k, v) :: r, ctx, hw => by
      simp only [wfKws] at hw
      obtain ⟨a, b, _⟩ := toDocW_ok v ctx none none hw.1
      obtain ⟨c, d⟩ := toKwDocs_ok r ctx hw.2
      simp only [toKwDocs, List.map_cons, canonKw]
      refine ⟨?_, by rw [d, toksOf_kwargDoc, b]⟩
      intro p hp
      simp only [List.mem_cons] at hp
      rcases hp with rfl | hp
      · exact a
      · exact c p hp

theorem dictDocs_ok : (kvs : List (PyVal × PyVal)) → (ctx : Ctx) → wfPairs kvs →
    (∀ pd ∈ dictDocs ctx kvs, TInv StrOk pd.2.1 ∧ TInv StrOk pd.2.2.1 ∧ RerOk StrOk pd) ∧
    (dictDocs ctx kvs).map pdToks = canonPairs ctx.norm kvs
  | [], _, _ => ⟨by simp [dictDocs], rfl⟩
  | (k, v) :: r, ctx, hw => by
      simp only [wfPairs] at hw
      obtain ⟨ka, kb, _⟩ := toDocW_ok k ctx.nested none none hw.1
      obtain ⟨va, vb, vc, _⟩ := toDocW_ok v (ctx.nested.withStrategy 2) none none hw.2.1
      obtain ⟨ra, rb, _⟩ := toDocW_ok v (ctx.nested.withStrategy 0) none none hw.2.1
      obtain ⟨c, d⟩ := dictDocs_ok r ctx hw.2.2
      simp only [dictDocs, List.map_cons, canonPairs, pdToks]
      have hkey := keyDoc_ok ctx k _ hw.1 ka
      refine ⟨?_, by rw [d, hkey.2, vb, kb]; rfl⟩
      intro pd hpd
      simp only [List.mem_cons] at hpd
      rcases hpd with rfl | hpd
      · refine ⟨hkey.1, va, ?_⟩
        intro cc dd hcm
        simp only at hcm ⊢
        have hs : hasComment v = true := by
          unfold hasComment; rw [← vc, hcm]; rfl
        simp only [hs, if_true]
        exact ⟨ra, by rw [rb, vb]; rfl⟩
      · exact c pd hpd
end

end Tok
end PP
