/-
C02: decoding what repr-escaping produced gives the original characters back.
-/
import PP.Spec.Unescape
import PP.Proofs.Escape
namespace PP
namespace PyStr

theorem hexVal_hexDigit (n : Nat) (h : n < 16) : hexVal? (hexDigit n) = some n := by
  have : n = 0 ∨ n = 1 ∨ n = 2 ∨ n = 3 ∨ n = 4 ∨ n = 5 ∨ n = 6 ∨ n = 7 ∨ n = 8 ∨ n = 9 ∨ n = 10 ∨ n = 11 ∨ n = 12 ∨
      n = 13 ∨ n = 14 ∨ n = 15 := by omega
  rcases this with rfl | rfl | rfl | rfl | rfl | rfl | rfl | rfl | rfl | rfl | rfl | rfl | rfl | rfl | rfl | rfl <;> decide

theorem parseHex_add : ∀ (a b acc : Nat) (s : Str),
    parseHex (a + b) acc s = (parseHex a acc s).bind (fun p => parseHex b p.1 p.2)
  | 0, b, acc, s => by simp [parseHex]
  | a + 1, b, acc, [] => by
    have : a + 1 + b = (a + b) + 1 := by omega
    rw [this]; simp [parseHex]
  | a + 1, b, acc, c :: r => by
    have : a + 1 + b = (a + b) + 1 := by omega
    rw [this]
    simp only [parseHex]
    cases hexVal? c with
    | none => simp
    | some d => simp only []; exact parseHex_add a b _ r

theorem parseHex_hexN : ∀ (w acc v : Nat) (rest : Str), v < 16 ^ w →
    parseHex w acc (hexN w v ++ rest) = some (acc * 16 ^ w + v, rest)
  | 0, acc, v, rest, h => by
    have : v = 0 := by simpa using h
    simp [parseHex, hexN, this]
  | w + 1, acc, v, rest, h => by
    have hlt : v / 16 < 16 ^ w := by
      rw [Nat.pow_succ] at h
      exact Nat.div_lt_of_lt_mul (by rw [Nat.mul_comm]; exact h)
    have ih := parseHex_hexN w acc (v / 16) (hexDigit (v % 16) :: rest) hlt
    simp only [hexN, List.append_assoc, List.singleton_append]
    rw [parseHex_add w 1 acc, ih]
    simp only [Option.bind, parseHex, hexVal_hexDigit _ (Nat.mod_lt v (by omega))]
    congr 2
    rw [Nat.pow_succ]
    have := Nat.div_add_mod v 16
    rw [Nat.add_mul, Nat.mul_assoc]
    omega

end PyStr
end PP

namespace PP
namespace PyStr

theorem hexN_length : ∀ (w v : Nat), (hexN w v).length = w
  | 0, _ => rfl
  | w + 1, v => by simp [hexN, hexN_length w]

theorem hexAt_hexN (w v : Nat) (r : Str) (hv : v < 16 ^ w) : hexAt w (hexN w v ++ r) = some v ∧ (hexN w v ++ r).drop w = r := by
  have hl := hexN_length w v
  have ht : (hexN w v ++ r).take w = hexN w v := by
    rw [List.take_append_of_le_length (by omega), List.take_of_length_le (by omega)]
  have hp := parseHex_hexN w 0 v [] hv
  simp only [Nat.zero_mul, Nat.zero_add, List.append_nil] at hp
  constructor
  · unfold hexAt; rw [ht, hp]; simp [hl]
  · rw [List.drop_append_of_le_length (by omega), List.drop_of_length_le (by omega)]; rfl

theorem unescape_plain (q c : Nat) (r : Str) (h1 : c ≠ q) (h2 : c ≠ 10) (h3 : c ≠ BS) :
    unescape q (c :: r) = (unescape q r).map (c :: ·) := by
  cases r with
  | nil =>
    have e0 : unescape q [] = some [] := by rw [unescape]
    rw [e0]; rw [unescape]; simp [h1, h2, h3, e0]
  | cons e r' => conv => lhs; rw [unescape]
                 simp [h1, h2, h3]

theorem bs_ok (q : Nat) (hq : q = SQ ∨ q = DQ) : (BS == q || BS == 10) = false := by
  rcases hq with rfl | rfl <;> decide

theorem unescape_simple (q e : Nat) (r : Str) (hq : q = SQ ∨ q = DQ) (he : e = BS ∨ e = SQ ∨ e = DQ) :
    unescape q (BS :: e :: r) = (unescape q r).map (e :: ·) := by
  rw [unescape]
  simp only [bs_ok q hq, Bool.false_eq_true, if_false, beq_self_eq_true, if_true]
  rcases he with rfl | rfl | rfl <;> simp

theorem unescape_ctrl (q e v : Nat) (r : Str) (hq : q = SQ ∨ q = DQ)
    (he : (e = 110 ∧ v = 10) ∨ (e = 114 ∧ v = 13) ∨ (e = 116 ∧ v = 9)) :
    unescape q (BS :: e :: r) = (unescape q r).map (v :: ·) := by
  rw [unescape]
  simp only [bs_ok q hq, Bool.false_eq_true, if_false, beq_self_eq_true, if_true]
  rcases he with ⟨rfl, rfl⟩ | ⟨rfl, rfl⟩ | ⟨rfl, rfl⟩ <;> simp [BS, SQ, DQ]

theorem unescape_hex (q e w v : Nat) (r : Str) (hq : q = SQ ∨ q = DQ)
    (he : (e = 120 ∧ w = 2) ∨ (e = 117 ∧ w = 4) ∨ (e = 85 ∧ w = 8)) (hv : v < 16 ^ w) :
    unescape q (BS :: e :: (hexN w v ++ r)) = (unescape q r).map (v :: ·) := by
  rw [unescape]
  simp only [bs_ok q hq, Bool.false_eq_true, if_false, beq_self_eq_true, if_true]
  obtain ⟨h1, h2⟩ := hexAt_hexN w v r hv
  rcases he with ⟨rfl, rfl⟩ | ⟨rfl, rfl⟩ | ⟨rfl, rfl⟩ <;> simp [BS, SQ, DQ, h1, h2]

end PyStr
end PP

namespace PP
namespace PyStr

theorem decode_rest_str (q : Nat) (hq : q = SQ ∨ q = DQ) (c : PChar) (hw : c.cp < 1114112)
    (h1 : c.cp ≠ q) (h2 : c.cp ≠ BS) (tail : Str) :
    unescape q (reprRestStr c ++ tail) = (unescape q tail).map (c.cp :: ·) := by
  unfold reprRestStr
  simp only []
  split
  · rename_i h; have : c.cp = 9 := by simpa using h
    rw [this]; exact unescape_ctrl q 116 9 tail hq (Or.inr (Or.inr ⟨rfl, rfl⟩))
  split
  · rename_i _ h; have : c.cp = 10 := by simpa using h
    rw [this]; exact unescape_ctrl q 110 10 tail hq (Or.inl ⟨rfl, rfl⟩)
  split
  · rename_i _ _ h; have : c.cp = 13 := by simpa using h
    rw [this]; exact unescape_ctrl q 114 13 tail hq (Or.inr (Or.inl ⟨rfl, rfl⟩))
  split
  · rename_i _ _ _ h
    have hlt : c.cp < 16 ^ 2 := by
      simp only [Bool.or_eq_true, decide_eq_true_eq, beq_iff_eq] at h; rcases h with h | h <;> omega
    simpa [List.append_assoc] using unescape_hex q 120 2 c.cp tail hq (Or.inl ⟨rfl, rfl⟩) hlt
  split
  · rename_i h9 h10 _ _ _
    have : c.cp ≠ 10 := by simpa using h10
    simpa using unescape_plain q c.cp tail h1 this h2
  split
  · rename_i h9 h10 _ _ _ _
    have : c.cp ≠ 10 := by simpa using h10
    simpa using unescape_plain q c.cp tail h1 this h2
  split
  · rename_i h
    simpa [List.append_assoc] using unescape_hex q 120 2 c.cp tail hq (Or.inl ⟨rfl, rfl⟩) (by omega)
  split
  · rename_i h
    simpa [List.append_assoc] using unescape_hex q 117 4 c.cp tail hq (Or.inr (Or.inl ⟨rfl, rfl⟩)) (by omega)
  · simpa [List.append_assoc] using unescape_hex q 85 8 c.cp tail hq (Or.inr (Or.inr ⟨rfl, rfl⟩)) (by omega)

theorem decode_rest_bytes (q : Nat) (hq : q = SQ ∨ q = DQ) (c : PChar) (hw : c.cp < 256)
    (h1 : c.cp ≠ q) (h2 : c.cp ≠ BS) (tail : Str) :
    unescape q (reprRestBytes c ++ tail) = (unescape q tail).map (c.cp :: ·) := by
  unfold reprRestBytes
  simp only []
  split
  · rename_i h; have : c.cp = 9 := by simpa using h
    rw [this]; exact unescape_ctrl q 116 9 tail hq (Or.inr (Or.inr ⟨rfl, rfl⟩))
  split
  · rename_i _ h; have : c.cp = 10 := by simpa using h
    rw [this]; exact unescape_ctrl q 110 10 tail hq (Or.inl ⟨rfl, rfl⟩)
  split
  · rename_i _ _ h; have : c.cp = 13 := by simpa using h
    rw [this]; exact unescape_ctrl q 114 13 tail hq (Or.inr (Or.inl ⟨rfl, rfl⟩))
  split
  · simpa [List.append_assoc] using unescape_hex q 120 2 c.cp tail hq (Or.inl ⟨rfl, rfl⟩) (by omega)
  · rename_i h9 h10 _ _
    have : c.cp ≠ 10 := by simpa using h10
    simpa using unescape_plain q c.cp tail h1 this h2

/-- decoding one character's image -/
theorem decode_char (rest : PChar → Str) (q : Nat) (hq : q = SQ ∨ q = DQ) (c : PChar)
    (hrest : c.cp ≠ q → c.cp ≠ BS → ∀ tail, unescape q (rest c ++ tail) = (unescape q tail).map (c.cp :: ·))
    (tail : Str) : unescape q (charOf rest q c ++ tail) = (unescape q tail).map (c.cp :: ·) := by
  unfold charOf
  split
  · rename_i h
    simp only [Bool.or_eq_true, beq_iff_eq] at h
    rcases h with h | h
    · rw [h]; exact unescape_simple q q tail hq (by rcases hq with rfl | rfl <;> simp)
    · rw [h]; exact unescape_simple q BS tail hq (Or.inl rfl)
  · rename_i h
    simp only [Bool.or_eq_true, beq_iff_eq, not_or] at h
    exact hrest h.1 h.2 tail

theorem decode_body (rest : PChar → Str) (q : Nat) (hq : q = SQ ∨ q = DQ) :
    ∀ (s : PS), (∀ c ∈ s, c.cp ≠ q → c.cp ≠ BS → ∀ tail, unescape q (rest c ++ tail) = (unescape q tail).map (c.cp :: ·)) →
      unescape q (s.flatMap (charOf rest q)) = some (cps s)
  | [], _ => by rw [List.flatMap_nil, unescape]; rfl
  | c :: r, h => by
    have ih := decode_body rest q hq r (fun x hx => h x (by simp [hx]))
    rw [List.flatMap_cons, decode_char rest q hq c (h c (by simp)), ih]
    simp [cps]

/-- **C02.unescape_escape** — for both quotes and every `str` (code points below 0x110000, arbitrary printable / word /
space bits) and every `bytes` value (bytes below 256): decoding, as a Python literal body quoted with `q`, what
`escape_str_for_quote(q, s)` produced gives back exactly the characters of `s` -/
theorem unescape_escape (isBytes : Bool) (q : Nat) (hq : q = SQ ∨ q = DQ) (s : PS)
    (hw : ∀ c ∈ s, c.cp < (if isBytes then 256 else 1114112)) :
    unescape q (escapeForQuote isBytes q s) = some (cps s) := by
  rw [escapeForQuote_eq isBytes q hq s]
  unfold reprBody
  cases isBytes with
  | true =>
    have e : reprCharBytes q = charOf reprRestBytes q := rfl
    simp only [if_true, e]
    exact decode_body reprRestBytes q hq s (fun c hc h1 h2 tail => decode_rest_bytes q hq c (by simpa using hw c hc) h1 h2 tail)
  | false =>
    have e : reprCharStr q = charOf reprRestStr q := rfl
    simp only [Bool.false_eq_true, if_false, e]
    exact decode_body reprRestStr q hq s (fun c hc h1 h2 tail => decode_rest_str q hq c (by simpa using hw c hc) h1 h2 tail)

end PyStr
end PP
