/-
C02: decoding what repr-escaping produced gives the original characters back.
-/
import PP.Spec.Unescape
import PP.Proofs.Escape
namespace PP
namespace PyStr

theorem hexVal_hexDigit (n : Nat) (h : n < 16) : hexVal? (hexDigit n) = some n := by
  have : n = 0 ∨ n = 1 ∨ n = 2 ∨ n = 3 ∨ n = 4 ∨ n = 5 ∨ n = 6 ∨ n = 7 ∨ n = 8 ∨ n = 9 ∨ n = 10 ∨ n = 11 ∨ n = 12 ∨
      n = 13 ∨ n = 14 ∨ n = 15 := by omega
  rcases this with rfl | rfl | rfl | rfl | rfl | rfl | rfl | rfl | rfl | rfl | rfl | rfl | rfl | rfl | rfl | rfl <;> decide

theorem parseHex_add : ∀ (a b acc : Nat) (s : Str),
    parseHex (a + b) acc s = (parseHex a acc s).bind (fun p => parseHex b p.1 p.2)
  | 0, b, acc, s => by simp [parseHex]
  | a + 1, b, acc, [] => by
    have : a + 1 + b = (a + b) + 1 := by omega
    rw [this]; simp [parseHex]
  | a + 1, b, acc, c :: r => by
    have : a + 1 + b = (a + b) + 1 := by omega
    rw [this]
    simp only [parseHex]
    cases hexVal? c with
    | none => simp
    | some d => simp only []; exact parseHex_add a b _ r

theorem parseHex_hexN : ∀ (w acc v : Nat) (rest : Str), v < 16 ^ w →
    parseHex w acc (hexN w v ++ rest) = some (acc * 16 ^ w + v, rest)
  | 0, acc, v, rest, h => by
    have : v = 0 := by simpa using h
    simp [parseHex, hexN, this]
  | w + 1, acc, v, rest, h => by
    have hlt : v / 16 < 16 ^ w := by
      rw [Nat.pow_succ] at h
      exact Nat.div_lt_of_lt_mul (by rw [Nat.mul_comm]; exact h)
    have ih := parseHex_hexN w acc (v / 16) (hexDigit (v % 16) :: rest) hlt
    simp only [hexN, List.append_assoc, List.singleton_append]
    rw [parseHex_add w 1 acc, ih]
    simp only [Option.bind, parseHex, hexVal_hexDigit _ (Nat.mod_lt v (by omega))]
    congr 2
    rw [Nat.pow_succ]
    have := Nat.div_add_mod v 16
    rw [Nat.add_mul, Nat.mul_assoc]
    omega

end PyStr
end PP
