/-
Tokens of the document-building helpers (`bracket`, `commentdoc`, `sequence_of_docs`, `build_fncall`): each is
layout-invariant when its arguments are, and its tokens are a fixed function of its arguments' tokens.
-/
import PP.Proofs.ToksStr
import PP.Model.Values
namespace PP
namespace Tok
open Doc PyStr Pr

def cd (s : Str) : List CT := if isBlank s then [] else [.code s]

def tkToks (t : Nat) (s : Str) : List CT :=
  if t == tComment then [] else if t == tStr then [.lit (decodeLit s)] else cd s

def COMMA_T : CT := .code [44]
def COLON_T : CT := .code [58]
def LP : CT := .code [40]
def RP : CT := .code [41]
def ELL : CT := .code [46, 46, 46]
def EQ_T : CT := .code [61]

@[simp] theorem toksOf_tk (t : Nat) (s : Str) : toksOf (tk t s) = tkToks t s := by
  simp only [tk, toksOf, textOf, tkToks, cd]

@[simp] theorem tinv_tk (P) (t : Nat) (s : Str) : TInv P (tk t s) := by
  simp only [tk, TInv, Plain]; split <;> simp

@[simp] theorem toksOf_COMMA : toksOf COMMA = [COMMA_T] := by decide
@[simp] theorem toksOf_COLON : toksOf COLON = [COLON_T] := by decide
@[simp] theorem toksOf_ELLIPSIS : toksOf ELLIPSIS = [ELL] := by decide
@[simp] theorem toksOf_LPAREN : toksOf LPAREN = [LP] := by decide
@[simp] theorem toksOf_RPAREN : toksOf RPAREN = [RP] := by decide
@[simp] theorem toksOf_LBRACKET : toksOf LBRACKET = [.code [91]] := by decide
@[simp] theorem toksOf_RBRACKET : toksOf RBRACKET = [.code [93]] := by decide
@[simp] theorem toksOf_LBRACE : toksOf LBRACE = [.code [123]] := by decide
@[simp] theorem toksOf_RBRACE : toksOf RBRACE = [.code [125]] := by decide
@[simp] theorem toksOf_ASSIGN : toksOf ASSIGN_OP = [EQ_T] := by decide
@[simp] theorem toksOf_NEG : toksOf NEG_OP = [.code [45]] := by decide
@[simp] theorem toksOf_MUL : toksOf MUL_OP = [.code [42]] := by decide
@[simp] theorem toksOf_ADD : toksOf ADD_OP = [.code [43]] := by decide
@[simp] theorem toksOf_softline : toksOf softline = [] := by decide
@[simp] theorem toksOf_line : toksOf line = [] := by decide
@[simp] theorem toksOf_commentdoc (c : PS) : toksOf (commentdoc c) = [] := by simp [commentdoc, toksOf]
@[simp] theorem toksOf_gi (q : QualName) : toksOf (generalIdentifier q) = cd q.2 := by
  unfold generalIdentifier; cases q.1 <;> simp [tkToks, tBuiltin, tFn, tComment, tStr]
@[simp] theorem toksOf_kw (s : Str) : toksOf (keywordArg s) = cd s := by
  simp [keywordArg, tkToks, tVar, tComment, tStr]

@[simp] theorem tinv_COMMA (P) : TInv P COMMA := tinv_tk P _ _
@[simp] theorem tinv_COLON (P) : TInv P COLON := tinv_tk P _ _
@[simp] theorem tinv_ELLIPSIS (P) : TInv P ELLIPSIS := tinv_tk P _ _
@[simp] theorem tinv_LPAREN (P) : TInv P LPAREN := tinv_tk P _ _
@[simp] theorem tinv_RPAREN (P) : TInv P RPAREN := tinv_tk P _ _
@[simp] theorem tinv_LBRACKET (P) : TInv P LBRACKET := tinv_tk P _ _
@[simp] theorem tinv_RBRACKET (P) : TInv P RBRACKET := tinv_tk P _ _
@[simp] theorem tinv_LBRACE (P) : TInv P LBRACE := tinv_tk P _ _
@[simp] theorem tinv_RBRACE (P) : TInv P RBRACE := tinv_tk P _ _
@[simp] theorem tinv_ASSIGN (P) : TInv P ASSIGN_OP := tinv_tk P _ _
@[simp] theorem tinv_NEG (P) : TInv P NEG_OP := tinv_tk P _ _
@[simp] theorem tinv_MUL (P) : TInv P MUL_OP := tinv_tk P _ _
@[simp] theorem tinv_ADD (P) : TInv P ADD_OP := tinv_tk P _ _
@[simp] theorem tinv_softline (P) : TInv P softline := by
  simp only [softline, TInv, toksOf, true_and]; exact .refl _
@[simp] theorem tinv_line (P) : TInv P line := by
  simp only [line, TInv, toksOf, true_and]; exact .refl _
@[simp] theorem tinv_commentdoc (P) (c : PS) : TInv P (commentdoc c) := by simp [commentdoc, TInv]
@[simp] theorem tinv_gi (P) (q : QualName) : TInv P (generalIdentifier q) := tinv_tk P _ _
@[simp] theorem tinv_kw (P) (s : Str) : TInv P (keywordArg s) := tinv_tk P _ _

theorem toksOfL_append (xs ys : List Doc) : toksOfL (xs ++ ys) = toksOfL xs ++ toksOfL ys := by
  induction xs with
  | nil => simp [toksOfL]
  | cons x xs ih => simp [toksOfL, ih]

theorem tinvL_append (P) (xs ys : List Doc) : TInvL P (xs ++ ys) ↔ TInvL P xs ∧ TInvL P ys := by
  induction xs with
  | nil => simp [TInvL]
  | cons x xs ih => simp [TInvL, ih, and_assoc]

/-- a commented document is its content wrapped in a comment annotation -/
theorem commented_eq {d : Doc} {c : PS} {inner : Doc} (h : commented? d = some (c, inner)) : d = .ann (.comment c) inner := by
  cases d <;> simp [commented?] at h
  rename_i a d'; cases a <;> simp [commented?] at h
  obtain ⟨h1, h2⟩ := h; subst h1; subst h2; rfl

theorem toksOf_commented {d : Doc} {c : PS} {inner : Doc} (h : commented? d = some (c, inner)) : toksOf inner = toksOf d := by
  rw [commented_eq h]; simp [toksOf]

theorem tinv_commented (P) {d : Doc} {c : PS} {inner : Doc} (h : commented? d = some (c, inner)) : TInv P inner ↔ TInv P d := by
  rw [commented_eq h]; simp [TInv]

/-! ### bracket -/

@[simp] theorem toksOf_bracket (ind : Int) (l child r : Doc) :
    toksOf (bracket ind l child r) = toksOf l ++ toksOf child ++ toksOf r := by
  simp [bracket, toksOf, toksOfL]

theorem tinv_bracket (P) (ind : Int) (l child r : Doc) (hl : TInv P l) (hc : TInv P child) (hr : TInv P r) :
    TInv P (bracket ind l child r) := by
  simp [bracket, TInv, TInvL, hl, hc, hr]

/-! ### sequence_of_docs -/

/-- items separated by commas, with an optional dangling comma -/
def seqToks : List (List CT) → Bool → List CT
  | [], dangle => if dangle then [COMMA_T] else []
  | [t], dangle => t ++ (if dangle then [COMMA_T] else [])
  | t :: t2 :: r, dangle => t ++ [COMMA_T] ++ seqToks (t2 :: r) dangle

theorem seqToks_dangle : ∀ (ts : List (List CT)), seqToks ts true = seqToks ts false ++ [COMMA_T]
  | [] => rfl
  | [t] => by simp [seqToks]
  | t :: t2 :: r => by simp [seqToks, seqToks_dangle (t2 :: r)]

def lastCommented (docs : List Doc) : Bool := match docs.getLast? with | some d => isCommented d | none => false

theorem toksOfL_seqGo (dangle : Bool) (n : Nat) : ∀ (docs : List Doc) (idx : Nat), idx + docs.length = n → docs ≠ [] →
    toksOfL (seqParts.go dangle n docs idx) = seqToks (docs.map toksOf) (dangle && lastCommented docs)
  | [], _, _, h => absurd rfl h
  | [d], idx, hn, _ => by
    have hlast : (idx + 1 == n) = true := by simp at hn; simp [hn]
    simp only [seqParts.go, hlast]
    cases hc : commented? d with
    | none => simp [toksOfL, seqToks, lastCommented, isCommented, hc]
    | some p =>
      obtain ⟨c, inner⟩ := p
      simp only [toksOfL, toksOf, seqToks, lastCommented, isCommented, hc, List.getLast?_singleton, Option.isSome_some,
        Bool.and_true, List.map_cons, List.map_nil, Bool.not_true, Bool.false_or, List.append_nil]
      cases dangle <;> simp [toksOf]
  | d :: d2 :: r, idx, hn, _ => by
    have hlast : (idx + 1 == n) = false := by simp at hn; simp; omega
    have ih := toksOfL_seqGo dangle n (d2 :: r) (idx + 1) (by simp at hn ⊢; omega) (by simp)
    have hl : lastCommented (d :: d2 :: r) = lastCommented (d2 :: r) := by simp [lastCommented, List.getLast?_cons_cons]
    rw [seqParts.go]
    simp only [hlast]
    cases hc : commented? d with
    | none =>
      simp only [toksOfL, List.map_cons, seqToks, hl]
      simp [toksOf, toksOfL]
      exact ih
    | some p =>
      obtain ⟨c, inner⟩ := p
      simp only [toksOfL, List.map_cons, seqToks, hl]
      simp [toksOf, toksOfL]
      exact ih

theorem tinvL_seqGo (P) (dangle : Bool) (n : Nat) : ∀ (docs : List Doc) (idx : Nat), TInvL P docs →
    TInvL P (seqParts.go dangle n docs idx)
  | [], _, _ => by simp [seqParts.go, TInvL]
  | d :: r, idx, hi => by
    simp only [TInvL] at hi
    have ih := tinvL_seqGo P dangle n r (idx + 1) hi.2
    rw [seqParts.go]
    cases hc : commented? d with
    | none =>
      simp only []
      split <;> simp [TInvL, TInv, hi.1, ih]
    | some p =>
      obtain ⟨c, inner⟩ := p
      simp only [TInvL, TInv, ih, and_true, hi.1, true_and, toksOf, toksOfL]
      refine ⟨?_, ?_, ?_⟩
      · split <;> split <;> simp [TInv]
      · split <;> split <;> simp [TInv]
      · simp; exact .refl _

theorem toksOf_sequenceOfDocs (ind : Int) (left right : Doc) (docs : List Doc) (dangle fb : Bool) (hne : docs ≠ []) :
    toksOf (sequenceOfDocs ind left docs right dangle fb) =
      toksOf left ++ seqToks (docs.map toksOf) dangle ++ toksOf right := by
  have hgo := toksOfL_seqGo dangle docs.length docs 0 (by simp) hne
  have key : toksOfL (if (dangle && !(match docs.getLast? with | some d => isCommented d | none => false)) = true
      then seqParts docs dangle ++ [COMMA] else seqParts docs dangle) = seqToks (docs.map toksOf) dangle := by
    unfold seqParts
    simp only []
    change toksOfL (if (dangle && !lastCommented docs) = true then _ else _) = _
    cases dangle
    · simpa using hgo
    · cases hl : lastCommented docs
      · simp only [hl, Bool.and_false] at hgo
        simp [toksOfL_append, hgo, toksOfL, seqToks_dangle]
      · simpa [hl] using hgo
  unfold sequenceOfDocs
  simp only []
  split <;> simp only [toksOf, toksOf_bracket] <;> (first | rw [key] | (erw [key]))

theorem tinv_sequenceOfDocs (P) (ind : Int) (left right : Doc) (docs : List Doc) (dangle fb : Bool)
    (hl : TInv P left) (hr : TInv P right) (hd : TInvL P docs) :
    TInv P (sequenceOfDocs ind left docs right dangle fb) := by
  have hgo := tinvL_seqGo P dangle docs.length docs 0 hd
  have key : ∀ b : Bool, TInvL P (if b = true then seqParts docs dangle ++ [COMMA] else seqParts docs dangle) := by
    intro b
    unfold seqParts
    cases b
    · exact hgo
    · simp only [if_true]; rw [tinvL_append]; exact ⟨hgo, by simp [TInvL]⟩
  unfold sequenceOfDocs
  simp only []
  split <;> simp only [TInv] <;> exact tinv_bracket P _ _ _ _ hl (by simp only [TInv]; exact key _) hr

/-! ### build_fncall -/

theorem toksOfL_fncallParts (n : Nat) : ∀ (docs : List Doc) (idx : Nat) (hc : Bool), idx + docs.length = n →
    toksOfL (fncallParts n docs idx hc).1 = seqToks (docs.map toksOf) false
  | [], _, _, _ => by simp [fncallParts, toksOfL, seqToks]
  | [d], idx, hc, hn => by
    have hlast : (idx + 1 == n) = true := by simp at hn; simp [hn]
    rw [fncallParts]
    simp only [hlast, fncallParts]
    cases hcm : commented? d with
    | none => simp [toksOfL, toksOf, seqToks]
    | some p =>
      obtain ⟨c, inner⟩ := p
      have := toksOf_commented hcm
      simp only []
      split <;> split <;> simp [toksOfL, toksOf, seqToks, this]
  | d :: d2 :: r, idx, hc, hn => by
    have hlast : (idx + 1 == n) = false := by simp at hn; simp; omega
    rw [fncallParts]
    cases hcm : commented? d with
    | none =>
      have ih := toksOfL_fncallParts n (d2 :: r) (idx + 1) hc (by simp at hn ⊢; omega)
      simp only [hlast]
      simp only [toksOfL, List.map_cons, seqToks]
      rw [ih]
      cases hc <;> simp [toksOf, toksOfL]
    | some p =>
      obtain ⟨c, inner⟩ := p
      have ih := toksOfL_fncallParts n (d2 :: r) (idx + 1) true (by simp at hn ⊢; omega)
      have := toksOf_commented hcm
      simp only [hlast]
      simp only [toksOfL, List.map_cons, seqToks]
      rw [ih]
      split <;> split <;> simp [toksOf, toksOfL, this]

theorem tinvL_fncallParts (P) (n : Nat) : ∀ (docs : List Doc) (idx : Nat) (hc : Bool), TInvL P docs →
    TInvL P (fncallParts n docs idx hc).1
  | [], _, _, _ => by simp [fncallParts, TInvL]
  | d :: r, idx, hc, hi => by
    simp only [TInvL] at hi
    rw [fncallParts]
    cases hlast : (idx + 1 == n) <;> cases hcm : commented? d with
    | none =>
      have ih := tinvL_fncallParts P n r (idx + 1) hc hi.2
      simp only [TInvL, ih, and_true]
      cases hc <;> simp [TInv, TInvL, hi.1]
    | some p =>
      obtain ⟨c, inner⟩ := p
      have ih := tinvL_fncallParts P n r (idx + 1) true hi.2
      have hin := (tinv_commented P hcm).mpr hi.1
      simp only [TInvL, ih, and_true]
      by_cases hce : c = [] <;> cases hc <;> simp [hce, TInv, TInvL, hin, toksOf, toksOfL, isBlank] <;> exact TEq.refl _

theorem toksOf_kwargDoc (b : Str) (d : Doc) : toksOf (kwargDoc b d) = cd b ++ [EQ_T] ++ toksOf d := by
  unfold kwargDoc
  cases hcm : commented? d with
  | none => simp [toksOf, toksOfL]
  | some p =>
    obtain ⟨c, inner⟩ := p
    simp [toksOf, toksOfL, toksOf_commented hcm]

theorem tinv_kwargDoc (P) (b : Str) (d : Doc) (h : TInv P d) : TInv P (kwargDoc b d) := by
  unfold kwargDoc
  cases hcm : commented? d with
  | none => simp [TInv, TInvL, h]
  | some p =>
    obtain ⟨c, inner⟩ := p
    simp [TInv, TInvL, (tinv_commented P hcm).mpr h]

theorem toksOf_buildRest (ind : Int) (fn : Doc) (all : List Doc) :
    toksOf (buildFncall.buildRest ind fn all none) = toksOf fn ++ [LP] ++ seqToks (all.map toksOf) false ++ [RP] := by
  have h := toksOfL_fncallParts all.length all 0 false (by simp)
  unfold buildFncall.buildRest
  simp only [Bool.false_eq_true, if_false]
  split <;> simp [toksOf, toksOfL, h]

theorem tinv_buildRest (P) (ind : Int) (fn : Doc) (all : List Doc) (hf : TInv P fn) (ha : TInvL P all) :
    TInv P (buildFncall.buildRest ind fn all none) := by
  have h := tinvL_fncallParts P all.length all 0 false ha
  unfold buildFncall.buildRest
  simp only [Bool.false_eq_true, if_false]
  split <;> simp [TInv, TInvL, h, hf]

/-- tokens of a call: name, parenthesis, arguments separated by commas (keyword arguments as `name = value`) -/
theorem toksOf_buildFncall (ind : Int) (fn : Doc) (args : List Doc) (kw : List (Str × Doc)) (hug : Bool) :
    toksOf (buildFncall ind fn args kw hug none) =
      toksOf fn ++ [LP] ++ seqToks ((args ++ kw.map fun (b, d) => kwargDoc b d).map toksOf) false ++ [RP] := by
  unfold buildFncall
  simp only []
  split
  · rename_i h
    simp only [Bool.and_eq_true, List.isEmpty_iff, List.map_eq_nil_iff] at h
    simp [h.1, h.2, toksOf, toksOfL, seqToks]
  · split
    · split
      · rename_i heq _ _
        have hk : kw = [] := by simpa using heq
        subst hk
        simp [toksOf, toksOfL, seqToks]
      · exact toksOf_buildRest _ _ _
    · exact toksOf_buildRest _ _ _

theorem tinv_buildFncall (P) (ind : Int) (fn : Doc) (args : List Doc) (kw : List (Str × Doc)) (hug : Bool)
    (hf : TInv P fn) (ha : TInvL P args) (hk : ∀ p ∈ kw, TInv P p.2) :
    TInv P (buildFncall ind fn args kw hug none) := by
  have hkw : TInvL P (kw.map fun (b, d) => kwargDoc b d) := by
    induction kw with
    | nil => trivial
    | cons p r ih =>
      simp only [List.map_cons, TInvL]
      exact ⟨tinv_kwargDoc P _ _ (hk p (by simp)), ih (fun q hq => hk q (by simp [hq]))⟩
  have hall : TInvL P (args ++ kw.map fun (b, d) => kwargDoc b d) := (tinvL_append P _ _).mpr ⟨ha, hkw⟩
  unfold buildFncall
  simp only []
  split
  · simp [TInv, TInvL, hf]
  · split
    · split
      · simp only [TInvL] at ha; simp [TInv, TInvL, hf, ha.1]
      · exact tinv_buildRest P _ _ _ hf hall
    · exact tinv_buildRest P _ _ _ hf hall

end Tok
end PP
