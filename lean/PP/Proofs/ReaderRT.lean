/-
C01: the canonical tokens of a value of the built-in literal types read back, unambiguously, to that value — same container
type at every position, same element order, same literal texts, same string contents.
-/
import PP.Spec.Reader
import PP.Proofs.ToksVal
namespace PP
namespace Tok
open Doc PyStr Pr

/-- `, t1 , t2 … , tn` followed by an optional comma -/
def tailToks (els : List (List CT)) (tc : Bool) : List CT :=
  els.flatMap (fun t => COMMA_T :: t) ++ (if tc then [COMMA_T] else [])

theorem seqToks_cons (t : List CT) (els : List (List CT)) (dangle : Bool) :
    seqToks (t :: els) dangle = t ++ tailToks els dangle := by
  induction els generalizing t with
  | nil => simp [seqToks, tailToks]
  | cons t2 r ih => simp only [seqToks, ih, tailToks, List.flatMap_cons]; simp

theorem tailToks_snoc_empty (els : List (List CT)) : tailToks (els ++ [[]]) false = tailToks els true := by
  simp [tailToks, List.flatMap_append]

/-- the first token of an expression: not a closing bracket, not a comma, not a colon -/
def HeadOk (ts : List CT) : Prop :=
  ∃ t r, ts = t :: r ∧ t ≠ .code [93] ∧ t ≠ .code [41] ∧ t ≠ .code [125] ∧ t ≠ .code [44] ∧ t ≠ .code [58]

/-- what an element has to satisfy for the list reader: it reads back with any fuel above its own need, and starts properly -/
structure ElemOk (ts : List CT) (r : RVal) (need : Nat) : Prop where
  head : HeadOk ts
  reads : ∀ f, need ≤ f → ∀ rest, parseV f (ts ++ rest) = some (r, rest)

def isCloser (c : Str) : Prop := c = [93] ∨ c = [41] ∨ c = [125]

theorem parseTail_close (f : Nat) (close : Str) (r : List CT) :
    parseTail (f + 1) close (.code close :: r) = some ([], false, r) := by
  simp [parseTail]

theorem parseTail_comma_close (f : Nat) (close : Str) (hcc : close ≠ [44]) (r : List CT) :
    parseTail (f + 1) close (.code [44] :: .code close :: r) = some ([], true, r) := by
  simp [parseTail, Ne.symm hcc]

theorem parseTail_comma_elem (f : Nat) (close : Str) (hcc : close ≠ [44]) (t0 : CT) (hne : t0 ≠ .code close) (r : List CT) :
    parseTail (f + 1) close (.code [44] :: t0 :: r) = thenTail (parseV f (t0 :: r)) (fun r1 => parseTail f close r1) := by
  cases t0 with
  | code c2 =>
    have hc2 : c2 ≠ close := fun e => hne (by rw [e])
    simp [parseTail, Ne.symm hcc, hc2]
  | lit v => simp [parseTail, Ne.symm hcc]

theorem thenTail_some (x : RVal) (r1 : List CT) (k : List CT → Option (List RVal × Bool × List CT)) (xs : List RVal) (tc : Bool)
    (r2 : List CT) (h : k r1 = some (xs, tc, r2)) : thenTail (some (x, r1)) k = some (x :: xs, tc, r2) := by
  simp [thenTail, h]

/-- reading the tail of a bracketed sequence -/
theorem parseTail_ok (close : Str) (hc : isCloser close) (need : Nat) :
    ∀ (ps : List (List CT × RVal)) (tc : Bool), (∀ p ∈ ps, ElemOk p.1 p.2 need) →
      ∀ f, ps.length + 1 + need ≤ f → ∀ rest,
        parseTail f close (tailToks (ps.map (·.1)) tc ++ .code close :: rest) = some (ps.map (·.2), tc, rest) := by
  have hcc : close ≠ [44] := by rcases hc with h | h | h <;> simp [h]
  intro ps
  induction ps with
  | nil =>
    intro tc _ f hf rest
    cases f with
    | zero => omega
    | succ f =>
      cases tc
      · simpa [tailToks] using parseTail_close f close rest
      · simpa [tailToks, COMMA_T] using parseTail_comma_close f close hcc rest
  | cons p r ih =>
    intro tc h f hf rest
    obtain ⟨t, r1⟩ := p
    have h1 := h (t, r1) (by simp)
    have h2 : ∀ q ∈ r, ElemOk q.1 q.2 need := fun q hq => h q (by simp [hq])
    obtain ⟨t0, tr0, ht, hn1, hn2, hn3, hn4, hn5⟩ := h1.head
    cases f with
    | zero => omega
    | succ f =>
      have hread := h1.reads f (by simp at hf; omega) (tailToks (r.map (·.1)) tc ++ .code close :: rest)
      have ihh := ih tc h2 f (by simp at hf ⊢; omega) rest
      have hne : t0 ≠ .code close := by
        rcases hc with h | h | h <;> subst h <;> assumption
      simp only at ht hread
      subst ht
      have e : tailToks (List.map (·.1) ((t0 :: tr0, r1) :: r)) tc ++ CT.code close :: rest =
          .code [44] :: t0 :: (tr0 ++ (tailToks (r.map (·.1)) tc ++ CT.code close :: rest)) := by
        simp [tailToks, COMMA_T, List.flatMap_cons]
      rw [e, parseTail_comma_elem f close hcc t0 hne]
      have e2 : t0 :: (tr0 ++ (tailToks (r.map (·.1)) tc ++ CT.code close :: rest)) =
          (t0 :: tr0) ++ (tailToks (r.map (·.1)) tc ++ CT.code close :: rest) := rfl
      rw [e2, hread]
      exact thenTail_some _ _ _ _ _ _ ihh

theorem ElemOk.mono {ts : List CT} {r : RVal} {n n' : Nat} (h : ElemOk ts r n) (hn : n ≤ n') : ElemOk ts r n' :=
  ⟨h.head, fun f hf rest => h.reads f (by omega) rest⟩

theorem parseTailStart_close (f : Nat) (close : Str) (r : List CT) :
    parseTailStart (f + 1) close (.code close :: r) = some ([], false, r) := by
  simp [parseTailStart]

theorem parseTailStart_elem (f : Nat) (close : Str) (t0 : CT) (hne : t0 ≠ .code close) (r : List CT) :
    parseTailStart (f + 1) close (t0 :: r) = thenTail (parseV f (t0 :: r)) (fun r1 => parseTail f close r1) := by
  cases t0 with
  | code c2 =>
    have hc2 : c2 ≠ close := fun e => hne (by rw [e])
    simp [parseTailStart, hc2]
  | lit v => simp [parseTailStart]

/-- reading a non-empty bracketed sequence from its first element on -/
theorem parseTailStart_ok (close : Str) (hc : isCloser close) (need : Nat) (p : List CT × RVal) (ps : List (List CT × RVal)) (tc : Bool)
    (h : ∀ q ∈ p :: ps, ElemOk q.1 q.2 need) (f : Nat) (hf : ps.length + 3 + need ≤ f) (rest : List CT) :
    parseTailStart f close (p.1 ++ tailToks (ps.map (·.1)) tc ++ .code close :: rest) = some ((p :: ps).map (·.2), tc, rest) := by
  obtain ⟨t, r1⟩ := p
  have h1 := h (t, r1) (by simp)
  obtain ⟨t0, tr0, ht, hn1, hn2, hn3, hn4, hn5⟩ := h1.head
  have hne : t0 ≠ .code close := by
    rcases hc with h | h | h <;> subst h <;> assumption
  cases f with
  | zero => omega
  | succ f =>
    simp only at ht
    subst ht
    have hread := h1.reads f (by omega) (tailToks (ps.map (·.1)) tc ++ .code close :: rest)
    have htail := parseTail_ok close hc need ps tc (fun q hq => h q (by simp [hq])) f (by omega) rest
    simp only [List.cons_append, List.append_assoc] at hread ⊢
    rw [parseTailStart_elem f close t0 hne, hread]
    exact thenTail_some _ _ _ _ _ _ htail

/-! ### the fragment of C01 and what its values denote -/

mutual
/-- values of the built-in literal types (no subclasses), numbers carrying a numeric literal text -/
def inC01 : PyVal → Bool
  | .commented v _ => inC01 v
  | .trailing v _ => inC01 v
  | .none => true
  | .ellipsis => true
  | .bool _ => true
  | .int cls _ lit => cls.isNone && isNumTok lit
  | .float cls kind lit _ _ => cls.isNone && (kind != 0 || isNumTok lit)
  | .str cls _ _ => cls.isNone
  | .seq _ cls xs => cls.isNone && inC01L xs
  | .frozenset cls xs => cls.isNone && inC01L xs
  | .dict cls kvs => cls.isNone && inC01P kvs
  | _ => false
def inC01L : List PyVal → Bool
  | [] => true
  | v :: r => inC01 v && inC01L r
def inC01P : List (PyVal × PyVal) → Bool
  | [] => true
  | (k, v) :: r => inC01 k && inC01 v && inC01P r
end

mutual
def erase : PyVal → RVal
  | .commented v _ => erase v
  | .trailing v _ => erase v
  | .none => .kw sNone
  | .ellipsis => .kw sEll
  | .bool b => .kw (if b then sTrue else sFalse)
  | .int _ _ lit => .num lit
  | .float _ kind lit _ _ => if kind == 0 then .num lit else .fspecial (floatName kind)
  | .str _ b s => .str b (cps s)
  | .seq kind _ xs => if kind == 0 then .list (eraseL xs) else if kind == 1 then .tuple (eraseL xs) else .set (eraseL xs)
  | .frozenset _ xs => .fset (eraseL xs)
  | .dict _ kvs => .dict (eraseP kvs)
  | _ => .kw []
def eraseL : List PyVal → List RVal
  | [] => []
  | v :: r => erase v :: eraseL r
def eraseP : List (PyVal × PyVal) → List (RVal × RVal)
  | [] => []
  | (k, v) :: r => (erase k, erase v) :: eraseP r
end

mutual
/-- fuel the reader needs for the tokens of a value -/
def need : PyVal → Nat
  | .commented v _ => need v
  | .trailing v _ => need v
  | .seq _ _ xs => xs.length + 4 + needL xs
  | .frozenset _ xs => xs.length + 5 + needL xs
  | .dict _ kvs => kvs.length + 4 + needP kvs
  | _ => 1
def needL : List PyVal → Nat
  | [] => 0
  | v :: r => max (need v) (needL r)
def needP : List (PyVal × PyVal) → Nat
  | [] => 0
  | (k, v) :: r => max (max (need k) (need v)) (needP r)
end

/-! ### leaves -/

theorem beq_head_ne (c d : Nat) (l m : Str) (h : c ≠ d) : (c :: l == d :: m) = false := by
  simp [h]

theorem headOk_code (s : Str) (h1 : s ≠ [93]) (h2 : s ≠ [41]) (h3 : s ≠ [125]) (h4 : s ≠ [44]) (h5 : s ≠ [58]) (r : List CT) :
    HeadOk (.code s :: r) :=
  ⟨.code s, r, rfl, by simpa using h1, by simpa using h2, by simpa using h3, by simpa using h4, by simpa using h5⟩

theorem headOk_lit (v : Option Str) (r : List CT) : HeadOk (.lit v :: r) :=
  ⟨.lit v, r, rfl, by simp, by simp, by simp, by simp, by simp⟩

theorem num_read (lit : Str) (h : isNumTok lit = true) : ElemOk [.code lit] (.num lit) 1 := by
  cases lit with
  | nil => simp [isNumTok] at h
  | cons c l =>
    have hc : (48 ≤ c ∧ c ≤ 57) ∨ c = 45 := by simpa [isNumTok] using h
    have ne : ∀ d m, (d < 45 ∨ d = 46 ∨ d = 47 ∨ 57 < d) → (c :: l == d :: m) = false := by
      intro d m hd; apply beq_head_ne; omega
    refine ⟨headOk_code _ ?_ ?_ ?_ ?_ ?_ _, ?_⟩
    · intro e; injection e with e1; omega
    · intro e; injection e with e1; omega
    · intro e; injection e with e1; omega
    · intro e; injection e with e1; omega
    · intro e; injection e with e1; omega
    · intro f hf rest
      cases f with
      | zero => omega
      | succ f =>
        have e1 := ne 98 [] (by omega)
        have e2 := ne 91 [] (by omega)
        have e3 := ne 40 [] (by omega)
        have e4 := ne 123 [] (by omega)
        have e5 : (c :: l == sFloat) = false := ne 102 _ (by omega)
        have e6 : (c :: l == sSet) = false := ne 115 _ (by omega)
        have e7 : (c :: l == sFrozenset) = false := ne 102 _ (by omega)
        have e8 : isKwTok (c :: l) = false := by
          have a1 : (c :: l == sNone) = false := ne 78 _ (by omega)
          have a2 : (c :: l == sTrue) = false := ne 84 _ (by omega)
          have a3 : (c :: l == sFalse) = false := ne 70 _ (by omega)
          have a4 : (c :: l == sEll) = false := ne 46 _ (by omega)
          simp [isKwTok, a1, a2, a3, a4]
        simp [parseV, e1, e2, e3, e4, e5, e6, e7, e8, h]

theorem kw_read (s : Str) (h : s = sNone ∨ s = sTrue ∨ s = sFalse ∨ s = sEll) : ElemOk [.code s] (.kw s) 1 := by
  refine ⟨headOk_code _ ?_ ?_ ?_ ?_ ?_ _, ?_⟩
  · rcases h with h | h | h | h <;> subst h <;> decide
  · rcases h with h | h | h | h <;> subst h <;> decide
  · rcases h with h | h | h | h <;> subst h <;> decide
  · rcases h with h | h | h | h <;> subst h <;> decide
  · rcases h with h | h | h | h <;> subst h <;> decide
  · intro f hf rest
    cases f with
    | zero => omega
    | succ f =>
      rcases h with h | h | h | h <;> subst h <;>
        simp [parseV, sNone, sTrue, sFalse, sEll, sFloat, sSet, sFrozenset, isKwTok]

theorem str_read (b : Bool) (c : Str) :
    ElemOk ((if b then [CT.code [98]] else []) ++ [.lit (some c)]) (.str b c) 1 := by
  cases b
  · refine ⟨headOk_lit _ _, ?_⟩
    intro f hf rest
    cases f with
    | zero => omega
    | succ f => simp [parseV]
  · refine ⟨headOk_code _ (by decide) (by decide) (by decide) (by decide) (by decide) _, ?_⟩
    intro f hf rest
    cases f with
    | zero => omega
    | succ f => simp [parseV]

theorem fspecial_read (n : Str) : ElemOk [.code sFloat, LP, .lit (some n), RP] (.fspecial n) 1 := by
  refine ⟨headOk_code _ (by decide) (by decide) (by decide) (by decide) (by decide) _, ?_⟩
  intro f hf rest
  cases f with
  | zero => omega
  | succ f => simp [parseV, sFloat, LP, RP]

end Tok
end PP
