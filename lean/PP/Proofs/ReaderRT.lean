/-
C01: the canonical tokens of a value of the built-in literal types read back, unambiguously, to that value — same container
type at every position, same element order, same literal texts, same string contents.
-/
import PP.Spec.Reader
import PP.Proofs.ToksVal
namespace PP
namespace Tok
open Doc PyStr Pr

/-- `, t1 , t2 … , tn` followed by an optional comma -/
def tailToks (els : List (List CT)) (tc : Bool) : List CT :=
  els.flatMap (fun t => COMMA_T :: t) ++ (if tc then [COMMA_T] else [])

theorem seqToks_cons (t : List CT) (els : List (List CT)) (dangle : Bool) :
    seqToks (t :: els) dangle = t ++ tailToks els dangle := by
  induction els generalizing t with
  | nil => simp [seqToks, tailToks]
  | cons t2 r ih => simp only [seqToks, ih, tailToks, List.flatMap_cons]; simp

theorem tailToks_snoc_empty (els : List (List CT)) : tailToks (els ++ [[]]) false = tailToks els true := by
  simp [tailToks, List.flatMap_append]

/-- the first token of an expression: not a closing bracket, not a comma, not a colon -/
def HeadOk (ts : List CT) : Prop :=
  ∃ t r, ts = t :: r ∧ t ≠ .code [93] ∧ t ≠ .code [41] ∧ t ≠ .code [125] ∧ t ≠ .code [44] ∧ t ≠ .code [58]

/-- what an element has to satisfy for the list reader: it reads back with any fuel above its own need, and starts properly -/
structure ElemOk (ts : List CT) (r : RVal) (need : Nat) : Prop where
  head : HeadOk ts
  reads : ∀ f, need ≤ f → ∀ rest, parseV f (ts ++ rest) = some (r, rest)

def isCloser (c : Str) : Prop := c = [93] ∨ c = [41] ∨ c = [125]

theorem parseTail_close (f : Nat) (close : Str) (r : List CT) :
    parseTail (f + 1) close (.code close :: r) = some ([], false, r) := by
  simp [parseTail]

theorem parseTail_comma_close (f : Nat) (close : Str) (hcc : close ≠ [44]) (r : List CT) :
    parseTail (f + 1) close (.code [44] :: .code close :: r) = some ([], true, r) := by
  simp [parseTail, Ne.symm hcc]

theorem parseTail_comma_elem (f : Nat) (close : Str) (hcc : close ≠ [44]) (t0 : CT) (hne : t0 ≠ .code close) (r : List CT) :
    parseTail (f + 1) close (.code [44] :: t0 :: r) = thenTail (parseV f (t0 :: r)) (fun r1 => parseTail f close r1) := by
  cases t0 with
  | code c2 =>
    have hc2 : c2 ≠ close := fun e => hne (by rw [e])
    simp [parseTail, Ne.symm hcc, hc2]
  | lit v => simp [parseTail, Ne.symm hcc]

theorem thenTail_some (x : RVal) (r1 : List CT) (k : List CT → Option (List RVal × Bool × List CT)) (xs : List RVal) (tc : Bool)
    (r2 : List CT) (h : k r1 = some (xs, tc, r2)) : thenTail (some (x, r1)) k = some (x :: xs, tc, r2) := by
  simp [thenTail, h]

/-- reading the tail of a bracketed sequence -/
theorem parseTail_ok (close : Str) (hc : isCloser close) (need : Nat) :
    ∀ (ps : List (List CT × RVal)) (tc : Bool), (∀ p ∈ ps, ElemOk p.1 p.2 need) →
      ∀ f, ps.length + 1 + need ≤ f → ∀ rest,
        parseTail f close (tailToks (ps.map (·.1)) tc ++ .code close :: rest) = some (ps.map (·.2), tc, rest) := by
  have hcc : close ≠ [44] := by rcases hc with h | h | h <;> simp [h]
  intro ps
  induction ps with
  | nil =>
    intro tc _ f hf rest
    cases f with
    | zero => omega
    | succ f =>
      cases tc
      · simpa [tailToks] using parseTail_close f close rest
      · simpa [tailToks, COMMA_T] using parseTail_comma_close f close hcc rest
  | cons p r ih =>
    intro tc h f hf rest
    obtain ⟨t, r1⟩ := p
    have h1 := h (t, r1) (by simp)
    have h2 : ∀ q ∈ r, ElemOk q.1 q.2 need := fun q hq => h q (by simp [hq])
    obtain ⟨t0, tr0, ht, hn1, hn2, hn3, hn4, hn5⟩ := h1.head
    cases f with
    | zero => omega
    | succ f =>
      have hread := h1.reads f (by simp at hf; omega) (tailToks (r.map (·.1)) tc ++ .code close :: rest)
      have ihh := ih tc h2 f (by simp at hf ⊢; omega) rest
      have hne : t0 ≠ .code close := by
        rcases hc with h | h | h <;> subst h <;> assumption
      simp only at ht hread
      subst ht
      have e : tailToks (List.map (·.1) ((t0 :: tr0, r1) :: r)) tc ++ CT.code close :: rest =
          .code [44] :: t0 :: (tr0 ++ (tailToks (r.map (·.1)) tc ++ CT.code close :: rest)) := by
        simp [tailToks, COMMA_T, List.flatMap_cons]
      rw [e, parseTail_comma_elem f close hcc t0 hne]
      have e2 : t0 :: (tr0 ++ (tailToks (r.map (·.1)) tc ++ CT.code close :: rest)) =
          (t0 :: tr0) ++ (tailToks (r.map (·.1)) tc ++ CT.code close :: rest) := rfl
      rw [e2, hread]
      exact thenTail_some _ _ _ _ _ _ ihh

theorem ElemOk.mono {ts : List CT} {r : RVal} {n n' : Nat} (h : ElemOk ts r n) (hn : n ≤ n') : ElemOk ts r n' :=
  ⟨h.head, fun f hf rest => h.reads f (by omega) rest⟩

theorem parseTailStart_close (f : Nat) (close : Str) (r : List CT) :
    parseTailStart (f + 1) close (.code close :: r) = some ([], false, r) := by
  simp [parseTailStart]

theorem parseTailStart_elem (f : Nat) (close : Str) (t0 : CT) (hne : t0 ≠ .code close) (r : List CT) :
    parseTailStart (f + 1) close (t0 :: r) = thenTail (parseV f (t0 :: r)) (fun r1 => parseTail f close r1) := by
  cases t0 with
  | code c2 =>
    have hc2 : c2 ≠ close := fun e => hne (by rw [e])
    simp [parseTailStart, hc2]
  | lit v => simp [parseTailStart]

/-- reading a non-empty bracketed sequence from its first element on -/
theorem parseTailStart_ok (close : Str) (hc : isCloser close) (need : Nat) (p : List CT × RVal) (ps : List (List CT × RVal)) (tc : Bool)
    (h : ∀ q ∈ p :: ps, ElemOk q.1 q.2 need) (f : Nat) (hf : ps.length + 3 + need ≤ f) (rest : List CT) :
    parseTailStart f close (p.1 ++ tailToks (ps.map (·.1)) tc ++ .code close :: rest) = some ((p :: ps).map (·.2), tc, rest) := by
  obtain ⟨t, r1⟩ := p
  have h1 := h (t, r1) (by simp)
  obtain ⟨t0, tr0, ht, hn1, hn2, hn3, hn4, hn5⟩ := h1.head
  have hne : t0 ≠ .code close := by
    rcases hc with h | h | h <;> subst h <;> assumption
  cases f with
  | zero => omega
  | succ f =>
    simp only at ht
    subst ht
    have hread := h1.reads f (by omega) (tailToks (ps.map (·.1)) tc ++ .code close :: rest)
    have htail := parseTail_ok close hc need ps tc (fun q hq => h q (by simp [hq])) f (by omega) rest
    simp only [List.cons_append, List.append_assoc] at hread ⊢
    rw [parseTailStart_elem f close t0 hne, hread]
    exact thenTail_some _ _ _ _ _ _ htail

/-! ### the fragment of C01 and what its values denote -/

mutual
/-- values of the built-in literal types (no subclasses), numbers carrying a numeric literal text -/
def inC01 : PyVal → Bool
  | .commented v _ => inC01 v
  | .trailing v _ => inC01 v
  | .none => true
  | .ellipsis => true
  | .bool _ => true
  | .int cls _ lit => cls.isNone && isNumTok lit
  | .float cls kind lit _ _ => cls.isNone && (kind != 0 || isNumTok lit)
  | .str cls _ _ => cls.isNone
  | .seq kind cls xs => cls.isNone && decide (kind ≤ 2) && inC01L xs
  | .frozenset cls xs => cls.isNone && inC01L xs
  | .dict cls kvs => cls.isNone && inC01P kvs
  | _ => false
def inC01L : List PyVal → Bool
  | [] => true
  | v :: r => inC01 v && inC01L r
def inC01P : List (PyVal × PyVal) → Bool
  | [] => true
  | (k, v) :: r => inC01 k && inC01 v && inC01P r
end

mutual
def erase : PyVal → RVal
  | .commented v _ => erase v
  | .trailing v _ => erase v
  | .none => .kw sNone
  | .ellipsis => .kw sEll
  | .bool b => .kw (if b then sTrue else sFalse)
  | .int _ _ lit => .num lit
  | .float _ kind lit _ _ => if kind == 0 then .num lit else .fspecial (floatName kind)
  | .str _ b s => .str b (cps s)
  | .seq kind _ xs => if kind == 0 then .list (eraseL xs) else if kind == 1 then .tuple (eraseL xs) else .set (eraseL xs)
  | .frozenset _ xs => .fset (eraseL xs)
  | .dict _ kvs => .dict (eraseP kvs)
  | _ => .kw []
def eraseL : List PyVal → List RVal
  | [] => []
  | v :: r => erase v :: eraseL r
def eraseP : List (PyVal × PyVal) → List (RVal × RVal)
  | [] => []
  | (k, v) :: r => (erase k, erase v) :: eraseP r
end

mutual
/-- fuel the reader needs for the tokens of a value -/
def need : PyVal → Nat
  | .commented v _ => need v
  | .trailing v _ => need v
  | .seq _ _ xs => xs.length + 4 + needL xs
  | .frozenset _ xs => xs.length + 5 + needL xs
  | .dict _ kvs => kvs.length + 4 + needP kvs
  | _ => 1
def needL : List PyVal → Nat
  | [] => 0
  | v :: r => max (need v) (needL r)
def needP : List (PyVal × PyVal) → Nat
  | [] => 0
  | (k, v) :: r => max (max (need k) (need v)) (needP r)
end

theorem withTruncation_noLimit' (len : Nat) (t : Option PS) : withTruncation len none t = t := rfl

/-! ### leaves -/

theorem beq_head_ne (c d : Nat) (l m : Str) (h : c ≠ d) : (c :: l == d :: m) = false := by
  simp [h]

theorem headOk_code (s : Str) (h1 : s ≠ [93]) (h2 : s ≠ [41]) (h3 : s ≠ [125]) (h4 : s ≠ [44]) (h5 : s ≠ [58]) (r : List CT) :
    HeadOk (.code s :: r) :=
  ⟨.code s, r, rfl, by simpa using h1, by simpa using h2, by simpa using h3, by simpa using h4, by simpa using h5⟩

theorem headOk_lit (v : Option Str) (r : List CT) : HeadOk (.lit v :: r) :=
  ⟨.lit v, r, rfl, by simp, by simp, by simp, by simp, by simp⟩

theorem num_read (lit : Str) (h : isNumTok lit = true) : ElemOk [.code lit] (.num lit) 1 := by
  cases lit with
  | nil => simp [isNumTok] at h
  | cons c l =>
    have hc : (48 ≤ c ∧ c ≤ 57) ∨ c = 45 := by simpa [isNumTok] using h
    have ne : ∀ d m, (d < 45 ∨ d = 46 ∨ d = 47 ∨ 57 < d) → (c :: l == d :: m) = false := by
      intro d m hd; apply beq_head_ne; omega
    refine ⟨headOk_code _ ?_ ?_ ?_ ?_ ?_ _, ?_⟩
    · intro e; injection e with e1; omega
    · intro e; injection e with e1; omega
    · intro e; injection e with e1; omega
    · intro e; injection e with e1; omega
    · intro e; injection e with e1; omega
    · intro f hf rest
      cases f with
      | zero => omega
      | succ f =>
        have e1 := ne 98 [] (by omega)
        have e2 := ne 91 [] (by omega)
        have e3 := ne 40 [] (by omega)
        have e4 := ne 123 [] (by omega)
        have e5 : (c :: l == sFloat) = false := ne 102 _ (by omega)
        have e6 : (c :: l == sSet) = false := ne 115 _ (by omega)
        have e7 : (c :: l == sFrozenset) = false := ne 102 _ (by omega)
        have e8 : isKwTok (c :: l) = false := by
          have a1 : (c :: l == sNone) = false := ne 78 _ (by omega)
          have a2 : (c :: l == sTrue) = false := ne 84 _ (by omega)
          have a3 : (c :: l == sFalse) = false := ne 70 _ (by omega)
          have a4 : (c :: l == sEll) = false := ne 46 _ (by omega)
          simp [isKwTok, a1, a2, a3, a4]
        simp [parseV, e1, e2, e3, e4, e5, e6, e7, e8, h]

theorem kw_read (s : Str) (h : s = sNone ∨ s = sTrue ∨ s = sFalse ∨ s = sEll) : ElemOk [.code s] (.kw s) 1 := by
  refine ⟨headOk_code _ ?_ ?_ ?_ ?_ ?_ _, ?_⟩
  · rcases h with h | h | h | h <;> subst h <;> decide
  · rcases h with h | h | h | h <;> subst h <;> decide
  · rcases h with h | h | h | h <;> subst h <;> decide
  · rcases h with h | h | h | h <;> subst h <;> decide
  · rcases h with h | h | h | h <;> subst h <;> decide
  · intro f hf rest
    cases f with
    | zero => omega
    | succ f =>
      rcases h with h | h | h | h <;> subst h <;>
        simp [parseV, sNone, sTrue, sFalse, sEll, sFloat, sSet, sFrozenset, isKwTok]

theorem str_read (b : Bool) (c : Str) :
    ElemOk ((if b then [CT.code [98]] else []) ++ [.lit (some c)]) (.str b c) 1 := by
  cases b
  · refine ⟨headOk_lit _ _, ?_⟩
    intro f hf rest
    cases f with
    | zero => omega
    | succ f => simp [parseV]
  · refine ⟨headOk_code _ (by decide) (by decide) (by decide) (by decide) (by decide) _, ?_⟩
    intro f hf rest
    cases f with
    | zero => omega
    | succ f => simp [parseV]

theorem fspecial_read (n : Str) : ElemOk [.code sFloat, LP, .lit (some n), RP] (.fspecial n) 1 := by
  refine ⟨headOk_code _ (by decide) (by decide) (by decide) (by decide) (by decide) _, ?_⟩
  intro f hf rest
  cases f with
  | zero => omega
  | succ f => simp [parseV, sFloat, LP, RP]

/-! ### containers -/

/-- a context without depth limit, max_seq_len and key sorting -/
def Free (ctx : Ctx) : Prop := ctx.depthLeft = none ∧ ctx.maxSeqLen = none ∧ ctx.sortKeys = false

theorem Free.nested {ctx : Ctx} (h : Free ctx) : Free ctx.nested :=
  ⟨by simp [Ctx.nested, h.1], h.2.1, h.2.2⟩

theorem Free.depthZero {ctx : Ctx} (h : Free ctx) : ctx.depthZero = false := by simp [Ctx.depthZero, h.1]
theorem Free.any {ctx : Ctx} (h : Free ctx) : ctx.depthLeft.any (· == 0) = false := by simp [h.1]

theorem need_le_needL : ∀ (xs : List PyVal) (x : PyVal), x ∈ xs → need x ≤ needL xs
  | [], _, h => by simp at h
  | v :: r, x, h => by
    simp only [List.mem_cons] at h
    simp only [needL]
    rcases h with rfl | h
    · omega
    · have := need_le_needL r x h; omega

/-- the token lists and denotations of the elements of a sequence, paired -/
def elemPairs (ctx : Ctx) : List PyVal → List (List CT × RVal)
  | [] => []
  | v :: r => (canonW ctx v none, erase v) :: elemPairs ctx r

theorem elemPairs_fst (ctx : Ctx) : ∀ xs, (elemPairs ctx xs).map (·.1) = canonL ctx xs
  | [] => rfl
  | v :: r => by simp [elemPairs, canonL, elemPairs_fst ctx r]
theorem elemPairs_snd (ctx : Ctx) : ∀ xs, (elemPairs ctx xs).map (·.2) = eraseL xs
  | [] => rfl
  | v :: r => by simp [elemPairs, eraseL, elemPairs_snd ctx r]
theorem elemPairs_length (ctx : Ctx) : ∀ xs, (elemPairs ctx xs).length = xs.length
  | [] => rfl
  | v :: r => by simp [elemPairs, elemPairs_length ctx r]

/-- the tokens between the brackets of a non-empty list / tuple / set: first element, then `, element` …, then an
optional comma (a one-element tuple, or a trailing comment) -/
theorem seq_body (ctx : Ctx) (hf : Free ctx) (kind : Nat) (x : PyVal) (xs : List PyVal) (tr : Option PS) :
    seqCanon ctx kind none (x :: xs).length (canonL ctx.nested (x :: xs)) tr =
      [(bracketToks kind).1] ++ (canonW ctx.nested x none ++ tailToks (canonL ctx.nested xs) (tr.isSome || (kind == 1 && xs.isEmpty))) ++
        [(bracketToks kind).2] := by
  unfold seqCanon
  have hz := hf.depthZero
  simp only [hf.2.1, withTruncation_noLimit', takeOpt, hz, List.length_cons, canonL]
  have hl0 : (xs.length + 1 == 0) = false := by simp
  simp only [hl0, Bool.false_eq_true, if_false, Option.isNone_none, if_true]
  cases tr with
  | some t =>
    simp only [Option.isSome_some, Bool.true_or]
    have : (if (xs.length + 1 == 1) = true then canonW ctx.nested x none :: canonL ctx.nested xs else canonW ctx.nested x none :: canonL ctx.nested xs) =
        canonW ctx.nested x none :: canonL ctx.nested xs := by split <;> rfl
    rw [this]
    have e2 : canonW ctx.nested x none :: canonL ctx.nested xs ++ [[]] = canonW ctx.nested x none :: (canonL ctx.nested xs ++ [[]]) := rfl
    rw [e2, seqToks_cons, tailToks_snoc_empty]
  | none =>
    simp only [Option.isSome_none, Bool.false_or]
    have : (if (xs.length + 1 == 1) = true then canonW ctx.nested x none :: canonL ctx.nested xs else canonW ctx.nested x none :: canonL ctx.nested xs) =
        canonW ctx.nested x none :: canonL ctx.nested xs := by split <;> rfl
    rw [this, seqToks_cons]
    have e : (xs.length + 1 == 1) = xs.isEmpty := by cases xs <;> simp
    rw [e]

/-! ### dicts -/

def pairTail (ps : List (PyVal × List CT × List CT)) : List CT :=
  ps.flatMap fun q => COMMA_T :: (q.2.1 ++ COLON_T :: q.2.2)

theorem dictPairToks_cons (p : PyVal × List CT × List CT) (ps : List (PyVal × List CT × List CT)) :
    dictPairToks (p :: ps) = p.2.1 ++ COLON_T :: p.2.2 ++ pairTail ps := by
  induction ps generalizing p with
  | nil => obtain ⟨k, kt, vt⟩ := p; simp [dictPairToks, pairTail]
  | cons q r ih =>
    obtain ⟨k, kt, vt⟩ := p
    simp only [dictPairToks, ih, pairTail, List.flatMap_cons]
    simp

theorem pairWith_ok (f : Nat) (kt vt : List CT) (ek ev : RVal) (nk : Nat) (hk : ElemOk kt ek nk) (hv : ElemOk vt ev nk) (hf : nk ≤ f)
    (rest : List CT) :
    pairWith (fun t => parseV f t) (kt ++ COLON_T :: vt ++ rest) = some ((ek, ev), rest) := by
  have h1 := hk.reads f hf (COLON_T :: vt ++ rest)
  have h2 := hv.reads f hf rest
  unfold pairWith
  simp only [List.append_assoc, List.cons_append] at h1 ⊢
  rw [h1]
  simp only [COLON_T]
  rw [h2]

theorem parsePairs_close (f : Nat) (r : List CT) : parsePairs (f + 1) (.code [125] :: r) = some ([], r) := by
  simp [parsePairs]

theorem parsePairs_comma (f : Nat) (t0 : CT) (hne : t0 ≠ .code [125]) (r : List CT) :
    parsePairs (f + 1) (.code [44] :: t0 :: r) = thenPairs (pairWith (fun t => parseV f t) (t0 :: r)) (fun t => parsePairs f t) := by
  cases t0 with
  | code c2 =>
    have hc2 : c2 ≠ [125] := fun e => hne (by rw [e])
    simp [parsePairs, hc2]
  | lit v => simp [parsePairs]

theorem thenPairs_some (kv : RVal × RVal) (r1 : List CT) (k : List CT → Option (List (RVal × RVal) × List CT)) (kvs : List (RVal × RVal))
    (r2 : List CT) (h : k r1 = some (kvs, r2)) : thenPairs (some (kv, r1)) k = some (kv :: kvs, r2) := by
  simp [thenPairs, h]

/-- token pairs with their denotations -/
structure PairOk (q : PyVal × List CT × List CT) (d : RVal × RVal) (n : Nat) : Prop where
  key : ElemOk q.2.1 d.1 n
  val : ElemOk q.2.2 d.2 n

theorem parsePairs_ok (n : Nat) : ∀ (ps : List ((PyVal × List CT × List CT) × (RVal × RVal))), (∀ p ∈ ps, PairOk p.1 p.2 n) →
    ∀ f, ps.length + 1 + n ≤ f → ∀ rest,
      parsePairs f (pairTail (ps.map (·.1)) ++ .code [125] :: rest) = some (ps.map (·.2), rest) := by
  intro ps
  induction ps with
  | nil =>
    intro _ f hf rest
    cases f with
    | zero => omega
    | succ f => simpa [pairTail] using parsePairs_close f rest
  | cons p r ih =>
    intro h f hf rest
    obtain ⟨⟨k, kt, vt⟩, ⟨ek, ev⟩⟩ := p
    have hp := h _ (List.mem_cons_self ..)
    obtain ⟨t0, tr0, ht, _, _, hn3, _, _⟩ := hp.key.head
    cases f with
    | zero => omega
    | succ f =>
      simp only at ht
      subst ht
      have ihh := ih (fun q hq => h q (by simp [hq])) f (by simp at hf ⊢; omega) rest
      have hpw := pairWith_ok f (t0 :: tr0) vt ek ev n hp.key hp.val (by simp at hf; omega)
        (pairTail (r.map (·.1)) ++ .code [125] :: rest)
      have e : pairTail (List.map (·.1) (((k, t0 :: tr0, vt), (ek, ev)) :: r)) ++ CT.code [125] :: rest =
          .code [44] :: t0 :: (tr0 ++ COLON_T :: vt ++ (pairTail (r.map (·.1)) ++ CT.code [125] :: rest)) := by
        simp [pairTail, COMMA_T, List.flatMap_cons]
      rw [e, parsePairs_comma f t0 hn3]
      have e2 : t0 :: (tr0 ++ COLON_T :: vt ++ (pairTail (r.map (·.1)) ++ CT.code [125] :: rest)) =
          (t0 :: tr0) ++ COLON_T :: vt ++ (pairTail (r.map (·.1)) ++ CT.code [125] :: rest) := by simp
      rw [e2, hpw]
      exact thenPairs_some _ _ _ _ _ ihh

/-! ### the main induction -/

theorem numTok_not_blank (lit : Str) (h : isNumTok lit = true) : isBlank lit = false := by
  cases lit with
  | nil => simp [isNumTok] at h
  | cons c l =>
    have hc : (48 ≤ c ∧ c ≤ 57) ∨ c = 45 := by simpa [isNumTok] using h
    have : c ≠ 32 := by omega
    simp [isBlank, this]

theorem parseV_list (f : Nat) (r : List CT) :
    parseV (f + 1) (.code [91] :: r) = asList (parseTailStart f [93] r) := by
  simp [parseV]

theorem parseV_tuple (f : Nat) (r : List CT) :
    parseV (f + 1) (.code [40] :: r) = asTuple (parseTailStart f [41] r) := by
  simp [parseV]

theorem parseV_brace (f : Nat) (r : List CT) : parseV (f + 1) (.code [123] :: r) = parseBrace f r := by
  simp [parseV]

theorem parseV_set0 (f : Nat) (r : List CT) : parseV (f + 1) (.code sSet :: LP :: RP :: r) = some (.set [], r) := by
  simp [parseV, sSet, sFloat, LP, RP]

theorem parseV_fset0 (f : Nat) (r : List CT) : parseV (f + 1) (.code sFrozenset :: LP :: RP :: r) = some (.fset [], r) := by
  simp [parseV, sFrozenset, sSet, sFloat, LP, RP]

theorem parseV_fset (f : Nat) (r : List CT) :
    parseV (f + 1) (.code sFrozenset :: LP :: .code [91] :: r) = asFset (parseTailStart f [93] r) := by
  simp [parseV, sFrozenset, sSet, sFloat, LP]

theorem cd_name (s : Str) (h : isBlank s = false) : cd s = [.code s] := by simp [cd, h]

theorem headOk_open (c : Nat) (hc : c = 91 ∨ c = 40 ∨ c = 123) (r : List CT) : HeadOk (.code [c] :: r) := by
  refine headOk_code _ ?_ ?_ ?_ ?_ ?_ _ <;> (intro e; injection e with e1; omega)

theorem braceAfterFirst_set (x : RVal) (r1 : List CT) (pv pairs) (tail : List CT → Option (List RVal × Bool × List CT))
    (xs : List RVal) (tc : Bool) (r2 : List CT) (hnc : ∀ r', r1 ≠ .code [58] :: r') (ht : tail r1 = some (xs, tc, r2)) :
    braceAfterFirst (some (x, r1)) pv pairs tail = some (.set (x :: xs), r2) := by
  unfold braceAfterFirst
  split
  · rename_i x' r1' heq
    simp only [Option.some.injEq, Prod.mk.injEq] at heq
    exact absurd heq.2 (hnc r1')
  · rename_i x' r1' _ heq
    simp only [Option.some.injEq, Prod.mk.injEq] at heq
    obtain ⟨rfl, rfl⟩ := heq
    rw [ht]
  · rename_i heq; cases heq

theorem braceAfterFirst_dict (x v : RVal) (r1 r2 r3 : List CT) (pv : List CT → Option (RVal × List CT)) (pairs) (tail)
    (kvs : List (RVal × RVal)) (hv : pv r1 = some (v, r2)) (hp : pairs r2 = some (kvs, r3)) :
    braceAfterFirst (some (x, .code [58] :: r1)) pv pairs tail = some (.dict ((x, v) :: kvs), r3) := by
  simp [braceAfterFirst, hv, hp]

theorem tailToks_head (els : List (List CT)) (tc : Bool) (close : Str) (rest : List CT) (hc : close ≠ [58]) :
    ∀ r', tailToks els tc ++ .code close :: rest ≠ .code [58] :: r' := by
  intro r' e
  cases els with
  | nil =>
    cases tc
    · simp [tailToks] at e; exact hc e.1
    · simp [tailToks, COMMA_T] at e
  | cons t r => simp [tailToks, COMMA_T, List.flatMap_cons] at e

/-- pairs of a dict with their denotations -/
def pairPairs (ctx : Ctx) : List (PyVal × PyVal) → List ((PyVal × List CT × List CT) × (RVal × RVal))
  | [] => []
  | (k, v) :: r => ((k, canonW ctx.nested k none, canonW ctx.nested v none), (erase k, erase v)) :: pairPairs ctx r

theorem keyCanon_free (ctx : Ctx) (hf : Free ctx) (k : PyVal) : keyCanon k (canonW ctx.nested k none) = canonW ctx.nested k none := by
  cases k <;> simp [keyCanon, canonW, hf.nested.depthZero]

theorem pairPairs_fst (ctx : Ctx) (hf : Free ctx) : ∀ kvs, (pairPairs ctx kvs).map (·.1) = canonPairs ctx kvs
  | [] => rfl
  | (k, v) :: r => by simp [pairPairs, canonPairs, pairPairs_fst ctx hf r, keyCanon_free ctx hf k]
theorem pairPairs_snd (ctx : Ctx) : ∀ kvs, (pairPairs ctx kvs).map (·.2) = eraseP kvs
  | [] => rfl
  | (k, v) :: r => by simp [pairPairs, eraseP, pairPairs_snd ctx r]
theorem pairPairs_length (ctx : Ctx) : ∀ kvs, (pairPairs ctx kvs).length = kvs.length
  | [] => rfl
  | (k, v) :: r => by simp [pairPairs, pairPairs_length ctx r]

mutual
theorem canon_reads : (v : PyVal) → inC01 v = true → ∀ (ctx : Ctx), Free ctx → ∀ (tr : Option PS),
    ElemOk (canonW ctx v tr) (erase v) (need v)
  | .commented v t, h, ctx, hf, tr => by
      simp only [canonW, erase, need]; exact canon_reads v (by simpa [inC01] using h) ctx hf tr
  | .trailing v t, h, ctx, hf, tr => by
      simp only [canonW, erase, need]; exact canon_reads v (by simpa [inC01] using h) ctx hf (some t)
  | .none, _, ctx, hf, tr => by simp only [canonW, erase, need]; exact kw_read sNone (Or.inl rfl)
  | .ellipsis, _, ctx, hf, tr => by
      simp only [canonW, erase, need]; exact kw_read sEll (Or.inr (Or.inr (Or.inr rfl)))
  | .bool b, _, ctx, hf, tr => by
      simp only [canonW, erase, need]
      cases b
      · exact kw_read sFalse (Or.inr (Or.inr (Or.inl rfl)))
      · exact kw_read sTrue (Or.inr (Or.inl rfl))
  | .int cls val lit, h, ctx, hf, tr => by
      simp only [inC01, Bool.and_eq_true, Option.isNone_iff_eq_none] at h
      obtain ⟨rfl, hl⟩ := h
      simp only [canonW, hf.depthZero, Bool.false_eq_true, if_false, wrapToks, erase, need, cd_name lit (numTok_not_blank lit hl)]
      exact num_read lit hl
  | .float cls kind lit n d, h, ctx, hf, tr => by
      simp only [inC01, Bool.and_eq_true, Option.isNone_iff_eq_none, Bool.or_eq_true] at h
      obtain ⟨rfl, hl⟩ := h
      simp only [canonW, hf.depthZero, Bool.false_eq_true, if_false, erase, need, Option.getD_none]
      by_cases hk : (kind == 0) = true
      · have hl' : isNumTok lit = true := by
          rcases hl with h | h
          · have h0 : kind = 0 := by simpa using hk
            subst h0; simp at h
          · exact h
        simp only [hk, if_true, wrapToks, cd_name lit (numTok_not_blank lit hl')]
        exact num_read lit hl'
      · simp only [hk, Bool.false_eq_true, if_false, hf.nested.depthZero]
        have : callToks (builtin nmFloat) [[CT.lit (some (floatName kind))]] = [.code sFloat, LP, .lit (some (floatName kind)), RP] := by
          simp [callToks, builtin, nmFloat, sFloat, cd, isBlank, seqToks]
        rw [this]
        exact fspecial_read _
  | .str cls b s, h, ctx, hf, tr => by
      simp only [inC01, Option.isNone_iff_eq_none] at h
      subst h
      simp only [canonW, hf.depthZero, Bool.false_eq_true, if_false, erase, need, strCanon]
      exact str_read b (cps s)
  | .seq kind cls xs, h, ctx, hf, tr => by
      simp only [inC01, Bool.and_eq_true, Option.isNone_iff_eq_none, decide_eq_true_eq] at h
      obtain ⟨⟨rfl, hk⟩, hxs⟩ := h
      simp only [canonW]
      cases xs with
      | nil =>
        -- the empty list / tuple / set
        simp only [seqCanon, List.length_nil, beq_self_eq_true, if_true, Option.isNone_none, Bool.and_true, canonL, erase, eraseL, need]
        have hk3 : kind = 0 ∨ kind = 1 ∨ kind = 2 := by omega
        rcases hk3 with rfl | rfl | rfl
        · refine ⟨headOk_open 91 (Or.inl rfl) _, ?_⟩
          intro f hfu rest
          cases f with
          | zero => simp [needL] at hfu
          | succ f =>
            cases f with
            | zero => simp [needL] at hfu
            | succ f => simp [bracketToks, parseV_list, parseTailStart_close, asList]
        · refine ⟨headOk_open 40 (Or.inr (Or.inl rfl)) _, ?_⟩
          intro f hfu rest
          cases f with
          | zero => simp [needL] at hfu
          | succ f =>
            cases f with
            | zero => simp [needL] at hfu
            | succ f => simp [bracketToks, LP, RP, parseV_tuple, parseTailStart_close, asTuple]
        · have : emptyCallToks ctx (builtin (seqName 2)) = [.code sSet, LP, RP] := by
            simp [emptyCallToks, hf.any, builtin, seqName, nmSet, sSet, cd, isBlank]
          simp only [bne_self_eq_false, Bool.false_and, Bool.false_eq_true, if_false, Option.getD_none, this]
          refine ⟨headOk_code _ (by decide) (by decide) (by decide) (by decide) (by decide) _, ?_⟩
          intro f hfu rest
          cases f with
          | zero => simp [needL] at hfu
          | succ f => simpa using parseV_set0 f rest
      | cons x xs' =>
        simp only [inC01L, Bool.and_eq_true] at hxs
        have hpairs : ∀ q ∈ elemPairs ctx.nested (x :: xs'), ElemOk q.1 q.2 (needL (x :: xs')) := by
          exact elemPairs_ok (x :: xs') (by simpa [inC01L] using hxs) ctx.nested hf.nested
        rw [seq_body ctx hf kind x xs' (nonEmpty? tr)]
        simp only [erase, need]
        have hk3 : kind = 0 ∨ kind = 1 ∨ kind = 2 := by omega
        have hstart : ∀ (close : Str) (hc : isCloser close) (f : Nat), xs'.length + 3 + needL (x :: xs') ≤ f → ∀ (tc : Bool) (rest : List CT),
            parseTailStart f close (canonW ctx.nested x none ++ tailToks (canonL ctx.nested xs') tc ++ .code close :: rest) =
              some (eraseL (x :: xs'), tc, rest) := by
          intro close hc f hfu tc rest
          have := parseTailStart_ok close hc (needL (x :: xs')) (canonW ctx.nested x none, erase x) (elemPairs ctx.nested xs') tc
            (by simpa [elemPairs] using hpairs) f (by rw [elemPairs_length]; exact hfu) rest
          simpa [elemPairs_fst, elemPairs_snd, eraseL] using this
        rcases hk3 with rfl | rfl | rfl
        · refine ⟨headOk_open 91 (Or.inl rfl) _, ?_⟩
          intro f hfu rest
          cases f with
          | zero => simp at hfu
          | succ f =>
            have := hstart [93] (Or.inl rfl) f (by simp at hfu ⊢; omega) ((nonEmpty? tr).isSome || (0 == 1 && xs'.isEmpty)) rest
            simp only [bracketToks, beq_self_eq_true, if_true, List.cons_append, List.nil_append, List.append_assoc, List.singleton_append] at this ⊢
            rw [parseV_list, this]
            rfl
        · refine ⟨headOk_open 40 (Or.inr (Or.inl rfl)) _, ?_⟩
          intro f hfu rest
          cases f with
          | zero => simp at hfu
          | succ f =>
            have := hstart [41] (Or.inr (Or.inl rfl)) f (by simp at hfu ⊢; omega) ((nonEmpty? tr).isSome || (1 == 1 && xs'.isEmpty)) rest
            simp only [bracketToks, LP, RP, List.cons_append, List.nil_append, List.append_assoc, List.singleton_append] at this ⊢
            simp only [show ((1 : Nat) == 0) = false from rfl, Bool.false_eq_true, if_false, beq_self_eq_true, if_true] at this ⊢
            rw [parseV_tuple, this]
            -- a one-element tuple always carries its comma
            cases xs' with
            | nil => simp [asTuple, eraseL]
            | cons y ys => simp [asTuple, eraseL]
        · have eT : ((nonEmpty? tr).isSome || ((2 : Nat) == 1 && xs'.isEmpty)) = (nonEmpty? tr).isSome := by simp
          rw [eT]
          refine ⟨headOk_open 123 (Or.inr (Or.inr rfl)) _, ?_⟩
          intro f hfu rest
          cases f with
          | zero => simp at hfu
          | succ f =>
            cases f with
            | zero => simp at hfu; omega
            | succ f =>
              have hx := hpairs (canonW ctx.nested x none, erase x) (by simp [elemPairs])
              obtain ⟨t0, tr0, ht, _, _, hn3, _, _⟩ := hx.head
              simp only at ht
              have hread := hx.reads f (by simp at hfu ⊢; have := need_le_needL (x :: xs') x (by simp); omega)
                (tailToks (canonL ctx.nested xs') (nonEmpty? tr).isSome ++ .code [125] :: rest)
              have htail := parseTail_ok [125] (Or.inr (Or.inr rfl)) (needL (x :: xs')) (elemPairs ctx.nested xs')
                (nonEmpty? tr).isSome (fun q hq => hpairs q (by simp [elemPairs, hq])) f
                (by rw [elemPairs_length]; simp at hfu ⊢; omega) rest
              rw [elemPairs_fst, elemPairs_snd] at htail
              simp only [bracketToks, List.cons_append, List.nil_append, List.append_assoc, List.singleton_append]
              simp only [show ((2 : Nat) == 0) = false from rfl, show ((2 : Nat) == 1) = false from rfl, Bool.false_eq_true, if_false]
              rw [parseV_brace]
              simp only at hread
              rw [ht] at hread ⊢
              simp only [List.cons_append] at hread ⊢
              have hb : ∀ r, parseBrace (f + 1) (t0 :: r) =
                  braceAfterFirst (parseV f (t0 :: r)) (fun t => parseV f t) (fun t => parsePairs f t) (fun t => parseTail f [125] t) := by
                intro r
                cases t0 with
                | code c2 =>
                  have : c2 ≠ [125] := fun e => hn3 (by rw [e])
                  simp [parseBrace, this]
                | lit v => simp [parseBrace]
              rw [hb, hread]
              rw [braceAfterFirst_set _ _ _ _ _ _ _ _ (tailToks_head _ _ _ _ (by decide)) htail]
              simp [eraseL]
  | .frozenset cls xs, h, ctx, hf, tr => by
      simp only [inC01, Bool.and_eq_true, Option.isNone_iff_eq_none] at h
      obtain ⟨rfl, hxs⟩ := h
      simp only [canonW, hf.any, Bool.false_eq_true, if_false, Option.getD_none, erase, need]
      have hname : cd (builtin nmFrozenset).2 = [.code sFrozenset] := by simp [builtin, nmFrozenset, sFrozenset, cd, isBlank]
      cases xs with
      | nil =>
        simp only [List.isEmpty_nil, if_true, hname, eraseL]
        refine ⟨headOk_code _ (by decide) (by decide) (by decide) (by decide) (by decide) _, ?_⟩
        intro f hfu rest
        cases f with
        | zero => simp at hfu
        | succ f => simpa using parseV_fset0 f rest
      | cons x xs' =>
        have hpairs : ∀ q ∈ elemPairs ctx.nested (x :: xs'), ElemOk q.1 q.2 (needL (x :: xs')) :=
          elemPairs_ok (x :: xs') hxs ctx.nested hf.nested
        simp only [List.isEmpty_cons, Bool.false_eq_true, if_false]
        rw [seq_body ctx hf 0 x xs' none]
        simp only [callToks, hname, seqToks, bracketToks, beq_self_eq_true, if_true, Option.isSome_none, Bool.false_or,
          show ((0 : Nat) == 1) = false from rfl, Bool.false_and]
        refine ⟨headOk_code _ (by decide) (by decide) (by decide) (by decide) (by decide) _, ?_⟩
        intro f hfu rest
        cases f with
        | zero => simp at hfu
        | succ f =>
          have := parseTailStart_ok [93] (Or.inl rfl) (needL (x :: xs')) (canonW ctx.nested x none, erase x) (elemPairs ctx.nested xs') false
            (by simpa [elemPairs] using hpairs) f (by rw [elemPairs_length]; simp at hfu ⊢; omega) (RP :: rest)
          simp only [List.map_cons, elemPairs_fst, elemPairs_snd] at this
          simp only [List.cons_append, List.nil_append, List.append_assoc, List.singleton_append, Bool.false_eq_true, if_false, List.append_nil] at this ⊢
          rw [parseV_fset, this]
          simp [asFset, RP, eraseL]
  | .dict cls kvs, h, ctx, hf, tr => by
      simp only [inC01, Bool.and_eq_true, Option.isNone_iff_eq_none] at h
      obtain ⟨rfl, hkv⟩ := h
      have hpp := pairPairs_ok kvs hkv ctx hf
      simp only [canonW, erase, need]
      unfold dictCanon
      simp only [hf.depthZero, Bool.false_eq_true, if_false, hf.2.2, hf.2.1, takeOpt, Option.isNone_none, if_true]
      refine ⟨headOk_open 123 (Or.inr (Or.inr rfl)) _, ?_⟩
      intro f hfu rest
      cases f with
      | zero => omega
      | succ f =>
        cases f with
        | zero => omega
        | succ f =>
          simp only [List.cons_append, List.nil_append, List.append_assoc, List.singleton_append]
          rw [parseV_brace]
          cases kvs with
          | nil => simp [canonPairs, dictPairToks, parseBrace, eraseP]
          | cons kv kvs' =>
            obtain ⟨k, v⟩ := kv
            have hp1 := hpp ((k, canonW ctx.nested k none, canonW ctx.nested v none), (erase k, erase v)) (by simp [pairPairs])
            obtain ⟨t0, tr0, ht, _, _, hn3, _, _⟩ := hp1.key.head
            simp only at ht
            rw [← pairPairs_fst ctx hf]
            simp only [pairPairs, List.map_cons]
            rw [dictPairToks_cons]
            simp only [List.append_assoc, List.cons_append]
            have hkread := hp1.key.reads f (by simp [needP] at hfu ⊢; omega)
              (COLON_T :: (canonW ctx.nested v none ++ (pairTail ((pairPairs ctx kvs').map (·.1)) ++ CT.code [125] :: rest)))
            have hvread := hp1.val.reads f (by simp [needP] at hfu ⊢; omega)
              (pairTail ((pairPairs ctx kvs').map (·.1)) ++ CT.code [125] :: rest)
            have hrest := parsePairs_ok (needP ((k, v) :: kvs')) (pairPairs ctx kvs') (fun q hq => hpp q (by simp [pairPairs, hq])) f
              (by rw [pairPairs_length]; simp at hfu ⊢; omega) rest
            simp only at hkread hvread
            rw [ht] at hkread ⊢
            simp only [List.cons_append] at hkread ⊢
            have hb : ∀ r, parseBrace (f + 1) (t0 :: r) =
                braceAfterFirst (parseV f (t0 :: r)) (fun t => parseV f t) (fun t => parsePairs f t) (fun t => parseTail f [125] t) := by
              intro r
              cases t0 with
              | code c2 =>
                have : c2 ≠ [125] := fun e => hn3 (by rw [e])
                simp [parseBrace, this]
              | lit v => simp [parseBrace]
            rw [hb, hkread]
            simp only [COLON_T]
            rw [braceAfterFirst_dict _ _ _ _ _ _ _ _ _ hvread hrest]
            simp [eraseP, pairPairs_snd]
  | .opaque _, h, _, _, _ => by simp [inC01] at h
  | .ident _, h, _, _, _ => by simp [inC01] at h
  | .timedelta _ _ _, h, _, _, _ => by simp [inC01] at h
  | .path _ _, h, _, _, _ => by simp [inC01] at h
  | .call _ _ _, h, _, _, _ => by simp [inC01] at h

theorem elemPairs_ok : (xs : List PyVal) → inC01L xs = true → ∀ (ctx : Ctx), Free ctx →
    ∀ q ∈ elemPairs ctx xs, ElemOk q.1 q.2 (needL xs)
  | [], _, _, _ => by simp [elemPairs]
  | v :: r, h, ctx, hf => by
      simp only [inC01L, Bool.and_eq_true] at h
      intro q hq
      simp only [elemPairs, List.mem_cons] at hq
      rcases hq with rfl | hq
      · exact (canon_reads v h.1 ctx hf none).mono (by simp [needL]; omega)
      · exact (elemPairs_ok r h.2 ctx hf q hq).mono (by simp [needL]; omega)

theorem pairPairs_ok : (kvs : List (PyVal × PyVal)) → inC01P kvs = true → ∀ (ctx : Ctx), Free ctx →
    ∀ p ∈ pairPairs ctx kvs, PairOk p.1 p.2 (needP kvs)
  | [], _, _, _ => by simp [pairPairs]
  | (k, v) :: r, h, ctx, hf => by
      simp only [inC01P, Bool.and_eq_true] at h
      intro p hp
      simp only [pairPairs, List.mem_cons] at hp
      rcases hp with rfl | hp
      · exact ⟨(canon_reads k h.1.1 ctx.nested hf.nested none).mono (by simp [needP]; omega),
               (canon_reads v h.1.2 ctx.nested hf.nested none).mono (by simp [needP]; omega)⟩
      · have := pairPairs_ok r h.2 ctx hf p hp
        exact ⟨this.key.mono (by simp [needP]; omega), this.val.mono (by simp [needP]; omega)⟩
end

end Tok
end PP
