/-
C01: the canonical tokens of a value of the built-in literal types read back, unambiguously, to that value — same container
type at every position, same element order, same literal texts, same string contents.
-/
import PP.Spec.Reader
import PP.Proofs.ToksVal
namespace PP
namespace Tok
open Doc PyStr Pr

/-- `, t1 , t2 … , tn` followed by an optional comma -/
def tailToks (els : List (List CT)) (tc : Bool) : List CT :=
  els.flatMap (fun t => COMMA_T :: t) ++ (if tc then [COMMA_T] else [])

theorem seqToks_cons (t : List CT) (els : List (List CT)) (dangle : Bool) :
    seqToks (t :: els) dangle = t ++ tailToks els dangle := by
  induction els generalizing t with
  | nil => simp [seqToks, tailToks]
  | cons t2 r ih => simp only [seqToks, ih, tailToks, List.flatMap_cons]; simp

theorem tailToks_snoc_empty (els : List (List CT)) : tailToks (els ++ [[]]) false = tailToks els true := by
  simp [tailToks, List.flatMap_append]

/-- the first token of an expression: not a closing bracket, not a comma, not a colon -/
def HeadOk (ts : List CT) : Prop :=
  ∃ t r, ts = t :: r ∧ t ≠ .code [93] ∧ t ≠ .code [41] ∧ t ≠ .code [125] ∧ t ≠ .code [44] ∧ t ≠ .code [58]

/-- what may follow an expression without changing its reading: nothing, a literal, or a code token that does not continue a name
(no `(`, no `=`, no `.attr`) -/
def FollowOk (rest : List CT) : Prop := ∀ s r, rest = .code s :: r → s ≠ [40] ∧ s ≠ [61] ∧ isAttrTok s = false

/-- what an element has to satisfy for the list reader: it reads back with any fuel above its own need, and starts properly -/
structure ElemOk (ts : List CT) (r : RVal) (need : Nat) : Prop where
  head : HeadOk ts
  reads : ∀ f, need ≤ f → ∀ rest, FollowOk rest → parseV f (ts ++ rest) = some (r, rest)

def isCloser (c : Str) : Prop := c = [93] ∨ c = [41] ∨ c = [125]

theorem followOk_nil : FollowOk [] := by intro s r h; cases h
theorem followOk_code {c : Str} {r : List CT} (h1 : c ≠ [40]) (h2 : c ≠ [61]) (h3 : isAttrTok c = false) : FollowOk (.code c :: r) := by
  intro s r' h; cases h; exact ⟨h1, h2, h3⟩
theorem followOk_lit {v : Option Str} {r : List CT} : FollowOk (.lit v :: r) := by intro s r' h; cases h
theorem followOk_comma {r : List CT} : FollowOk (.code [44] :: r) := followOk_code (by decide) (by decide) (by decide)
theorem followOk_colon {r : List CT} : FollowOk (.code [58] :: r) := followOk_code (by decide) (by decide) (by decide)
theorem followOk_close {c : Str} (hc : isCloser c) {r : List CT} : FollowOk (.code c :: r) := by
  rcases hc with h | h | h <;> subst h <;> exact followOk_code (by decide) (by decide) (by decide)
theorem followOk_tail {close : Str} (hc : isCloser close) (els : List (List CT)) (tc : Bool) (rest : List CT) :
    FollowOk (tailToks els tc ++ .code close :: rest) := by
  cases els with
  | nil => cases tc <;> simp [tailToks] <;> first | exact followOk_close hc | exact followOk_comma
  | cons t r => simp [tailToks, List.flatMap_cons, COMMA_T]; exact followOk_comma

theorem parseTail_close (f : Nat) (close : Str) (r : List CT) :
    parseTail (f + 1) close (.code close :: r) = some ([], false, r) := by
  simp [parseTail]

theorem parseTail_comma_close (f : Nat) (close : Str) (hcc : close ≠ [44]) (r : List CT) :
    parseTail (f + 1) close (.code [44] :: .code close :: r) = some ([], true, r) := by
  simp [parseTail, Ne.symm hcc]

theorem parseTail_comma_elem (f : Nat) (close : Str) (hcc : close ≠ [44]) (t0 : CT) (hne : t0 ≠ .code close) (r : List CT) :
    parseTail (f + 1) close (.code [44] :: t0 :: r) = thenTail (parseV f (t0 :: r)) (fun r1 => parseTail f close r1) := by
  cases t0 with
  | code c2 =>
    have hc2 : c2 ≠ close := fun e => hne (by rw [e])
    simp [parseTail, Ne.symm hcc, hc2]
  | lit v => simp [parseTail, Ne.symm hcc]

theorem thenTail_some (x : RVal) (r1 : List CT) (k : List CT → Option (List RVal × Bool × List CT)) (xs : List RVal) (tc : Bool)
    (r2 : List CT) (h : k r1 = some (xs, tc, r2)) : thenTail (some (x, r1)) k = some (x :: xs, tc, r2) := by
  simp [thenTail, h]

/-- reading the tail of a bracketed sequence -/
theorem parseTail_ok (close : Str) (hc : isCloser close) (need : Nat) :
    ∀ (ps : List (List CT × RVal)) (tc : Bool), (∀ p ∈ ps, ElemOk p.1 p.2 need) →
      ∀ f, ps.length + 1 + need ≤ f → ∀ rest,
        parseTail f close (tailToks (ps.map (·.1)) tc ++ .code close :: rest) = some (ps.map (·.2), tc, rest) := by
  have hcc : close ≠ [44] := by rcases hc with h | h | h <;> simp [h]
  intro ps
  induction ps with
  | nil =>
    intro tc _ f hf rest
    cases f with
    | zero => omega
    | succ f =>
      cases tc
      · simpa [tailToks] using parseTail_close f close rest
      · simpa [tailToks, COMMA_T] using parseTail_comma_close f close hcc rest
  | cons p r ih =>
    intro tc h f hf rest
    obtain ⟨t, r1⟩ := p
    have h1 := h (t, r1) (by simp)
    have h2 : ∀ q ∈ r, ElemOk q.1 q.2 need := fun q hq => h q (by simp [hq])
    obtain ⟨t0, tr0, ht, hn1, hn2, hn3, hn4, hn5⟩ := h1.head
    cases f with
    | zero => omega
    | succ f =>
      have hread := h1.reads f (by simp at hf; omega) (tailToks (r.map (·.1)) tc ++ .code close :: rest) (followOk_tail hc _ _ _)
      have ihh := ih tc h2 f (by simp at hf ⊢; omega) rest
      have hne : t0 ≠ .code close := by
        rcases hc with h | h | h <;> subst h <;> assumption
      simp only at ht hread
      subst ht
      have e : tailToks (List.map (·.1) ((t0 :: tr0, r1) :: r)) tc ++ CT.code close :: rest =
          .code [44] :: t0 :: (tr0 ++ (tailToks (r.map (·.1)) tc ++ CT.code close :: rest)) := by
        simp [tailToks, COMMA_T, List.flatMap_cons]
      rw [e, parseTail_comma_elem f close hcc t0 hne]
      have e2 : t0 :: (tr0 ++ (tailToks (r.map (·.1)) tc ++ CT.code close :: rest)) =
          (t0 :: tr0) ++ (tailToks (r.map (·.1)) tc ++ CT.code close :: rest) := rfl
      rw [e2, hread]
      exact thenTail_some _ _ _ _ _ _ ihh

theorem ElemOk.mono {ts : List CT} {r : RVal} {n n' : Nat} (h : ElemOk ts r n) (hn : n ≤ n') : ElemOk ts r n' :=
  ⟨h.head, fun f hf rest hrest => h.reads f (by omega) rest hrest⟩

theorem parseTailStart_close (f : Nat) (close : Str) (r : List CT) :
    parseTailStart (f + 1) close (.code close :: r) = some ([], false, r) := by
  simp [parseTailStart]

theorem parseTailStart_elem (f : Nat) (close : Str) (t0 : CT) (hne : t0 ≠ .code close) (r : List CT) :
    parseTailStart (f + 1) close (t0 :: r) = thenTail (parseV f (t0 :: r)) (fun r1 => parseTail f close r1) := by
  cases t0 with
  | code c2 =>
    have hc2 : c2 ≠ close := fun e => hne (by rw [e])
    simp [parseTailStart, hc2]
  | lit v => simp [parseTailStart]

/-- reading a non-empty bracketed sequence from its first element on -/
theorem parseTailStart_ok (close : Str) (hc : isCloser close) (need : Nat) (p : List CT × RVal) (ps : List (List CT × RVal)) (tc : Bool)
    (h : ∀ q ∈ p :: ps, ElemOk q.1 q.2 need) (f : Nat) (hf : ps.length + 3 + need ≤ f) (rest : List CT) :
    parseTailStart f close (p.1 ++ tailToks (ps.map (·.1)) tc ++ .code close :: rest) = some ((p :: ps).map (·.2), tc, rest) := by
  obtain ⟨t, r1⟩ := p
  have h1 := h (t, r1) (by simp)
  obtain ⟨t0, tr0, ht, hn1, hn2, hn3, hn4, hn5⟩ := h1.head
  have hne : t0 ≠ .code close := by
    rcases hc with h | h | h <;> subst h <;> assumption
  cases f with
  | zero => omega
  | succ f =>
    simp only at ht
    subst ht
    have hread := h1.reads f (by omega) (tailToks (ps.map (·.1)) tc ++ .code close :: rest) (followOk_tail hc _ _ _)
    have htail := parseTail_ok close hc need ps tc (fun q hq => h q (by simp [hq])) f (by omega) rest
    simp only [List.cons_append, List.append_assoc] at hread ⊢
    rw [parseTailStart_elem f close t0 hne, hread]
    exact thenTail_some _ _ _ _ _ _ htail

theorem withTruncation_noLimit' (len : Nat) (t : Option PS) : withTruncation len none t = t := rfl

/-! ### leaves -/

theorem beq_head_ne (c d : Nat) (l m : Str) (h : c ≠ d) : (c :: l == d :: m) = false := by
  simp [h]

theorem headOk_code (s : Str) (h1 : s ≠ [93]) (h2 : s ≠ [41]) (h3 : s ≠ [125]) (h4 : s ≠ [44]) (h5 : s ≠ [58]) (r : List CT) :
    HeadOk (.code s :: r) :=
  ⟨.code s, r, rfl, by simpa using h1, by simpa using h2, by simpa using h3, by simpa using h4, by simpa using h5⟩

theorem headOk_lit (v : Option Str) (r : List CT) : HeadOk (.lit v :: r) :=
  ⟨.lit v, r, rfl, by simp, by simp, by simp, by simp, by simp⟩

theorem num_read (lit : Str) (h : isNumTok lit = true) : ElemOk [.code lit] (.num lit) 1 := by
  cases lit with
  | nil => simp [isNumTok] at h
  | cons c l =>
    have hc : (48 ≤ c ∧ c ≤ 57) ∨ c = 45 := by simpa [isNumTok] using h
    have ne : ∀ d m, (d < 45 ∨ d = 46 ∨ d = 47 ∨ 57 < d) → (c :: l == d :: m) = false := by
      intro d m hd; apply beq_head_ne; omega
    refine ⟨headOk_code _ ?_ ?_ ?_ ?_ ?_ _, ?_⟩
    · intro e; injection e with e1; omega
    · intro e; injection e with e1; omega
    · intro e; injection e with e1; omega
    · intro e; injection e with e1; omega
    · intro e; injection e with e1; omega
    · intro f hf rest hrest
      cases f with
      | zero => omega
      | succ f =>
        have e1 := ne 98 [] (by omega)
        have e2 := ne 91 [] (by omega)
        have e3 := ne 40 [] (by omega)
        have e4 := ne 123 [] (by omega)
        have e5 : (c :: l == sFloat) = false := ne 102 _ (by omega)
        have e6 : (c :: l == sSet) = false := ne 115 _ (by omega)
        have e7 : (c :: l == sFrozenset) = false := ne 102 _ (by omega)
        have e8 : isKwTok (c :: l) = false := by
          have a1 : (c :: l == sNone) = false := ne 78 _ (by omega)
          have a2 : (c :: l == sTrue) = false := ne 84 _ (by omega)
          have a3 : (c :: l == sFalse) = false := ne 70 _ (by omega)
          have a4 : (c :: l == sEll) = false := ne 46 _ (by omega)
          simp [isKwTok, a1, a2, a3, a4]
        simp [parseV, e1, e2, e3, e4, e5, e6, e7, e8, h]

theorem kw_read (s : Str) (h : s = sNone ∨ s = sTrue ∨ s = sFalse ∨ s = sEll) : ElemOk [.code s] (.kw s) 1 := by
  refine ⟨headOk_code _ ?_ ?_ ?_ ?_ ?_ _, ?_⟩
  · rcases h with h | h | h | h <;> subst h <;> decide
  · rcases h with h | h | h | h <;> subst h <;> decide
  · rcases h with h | h | h | h <;> subst h <;> decide
  · rcases h with h | h | h | h <;> subst h <;> decide
  · rcases h with h | h | h | h <;> subst h <;> decide
  · intro f hf rest hrest
    cases f with
    | zero => omega
    | succ f =>
      rcases h with h | h | h | h <;> subst h <;>
        simp [parseV, sNone, sTrue, sFalse, sEll, sFloat, sSet, sFrozenset, isKwTok]

theorem str_read (b : Bool) (c : Str) :
    ElemOk ((if b then [CT.code [98]] else []) ++ [.lit (some c)]) (.str b c) 1 := by
  cases b
  · refine ⟨headOk_lit _ _, ?_⟩
    intro f hf rest hrest
    cases f with
    | zero => omega
    | succ f => simp [parseV]
  · refine ⟨headOk_code _ (by decide) (by decide) (by decide) (by decide) (by decide) _, ?_⟩
    intro f hf rest hrest
    cases f with
    | zero => omega
    | succ f => simp [parseV, bytesLit, orElseR]

theorem fspecial_read (n : Str) : ElemOk [.code sFloat, LP, .lit (some n), RP] (.fspecial n) 1 := by
  refine ⟨headOk_code _ (by decide) (by decide) (by decide) (by decide) (by decide) _, ?_⟩
  intro f hf rest hrest
  cases f with
  | zero => omega
  | succ f => simp [parseV, sFloat, LP, RP, orElseR, floatSpecial]

/-! ### calls -/

/-- a callable name the reader takes as one: an identifier that is none of the words with a reading of their own -/
def okName (s : Str) : Bool :=
  isNameTok s && !(s == [98]) && !(s == sFloat) && !(s == sSet) && !(s == sFrozenset) && !isKwTok s

theorem okName_facts (s : Str) (h : okName s = true) :
    ∃ c l, s = c :: l ∧ ((65 ≤ c ∧ c ≤ 90) ∨ (97 ≤ c ∧ c ≤ 122) ∨ c = 95) ∧
      (s == [98]) = false ∧ (s == sFloat) = false ∧ (s == sSet) = false ∧ (s == sFrozenset) = false ∧ isKwTok s = false := by
  simp only [okName, Bool.and_eq_true, Bool.not_eq_true'] at h
  obtain ⟨⟨⟨⟨⟨h1, h2⟩, h3⟩, h4⟩, h5⟩, h6⟩ := h
  cases s with
  | nil => simp [isNameTok] at h1
  | cons c l =>
    refine ⟨c, l, rfl, ?_, h2, h3, h4, h5, h6⟩
    have : (65 ≤ c ∧ c ≤ 90 ∨ 97 ≤ c ∧ c ≤ 122) ∨ c = 95 := by simpa [isNameTok] using h1
    omega

theorem okName_not_blank (s : Str) (h : okName s = true) : isBlank s = false := by
  obtain ⟨c, l, rfl, hc, _⟩ := okName_facts s h
  have : (c == 32) = false := by apply beq_false_of_ne; omega
  simp [isBlank, this]

theorem headOk_name (s : Str) (h : okName s = true) (r : List CT) : HeadOk (.code s :: r) := by
  obtain ⟨c, l, rfl, hc, _⟩ := okName_facts s h
  refine headOk_code _ ?_ ?_ ?_ ?_ ?_ _ <;> (intro e; injection e with e1; omega)

/-- the dispatch of `parseV` on a callable name -/
theorem parseV_name (f : Nat) (s : Str) (h : okName s = true) (r : List CT) :
    parseV (f + 1) (.code s :: r) = afterName s r (fun t => parseV f t) (fun t => parseTailStart f [41] t) := by
  obtain ⟨c, l, rfl, hc, e1, e5, e6, e7, e8⟩ := okName_facts s h
  have ne : ∀ d m, (d < 65 ∨ (90 < d ∧ d < 95) ∨ d = 96 ∨ 122 < d) → (c :: l == d :: m) = false := by
    intro d m hd; apply beq_head_ne; omega
  have e2 := ne 91 [] (by omega)
  have e3 := ne 40 [] (by omega)
  have e4 := ne 123 [] (by omega)
  have e9 : isNumTok (c :: l) = false := by
    have : ¬ ((48 ≤ c ∧ c ≤ 57) ∨ c = 45) := by omega
    simpa [isNumTok] using this
  have e10 : isNameTok (c :: l) = true := by
    have : (65 ≤ c ∧ c ≤ 90 ∨ 97 ≤ c ∧ c ≤ 122) ∨ c = 95 := by omega
    simpa [isNameTok] using this
  simp only [parseV, e1, e2, e3, e4, e5, e6, e7, e8, e9, e10, Bool.false_eq_true, if_false, if_true]

theorem parseV_call (f : Nat) (s : Str) (h : okName s = true) (r : List CT) :
    parseV (f + 1) (.code s :: LP :: r) = asCall s (parseTailStart f [41] r) := by
  rw [parseV_name f s h]; rfl

theorem parseV_kwarg (f : Nat) (s : Str) (h : okName s = true) (r : List CT) :
    parseV (f + 1) (.code s :: .code [61] :: r) = asKw s (parseV f r) := by
  rw [parseV_name f s h]; rfl

theorem attrTok_facts (a : Str) (h : isAttrTok a = true) : ∃ c l, a = 46 :: c :: l := by
  match a, h with
  | 46 :: c :: l, _ => exact ⟨c, l, rfl⟩

/-- a name followed by nothing that continues it is the value of that name -/
theorem afterName_bare (s : Str) (rest : List CT) (h : FollowOk rest) (pv : List CT → Option (RVal × List CT))
    (pt : List CT → Option (List RVal × Bool × List CT)) : afterName s rest pv pt = some (.name s, rest) := by
  cases rest with
  | nil => rfl
  | cons t r =>
    cases t with
    | lit v => rfl
    | code c =>
      obtain ⟨h1, h2, h3⟩ := h c r rfl
      unfold afterName
      split
      · rename_i heq; injection heq with e1 e2; injection e1 with e1; exact absurd e1 h2
      · rename_i heq; injection heq with e1 e2; injection e1 with e1; exact absurd e1 h1
      · simp [bareName, h3]

theorem afterName_attr (s a : Str) (ha : isAttrTok a = true) (rest : List CT) (pv : List CT → Option (RVal × List CT))
    (pt : List CT → Option (List RVal × Bool × List CT)) : afterName s (.code a :: rest) pv pt = some (.name (s ++ a), rest) := by
  obtain ⟨c, l, rfl⟩ := attrTok_facts a ha
  unfold afterName
  split
  · rename_i heq; injection heq with e1 e2; injection e1 with e1; simp at e1
  · rename_i heq; injection heq with e1 e2; injection e1 with e1; simp at e1
  · simp [bareName, ha]

/-- a name used as a value: `int`, `datetime.timezone.utc` -/
theorem name_read (s : Str) (h : okName s = true) : ElemOk [.code s] (.name s) 1 := by
  refine ⟨headOk_name s h _, ?_⟩
  intro f hf rest hrest
  cases f with
  | zero => omega
  | succ f =>
    simp only [List.cons_append, List.nil_append]
    rw [parseV_name f s h]; exact afterName_bare s rest hrest _ _

/-- a name with an attribute fragment: `Color` `.RED` -/
theorem attr_read (s a : Str) (h : okName s = true) (ha : isAttrTok a = true) : ElemOk [.code s, .code a] (.name (s ++ a)) 1 := by
  refine ⟨headOk_name s h _, ?_⟩
  intro f hf rest hrest
  cases f with
  | zero => omega
  | succ f =>
    simp only [List.cons_append, List.nil_append]
    rw [parseV_name f s h]; exact afterName_attr s a ha rest _ _

/-- a keyword name: any callable name, and `b` (the bytes prefix only when a literal follows it) -/
def kwName (s : Str) : Bool := okName s || s == [98]

theorem kwName_not_blank (s : Str) (h : kwName s = true) : isBlank s = false := by
  simp only [kwName, Bool.or_eq_true, beq_iff_eq] at h
  rcases h with h | h
  · exact okName_not_blank s h
  · subst h; rfl

theorem parseV_kwargB (f : Nat) (r : List CT) :
    parseV (f + 1) (.code [98] :: .code [61] :: r) = asKw [98] (parseV f r) := by
  simp [parseV, bytesLit, orElseR, afterName]

/-- `name = value` reads as a keyword item -/
theorem kwarg_read (k : Str) (hk : kwName k = true) (ts : List CT) (r : RVal) (n : Nat) (h : ElemOk ts r n) :
    ElemOk (.code k :: .code [61] :: ts) (.kwarg k r) (n + 1) := by
  simp only [kwName, Bool.or_eq_true, beq_iff_eq] at hk
  refine ⟨?_, ?_⟩
  · rcases hk with hk | hk
    · exact headOk_name k hk _
    · subst hk; exact headOk_code _ (by decide) (by decide) (by decide) (by decide) (by decide) _
  intro f hf rest hrest
  cases f with
  | zero => omega
  | succ f =>
    simp only [List.cons_append]
    have e : parseV (f + 1) (.code k :: .code [61] :: (ts ++ rest)) = asKw k (parseV f (ts ++ rest)) := by
      rcases hk with hk | hk
      · exact parseV_kwarg f k hk _
      · subst hk; exact parseV_kwargB f _
    rw [e, h.reads f (by omega) rest hrest]
    rfl

/-- `name(item, ..., item)` reads as a call with the items in order -/
theorem call_read (name : Str) (hn : okName name = true) (ps : List (List CT × RVal)) (n : Nat)
    (h : ∀ p ∈ ps, ElemOk p.1 p.2 n) :
    ElemOk (.code name :: LP :: (seqToks (ps.map (·.1)) false ++ [RP])) (.call name (ps.map (·.2))) (ps.length + 4 + n) := by
  refine ⟨headOk_name name hn _, ?_⟩
  intro f hf rest hrest
  cases f with
  | zero => omega
  | succ f =>
    simp only [List.cons_append]
    rw [parseV_call f name hn]
    cases ps with
    | nil =>
      cases f with
      | zero => omega
      | succ f => simp [seqToks, RP, parseTailStart_close, asCall]
    | cons p ps' =>
      have := parseTailStart_ok [41] (Or.inr (Or.inl rfl)) n p ps' false h f (by simp at hf ⊢; omega) rest
      simp only [List.map_cons, seqToks_cons, List.append_assoc, RP, List.singleton_append] at this ⊢
      rw [this]
      rfl

/-! ### the fragments and what their values denote -/

mutual
/-- values of the built-in literal types (no subclasses), numbers carrying a numeric literal text -/
def inC01 : PyVal → Bool
  | .commented v _ => inC01 v
  | .trailing v _ => inC01 v
  | .none => true
  | .ellipsis => true
  | .bool _ => true
  | .int cls _ lit => cls.isNone && isNumTok lit
  | .float cls kind lit _ _ => cls.isNone && (kind != 0 || isNumTok lit)
  | .str cls _ _ => cls.isNone
  | .seq kind cls xs => cls.isNone && decide (kind ≤ 2) && inC01L xs
  | .frozenset cls xs => cls.isNone && inC01L xs
  | .dict cls kvs => cls.isNone && inC01P kvs
  | _ => false
def inC01L : List PyVal → Bool
  | [] => true
  | v :: r => inC01 v && inC01L r
def inC01P : List (PyVal × PyVal) → Bool
  | [] => true
  | (k, v) :: r => inC01 k && inC01 v && inC01P r
end

/-- no subclass, or a subclass whose name reads as a callable -/
def clsOk (cls : Option QualName) : Bool := match cls with | none => true | some q => okName q.2

/-- an empty instance of a dict subclass (under any comments): the one value whose tokens change under a trailing comment (K7) -/
def emptyDictSub : PyVal → Bool
  | .commented v _ => emptyDictSub v
  | .trailing v _ => emptyDictSub v
  | .dict (some _) [] => true
  | _ => false

/-- a name that may be called in a placeholder: an identifier that is no keyword and not the bytes prefix -/
def phName (s : Str) : Bool := isNameTok s && !(s == [98]) && !isKwTok s

/-- a fragment that carries code (neither a comment nor a string literal) -/
def codeTok (t : Nat) : Bool := !(t == tComment) && !(t == tStr)

/-- the identifier-style values and what they denote.  The placeholders a depth limit prints (`Proofs/Shown.lean`: `phCall`,
`phLit`): `name(...)` is the call of the name on Ellipsis, `[...]` a list and `{...}` a set holding Ellipsis, `(...)` a
parenthesised Ellipsis.  A name written as one fragment (`int`, `datetime.timezone.utc`: `identifier(...)`) or as a class and an
attribute fragment (`Color` `.RED`: `classattr(cls, name)`) is the value of that name. -/
def identPh (parts : List (Nat × Str)) : Option RVal :=
  match parts with
  | [(t1, nm)] => if codeTok t1 && okName nm then some (.name nm) else none
  | [(t1, nm), (t2, a)] => if codeTok t1 && codeTok t2 && okName nm && isAttrTok a then some (.name (nm ++ a)) else none
  | [(t1, nm), (t2, o), (t3, e), (t4, c)] =>
      if t1 == tFn && t2 == tPunct && t3 == tPunct && t4 == tPunct && o == [40] && e == sEll && c == [41] && phName nm
      then some (.call nm [.kw sEll]) else none
  | [(t1, o), (t2, e), (t3, c)] =>
      if t1 == tPunct && t2 == tPunct && t3 == tPunct && e == sEll then
        (if o == [91] && c == [93] then some (.list [.kw sEll])
         else if o == [40] && c == [41] then some (.kw sEll)
         else if o == [123] && c == [125] then some (.set [.kw sEll]) else none)
      else none
  | _ => none

def strPhParts : List (Nat × Str) := [(tFn, nmStr), (tPunct, [40]), (tPunct, [46, 46, 46]), (tPunct, [41])]

def soleStrPh : List PyVal → Bool
  | [.ident parts] => parts == strPhParts
  | _ => false

/-- `float(str(...))`: how an inf / nan float one level above the depth cut is shown -/
def floatPh (f : QualName) (args : List PyVal) (kwargs : List (Str × PyVal)) : Bool :=
  f.2 == sFloat && kwargs.isEmpty && soleStrPh args

/-- `frozenset(<non-empty list literal>)` written as a call is the shape a truncated frozenset is shown in (`Proofs/Shown.lean`);
the reader gives it the reading of a frozenset literal -/
def isListLit : PyVal → Bool
  | .seq 0 none (_ :: _) => true
  | _ => false

theorem isListLit_spec (v : PyVal) (h : isListLit v = true) : ∃ y ys, v = .seq 0 none (y :: ys) := by
  unfold isListLit at h
  split at h
  · exact ⟨_, _, rfl⟩
  · cases h

def soleListLit : List PyVal → Bool
  | [x] => isListLit (stripComments x)
  | _ => false

def fsetLit (f : QualName) (args : List PyVal) (kwargs : List (Str × PyVal)) : Bool :=
  f.2 == sFrozenset && kwargs.isEmpty && soleListLit args

theorem emptyDictSub_strip : ∀ (v : PyVal), emptyDictSub v = emptyDictSub (stripComments v)
  | .commented v _ => by simp only [emptyDictSub, stripComments]; exact emptyDictSub_strip v
  | .trailing v _ => by simp only [emptyDictSub, stripComments]; exact emptyDictSub_strip v
  | .none => rfl
  | .ellipsis => rfl
  | .bool _ => rfl
  | .int _ _ _ => rfl
  | .float _ _ _ _ _ => rfl
  | .str _ _ _ => rfl
  | .seq _ _ _ => rfl
  | .frozenset _ _ => rfl
  | .dict _ _ => rfl
  | .call _ _ _ => rfl
  | .opaque _ => rfl
  | .timedelta _ _ _ => rfl
  | .ident _ => rfl
  | .path _ _ => rfl

/-- what `name(items)` denotes: a frozenset for `frozenset([...])`, the call otherwise -/
def callR (lit : Bool) (name : Str) (items : List RVal) : RVal :=
  if lit then (match items with | [.list rs] => .fset rs | _ => .call name items) else .call name items

mutual
/-- the readable fragment: built-in values, instances of their subclasses (C08) and call-style printed objects (C17), nested
in any way, with comments anywhere — except a non-empty trailing comment on an empty dict-subclass instance (K7) -/
def inRd : PyVal → Bool
  | .commented v _ => inRd v
  | .trailing v t => inRd v && (t.isEmpty || !emptyDictSub v)
  | .none => true
  | .ellipsis => true
  | .bool _ => true
  | .int cls _ lit => clsOk cls && isNumTok lit
  | .float cls kind lit _ _ => clsOk cls && (kind != 0 || isNumTok lit)
  | .str cls _ _ => clsOk cls
  | .seq kind cls xs => clsOk cls && decide (kind ≤ 2) && inRdL xs
  | .frozenset cls xs => clsOk cls && inRdL xs
  | .dict cls kvs => clsOk cls && inRdP kvs
  | .call f args kwargs => (okName f.2 || fsetLit f args kwargs || floatPh f args kwargs) && inRdL args && inRdK kwargs
  | .ident parts => (identPh parts).isSome
  | .path cls _ => okName cls.2
  | _ => false
def inRdL : List PyVal → Bool
  | [] => true
  | v :: r => inRd v && inRdL r
def inRdP : List (PyVal × PyVal) → Bool
  | [] => true
  | (k, v) :: r => inRd k && inRd v && inRdP r
def inRdK : List (Str × PyVal) → Bool
  | [] => true
  | (k, v) :: r => kwName k && inRd v && inRdK r
end

/-- a subclass instance denotes the call of its class on the underlying value -/
def wrapR (cls : Option QualName) (r : RVal) : RVal := match cls with | none => r | some q => .call q.2 [r]
/-- … and on nothing when the underlying container is empty -/
def wrapNE (cls : Option QualName) (empty : Bool) (r : RVal) : RVal :=
  match cls with | none => r | some q => if empty then .call q.2 [] else .call q.2 [r]
def mkSeq (kind : Nat) (rs : List RVal) : RVal := if kind == 0 then .list rs else if kind == 1 then .tuple rs else .set rs
def floatR (cls : Option QualName) (kind : Nat) (lit : Str) : RVal :=
  if kind == 0 then wrapR cls (.num lit)
  else match cls with | none => .fspecial (floatName kind) | some q => .call q.2 [.str false (floatName kind)]
def fsetR (cls : Option QualName) (empty : Bool) (rs : List RVal) : RVal :=
  match cls with | none => .fset rs | some q => if empty then .call q.2 [] else .call q.2 [.list rs]

mutual
def erase : PyVal → RVal
  | .commented v _ => erase v
  | .trailing v _ => erase v
  | .none => .kw sNone
  | .ellipsis => .kw sEll
  | .bool b => .kw (if b then sTrue else sFalse)
  | .int cls _ lit => wrapR cls (.num lit)
  | .float cls kind lit _ _ => floatR cls kind lit
  | .str cls b s => wrapR cls (.str b (cps s))
  | .seq kind cls xs => wrapNE cls xs.isEmpty (mkSeq kind (eraseL xs))
  | .frozenset cls xs => fsetR cls xs.isEmpty (eraseL xs)
  | .dict cls kvs => wrapNE cls kvs.isEmpty (.dict (eraseP kvs))
  | .call f args kwargs => callR (fsetLit f args kwargs) f.2 (eraseL args ++ eraseK kwargs)
  | .ident parts => (identPh parts).getD (.kw [])
  | .path cls posix => .call cls.2 [.str false (cps posix)]
  | _ => .kw []
def eraseL : List PyVal → List RVal
  | [] => []
  | v :: r => erase v :: eraseL r
def eraseP : List (PyVal × PyVal) → List (RVal × RVal)
  | [] => []
  | (k, v) :: r => (erase k, erase v) :: eraseP r
def eraseK : List (Str × PyVal) → List RVal
  | [] => []
  | (k, v) :: r => .kwarg k (erase v) :: eraseK r
end

mutual
/-- fuel the reader needs for the tokens of a value -/
def need : PyVal → Nat
  | .commented v _ => need v
  | .trailing v _ => need v
  | .seq _ _ xs => xs.length + 10 + needL xs
  | .frozenset _ xs => xs.length + 10 + needL xs
  | .dict _ kvs => kvs.length + 10 + needP kvs
  | .call _ args kwargs => args.length + kwargs.length + 6 + max (needL args) (needK kwargs)
  | _ => 6
def needL : List PyVal → Nat
  | [] => 0
  | v :: r => max (need v) (needL r)
def needP : List (PyVal × PyVal) → Nat
  | [] => 0
  | (k, v) :: r => max (max (need k) (need v)) (needP r)
def needK : List (Str × PyVal) → Nat
  | [] => 0
  | (_, v) :: r => max (need v + 1) (needK r)
end

/-! ### containers -/


/-- a context without depth limit, max_seq_len and key sorting -/
def Free (ctx : Ctx) : Prop := ctx.depthLeft = none ∧ ctx.maxSeqLen = none ∧ ctx.sortKeys = false

theorem Free.nested {ctx : Ctx} (h : Free ctx) : Free ctx.nested :=
  ⟨by simp [Ctx.nested, h.1], h.2.1, h.2.2⟩

theorem Free.depthZero {ctx : Ctx} (h : Free ctx) : ctx.depthZero = false := by simp [Ctx.depthZero, h.1]
theorem Free.any {ctx : Ctx} (h : Free ctx) : ctx.depthLeft.any (· == 0) = false := by simp [h.1]

theorem need_le_needL : ∀ (xs : List PyVal) (x : PyVal), x ∈ xs → need x ≤ needL xs
  | [], _, h => by simp at h
  | v :: r, x, h => by
    simp only [List.mem_cons] at h
    simp only [needL]
    rcases h with rfl | h
    · omega
    · have := need_le_needL r x h; omega

/-- the token lists and denotations of the elements of a sequence, paired -/
def elemPairs (ctx : Ctx) : List PyVal → List (List CT × RVal)
  | [] => []
  | v :: r => (canonW ctx v none, erase v) :: elemPairs ctx r

theorem elemPairs_fst (ctx : Ctx) : ∀ xs, (elemPairs ctx xs).map (·.1) = canonL ctx xs
  | [] => rfl
  | v :: r => by simp [elemPairs, canonL, elemPairs_fst ctx r]
theorem elemPairs_snd (ctx : Ctx) : ∀ xs, (elemPairs ctx xs).map (·.2) = eraseL xs
  | [] => rfl
  | v :: r => by simp [elemPairs, eraseL, elemPairs_snd ctx r]
theorem elemPairs_length (ctx : Ctx) : ∀ xs, (elemPairs ctx xs).length = xs.length
  | [] => rfl
  | v :: r => by simp [elemPairs, elemPairs_length ctx r]

/-- the tokens between the brackets of a non-empty list / tuple / set: first element, then `, element` …, then an
optional comma (a one-element tuple, or a trailing comment) -/
theorem seq_body (ctx : Ctx) (hf : Free ctx) (kind : Nat) (x : PyVal) (xs : List PyVal) (tr : Option PS) :
    seqCanon ctx kind none (x :: xs).length (canonL ctx.nested (x :: xs)) tr =
      [(bracketToks kind).1] ++ (canonW ctx.nested x none ++ tailToks (canonL ctx.nested xs) (tr.isSome || (kind == 1 && xs.isEmpty))) ++
        [(bracketToks kind).2] := by
  unfold seqCanon
  have hz := hf.depthZero
  simp only [hf.2.1, withTruncation_noLimit', takeOpt, hz, List.length_cons, canonL]
  have hl0 : (xs.length + 1 == 0) = false := by simp
  simp only [hl0, Bool.false_eq_true, if_false, Option.isNone_none, if_true]
  cases tr with
  | some t =>
    simp only [Option.isSome_some, Bool.true_or]
    have : (if (xs.length + 1 == 1) = true then canonW ctx.nested x none :: canonL ctx.nested xs else canonW ctx.nested x none :: canonL ctx.nested xs) =
        canonW ctx.nested x none :: canonL ctx.nested xs := by split <;> rfl
    rw [this]
    have e2 : canonW ctx.nested x none :: canonL ctx.nested xs ++ [[]] = canonW ctx.nested x none :: (canonL ctx.nested xs ++ [[]]) := rfl
    rw [e2, seqToks_cons, tailToks_snoc_empty]
  | none =>
    simp only [Option.isSome_none, Bool.false_or]
    have : (if (xs.length + 1 == 1) = true then canonW ctx.nested x none :: canonL ctx.nested xs else canonW ctx.nested x none :: canonL ctx.nested xs) =
        canonW ctx.nested x none :: canonL ctx.nested xs := by split <;> rfl
    rw [this, seqToks_cons]
    have e : (xs.length + 1 == 1) = xs.isEmpty := by cases xs <;> simp
    rw [e]

/-! ### dicts -/

def pairTail (ps : List (PyVal × List CT × List CT)) : List CT :=
  ps.flatMap fun q => COMMA_T :: (q.2.1 ++ COLON_T :: q.2.2)

theorem dictPairToks_cons (p : PyVal × List CT × List CT) (ps : List (PyVal × List CT × List CT)) :
    dictPairToks (p :: ps) = p.2.1 ++ COLON_T :: p.2.2 ++ pairTail ps := by
  induction ps generalizing p with
  | nil => obtain ⟨k, kt, vt⟩ := p; simp [dictPairToks, pairTail]
  | cons q r ih =>
    obtain ⟨k, kt, vt⟩ := p
    simp only [dictPairToks, ih, pairTail, List.flatMap_cons]
    simp

theorem pairWith_ok (f : Nat) (kt vt : List CT) (ek ev : RVal) (nk : Nat) (hk : ElemOk kt ek nk) (hv : ElemOk vt ev nk) (hf : nk ≤ f)
    (rest : List CT) (hrest : FollowOk rest) :
    pairWith (fun t => parseV f t) (kt ++ COLON_T :: vt ++ rest) = some ((ek, ev), rest) := by
  have h1 := hk.reads f hf (COLON_T :: vt ++ rest) followOk_colon
  have h2 := hv.reads f hf rest hrest
  unfold pairWith
  simp only [List.append_assoc, List.cons_append] at h1 ⊢
  rw [h1]
  simp only [COLON_T]
  rw [h2]

theorem parsePairs_close (f : Nat) (r : List CT) : parsePairs (f + 1) (.code [125] :: r) = some ([], r) := by
  simp [parsePairs]

theorem parsePairs_comma (f : Nat) (t0 : CT) (hne : t0 ≠ .code [125]) (r : List CT) :
    parsePairs (f + 1) (.code [44] :: t0 :: r) = thenPairs (pairWith (fun t => parseV f t) (t0 :: r)) (fun t => parsePairs f t) := by
  cases t0 with
  | code c2 =>
    have hc2 : c2 ≠ [125] := fun e => hne (by rw [e])
    simp [parsePairs, hc2]
  | lit v => simp [parsePairs]

theorem thenPairs_some (kv : RVal × RVal) (r1 : List CT) (k : List CT → Option (List (RVal × RVal) × List CT)) (kvs : List (RVal × RVal))
    (r2 : List CT) (h : k r1 = some (kvs, r2)) : thenPairs (some (kv, r1)) k = some (kv :: kvs, r2) := by
  simp [thenPairs, h]

/-- token pairs with their denotations -/
theorem followOk_pairTail (ps : List (PyVal × List CT × List CT)) (rest : List CT) :
    FollowOk (pairTail ps ++ .code [125] :: rest) := by
  cases ps with
  | nil => simp [pairTail]; exact followOk_close (Or.inr (Or.inr rfl))
  | cons p r => simp [pairTail, List.flatMap_cons, COMMA_T]; exact followOk_comma

structure PairOk (q : PyVal × List CT × List CT) (d : RVal × RVal) (n : Nat) : Prop where
  key : ElemOk q.2.1 d.1 n
  val : ElemOk q.2.2 d.2 n

theorem parsePairs_ok (n : Nat) : ∀ (ps : List ((PyVal × List CT × List CT) × (RVal × RVal))), (∀ p ∈ ps, PairOk p.1 p.2 n) →
    ∀ f, ps.length + 1 + n ≤ f → ∀ rest,
      parsePairs f (pairTail (ps.map (·.1)) ++ .code [125] :: rest) = some (ps.map (·.2), rest) := by
  intro ps
  induction ps with
  | nil =>
    intro _ f hf rest
    cases f with
    | zero => omega
    | succ f => simpa [pairTail] using parsePairs_close f rest
  | cons p r ih =>
    intro h f hf rest
    obtain ⟨⟨k, kt, vt⟩, ⟨ek, ev⟩⟩ := p
    have hp := h _ (List.mem_cons_self ..)
    obtain ⟨t0, tr0, ht, _, _, hn3, _, _⟩ := hp.key.head
    cases f with
    | zero => omega
    | succ f =>
      simp only at ht
      subst ht
      have ihh := ih (fun q hq => h q (by simp [hq])) f (by simp at hf ⊢; omega) rest
      have hpw := pairWith_ok f (t0 :: tr0) vt ek ev n hp.key hp.val (by simp at hf; omega)
        (pairTail (r.map (·.1)) ++ .code [125] :: rest) (followOk_pairTail _ _)
      have e : pairTail (List.map (·.1) (((k, t0 :: tr0, vt), (ek, ev)) :: r)) ++ CT.code [125] :: rest =
          .code [44] :: t0 :: (tr0 ++ COLON_T :: vt ++ (pairTail (r.map (·.1)) ++ CT.code [125] :: rest)) := by
        simp [pairTail, COMMA_T, List.flatMap_cons]
      rw [e, parsePairs_comma f t0 hn3]
      have e2 : t0 :: (tr0 ++ COLON_T :: vt ++ (pairTail (r.map (·.1)) ++ CT.code [125] :: rest)) =
          (t0 :: tr0) ++ COLON_T :: vt ++ (pairTail (r.map (·.1)) ++ CT.code [125] :: rest) := by simp
      rw [e2, hpw]
      exact thenPairs_some _ _ _ _ _ ihh

/-! ### the main induction -/

theorem numTok_not_blank (lit : Str) (h : isNumTok lit = true) : isBlank lit = false := by
  cases lit with
  | nil => simp [isNumTok] at h
  | cons c l =>
    have hc : (48 ≤ c ∧ c ≤ 57) ∨ c = 45 := by simpa [isNumTok] using h
    have : c ≠ 32 := by omega
    simp [isBlank, this]

theorem parseV_list (f : Nat) (r : List CT) :
    parseV (f + 1) (.code [91] :: r) = asList (parseTailStart f [93] r) := by
  simp [parseV]

theorem parseV_tuple (f : Nat) (r : List CT) :
    parseV (f + 1) (.code [40] :: r) = asTuple (parseTailStart f [41] r) := by
  simp [parseV]

theorem parseV_brace (f : Nat) (r : List CT) : parseV (f + 1) (.code [123] :: r) = parseBrace f r := by
  simp [parseV]

theorem parseV_set0 (f : Nat) (r : List CT) : parseV (f + 1) (.code sSet :: LP :: RP :: r) = some (.set [], r) := by
  simp [parseV, sSet, sFloat, LP, RP, orElseR, setEmpty]

theorem parseV_fset0 (f : Nat) (r : List CT) : parseV (f + 1) (.code sFrozenset :: LP :: RP :: r) = some (.fset [], r) := by
  simp [parseV, sFrozenset, sSet, sFloat, LP, RP, orElseR, fsetForms]

theorem parseV_fset (f : Nat) (r : List CT) (x : RVal × List CT) (h : asFset (parseTailStart f [93] r) = some x) :
    parseV (f + 1) (.code sFrozenset :: LP :: .code [91] :: r) = some x := by
  simp [parseV, sFrozenset, sSet, sFloat, LP, orElseR, fsetForms, h]

theorem cd_name (s : Str) (h : isBlank s = false) : cd s = [.code s] := by simp [cd, h]

theorem headOk_open (c : Nat) (hc : c = 91 ∨ c = 40 ∨ c = 123) (r : List CT) : HeadOk (.code [c] :: r) := by
  refine headOk_code _ ?_ ?_ ?_ ?_ ?_ _ <;> (intro e; injection e with e1; omega)

theorem braceAfterFirst_set (x : RVal) (r1 : List CT) (pv pairs) (tail : List CT → Option (List RVal × Bool × List CT))
    (xs : List RVal) (tc : Bool) (r2 : List CT) (hnc : ∀ r', r1 ≠ .code [58] :: r') (ht : tail r1 = some (xs, tc, r2)) :
    braceAfterFirst (some (x, r1)) pv pairs tail = some (.set (x :: xs), r2) := by
  unfold braceAfterFirst
  split
  · rename_i x' r1' heq
    simp only [Option.some.injEq, Prod.mk.injEq] at heq
    exact absurd heq.2 (hnc r1')
  · rename_i x' r1' _ heq
    simp only [Option.some.injEq, Prod.mk.injEq] at heq
    obtain ⟨rfl, rfl⟩ := heq
    rw [ht]
  · rename_i heq; cases heq

theorem braceAfterFirst_dict (x v : RVal) (r1 r2 r3 : List CT) (pv : List CT → Option (RVal × List CT)) (pairs) (tail)
    (kvs : List (RVal × RVal)) (hv : pv r1 = some (v, r2)) (hp : pairs r2 = some (kvs, r3)) :
    braceAfterFirst (some (x, .code [58] :: r1)) pv pairs tail = some (.dict ((x, v) :: kvs), r3) := by
  simp [braceAfterFirst, hv, hp]

theorem tailToks_head (els : List (List CT)) (tc : Bool) (close : Str) (rest : List CT) (hc : close ≠ [58]) :
    ∀ r', tailToks els tc ++ .code close :: rest ≠ .code [58] :: r' := by
  intro r' e
  cases els with
  | nil =>
    cases tc
    · simp [tailToks] at e; exact hc e.1
    · simp [tailToks, COMMA_T] at e
  | cons t r => simp [tailToks, COMMA_T, List.flatMap_cons] at e

/-- pairs of a dict with their denotations -/
def pairPairs (ctx : Ctx) : List (PyVal × PyVal) → List ((PyVal × List CT × List CT) × (RVal × RVal))
  | [] => []
  | (k, v) :: r => ((k, canonW ctx.nested k none, canonW ctx.nested v none), (erase k, erase v)) :: pairPairs ctx r

theorem keyCanon_free (ctx : Ctx) (hf : Free ctx) (k : PyVal) : keyCanon k (canonW ctx.nested k none) = canonW ctx.nested k none := by
  cases k <;> simp [keyCanon, canonW, hf.nested.depthZero]

theorem pairPairs_fst (ctx : Ctx) (hf : Free ctx) : ∀ kvs, (pairPairs ctx kvs).map (·.1) = canonPairs ctx kvs
  | [] => rfl
  | (k, v) :: r => by simp [pairPairs, canonPairs, pairPairs_fst ctx hf r, keyCanon_free ctx hf k]
theorem pairPairs_snd (ctx : Ctx) : ∀ kvs, (pairPairs ctx kvs).map (·.2) = eraseP kvs
  | [] => rfl
  | (k, v) :: r => by simp [pairPairs, eraseP, pairPairs_snd ctx r]
theorem pairPairs_length (ctx : Ctx) : ∀ kvs, (pairPairs ctx kvs).length = kvs.length
  | [] => rfl
  | (k, v) :: r => by simp [pairPairs, pairPairs_length ctx r]

/-- comments are invisible to what a value denotes and (up to the trailing comment handed down) to its tokens -/
theorem erase_strip : ∀ (v : PyVal), erase v = erase (stripComments v)
  | .commented v _ => by simp only [erase, stripComments]; exact erase_strip v
  | .trailing v _ => by simp only [erase, stripComments]; exact erase_strip v
  | .none => rfl
  | .ellipsis => rfl
  | .bool _ => rfl
  | .int _ _ _ => rfl
  | .float _ _ _ _ _ => rfl
  | .str _ _ _ => rfl
  | .seq _ _ _ => rfl
  | .frozenset _ _ => rfl
  | .dict _ _ => rfl
  | .call _ _ _ => rfl
  | .opaque _ => rfl
  | .timedelta _ _ _ => rfl
  | .ident _ => rfl
  | .path _ _ => rfl

theorem canon_strip (ctx : Ctx) : ∀ (v : PyVal) (tr : Option PS), ∃ tr', canonW ctx v tr = canonW ctx (stripComments v) tr'
  | .commented v _, tr => by simp only [canonW, stripComments]; exact canon_strip ctx v tr
  | .trailing v t, tr => by simp only [canonW, stripComments]; exact canon_strip ctx v (some t)
  | .none, tr => ⟨tr, rfl⟩
  | .ellipsis, tr => ⟨tr, rfl⟩
  | .bool _, tr => ⟨tr, rfl⟩
  | .int _ _ _, tr => ⟨tr, rfl⟩
  | .float _ _ _ _ _, tr => ⟨tr, rfl⟩
  | .str _ _ _, tr => ⟨tr, rfl⟩
  | .seq _ _ _, tr => ⟨tr, rfl⟩
  | .frozenset _ _, tr => ⟨tr, rfl⟩
  | .dict _ _, tr => ⟨tr, rfl⟩
  | .call _ _ _, tr => ⟨tr, rfl⟩
  | .opaque _, tr => ⟨tr, rfl⟩
  | .timedelta _ _ _, tr => ⟨tr, rfl⟩
  | .ident _, tr => ⟨tr, rfl⟩
  | .path _ _, tr => ⟨tr, rfl⟩

theorem okName_not_fsetLit (f : QualName) (args : List PyVal) (kwargs : List (Str × PyVal)) (h : okName f.2 = true) :
    fsetLit f args kwargs = false := by
  obtain ⟨c, l, hs, _, _, _, _, e7, _⟩ := okName_facts f.2 h
  simp only [fsetLit, Bool.and_eq_false_iff]
  left; left
  rw [hs] at e7 ⊢
  exact e7

/-! ### placeholders -/

theorem ell_read : ElemOk [ELL] (.kw sEll) 1 := kw_read sEll (Or.inr (Or.inr (Or.inr rfl)))

/-- `name(...)` for any callable name, also the ones with literal-like forms of their own (float, set, frozenset) -/
theorem ph_call_read (nm : Str) (h : phName nm = true) : ElemOk [.code nm, LP, ELL, RP] (.call nm [.kw sEll]) 6 := by
  by_cases hok : okName nm = true
  · have := call_read nm hok [([ELL], .kw sEll)] 1 (by intro p hp; simp at hp; subst hp; exact ell_read)
    simpa [seqToks] using this
  · -- one of the three names with forms of their own; the forms do not match `(...)`
    simp only [phName, Bool.and_eq_true, Bool.not_eq_true'] at h
    obtain ⟨⟨h1, h2⟩, h3⟩ := h
    have hcases : nm = sFloat ∨ nm = sSet ∨ nm = sFrozenset := by
      simp only [okName, h1, h2, h3, Bool.true_and, Bool.not_false, Bool.and_true, Bool.and_eq_true, Bool.not_eq_true', not_and] at hok
      by_cases a : nm = sFloat
      · exact Or.inl a
      · by_cases b : nm = sSet
        · exact Or.inr (Or.inl b)
        · right; right
          have ha : (nm == sFloat) = false := by simpa using a
          have hb : (nm == sSet) = false := by simpa using b
          have := hok ⟨ha, hb⟩
          simpa using this
    refine ⟨?_, ?_⟩
    · rcases hcases with rfl | rfl | rfl <;> exact headOk_code _ (by decide) (by decide) (by decide) (by decide) (by decide) _
    · intro f hf rest hrest
      cases f with
      | zero => omega
      | succ f =>
        cases f with
        | zero => omega
        | succ f =>
          cases f with
          | zero => omega
          | succ f =>
            cases f with
            | zero => omega
            | succ f =>
              rcases hcases with rfl | rfl | rfl <;>
                simp [parseV, sFloat, sSet, sFrozenset, sEll, ELL, LP, RP, orElseR, floatSpecial, setEmpty, fsetForms, afterName, asCall,
                  parseTailStart, parseTail, thenTail, isKwTok, sNone, sTrue, sFalse]

theorem ph_list_read : ElemOk [.code [91], ELL, .code [93]] (.list [.kw sEll]) 4 := by
  refine ⟨headOk_open 91 (Or.inl rfl) _, ?_⟩
  intro f hf rest hrest
  cases f with
  | zero => omega
  | succ f =>
    cases f with
    | zero => omega
    | succ f =>
      cases f with
      | zero => omega
      | succ f =>
        simp [parseV, sEll, ELL, asList, parseTailStart, parseTail, thenTail, isKwTok, sNone, sTrue, sFalse, sFloat, sSet, sFrozenset]

theorem ph_paren_read : ElemOk [LP, ELL, RP] (.kw sEll) 4 := by
  refine ⟨headOk_open 40 (Or.inr (Or.inl rfl)) _, ?_⟩
  intro f hf rest hrest
  cases f with
  | zero => omega
  | succ f =>
    cases f with
    | zero => omega
    | succ f =>
      cases f with
      | zero => omega
      | succ f =>
        simp [parseV, sEll, ELL, LP, RP, asTuple, parseTailStart, parseTail, thenTail, isKwTok, sNone, sTrue, sFalse, sFloat, sSet, sFrozenset]

theorem ph_set_read : ElemOk [.code [123], ELL, .code [125]] (.set [.kw sEll]) 4 := by
  refine ⟨headOk_open 123 (Or.inr (Or.inr rfl)) _, ?_⟩
  intro f hf rest hrest
  cases f with
  | zero => omega
  | succ f =>
    cases f with
    | zero => omega
    | succ f =>
      cases f with
      | zero => omega
      | succ f =>
        simp [parseV, sEll, ELL, parseBrace, braceAfterFirst, parseTail, isKwTok, sNone, sTrue, sFalse, sFloat, sSet, sFrozenset]

theorem phName_not_blank (s : Str) (h : phName s = true) : isBlank s = false := by
  simp only [phName, Bool.and_eq_true] at h
  cases s with
  | nil => simp [isNameTok] at h
  | cons c l =>
    have hc : (65 ≤ c ∧ c ≤ 90 ∨ 97 ≤ c ∧ c ≤ 122) ∨ c = 95 := by simpa [isNameTok] using h.1.1
    have : (c == 32) = false := by apply beq_false_of_ne; omega
    simp [isBlank, this]

/-- the tokens of a placeholder read as what `identPh` says -/
theorem attrTok_not_blank (a : Str) (h : isAttrTok a = true) : isBlank a = false := by
  obtain ⟨c, l, rfl⟩ := attrTok_facts a h
  simp [isBlank]

theorem tkToks_code (t : Nat) (s : Str) (ht : codeTok t = true) (hs : isBlank s = false) : tkToks t s = [.code s] := by
  simp only [codeTok, Bool.and_eq_true, Bool.not_eq_true'] at ht
  simp [tkToks, ht.1, ht.2, cd, hs]

theorem identPh_read (parts : List (Nat × Str)) (r : RVal) (h : identPh parts = some r) : ElemOk (identToks parts) r 6 := by
  unfold identPh at h
  split at h
  · rename_i t1 nm
    split at h
    · rename_i hc
      simp only [Bool.and_eq_true] at hc
      cases h
      have : identToks [(t1, nm)] = [.code nm] := by
        simp [identToks, tkToks_code t1 nm hc.1 (okName_not_blank nm hc.2)]
      rw [this]; exact (name_read nm hc.2).mono (by omega)
    · cases h
  · rename_i t1 nm t2 a
    split at h
    · rename_i hc
      simp only [Bool.and_eq_true] at hc
      obtain ⟨⟨⟨h1, h2⟩, hn⟩, ha⟩ := hc
      cases h
      have : identToks [(t1, nm), (t2, a)] = [.code nm, .code a] := by
        simp [identToks, tkToks_code t1 nm h1 (okName_not_blank nm hn), tkToks_code t2 a h2 (attrTok_not_blank a ha)]
      rw [this]; exact (attr_read nm a hn ha).mono (by omega)
    · cases h
  · rename_i t1 nm t2 o t3 e t4 c
    split at h
    · rename_i hc
      simp only [Bool.and_eq_true, beq_iff_eq] at hc
      obtain ⟨⟨⟨⟨⟨⟨⟨h1, h2⟩, h3⟩, h4⟩, ho⟩, he⟩, hcl⟩, hn⟩ := hc
      cases h
      subst h1 h2 h3 h4 ho he hcl
      have hnb := phName_not_blank nm hn
      have : identToks [(tFn, nm), (tPunct, [40]), (tPunct, sEll), (tPunct, [41])] = [.code nm, LP, ELL, RP] := by
        simp only [identToks, List.flatMap_cons, List.flatMap_nil, tkToks, tFn, tPunct, tComment, tStr, cd, hnb]
        simp [isBlank, sEll, LP, RP, ELL]
      rw [this]
      exact ph_call_read nm hn
    · cases h
  · rename_i t1 o t2 e t3 c
    split at h
    · rename_i hc
      simp only [Bool.and_eq_true, beq_iff_eq] at hc
      obtain ⟨⟨⟨h1, h2⟩, h3⟩, he⟩ := hc
      subst h1 h2 h3 he
      split at h
      · rename_i hb
        simp only [Bool.and_eq_true, beq_iff_eq] at hb
        obtain ⟨rfl, rfl⟩ := hb
        cases h
        have : identToks [(tPunct, [91]), (tPunct, sEll), (tPunct, [93])] = [.code [91], ELL, .code [93]] := by
          simp [identToks, tkToks, tPunct, tComment, tStr, cd, isBlank, sEll, ELL]
        rw [this]; exact ph_list_read.mono (by omega)
      · split at h
        · rename_i hb
          simp only [Bool.and_eq_true, beq_iff_eq] at hb
          obtain ⟨rfl, rfl⟩ := hb
          cases h
          have : identToks [(tPunct, [40]), (tPunct, sEll), (tPunct, [41])] = [LP, ELL, RP] := by
            simp [identToks, tkToks, tPunct, tComment, tStr, cd, isBlank, sEll, ELL, LP, RP]
          rw [this]; exact ph_paren_read.mono (by omega)
        · split at h
          · rename_i hb
            simp only [Bool.and_eq_true, beq_iff_eq] at hb
            obtain ⟨rfl, rfl⟩ := hb
            cases h
            have : identToks [(tPunct, [123]), (tPunct, sEll), (tPunct, [125])] = [.code [123], ELL, .code [125]] := by
              simp [identToks, tkToks, tPunct, tComment, tStr, cd, isBlank, sEll, ELL]
            rw [this]; exact ph_set_read.mono (by omega)
          · cases h
    · cases h
  · cases h

/-! ### wrappers -/

theorem callToks_one (q : QualName) (hq : okName q.2 = true) (t : List CT) :
    callToks q [t] = .code q.2 :: LP :: (seqToks [t] false ++ [RP]) := by
  simp [callToks, cd, okName_not_blank q.2 hq]

/-- `Cls(<tokens of the underlying value>)` reads as the call of the class on what those tokens read as -/
theorem wrap_read (q : QualName) (hq : okName q.2 = true) (t : List CT) (r : RVal) (n : Nat) (h : ElemOk t r n) :
    ElemOk (callToks q [t]) (.call q.2 [r]) (n + 5) := by
  rw [callToks_one q hq]
  have := call_read q.2 hq [(t, r)] n (by intro p hp; simp at hp; subst hp; exact h)
  simpa [Nat.add_comm] using this

theorem empty_call_read (ctx : Ctx) (hf : Free ctx) (q : QualName) (hq : okName q.2 = true) :
    ElemOk (emptyCallToks ctx q) (.call q.2 []) 4 := by
  have : emptyCallToks ctx q = .code q.2 :: LP :: (seqToks (([] : List (List CT × RVal)).map (·.1)) false ++ [RP]) := by
    simp [emptyCallToks, hf.any, cd, okName_not_blank q.2 hq, seqToks]
  rw [this]
  exact call_read q.2 hq [] 0 (by intro p hp; cases hp)

theorem wrapR_read (cls : Option QualName) (hc : clsOk cls = true) (t : List CT) (r : RVal) (n : Nat) (h : ElemOk t r n) :
    ElemOk (wrapToks cls t) (wrapR cls r) (n + 5) := by
  cases cls with
  | none => exact h.mono (by omega)
  | some q => exact wrap_read q hc t r n h

/-! ### keyword items -/

def kwPairs (ctx : Ctx) : List (Str × PyVal) → List (List CT × RVal)
  | [] => []
  | (k, v) :: r => (.code k :: .code [61] :: canonW ctx v none, .kwarg k (erase v)) :: kwPairs ctx r

theorem kwPairs_snd (ctx : Ctx) : ∀ kws, (kwPairs ctx kws).map (·.2) = eraseK kws
  | [] => rfl
  | (k, v) :: r => by simp [kwPairs, eraseK, kwPairs_snd ctx r]
theorem kwPairs_length (ctx : Ctx) : ∀ kws, (kwPairs ctx kws).length = kws.length
  | [] => rfl
  | (k, v) :: r => by simp [kwPairs, kwPairs_length ctx r]

mutual
theorem canon_reads : (v : PyVal) → inRd v = true → ∀ (ctx : Ctx), Free ctx → ∀ (tr : Option PS),
    (emptyDictSub v = true → nonEmpty? tr = none) → ElemOk (canonW ctx v tr) (erase v) (need v)
  | .commented v t, h, ctx, hf, tr, htr => by
      simp only [canonW, erase, need]
      exact canon_reads v (by simpa [inRd] using h) ctx hf tr (by simpa [emptyDictSub] using htr)
  | .trailing v t, h, ctx, hf, tr, _ => by
      simp only [canonW, erase, need]
      simp only [inRd, Bool.and_eq_true, Bool.or_eq_true, Bool.not_eq_true'] at h
      refine canon_reads v h.1 ctx hf (some t) ?_
      intro he
      rcases h.2 with h2 | h2
      · simp only [nonEmpty?]; rw [if_pos h2]
      · rw [he] at h2; cases h2
  | .none, _, ctx, hf, tr, _ => by
      simp only [canonW, erase, need]; exact (kw_read sNone (Or.inl rfl)).mono (by omega)
  | .ellipsis, _, ctx, hf, tr, _ => by
      simp only [canonW, erase, need]; exact (kw_read sEll (Or.inr (Or.inr (Or.inr rfl)))).mono (by omega)
  | .bool b, _, ctx, hf, tr, _ => by
      simp only [canonW, erase, need]
      cases b
      · exact (kw_read sFalse (Or.inr (Or.inr (Or.inl rfl)))).mono (by omega)
      · exact (kw_read sTrue (Or.inr (Or.inl rfl))).mono (by omega)
  | .int cls val lit, h, ctx, hf, tr, _ => by
      simp only [inRd, Bool.and_eq_true] at h
      obtain ⟨hc, hl⟩ := h
      simp only [canonW, hf.depthZero, Bool.false_eq_true, if_false, erase, need, cd_name lit (numTok_not_blank lit hl)]
      exact (wrapR_read cls hc _ _ 1 (num_read lit hl)).mono (by omega)
  | .float cls kind lit n d, h, ctx, hf, tr, _ => by
      simp only [inRd, Bool.and_eq_true, Bool.or_eq_true] at h
      obtain ⟨hc, hl⟩ := h
      simp only [canonW, hf.depthZero, Bool.false_eq_true, if_false, erase, need, floatR]
      by_cases hk : (kind == 0) = true
      · have hl' : isNumTok lit = true := by
          rcases hl with h | h
          · have h0 : kind = 0 := by simpa using hk
            subst h0; simp at h
          · exact h
        simp only [hk, if_true, cd_name lit (numTok_not_blank lit hl')]
        exact (wrapR_read cls hc _ _ 1 (num_read lit hl')).mono (by omega)
      · simp only [hk, Bool.false_eq_true, if_false, hf.nested.depthZero]
        cases cls with
        | none =>
          have : callToks (builtin nmFloat) [[CT.lit (some (floatName kind))]] = [.code sFloat, LP, .lit (some (floatName kind)), RP] := by
            simp [callToks, builtin, nmFloat, sFloat, cd, isBlank, seqToks]
          simp only [Option.getD_none]
          rw [this]
          exact (fspecial_read _).mono (by omega)
        | some q =>
          simp only [Option.getD_some]
          have := wrap_read q hc [CT.lit (some (floatName kind))] (.str false (floatName kind)) 1 (by simpa using str_read false (floatName kind))
          exact this.mono (by omega)
  | .str cls b s, h, ctx, hf, tr, _ => by
      simp only [inRd] at h
      simp only [canonW, hf.depthZero, Bool.false_eq_true, if_false, erase, need]
      cases cls with
      | none => simp only [strCanon, wrapR]; exact (str_read b (cps s)).mono (by omega)
      | some q =>
        have e : strCanon { s := s, isBytes := b, cls := some q } =
            callToks q [(if b then [CT.code [98]] else []) ++ [.lit (some (cps s))]] := by
          simp [strCanon, callToks, cd, okName_not_blank q.2 h, seqToks, LP, RP]
        rw [e]
        exact (wrap_read q h _ _ 1 (str_read b (cps s))).mono (by omega)
  | .seq kind cls xs, h, ctx, hf, tr, _ => by
      simp only [inRd, Bool.and_eq_true, decide_eq_true_eq] at h
      obtain ⟨⟨hc, hk⟩, hxs⟩ := h
      have hnone : ElemOk (seqCanon ctx kind none xs.length (canonL ctx.nested xs) (nonEmpty? tr)) (mkSeq kind (eraseL xs))
          (xs.length + 4 + needL xs) := by
        cases xs with
        | nil =>
          -- the empty list / tuple / set
          simp only [seqCanon, List.length_nil, beq_self_eq_true, if_true, Option.isNone_none, Bool.and_true, canonL, eraseL, mkSeq]
          have hk3 : kind = 0 ∨ kind = 1 ∨ kind = 2 := by omega
          rcases hk3 with rfl | rfl | rfl
          · refine ⟨headOk_open 91 (Or.inl rfl) _, ?_⟩
            intro f hfu rest hrest
            cases f with
            | zero => simp [needL] at hfu
            | succ f =>
              cases f with
              | zero => simp [needL] at hfu
              | succ f => simp [bracketToks, parseV_list, parseTailStart_close, asList]
          · refine ⟨headOk_open 40 (Or.inr (Or.inl rfl)) _, ?_⟩
            intro f hfu rest hrest
            cases f with
            | zero => simp [needL] at hfu
            | succ f =>
              cases f with
              | zero => simp [needL] at hfu
              | succ f => simp [bracketToks, LP, RP, parseV_tuple, parseTailStart_close, asTuple]
          · have : emptyCallToks ctx (builtin (seqName 2)) = [.code sSet, LP, RP] := by
              simp [emptyCallToks, hf.any, builtin, seqName, nmSet, sSet, cd, isBlank]
            simp only [bne_self_eq_false, Bool.false_and, Bool.false_eq_true, if_false, Option.getD_none, this]
            refine ⟨headOk_code _ (by decide) (by decide) (by decide) (by decide) (by decide) _, ?_⟩
            intro f hfu rest hrest
            cases f with
            | zero => simp [needL] at hfu
            | succ f => simpa using parseV_set0 f rest
        | cons x xs' =>
          simp only [inRdL, Bool.and_eq_true] at hxs
          have hpairs : ∀ q ∈ elemPairs ctx.nested (x :: xs'), ElemOk q.1 q.2 (needL (x :: xs')) := by
            exact elemPairs_ok (x :: xs') (by simpa [inRdL] using hxs) ctx.nested hf.nested
          rw [seq_body ctx hf kind x xs' (nonEmpty? tr)]
          simp only [mkSeq]
          have hk3 : kind = 0 ∨ kind = 1 ∨ kind = 2 := by omega
          have hstart : ∀ (close : Str) (hc : isCloser close) (f : Nat), xs'.length + 3 + needL (x :: xs') ≤ f → ∀ (tc : Bool) (rest : List CT),
              parseTailStart f close (canonW ctx.nested x none ++ tailToks (canonL ctx.nested xs') tc ++ .code close :: rest) =
                some (eraseL (x :: xs'), tc, rest) := by
            intro close hc f hfu tc rest
            have := parseTailStart_ok close hc (needL (x :: xs')) (canonW ctx.nested x none, erase x) (elemPairs ctx.nested xs') tc
              (by simpa [elemPairs] using hpairs) f (by rw [elemPairs_length]; exact hfu) rest
            simpa [elemPairs_fst, elemPairs_snd, eraseL] using this
          rcases hk3 with rfl | rfl | rfl
          · refine ⟨headOk_open 91 (Or.inl rfl) _, ?_⟩
            intro f hfu rest hrest
            cases f with
            | zero => simp at hfu
            | succ f =>
              have := hstart [93] (Or.inl rfl) f (by simp at hfu ⊢; omega) ((nonEmpty? tr).isSome || (0 == 1 && xs'.isEmpty)) rest
              simp only [bracketToks, beq_self_eq_true, if_true, List.cons_append, List.nil_append, List.append_assoc, List.singleton_append] at this ⊢
              rw [parseV_list, this]
              rfl
          · refine ⟨headOk_open 40 (Or.inr (Or.inl rfl)) _, ?_⟩
            intro f hfu rest hrest
            cases f with
            | zero => simp at hfu
            | succ f =>
              have := hstart [41] (Or.inr (Or.inl rfl)) f (by simp at hfu ⊢; omega) ((nonEmpty? tr).isSome || (1 == 1 && xs'.isEmpty)) rest
              simp only [bracketToks, LP, RP, List.cons_append, List.nil_append, List.append_assoc, List.singleton_append] at this ⊢
              simp only [show ((1 : Nat) == 0) = false from rfl, Bool.false_eq_true, if_false, beq_self_eq_true, if_true] at this ⊢
              rw [parseV_tuple, this]
              -- a one-element tuple always carries its comma
              cases xs' with
              | nil => simp [asTuple, eraseL]
              | cons y ys => simp [asTuple, eraseL]
          · have eT : ((nonEmpty? tr).isSome || ((2 : Nat) == 1 && xs'.isEmpty)) = (nonEmpty? tr).isSome := by simp
            rw [eT]
            refine ⟨headOk_open 123 (Or.inr (Or.inr rfl)) _, ?_⟩
            intro f hfu rest hrest
            cases f with
            | zero => simp at hfu
            | succ f =>
              cases f with
              | zero => simp at hfu; omega
              | succ f =>
                have hx := hpairs (canonW ctx.nested x none, erase x) (by simp [elemPairs])
                obtain ⟨t0, tr0, ht, _, _, hn3, _, _⟩ := hx.head
                simp only at ht
                have hread := hx.reads f (by simp at hfu ⊢; have := need_le_needL (x :: xs') x (by simp); omega)
                  (tailToks (canonL ctx.nested xs') (nonEmpty? tr).isSome ++ .code [125] :: rest) (followOk_tail (Or.inr (Or.inr rfl)) _ _ _)
                have htail := parseTail_ok [125] (Or.inr (Or.inr rfl)) (needL (x :: xs')) (elemPairs ctx.nested xs')
                  (nonEmpty? tr).isSome (fun q hq => hpairs q (by simp [elemPairs, hq])) f
                  (by rw [elemPairs_length]; simp at hfu ⊢; omega) rest
                rw [elemPairs_fst, elemPairs_snd] at htail
                simp only [bracketToks, List.cons_append, List.nil_append, List.append_assoc, List.singleton_append]
                simp only [show ((2 : Nat) == 0) = false from rfl, show ((2 : Nat) == 1) = false from rfl, Bool.false_eq_true, if_false]
                rw [parseV_brace]
                simp only at hread
                rw [ht] at hread ⊢
                simp only [List.cons_append] at hread ⊢
                have hb : ∀ r, parseBrace (f + 1) (t0 :: r) =
                    braceAfterFirst (parseV f (t0 :: r)) (fun t => parseV f t) (fun t => parsePairs f t) (fun t => parseTail f [125] t) := by
                  intro r
                  cases t0 with
                  | code c2 =>
                    have : c2 ≠ [125] := fun e => hn3 (by rw [e])
                    simp [parseBrace, this]
                  | lit v => simp [parseBrace]
                rw [hb, hread]
                rw [braceAfterFirst_set _ _ _ _ _ _ _ _ (tailToks_head _ _ _ _ (by decide)) htail]
                simp [eraseL]
      simp only [canonW, erase, need]
      cases cls with
      | none => exact hnone.mono (by omega)
      | some q =>
        simp only [wrapNE]
        cases xs with
        | nil =>
          have : seqCanon ctx kind (some q) ([] : List PyVal).length (canonL ctx.nested []) (nonEmpty? tr) = emptyCallToks ctx q := by
            simp [seqCanon]
          rw [this]
          exact (empty_call_read ctx hf q hc).mono (by simp; omega)
        | cons x xs' =>
          have : seqCanon ctx kind (some q) (x :: xs').length (canonL ctx.nested (x :: xs')) (nonEmpty? tr) =
              callToks q [seqCanon ctx kind none (x :: xs').length (canonL ctx.nested (x :: xs')) (nonEmpty? tr)] := by
            simp [seqCanon, hf.depthZero]
          rw [this]
          simp only [List.isEmpty_cons, Bool.false_eq_true, if_false]
          exact (wrap_read q hc _ _ _ hnone).mono (by simp; omega)
  | .frozenset cls xs, h, ctx, hf, tr, _ => by
      simp only [inRd, Bool.and_eq_true] at h
      obtain ⟨hc, hxs⟩ := h
      simp only [canonW, hf.any, Bool.false_eq_true, if_false, erase, need]
      cases xs with
      | nil =>
        simp only [List.isEmpty_nil, if_true, eraseL]
        cases cls with
        | none =>
          have hname : cd (builtin nmFrozenset).2 = [.code sFrozenset] := by simp [builtin, nmFrozenset, sFrozenset, cd, isBlank]
          simp only [Option.getD_none, hname, fsetR]
          refine ⟨headOk_code _ (by decide) (by decide) (by decide) (by decide) (by decide) _, ?_⟩
          intro f hfu rest hrest
          cases f with
          | zero => simp at hfu
          | succ f => simpa using parseV_fset0 f rest
        | some q =>
          simp only [Option.getD_some, fsetR, if_true]
          have := empty_call_read ctx hf q hc
          simp only [emptyCallToks, hf.any, Bool.false_eq_true, if_false] at this
          exact this.mono (Nat.le_trans (by decide : 4 ≤ 10) (Nat.le_add_right _ _))
      | cons x xs' =>
        have hpairs : ∀ q ∈ elemPairs ctx.nested (x :: xs'), ElemOk q.1 q.2 (needL (x :: xs')) :=
          elemPairs_ok (x :: xs') hxs ctx.nested hf.nested
        simp only [List.isEmpty_cons, Bool.false_eq_true, if_false]
        rw [seq_body ctx hf 0 x xs' none]
        -- the inner list literal
        have hlist : ElemOk ([(bracketToks 0).1] ++ (canonW ctx.nested x none ++ tailToks (canonL ctx.nested xs') ((none : Option PS).isSome || (0 == 1 && xs'.isEmpty))) ++
            [(bracketToks 0).2]) (.list (eraseL (x :: xs'))) (xs'.length + 5 + needL (x :: xs')) := by
          refine ⟨headOk_open 91 (Or.inl rfl) _, ?_⟩
          intro f hfu rest hrest
          cases f with
          | zero => simp at hfu
          | succ f =>
            have := parseTailStart_ok [93] (Or.inl rfl) (needL (x :: xs')) (canonW ctx.nested x none, erase x) (elemPairs ctx.nested xs') false
              (by simpa [elemPairs] using hpairs) f (by rw [elemPairs_length]; omega) rest
            simp only [List.map_cons, elemPairs_fst, elemPairs_snd] at this
            simp only [bracketToks, beq_self_eq_true, if_true, Option.isSome_none, Bool.false_or, show ((0 : Nat) == 1) = false from rfl,
              Bool.false_and, List.cons_append, List.nil_append, List.append_assoc, List.singleton_append] at this ⊢
            rw [parseV_list, this]
            simp [asList, eraseL]
        cases cls with
        | none =>
          have hname : cd (builtin nmFrozenset).2 = [.code sFrozenset] := by simp [builtin, nmFrozenset, sFrozenset, cd, isBlank]
          simp only [Option.getD_none, fsetR, callToks, hname, seqToks, bracketToks, beq_self_eq_true, if_true, Option.isSome_none, Bool.false_or,
            show ((0 : Nat) == 1) = false from rfl, Bool.false_and]
          refine ⟨headOk_code _ (by decide) (by decide) (by decide) (by decide) (by decide) _, ?_⟩
          intro f hfu rest hrest
          cases f with
          | zero => simp at hfu
          | succ f =>
            have := parseTailStart_ok [93] (Or.inl rfl) (needL (x :: xs')) (canonW ctx.nested x none, erase x) (elemPairs ctx.nested xs') false
              (by simpa [elemPairs] using hpairs) f (by rw [elemPairs_length]; simp at hfu ⊢; omega) (RP :: rest)
            simp only [List.map_cons, elemPairs_fst, elemPairs_snd] at this
            simp only [List.cons_append, List.nil_append, List.append_assoc, List.singleton_append, Bool.false_eq_true, if_false, List.append_nil] at this ⊢
            apply parseV_fset
            rw [this]
            simp [asFset, RP, eraseL]
        | some q =>
          simp only [Option.getD_some, fsetR, List.isEmpty_cons, Bool.false_eq_true, if_false]
          exact (wrap_read q hc _ _ _ hlist).mono (by simp; omega)
  | .dict cls kvs, h, ctx, hf, tr, htr => by
      simp only [inRd, Bool.and_eq_true] at h
      obtain ⟨hc, hkv⟩ := h
      have hpp := pairPairs_ok kvs hkv ctx hf
      have hnone : ElemOk ([CT.code [123]] ++ dictPairToks (canonPairs ctx kvs) ++ [.code [125]]) (.dict (eraseP kvs)) (kvs.length + 4 + needP kvs) := by
        refine ⟨headOk_open 123 (Or.inr (Or.inr rfl)) _, ?_⟩
        intro f hfu rest hrest
        cases f with
        | zero => omega
        | succ f =>
          cases f with
          | zero => omega
          | succ f =>
            simp only [List.cons_append, List.nil_append, List.append_assoc, List.singleton_append]
            rw [parseV_brace]
            cases kvs with
            | nil => simp [canonPairs, dictPairToks, parseBrace, eraseP]
            | cons kv kvs' =>
              obtain ⟨k, v⟩ := kv
              have hp1 := hpp ((k, canonW ctx.nested k none, canonW ctx.nested v none), (erase k, erase v)) (by simp [pairPairs])
              obtain ⟨t0, tr0, ht, _, _, hn3, _, _⟩ := hp1.key.head
              simp only at ht
              rw [← pairPairs_fst ctx hf]
              simp only [pairPairs, List.map_cons]
              rw [dictPairToks_cons]
              simp only [List.append_assoc, List.cons_append]
              have hkread := hp1.key.reads f (by simp [needP] at hfu ⊢; omega)
                (COLON_T :: (canonW ctx.nested v none ++ (pairTail ((pairPairs ctx kvs').map (·.1)) ++ CT.code [125] :: rest))) followOk_colon
              have hvread := hp1.val.reads f (by simp [needP] at hfu ⊢; omega)
                (pairTail ((pairPairs ctx kvs').map (·.1)) ++ CT.code [125] :: rest) (followOk_pairTail _ _)
              have hrest := parsePairs_ok (needP ((k, v) :: kvs')) (pairPairs ctx kvs') (fun q hq => hpp q (by simp [pairPairs, hq])) f
                (by rw [pairPairs_length]; simp at hfu ⊢; omega) rest
              simp only at hkread hvread
              rw [ht] at hkread ⊢
              simp only [List.cons_append] at hkread ⊢
              have hb : ∀ r, parseBrace (f + 1) (t0 :: r) =
                  braceAfterFirst (parseV f (t0 :: r)) (fun t => parseV f t) (fun t => parsePairs f t) (fun t => parseTail f [125] t) := by
                intro r
                cases t0 with
                | code c2 =>
                  have : c2 ≠ [125] := fun e => hn3 (by rw [e])
                  simp [parseBrace, this]
                | lit v => simp [parseBrace]
              rw [hb, hkread]
              simp only [COLON_T]
              rw [braceAfterFirst_dict _ _ _ _ _ _ _ _ _ hvread hrest]
              simp [eraseP, pairPairs_snd]
      simp only [canonW, erase, need]
      unfold dictCanon
      simp only [hf.depthZero, Bool.false_eq_true, if_false, hf.2.2, hf.2.1, takeOpt, withTruncation_noLimit']
      cases cls with
      | none => simp only [Option.isNone_none, if_true, wrapNE]; exact hnone.mono (by omega)
      | some q =>
        simp only [Option.isNone_some, Bool.false_eq_true, if_false, Option.getD_some, wrapNE]
        cases kvs with
        | nil =>
          have ht : nonEmpty? tr = none := htr (by simp [emptyDictSub])
          simp only [canonPairs, List.isEmpty_nil, ht, Option.isNone_none, Bool.and_self, if_true]
          exact (empty_call_read ctx hf q hc).mono (Nat.le_trans (by decide : 4 ≤ 10) (Nat.le_add_right _ _))
        | cons kv kvs' =>
          obtain ⟨k, v⟩ := kv
          simp only [canonPairs, List.isEmpty_cons, Bool.false_and, Bool.false_eq_true, if_false]
          have := (wrap_read q hc _ _ _ hnone)
          simp only [canonPairs] at this
          exact this.mono (by simp; omega)
  | .call fn args kwargs, h, ctx, hf, tr, _ => by
      simp only [inRd, Bool.and_eq_true] at h
      obtain ⟨⟨hn0, ha⟩, hk⟩ := h
      by_cases hfs : fsetLit fn args kwargs = true
      · -- `frozenset([...])` written as a call: the reading of a frozenset literal
        simp only [canonW, hf.any, Bool.false_eq_true, if_false, erase, need, hfs, callR, if_true]
        simp only [fsetLit, Bool.and_eq_true, beq_iff_eq, List.isEmpty_iff] at hfs
        obtain ⟨⟨hname, hk0⟩, hshape⟩ := hfs
        subst hk0
        cases args with
        | nil => simp [soleListLit] at hshape
        | cons x rest =>
          cases rest with
          | cons x2 r2 => simp [soleListLit] at hshape
          | nil =>
            simp only [soleListLit] at hshape
            obtain ⟨y, ys, hstrip⟩ := isListLit_spec _ hshape
            simp only [inRdL, Bool.and_eq_true] at ha
            have ihx := canon_reads x ha.1 ctx hf none (by
              intro he
              rw [emptyDictSub_strip, hstrip] at he
              simp [emptyDictSub] at he)
            have herase : erase x = .list (eraseL (y :: ys)) := by
              rw [erase_strip x, hstrip]; simp [erase, wrapNE, mkSeq]
            obtain ⟨trx, hcan⟩ := canon_strip ctx x none
            have hhead : ∃ r, canonW ctx x none = .code [91] :: r := by
              rw [hcan, hstrip]
              simp only [canonW]
              rw [seq_body ctx hf 0 y ys (nonEmpty? trx)]
              refine ⟨canonW ctx.nested y none ++ tailToks (canonL ctx.nested ys) ((nonEmpty? trx).isSome || ((0 : Nat) == 1 && ys.isEmpty)) ++
                [(bracketToks 0).2], ?_⟩
              simp [bracketToks]
            obtain ⟨r, hr⟩ := hhead
            have hhug : hugCall [x] [] = true := by
              simp [hugCall, hstrip, isHuggable]
            simp only [hhug, if_true, eraseL, eraseK, List.append_nil, herase]
            have hname' : cd fn.2 = [.code sFrozenset] := by rw [hname]; simp [sFrozenset, cd, isBlank]
            simp only [callToks, hname', canonL, seqToks, hr, List.append_nil]
            refine ⟨headOk_code _ (by decide) (by decide) (by decide) (by decide) (by decide) _, ?_⟩
            intro f hfu rest hrest
            cases f with
            | zero => omega
            | succ f =>
              have hread := ihx.reads (f + 1) (by simp [needL, needK] at hfu ⊢; omega) (RP :: rest) (followOk_close (Or.inr (Or.inl rfl)))
              rw [hr, herase] at hread
              simp only [List.cons_append] at hread
              rw [parseV_list] at hread
              simp only [List.cons_append, List.nil_append, List.append_assoc, List.singleton_append, LP, Bool.false_eq_true, if_false]
              have hfs2 := parseV_fset f (r ++ RP :: rest)
              simp only [LP] at hfs2
              apply hfs2
              revert hread
              generalize parseTailStart f [93] (r ++ RP :: rest) = res
              intro hread
              cases res with
              | none => simp [asList] at hread
              | some t =>
                obtain ⟨xs, tc, r'⟩ := t
                simp only [asList, Option.some.injEq, Prod.mk.injEq, RVal.list.injEq] at hread
                rw [hread.1, hread.2]
                simp [asFset, RP, eraseL]
      by_cases hfp : floatPh fn args kwargs = true
      · -- `float(str(...))`: concrete tokens, read by computation
        simp only [floatPh, Bool.and_eq_true, beq_iff_eq, List.isEmpty_iff] at hfp
        obtain ⟨⟨hname, hk0⟩, hshape⟩ := hfp
        subst hk0
        have hfs' : fsetLit fn args [] = false := by simpa using hfs
        cases args with
        | nil => simp [soleStrPh] at hshape
        | cons x rest =>
          cases rest with
          | cons x2 r2 => cases x <;> simp [soleStrPh] at hshape
          | nil =>
            cases x with
            | ident parts =>
              simp only [soleStrPh, beq_iff_eq] at hshape
              subst hshape
              obtain ⟨b, nm⟩ := fn
              simp only at hname
              subst hname
              have htoks : canonW ctx (.call (b, sFloat) [.ident strPhParts] []) tr =
                  [.code sFloat, LP, .code nmStr, LP, ELL, RP, RP] := by
                simp [canonW, hf.any, hugCall, isHuggable, stripComments, callToks, canonL, canonKw, identToks, strPhParts, tkToks, tFn, tPunct,
                  tComment, tStr, cd, isBlank, sFloat, nmStr, seqToks, LP, RP, ELL]
              rw [htoks]
              simp only [erase, hfs', callR, eraseL, eraseK, List.append_nil, Bool.false_eq_true, if_false]
              have herase : (identPh strPhParts).getD (.kw []) = .call nmStr [.kw sEll] := by
                simp [identPh, strPhParts, tFn, tPunct, sEll, phName, isNameTok, nmStr, isKwTok, sNone, sTrue, sFalse]
              rw [herase]
              refine ⟨headOk_code _ (by decide) (by decide) (by decide) (by decide) (by decide) _, ?_⟩
              intro f hfu rest hrest
              simp only [need, needL, needK] at hfu
              cases f with
              | zero => omega
              | succ f =>
              cases f with
              | zero => omega
              | succ f =>
              cases f with
              | zero => omega
              | succ f =>
              cases f with
              | zero => omega
              | succ f =>
              cases f with
              | zero => omega
              | succ f =>
              cases f with
              | zero => omega
              | succ f =>
              cases f with
              | zero => omega
              | succ f =>
                simp [parseV, sFloat, sSet, sFrozenset, nmStr, sEll, ELL, LP, RP, orElseR, floatSpecial, afterName, asCall,
                  parseTailStart, parseTail, thenTail, isKwTok, isNumTok, isNameTok, sNone, sTrue, sFalse]
            | _ => simp [soleStrPh] at hshape
      have hn : okName fn.2 = true := by
        rcases Bool.or_eq_true _ _ |>.mp hn0 with h1 | h1
        · rcases Bool.or_eq_true _ _ |>.mp h1 with h2 | h2
          · exact h2
          · exact absurd h2 hfs
        · exact absurd h1 hfp
      have hfs' : fsetLit fn args kwargs = false := by simpa using hfs
      simp only [canonW, hf.any, Bool.false_eq_true, if_false, erase, need, hfs', callR]
      -- hugging only changes the context of the sole argument, and a free context is free at every level
      have hargs : ∀ (c : Ctx), Free c → ∀ q ∈ elemPairs c args, ElemOk q.1 q.2 (max (needL args) (needK kwargs)) := by
        intro c hc q hq
        exact (elemPairs_ok args ha c hc q hq).mono (by omega)
      have hkws : ∀ q ∈ kwPairs ctx.nested kwargs, ElemOk q.1 q.2 (max (needL args) (needK kwargs)) := by
        intro q hq
        exact (kwPairs_ok kwargs hk ctx.nested hf.nested q hq).mono (by omega)
      have hcanonKw : ∀ (c : Ctx) (kws : List (Str × PyVal)), inRdK kws = true → canonKw c kws = (kwPairs c kws).map (·.1) := by
        intro c kws
        induction kws with
        | nil => intro _; rfl
        | cons p r ih =>
          obtain ⟨k, v⟩ := p
          intro hh
          simp only [inRdK, Bool.and_eq_true] at hh
          simp only [canonKw, kwPairs, List.map_cons, ih hh.2, cd_name k (kwName_not_blank k hh.1.1), EQ_T, List.cons_append, List.nil_append,
            List.singleton_append]
      by_cases hh : hugCall args kwargs = true
      · simp only [hh, if_true]
        have hk0 : kwargs = [] := by
          cases kwargs with
          | nil => rfl
          | cons p r => simp [hugCall] at hh
        subst hk0
        have := call_read fn.2 hn (elemPairs ctx args) (max (needL args) (needK [])) (hargs ctx hf)
        rw [elemPairs_fst, elemPairs_snd, elemPairs_length] at this
        simp only [callToks, cd_name fn.2 (okName_not_blank fn.2 hn), eraseK, List.append_nil, List.cons_append, List.nil_append,
          List.singleton_append, List.length_nil, Nat.add_zero, List.append_assoc]
        exact this.mono (by omega)
      · simp only [hh, Bool.false_eq_true, if_false]
        have := call_read fn.2 hn (elemPairs ctx.nested args ++ kwPairs ctx.nested kwargs) (max (needL args) (needK kwargs))
          (by
            intro q hq
            rcases List.mem_append.mp hq with hq | hq
            · exact hargs ctx.nested hf.nested q hq
            · exact hkws q hq)
        rw [List.map_append, List.map_append, elemPairs_fst, elemPairs_snd, kwPairs_snd, List.length_append, elemPairs_length,
          kwPairs_length, ← hcanonKw ctx.nested kwargs hk] at this
        simp only [callToks, cd_name fn.2 (okName_not_blank fn.2 hn), List.cons_append, List.nil_append, List.singleton_append, List.append_assoc]
        exact this.mono (by omega)
  | .opaque _, h, _, _, _, _ => by simp [inRd] at h
  | .ident parts, h, ctx, hf, tr, _ => by
      simp only [inRd, Option.isSome_iff_exists] at h
      obtain ⟨r, hr⟩ := h
      simp only [canonW, erase, need, hr, Option.getD_some]
      exact identPh_read parts r hr
  | .timedelta _ _ _, h, _, _, _, _ => by simp [inRd] at h
  | .path cls posix, h, ctx, hf, tr, _ => by
      -- a pure path: the class applied to the string `as_posix()` gives
      simp only [inRd] at h
      simp only [canonW, hf.depthZero, Bool.false_eq_true, if_false, erase, need]
      exact (wrap_read cls h _ _ 1 (str_read false (cps posix))).mono (by omega)

theorem elemPairs_ok : (xs : List PyVal) → inRdL xs = true → ∀ (ctx : Ctx), Free ctx →
    ∀ q ∈ elemPairs ctx xs, ElemOk q.1 q.2 (needL xs)
  | [], _, _, _ => by simp [elemPairs]
  | v :: r, h, ctx, hf => by
      simp only [inRdL, Bool.and_eq_true] at h
      intro q hq
      simp only [elemPairs, List.mem_cons] at hq
      rcases hq with rfl | hq
      · exact (canon_reads v h.1 ctx hf none (fun _ => rfl)).mono (by simp [needL]; omega)
      · exact (elemPairs_ok r h.2 ctx hf q hq).mono (by simp [needL]; omega)

theorem pairPairs_ok : (kvs : List (PyVal × PyVal)) → inRdP kvs = true → ∀ (ctx : Ctx), Free ctx →
    ∀ p ∈ pairPairs ctx kvs, PairOk p.1 p.2 (needP kvs)
  | [], _, _, _ => by simp [pairPairs]
  | (k, v) :: r, h, ctx, hf => by
      simp only [inRdP, Bool.and_eq_true] at h
      intro p hp
      simp only [pairPairs, List.mem_cons] at hp
      rcases hp with rfl | hp
      · exact ⟨(canon_reads k h.1.1 ctx.nested hf.nested none (fun _ => rfl)).mono (by simp [needP]; omega),
               (canon_reads v h.1.2 ctx.nested hf.nested none (fun _ => rfl)).mono (by simp [needP]; omega)⟩
      · have := pairPairs_ok r h.2 ctx hf p hp
        exact ⟨this.key.mono (by simp [needP]; omega), this.val.mono (by simp [needP]; omega)⟩

theorem kwPairs_ok : (kws : List (Str × PyVal)) → inRdK kws = true → ∀ (ctx : Ctx), Free ctx →
    ∀ q ∈ kwPairs ctx kws, ElemOk q.1 q.2 (needK kws)
  | [], _, _, _ => by simp [kwPairs]
  | (k, v) :: r, h, ctx, hf => by
      simp only [inRdK, Bool.and_eq_true] at h
      intro q hq
      simp only [kwPairs, List.mem_cons] at hq
      rcases hq with rfl | hq
      · exact (kwarg_read k h.1.1 _ _ _ (canon_reads v h.1.2 ctx hf none (fun _ => rfl))).mono (by simp [needK]; omega)
      · exact (kwPairs_ok r h.2 ctx hf q hq).mono (by simp [needK]; omega)
end

/-! ### the old fragment is part of the new one -/

mutual
theorem inC01_inRd : (v : PyVal) → inC01 v = true → inRd v = true ∧ emptyDictSub v = false
  | .commented v _, h => by
      have := inC01_inRd v (by simpa [inC01] using h); simpa [inRd, emptyDictSub] using this
  | .trailing v _, h => by
      have := inC01_inRd v (by simpa [inC01] using h); simp [inRd, emptyDictSub, this.1, this.2]
  | .none, _ => by simp [inRd, emptyDictSub]
  | .ellipsis, _ => by simp [inRd, emptyDictSub]
  | .bool _, _ => by simp [inRd, emptyDictSub]
  | .int cls _ lit, h => by
      simp only [inC01, Bool.and_eq_true, Option.isNone_iff_eq_none] at h; obtain ⟨rfl, hl⟩ := h; simp [inRd, clsOk, hl, emptyDictSub]
  | .float cls kind lit _ _, h => by
      simp only [inC01, Bool.and_eq_true, Option.isNone_iff_eq_none] at h; obtain ⟨rfl, hl⟩ := h; simp [inRd, clsOk, emptyDictSub]; simpa using hl
  | .str cls _ _, h => by
      simp only [inC01, Option.isNone_iff_eq_none] at h; subst h; simp [inRd, clsOk, emptyDictSub]
  | .seq kind cls xs, h => by
      simp only [inC01, Bool.and_eq_true, Option.isNone_iff_eq_none, decide_eq_true_eq] at h
      obtain ⟨⟨rfl, hk⟩, hxs⟩ := h
      simp [inRd, clsOk, hk, inC01L_inRdL xs hxs, emptyDictSub]
  | .frozenset cls xs, h => by
      simp only [inC01, Bool.and_eq_true, Option.isNone_iff_eq_none] at h
      obtain ⟨rfl, hxs⟩ := h
      simp [inRd, clsOk, inC01L_inRdL xs hxs, emptyDictSub]
  | .dict cls kvs, h => by
      simp only [inC01, Bool.and_eq_true, Option.isNone_iff_eq_none] at h
      obtain ⟨rfl, hkv⟩ := h
      simp [inRd, clsOk, inC01P_inRdP kvs hkv, emptyDictSub]
  | .opaque _, h => by simp [inC01] at h
  | .ident _, h => by simp [inC01] at h
  | .timedelta _ _ _, h => by simp [inC01] at h
  | .path _ _, h => by simp [inC01] at h
  | .call _ _ _, h => by simp [inC01] at h
theorem inC01L_inRdL : (xs : List PyVal) → inC01L xs = true → inRdL xs = true
  | [], _ => rfl
  | v :: r, h => by
      simp only [inC01L, Bool.and_eq_true] at h
      simp [inRdL, (inC01_inRd v h.1).1, inC01L_inRdL r h.2]
theorem inC01P_inRdP : (kvs : List (PyVal × PyVal)) → inC01P kvs = true → inRdP kvs = true
  | [], _ => rfl
  | (k, v) :: r, h => by
      simp only [inC01P, Bool.and_eq_true] at h
      simp [inRdP, (inC01_inRd k h.1.1).1, (inC01_inRd v h.1.2).1, inC01P_inRdP r h.2]
end

end Tok
end PP
