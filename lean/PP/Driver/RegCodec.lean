import PP.Driver.Sexp
import PP.Model.Registry
import PP.Model.Threads
namespace PP
open Sexp Reg

def decodeRegOp : Sexp → Option Op
  | .list [.atom "rc", c, p] => do some (.regClass (← nat? c) (← nat? p))
  | .list [.atom "rn", c, p] => do some (.regName (← nat? c) (← nat? p))
  | .list [.atom "rp", q, p] => do some (.regPred (← nat? q) (← nat? p))
  | .list [.atom "pr", .list mro, .list acc] => do some (.print (← nats? mro) (← nats? acc))
  | .list [.atom "q", .list mro, cs, cd, rd] =>
    do some (.query (← nats? mro) ⟨(← nat? cs) == 1, (← nat? cd) == 1, (← nat? rd) == 1⟩)
  | _ => none

/-- run a history and report what each `print` / `query` observed -/
def regTrace (ops : List Op) : List Sexp :=
  let rec go (s : State) : List Op → List Sexp
    | [] => []
    | op :: r =>
      let out := match op with
        | .print mro acc =>
          match (printValue s mro (fun q => acc.contains q)).2 with
          | .printer p => [Sexp.list [sym "p", ofNat p]]
          | .repr => [sym "repr"]
        | .query mro f =>
          match (isRegistered s mro f).2 with
          | .yes => [sym "yes"]
          | .no => [sym "no"]
          | .valueError => [sym "value-error"]
        | _ => []
      out ++ go (step s op) r
  go init ops

open Thr in
def encodeEvent : Event → Sexp
  | .readDef c r => .list [sym "rd", ofNat c, match r with | some p => ofNat p | none => sym "none"]
  | .writeReg c p => .list [sym "wr", ofNat c, ofNat p]
  | .popDef c => .list [sym "pop", ofNat c]
  | .readReg c b => .list [sym "rr", ofNat c, ofNat (if b then 1 else 0)]
  | .dispatch r => .list [sym "dp", match r with | some p => ofNat p | none => sym "none"]
  | .idle => sym "idle"

open Thr in
/-- `(thr (setup op…) (threads (mro…)…) (sched i…))`: run the schedule, then let everybody finish -/
def thrRequest : List Sexp → Option Sexp
  | [.list (.atom "setup" :: ops), .list (.atom "threads" :: mros), .list (.atom "sched" :: is)] => do
    let ops ← ops.mapM decodeRegOp
    let mros ← mros.mapM fun | .list xs => nats? xs | _ => none
    let sched ← nats? is
    let s0 := run ops
    let ts : List Thread := mros.map fun m => { mro := m }
    let (s1, ts1, log1) := runSched s0 ts sched
    let (_, ts2, log2) := finishAll s1 ts1
    let enc := fun (l : List (Nat × Event)) => l.filterMap fun (i, e) =>
      match e with | .idle => none | _ => some (Sexp.list [ofNat i, encodeEvent e])
    some (.list [sym "ok", .list (sym "log" :: enc (log1 ++ log2)),
      .list (sym "results" :: (results ts2).map fun | some (some p) => ofNat p | some none => sym "none" | none => sym "unfinished")])
  | _ => none

end PP
