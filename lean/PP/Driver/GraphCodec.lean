import PP.Driver.ValCodec
import PP.Model.Graph
import PP.Model.Failures
namespace PP
open Sexp

def decodeChild : Sexp → Option Graph.Child
  | .list [.atom "l", n] => do some (.leaf (← int? n))
  | .list [.atom "r", i] => do some (.ref (← nat? i))
  | _ => none

def decodeGNode : Sexp → Option Graph.Node
  | .list [.atom "node", k, .list idt, .list kids] =>
    do some { kind := ← nat? k, idText := ← nats? idt, kids := ← kids.mapM decodeChild }
  | _ => none

mutual
partial def decodeOTree : Sexp → Option Fail.OTree
  | .list (.atom "n" :: cls :: kids) => do some (.node (← nat? cls) (← decodeOTrees kids))
  | _ => none
partial def decodeOTrees : List Sexp → Option (List Fail.OTree)
  | [] => some []
  | x :: r => do some ((← decodeOTree x) :: (← decodeOTrees r))
end

mutual
partial def encodeOTree : Fail.OTree → Sexp
  | .node cls kids => .list (sym "n" :: ofNat cls :: kids.map encodeOTree)
end

mutual
partial def encodeODoc : Fail.ODoc → Sexp
  | .call cls kids => .list (sym "c" :: ofNat cls :: kids.map encodeODoc)
  | .repr t => .list [sym "repr", encodeOTree t]
end

def decodeFault : Sexp → Option (Nat × Fail.Fault)
  | .list [k, .atom "raises", e] => do some (← nat? k, .raises (← nat? e))
  | .list [k, .atom "bad"] => do some (← nat? k, .badReturn)
  | _ => none

def failRequest : List Sexp → Option Sexp
  | [.list (.atom "plan" :: fs), t] => do
    let fs ← fs.mapM decodeFault
    let t ← decodeOTree t
    let plan : Nat → Option Fail.Fault := fun j => (fs.find? (·.1 == j)).map (·.2)
    let (r, st) := Fail.runT plan t {}
    let w := Sexp.list (sym "warn" :: st.warnings.map ofNat)
    some (match r with
      | .ok d => .list [sym "ok", encodeODoc d, w]
      | .escapes => .list [sym "escapes", w])
  | _ => none

end PP
