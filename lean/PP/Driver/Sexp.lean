/-
S-expression line protocol shared with harness/proto.py.  Atoms are integers or bare symbols; text travels as
lists of code points, so no quoting is needed.  (Driver-side only: `String` never reaches the model.)
-/
namespace PP

inductive Sexp where
  | atom (s : String)
  | list (xs : List Sexp)
deriving Repr, Inhabited

namespace Sexp

def tokenize (line : String) : List String :=
  let s := (line.replace "(" " ( ").replace ")" " ) "
  (s.splitOn " ").filter (fun t => t != "" && t != "\n")

/-- Parse a token list.  Returns the expressions read until a closing paren (consumed) or the end. -/
partial def parseList : List String → List Sexp → (List Sexp × List String)
  | [], acc => (acc.reverse, [])
  | ")" :: r, acc => (acc.reverse, r)
  | "(" :: r, acc =>
    let (xs, r') := parseList r []
    parseList r' (.list xs :: acc)
  | t :: r, acc => parseList r (.atom t :: acc)

def parse (line : String) : Option Sexp :=
  match (parseList (tokenize line.trimAscii.toString) []).1 with
  | [x] => some x
  | _ => none

partial def toStr : Sexp → String
  | .atom s => s
  | .list xs => "(" ++ " ".intercalate (xs.map toStr) ++ ")"

def int? : Sexp → Option Int
  | .atom s => s.toInt?
  | _ => none
def nat? : Sexp → Option Nat
  | .atom s => s.toNat?
  | _ => none

def ofInt (i : Int) : Sexp := .atom (toString i)
def ofNat (n : Nat) : Sexp := .atom (toString n)
def sym (s : String) : Sexp := .atom s
def ofStr (tag : String) (s : List Nat) : Sexp := .list (.atom tag :: s.map ofNat)
def nats? (xs : List Sexp) : Option (List Nat) := xs.mapM nat?

end Sexp
end PP
