import PP.Driver.Sexp
import PP.Model.Layout
import PP.Model.Render
import PP.Spec.CheckLay
namespace PP
open Sexp

/-- a character travels as `cp * 8 + printable + 2*word + 4*space` -/
def decodePChar (n : Nat) : PChar :=
  { cp := n / 8, printable := n % 2 == 1, word := (n / 2) % 2 == 1, space := (n / 4) % 2 == 1 }

def encodePChar (c : PChar) : Nat :=
  c.cp * 8 + (if c.printable then 1 else 0) + (if c.word then 2 else 0) + (if c.space then 4 else 0)

def decodeAnn : Sexp → Option Ann
  | .list [.atom "tok", n] => do some (.tok (← nat? n))
  | .list (.atom "cmt" :: cs) => do some (.comment ((← nats? cs).map decodePChar))
  | .list [.atom "oth", n] => do some (.other (← nat? n))
  | _ => none

def encodeAnn : Ann → Sexp
  | .tok n => .list [sym "tok", ofNat n]
  | .comment s => ofStr "cmt" (s.map encodePChar)
  | .other n => .list [sym "oth", ofNat n]

def decodeStrSpec : List Sexp → Option StrSpec
  | [isB, strat, ind, slash, cls, .list chars] => do
    let cls ← match cls with
      | .atom "none" => some none
      | .list (.atom "cls" :: b :: cs) => do some (some ((← nat? b) == 1, ← nats? cs))
      | _ => none
    some { s := (← nats? chars).map decodePChar, isBytes := (← nat? isB) == 1, strategy := ← nat? strat,
           ppIndent := ← int? ind, cls := cls, slashPattern := (← nat? slash) == 1 }
  | _ => none

mutual
partial def decodeDoc : Sexp → Option Doc
  | .atom "nil" => some .nil
  | .atom "hl" => some .hardline
  | .list (.atom "t" :: cs) => do some (.text (← nats? cs))
  | .list (.atom "cat" :: ds) => do some (.cat (← decodeDocs ds))
  | .list (.atom "fill" :: ds) => do some (.fill (← decodeDocs ds))
  | .list [.atom "nest", i, d] => do some (.nest (← int? i) (← decodeDoc d))
  | .list [.atom "group", d] => do some (.group (← decodeDoc d))
  | .list [.atom "ab", d] => do some (.ab (← decodeDoc d))
  | .list [.atom "align", d] => do some (.align (← decodeDoc d))
  | .list [.atom "choice", l, b, f] => do some (.choice ((← nat? l) == 1) (← decodeDoc b) (← decodeDoc f))
  | .list [.atom "ann", a, d] => do some (.ann (← decodeAnn a) (← decodeDoc d))
  | .list (.atom "pstr" :: r) => do some (.pstr (← decodeStrSpec r))
  | _ => none
partial def decodeDocs : List Sexp → Option (List Doc)
  | [] => some []
  | d :: r => do some ((← decodeDoc d) :: (← decodeDocs r))
end

def encodeSDoc : SDoc → Sexp
  | .text s => ofStr "t" s
  | .line i => .list [sym "l", ofInt i]
  | .push a => .list [sym "push", encodeAnn a]
  | .pop a => .list [sym "pop", encodeAnn a]

def decodeSDoc : Sexp → Option SDoc
  | .list (.atom "t" :: cs) => do some (.text (← nats? cs))
  | .list [.atom "l", i] => do some (.line (← int? i))
  | .list [.atom "push", a] => do some (.push (← decodeAnn a))
  | .list [.atom "pop", a] => do some (.pop (← decodeAnn a))
  | _ => none

def decodeSDocs : Sexp → Option (List SDoc)
  | .list (.atom "sdocs" :: xs) => xs.mapM decodeSDoc
  | _ => none

def encodeSDocs (out : List SDoc) : Sexp := .list (sym "sdocs" :: out.map encodeSDoc)

end PP
