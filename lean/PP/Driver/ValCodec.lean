import PP.Driver.Codec
import PP.Model.Values
import PP.Model.Config
import PP.Model.Std
import PP.Model.Fields
namespace PP
open Sexp Pr

def optNat' (i : Int) : Option Nat := if i < 0 then none else some i.toNat

def decodeCls : Sexp → Option (Option QualName)
  | .atom "none" => some none
  | .list (.atom "cls" :: b :: cs) => do some (some ((← nat? b) == 1, ← nats? cs))
  | _ => none

def decodeQual : Sexp → Option QualName
  | .list (.atom "fn" :: b :: cs) => do some ((← nat? b) == 1, ← nats? cs)
  | _ => none

def pcharsOf (xs : List Sexp) : Option PyStr.PS := do some ((← nats? xs).map decodePChar)

mutual
partial def decodeVal : Sexp → Option PyVal
  | .atom "none" => some .none
  | .atom "ellipsis" => some .ellipsis
  | .list [.atom "bool", b] => do some (.bool ((← nat? b) == 1))
  | .list [.atom "int", cls, v, .list lit] => do some (.int (← decodeCls cls) (← int? v) (← nats? lit))
  | .list [.atom "float", cls, k, .list lit, n, d] =>
    do some (.float (← decodeCls cls) (← nat? k) (← nats? lit) (← int? n) (← int? d))
  | .list [.atom "str", cls, b, .list cs] => do some (.str (← decodeCls cls) ((← nat? b) == 1) (← pcharsOf cs))
  | .list (.atom "seq" :: k :: cls :: xs) => do some (.seq (← nat? k) (← decodeCls cls) (← decodeVals xs))
  | .list (.atom "fset" :: cls :: xs) => do some (.frozenset (← decodeCls cls) (← decodeVals xs))
  | .list (.atom "dict" :: cls :: kvs) => do some (.dict (← decodeCls cls) (← decodeKVs kvs))
  | .list [.atom "call", f, .list args, .list kws] => do some (.call (← decodeQual f) (← decodeVals args) (← decodeKws kws))
  | .list (.atom "opaque" :: cs) => do some (.opaque (← nats? cs))
  | .list [.atom "td", d, sec, us] => do some (.timedelta (← int? d) (← int? sec) (← int? us))
  | .list (.atom "ident" :: parts) => do
    some (.ident (← parts.mapM fun | .list (t :: cs) => do some (← nat? t, ← nats? cs) | _ => none))
  | .list [.atom "path", cls, .list cs] => do some (.path (← decodeQual cls) (← pcharsOf cs))
  | .list [.atom "dt", y, mo, d, h, mi, sec, us, tz, fold] => do
    let tz ← match tz with | .atom "none" => some none | t => (decodeVal t).map some
    some (Std.showDatetime (← nat? y) (← nat? mo) (← nat? d) (← nat? h) (← nat? mi) (← nat? sec) (← nat? us) tz (← nat? fold))
  | .list [.atom "tm", h, mi, sec, us, tz, fold] => do
    let tz ← match tz with | .atom "none" => some none | t => (decodeVal t).map some
    some (Std.showTime (← nat? h) (← nat? mi) (← nat? sec) (← nat? us) tz (← nat? fold))
  | .list [.atom "date", y, mo, d] => do some (Std.showDate (← nat? y) (← nat? mo) (← nat? d))
  | .list [.atom "tz", isUtc, off, name] => do
    let name ← match name with | .atom "none" => some none | .list cs => (pcharsOf cs).map some | _ => none
    some (Std.showTimezone ((← nat? isUtc) == 1) (← decodeVal off) name)
  | .list [.atom "deque", cls, .list xs, ml] => do
    some (Std.showDeque (← decodeQual cls) (← decodeVals xs) (optNat' (← int? ml)))
  | .list (.atom "chainmap" :: cls :: fe :: maps) => do
    some (Std.showChainMap (← decodeQual cls) (← decodeVals maps) ((← nat? fe) == 1))
  | .list (.atom "fields" :: cls :: fs) => do
    -- an instance of a dataclass / attrs class: field definitions with current values; the model selects what is shown
    some (Fields.instanceVal Fields.pyNe (← decodeQual cls) (← decodeFields fs))
  | .list [.atom "cmt", v, .list cs] => do some (.commented (← decodeVal v) (← pcharsOf cs))
  | .list [.atom "trl", v, .list cs] => do some (.trailing (← decodeVal v) (← pcharsOf cs))
  | _ => none
partial def decodeFields : List Sexp → Option (List Fields.Field)
  | [] => some []
  | .list [.list nm, rp, kind, d, v] :: r => do
    let k ← nat? kind
    let dflt ← (if k == 0 then some Fields.Dflt.missing
                else if k == 1 then (decodeVal d).map Fields.Dflt.value
                else (decodeVal d).map Fields.Dflt.factory)
    some ({ name := ← nats? nm, repr := (← nat? rp) == 1, dflt := dflt, val := ← decodeVal v } :: (← decodeFields r))
  | _ => none
partial def decodeVals : List Sexp → Option (List PyVal)
  | [] => some []
  | x :: r => do some ((← decodeVal x) :: (← decodeVals r))
partial def decodeKVs : List Sexp → Option (List (PyVal × PyVal))
  | [] => some []
  | .list [k, v] :: r => do some ((← decodeVal k, ← decodeVal v) :: (← decodeKVs r))
  | _ => none
partial def decodeKws : List Sexp → Option (List (Str × PyVal))
  | [] => some []
  | .list [.list ks, v] :: r => do some ((← nats? ks, ← decodeVal v) :: (← decodeKws r))
  | _ => none
end

def optNat (i : Int) : Option Nat := if i < 0 then none else some i.toNat

/-- `(indent width ribbon_width depth max_seq_len sort)`; depth / max_seq_len = -1 for None -/
def decodeSettings : Sexp → Option Settings
  | .list [i, w, r, d, m, s] => do
    some { indent := ← int? i, width := ← int? w, ribbonWidth := ← int? r, depth := optNat (← int? d),
           maxSeqLen := optNat (← int? m), sortKeys := (← nat? s) == 1 }
  | _ => none

open Conf in
/-- `(i w r d m s)` with each entry `unset`, an integer, or `none` (for depth / max_seq_len) -/
def decodeExplicit : Sexp → Option Explicit
  | .list [i, w, r, d, m, s] => do
    let optInt : Sexp → Option (Option Int) := fun x => match x with
      | .atom "unset" => some none
      | y => (int? y).map some
    let optOptNat : Sexp → Option (Option (Option Nat)) := fun x => match x with
      | .atom "unset" => some none
      | .atom "none" => some (some none)
      | y => (nat? y).map fun n => some (some n)
    let optBool : Sexp → Option (Option Bool) := fun x => match x with
      | .atom "unset" => some none
      | y => (nat? y).map fun n => some (n == 1)
    some { indent := ← optInt i, width := ← optInt w, ribbonWidth := ← optInt r, depth := ← optOptNat d,
           maxSeqLen := ← optOptNat m, sortKeys := ← optBool s }
  | _ => none

end PP
