import PP.Model.Doc
import PP.Model.Normalize
import PP.Model.Layout
import PP.Model.Render
