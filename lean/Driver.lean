import PP.Driver.Codec
import PP.Model.StrDoc
import PP.Driver.ValCodec
import PP.Driver.RegCodec
import PP.Driver.GraphCodec
import PP.Model.Color
import PP.Model.Cost
import PP.Spec.Unescape
import PP.Proofs.ToksVal
import PP.Spec.Reader
import PP.Spec.TdReader
open PP PP.Sexp

def encodeCT : Tok.CT → Sexp
  | .code s => ofStr "c" s
  | .lit (some v) => ofStr "l" v
  | .lit none => sym "lbad"

partial def encodeRVal : Tok.RVal → Sexp
  | .num l => ofStr "num" l
  | .kw s => ofStr "kw" s
  | .str b s => .list (sym "str" :: ofNat (if b then 1 else 0) :: s.map ofNat)
  | .fspecial n => ofStr "fs" n
  | .list xs => .list (sym "list" :: xs.map encodeRVal)
  | .tuple xs => .list (sym "tuple" :: xs.map encodeRVal)
  | .set xs => .list (sym "set" :: xs.map encodeRVal)
  | .fset xs => .list (sym "fset" :: xs.map encodeRVal)
  | .dict kvs => .list (sym "dict" :: kvs.map fun (k, v) => .list [encodeRVal k, encodeRVal v])
  | .call name items => .list (sym "call" :: .list (name.map ofNat) :: items.map encodeRVal)
  | .kwarg name v => .list [sym "kwarg", .list (name.map ofNat), encodeRVal v]
  | .name s => ofStr "name" s

/-- one layout configuration `(w rw smart)` -/
def decodeCfg : Sexp → Option Cfg
  | .list [w, rw, sm] => do some { w := ← int? w, rw := ← int? rw, smart := (← nat? sm) == 1, ev := Pr.evalStr }
  | _ => none

def encodeOut : Color.Out → Sexp
  | .txt s => ofStr "t" s
  | .sgr t => .list [sym "sgr", ofNat t]
  | .reset => sym "reset"

def handle (req : Sexp) : Sexp :=
  match req with
  | .list (.atom "lay" :: d :: cfgs) =>
    match decodeDoc d, cfgs.mapM decodeCfg with
    | some d, some cfgs =>
      .list (sym "ok" :: cfgs.map fun cfg =>
        let out := layout cfg d
        .list [encodeSDocs out, ofStr "text" (render out)])
    | _, _ => sym "bad-request"
  | .list (.atom "graph" :: st :: root :: nodes) =>
    match decodeSettings st, nat? root, nodes.mapM decodeGNode with
    | some st, some root, some nodes => ofStr "ok" (Graph.pformatG st nodes.toArray root)
    | _, _, _ => sym "bad-request"
  | .list (.atom "fail" :: r) =>
    match failRequest r with
    | some x => x
    | none => sym "bad-request"
  | .list [.atom "cost", v, st] =>
    match decodeVal v, decodeSettings st with
    | some v, some st =>
      let d := (Pr.topDoc st.ctx v).normalize
      .list [sym "ok", ofNat (Pr.pyCalls v), ofNat (runC st.cfg [(0, .brk, .doc d)] 0)]
    | _, _ => sym "bad-request"
  | .list [.atom "color", out] =>
    match decodeSDocs out with
    | some out => .list (sym "ok" :: (Color.colorRender out).map encodeOut)
    | none => sym "bad-request"
  | .list [.atom "cpformat", v, st] =>
    match decodeVal v, decodeSettings st with
    | some v, some st => .list (sym "ok" :: (Color.colorRender (Pr.sdocsM st v)).map encodeOut)
    | _, _ => sym "bad-request"
  | .list (.atom "thr" :: r) =>
    match thrRequest r with
    | some x => x
    | none => sym "bad-request"
  | .list (.atom "reg" :: ops) =>
    match ops.mapM decodeRegOp with
    | some ops => .list (sym "ok" :: regTrace ops)
    | none => sym "bad-request"
  | .list [.atom "entry", .list us, e, v, .list endS] =>
    match us.mapM decodeExplicit, decodeExplicit e, decodeVal v, nats? endS with
    | some us, some e, some v, some endS =>
      let st := Conf.merge (Conf.setMany Conf.shipped us) e
      .list [sym "ok", ofStr "pformat" (Conf.pformatE us e v), ofStr "pprint" (Conf.pprintE us e v endS),
             ofStr "pretty_repr" (Conf.prettyReprE us v),
             (let d := Conf.setMany Conf.shipped us
              let on : Option Nat → Sexp := fun x => match x with | some n => ofNat n | none => sym "none"
              .list [sym "defaults", ofInt d.indent, ofInt d.width, ofInt d.ribbonWidth, on d.depth, on d.maxSeqLen,
                     ofNat (if d.sortKeys then 1 else 0)]),
             (let on : Option Nat → Sexp := fun x => match x with | some n => ofNat n | none => sym "none"
              .list [sym "effective", ofInt st.indent, ofInt st.width, ofInt st.ribbonWidth, on st.depth, on st.maxSeqLen,
                     ofNat (if st.sortKeys then 1 else 0)])]
    | _, _, _, _ => sym "bad-request"
  | .list (.atom "pformat" :: v :: sets) =>
    match decodeVal v, sets.mapM decodeSettings with
    | some v, some sets =>
      .list (sym "ok" :: sets.map fun st =>
        let out := Pr.sdocsM st v
        .list [encodeSDocs out, ofStr "text" (render out)])
    | _, _ => sym "bad-request"
  | .list (.atom "ctoks" :: v :: sets) =>
    match decodeVal v, sets.mapM decodeSettings with
    | some v, some sets =>
      .list (sym "ok" :: sets.map fun st =>
        .list [.list (sym "toks" :: (Tok.ctoks (Pr.sdocsM st v)).map encodeCT),
               .list (sym "canon" :: (Tok.canonW st.ctx.norm v none).map encodeCT),
               (let ts := Tok.canonW st.ctx.norm v none
                match Tok.parseV (2 * ts.length + 10) ts with
                | some (r, []) => .list [sym "read", encodeRVal r]
                | _ => .list [sym "read", sym "none"])])
    | _, _ => sym "bad-request"
  | .list (.atom "tdread" :: v :: sets) =>
    match decodeVal v, sets.mapM decodeSettings with
    | some v, some sets =>
      .list (sym "ok" :: sets.map fun st =>
        match C07.readTimedelta (Tok.ctoks (Pr.sdocsM st v)) with
        | some n => .list [sym (if n < 0 then "neg" else "pos"), ofNat n.natAbs]
        | none => sym "none")
    | _, _ => sym "bad-request"
  | .list [.atom "strlines", isB, slash, maxLen, q, .list chars] =>
    match nat? isB, nat? slash, nat? maxLen, nat? q, nats? chars with
    | some b, some sl, some ml, some q, some cs =>
      if h : 0 < ml then
        let ls := PyStr.strToLines (b == 1) (sl == 1) ml h q (cs.map decodePChar)
        .list (sym "ok" :: ls.map fun l => ofStr "s" (PyStr.cps l))
      else sym "assertion"
    | _, _, _, _, _ => sym "bad-request"
  | .list [.atom "esc", isB, q, .list chars] =>
    match nat? isB, nat? q, nats? chars with
    | some b, some q, some cs => ofStr "ok" (PyStr.escapeForQuote (b == 1) q (cs.map decodePChar))
    | _, _, _ => sym "bad-request"
  | .list [.atom "unesc", q, .list body] =>
    match nat? q, nats? body with
    | some q, some body =>
      match PyStr.unescape q body with
      | some v => ofStr "ok" v
      | none => sym "invalid"
    | _, _ => sym "bad-request"
  | .list [.atom "quote", .list chars] =>
    match nats? chars with
    | some cs => .list [sym "ok", ofNat (PyStr.determineQuote (cs.map decodePChar))]
    | _ => sym "bad-request"
  | .list [.atom "chk", strict, d, out] =>
    match nat? strict, decodeDoc d, decodeSDocs out with
    | some st, some d, some out => .list [sym "ok", ofNat (if checkLay (st == 1) d out then 1 else 0)]
    | _, _, _ => sym "bad-request"
  | _ => sym "bad-request"

partial def loop (hin : IO.FS.Stream) (hout : IO.FS.Stream) : IO Unit := do
  let line ← hin.getLine
  if line.isEmpty then return ()
  match Sexp.parse line with
  | some req => hout.putStrLn (toStr (handle req))
  | none => hout.putStrLn "bad-syntax"
  hout.flush
  loop hin hout

def main : IO Unit := do
  let hin ← IO.getStdin
  let hout ← IO.getStdout
  loop hin hout
  hout.flush
