import PP.Driver.Codec
open PP PP.Sexp

/-- one layout configuration `(w rw smart)` -/
def decodeCfg : Sexp → Option Cfg
  | .list [w, rw, sm] => do some { w := ← int? w, rw := ← int? rw, smart := (← nat? sm) == 1 }
  | _ => none

def handle (req : Sexp) : Sexp :=
  match req with
  | .list (.atom "lay" :: d :: cfgs) =>
    match decodeDoc d, cfgs.mapM decodeCfg with
    | some d, some cfgs =>
      .list (sym "ok" :: cfgs.map fun cfg =>
        let out := layout cfg d
        .list [encodeSDocs out, ofStr "text" (render out)])
    | _, _ => sym "bad-request"
  | .list [.atom "chk", strict, d, out] =>
    match nat? strict, decodeDoc d, decodeSDocs out with
    | some st, some d, some out => .list [sym "ok", ofNat (if checkLay (st == 1) d out then 1 else 0)]
    | _, _, _ => sym "bad-request"
  | _ => sym "bad-request"

partial def loop (hin : IO.FS.Stream) (hout : IO.FS.Stream) : IO Unit := do
  let line ← hin.getLine
  if line.isEmpty then return ()
  match Sexp.parse line with
  | some req => hout.putStrLn (toStr (handle req))
  | none => hout.putStrLn "bad-syntax"
  hout.flush
  loop hin hout

def main : IO Unit := do
  let hin ← IO.getStdin
  let hout ← IO.getStdout
  loop hin hout
  hout.flush
