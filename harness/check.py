#!/venv/bin/python
"""Entry point:  check.py <Cxx> [--tier quick|thorough] [--replay <path>]

Decides one property: (1) regenerate PP/Generated.lean from /repo, (2) lake build, (3) axiom audit of the
property's theorems + source grep, (4) correspondence sections model-vs-implementation, (5) on any broken
obligation or disagreement search for a concrete failing input with the property's oracle, (6) replay known
and fixed findings, (7) write evidence/<id>.json.  Exit 0 = held on everything explored, 1 = VIOLATION printed,
2 = the machinery itself failed (never a verdict)."""
import argparse
import json
import os
import sys
import time
import traceback

sys.path.insert(0, os.path.dirname(os.path.abspath(__file__)))
import common
from common import Report, HarnessError

TRUSTED = [
    "Lean 4.33.0 kernel (thorough tier: leanchecker re-check of the compiled .olean files)",
    "axioms of every property theorem are a subset of {propext, Classical.choice, Quot.sound}; no sorry, no native_decide, no own axioms (audited on every run)",
    "the hand-written Lean model is tied to /repo only by the differential correspondence check of this run (inputs listed under coverage.sections)",
    "harness/translator.py (Python ast -> PP/Generated.lean) for the finite tables",
    "CPython 3.12 runtime semantics that the properties refer to (eval/tokenize, repr of str/bytes/float, re, str.splitlines, singledispatch, colorful, datetime) are modelled, not verified; see DESIGN.md section 3",
]


def get_registry():
    import registry
    return registry.REGISTRY


def run_check(prop, tier):
    reg = get_registry()
    if prop not in reg:
        raise HarnessError('unknown property ' + prop)
    spec = reg[prop]
    rep = Report(prop, tier)
    rep.rule = spec.get('rule', '')
    rep.assumptions = spec.get('assumptions', [])

    # 1. translator
    gen_ok, gen_msg = True, ''
    try:
        import translator
        gen_ok, gen_msg = translator.regenerate()
    except Exception as e:  # a source the translator cannot read any more is a broken tie, not a crash
        gen_ok, gen_msg = False, 'translator failed: %r' % (e,)
    if gen_msg:
        rep.notes.append(gen_msg)

    # 2. build
    # only the modules this property's theorems live in (and the driver): a theorem over a regenerated table that stops checking
    # concerns the properties that list it, not every property
    mods = spec.get('modules', [])
    ok, out = common.lake_build(targets=tuple(mods) + ('ppdriver',) if mods else ('PP', 'ppdriver'),
                                clean=(tier == 'thorough' and os.environ.get('VERIF_CLEAN_BUILD') == '1'))
    build_failed = not ok
    if build_failed:
        rep.notes.append('lake build failed:\n' + out[-3000:])

    # 3. audit
    theorems = spec.get('theorems', [])
    if build_failed and not os.path.exists(common.DRIVER):
        for t in theorems:
            rep.obligations[t] = {'ok': False, 'axioms': [], 'msg': 'build failed'}
    else:
        rep.obligations = common.audit(theorems, prop, modules=mods)
    hits = common.grep_forbidden()
    if hits:
        rep.obligations['source-audit'] = {'ok': False, 'axioms': [], 'msg': 'forbidden constructs: ' + '; '.join(hits[:10])}
    else:
        rep.obligations['source-audit'] = {'ok': True, 'axioms': [], 'msg': ''}
    if not gen_ok:
        rep.obligations['translator'] = {'ok': False, 'axioms': [], 'msg': gen_msg}
    broken = [t for t, r in rep.obligations.items() if not r['ok']]

    # thorough: independent re-check of the compiled files
    if tier == 'thorough' and not build_failed and spec.get('leanchecker', True):
        import subprocess
        mods = spec.get('modules', [])
        if mods:
            p = subprocess.run(['lake', 'env', 'leanchecker', *mods], cwd=common.LEAN, stdout=subprocess.PIPE,
                               stderr=subprocess.STDOUT, text=True)
            okc = p.returncode == 0
            rep.obligations['leanchecker ' + ' '.join(mods)] = {'ok': okc, 'axioms': [], 'msg': '' if okc else p.stdout[-1500:]}
            if not okc:
                broken.append('leanchecker')

    # 4. correspondence sections
    failing_inputs = []      # (name, payload) property fails on the implementation here
    section_errors = []
    disagreements = []       # (section, mismatch) behaviour differs, property not (yet) shown to fail
    if os.path.exists(common.DRIVER):
        for sec in spec.get('sections', []):
            t0 = time.time()
            try:
                stats, mism, fails = sec['run'](tier, common.seed(), rep)
            except HarnessError:
                raise
            except Exception:
                # a section of the harness itself crashed (typically: the code under test raised where the harness did not expect it).
                # That is not a detection; but it must not hide what the other sections find either: go on, and give up (exit 2)
                # at the end only if no section produced a failing input.
                section_errors.append((sec['name'], traceback.format_exc()[-2000:]))
                rep.notes.append('section %s crashed: %s' % (sec['name'], section_errors[-1][1][-600:]))
                continue
            stats['wall_s'] = round(time.time() - t0, 2)
            rep.add_section(sec['name'], stats)
            for m in mism:
                disagreements.append((sec['name'], m))
            for f in fails:
                failing_inputs.append((sec['name'], f))
    else:
        rep.notes.append('driver not available: correspondence not run')

    # 5. verdicts
    if section_errors and not failing_inputs:
        raise HarnessError('section %s crashed and no other section found a failing input:\n%s' % section_errors[0])
    known = common.load_findings()
    import findings
    for name, f in failing_inputs[:5]:
        kid = findings.match_known(prop, f, known)
        if kid is None:
            rep.violation('fail_%s_%d' % (name, len(rep.violations)), {'property': prop, 'section': name, 'failing_input': f,
                          'how_to_replay': 'harness/check.py %s --replay <this file>' % prop})
    if disagreements and not rep.violations:
        # behaviour differs from the model: the theorems no longer speak about this code.  Search for a failing input.
        found = None
        search = spec.get('search')
        if search:
            try:
                found = search(tier, common.seed(), disagreements, rep)
            except Exception:
                rep.notes.append('search crashed: ' + traceback.format_exc()[-1500:])
        if found is not None and findings.match_known(prop, found, known) is None:
            rep.violation('fail_search', {'property': prop, 'failing_input': found,
                          'correspondence_disagreements': [d for _, d in disagreements[:5]]})
        else:
            sec0, m0 = disagreements[0]
            rep.violation('corr_' + sec0, {'property': prop, 'broken': 'correspondence ' + sec0,
                          'first_disagreement': m0, 'n_disagreements': len(disagreements),
                          'note': 'model and implementation differ; no input on which the property itself fails was found'},
                          found_input=False)
    if broken and not rep.violations:
        found = None
        search = spec.get('search')
        if search:
            try:
                found = search(tier, common.seed(), [], rep)
            except Exception:
                rep.notes.append('search crashed: ' + traceback.format_exc()[-1500:])
        if found is not None and findings.match_known(prop, found, known) is None:
            rep.violation('fail_search', {'property': prop, 'failing_input': found, 'broken_obligations': broken})
        else:
            rep.violation('obligation', {'property': prop, 'broken': broken,
                          'details': {t: rep.obligations[t]['msg'] for t in broken if t in rep.obligations},
                          'note': 'proof obligation no longer checks; no failing input found'}, found_input=False)

    # 6. known / fixed findings
    for k in known.get('known', []):
        if prop in k['property']:
            try:
                with common.time_limit(120):
                    still = findings.replay(k['id'])
            except (Exception, common.ImplTimeout):
                still = None
                rep.notes.append('known finding %s replay crashed: %s' % (k['id'], traceback.format_exc()[-500:]))
            if still:
                rep.known('%s %s' % (k['id'], k['what']))
    for fx in known.get('fixed', []):
        if prop in fx['property']:
            try:
                with common.time_limit(120):
                    back = findings.replay(fx['id'])
            except common.ImplTimeout:
                # the replay of a repaired defect does not return any more: the defect (or something as bad) is back
                back = True
                rep.notes.append('fixed finding %s: the replay does not terminate' % fx['id'])
            except Exception:
                back = None
                rep.notes.append('fixed finding %s replay crashed: %s' % (fx['id'], traceback.format_exc()[-500:]))
            if back:
                rep.violation('regressed_' + fx['id'], {'property': prop, 'fixed_finding_returned': fx})

    rc = rep.finish('cd lean && lake build PP ppdriver && lake env lean <audit file with #print axioms for: %s>' % ', '.join(theorems),
                    TRUSTED + spec.get('trusted', []))
    return rc


def main():
    ap = argparse.ArgumentParser()
    ap.add_argument('prop')
    ap.add_argument('--tier', default=os.environ.get('VERIF_TIER', 'quick'), choices=['quick', 'thorough'])
    ap.add_argument('--replay')
    a = ap.parse_args()
    # global watchdog: a check that does not finish is a harness failure (exit 2), never a verdict.  A timer thread, not SIGALRM:
    # the per-call time limits around the code under test (common.time_limit, sec_graphs.safe_pformat) use the alarm timer.
    import threading

    def _too_long():
        print('harness error: time limit exceeded', file=sys.stderr)
        sys.stderr.flush()
        try:
            import multiprocessing
            for c in multiprocessing.active_children():
                c.kill()
        except Exception:
            pass
        os._exit(2)
    _wd = threading.Timer(int(os.environ.get('VERIF_TIME_LIMIT', '1500' if a.tier == 'quick' else '14400')), _too_long)
    _wd.daemon = True
    _wd.start()
    try:
        if a.replay:
            import findings
            sys.exit(findings.replay_file(a.prop, a.replay))
        sys.exit(run_check(a.prop, a.tier))
    except HarnessError as e:
        print('harness error: %s' % e, file=sys.stderr)
        sys.exit(2)
    except SystemExit:
        raise
    except BaseException:
        # anything else that escapes - a time-out raised at an unlucky moment included - is a harness failure, never a verdict
        traceback.print_exc()
        sys.exit(2)


if __name__ == '__main__':
    main()
