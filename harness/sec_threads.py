"""C20: concurrent printing.  Real threads call pformat under a deterministic scheduler that may switch threads at every
access to the shared registry state (the deferred-by-name dict and the singledispatch object); all schedules up to a
pre-emption bound are enumerated (stateless exploration by re-execution), each thread's result is compared with the
sequential result, and the global access log is compared with the Lean small-step model M10 run on the same schedule."""
import itertools
import random
import sys
import threading
import warnings

from common import Driver

import prettyprinter as pp

P = sys.modules['prettyprinter.prettyprinter']


class Sched:
    """Grants one shared-state access at a time.  `prefix` = thread ids for the first accesses; afterwards the current
    thread keeps running while it can (no pre-emption), else the lowest-numbered live thread."""

    def __init__(self, n, prefix):
        self.n = n
        self.prefix = list(prefix)
        self.pos = 0
        self.cv = threading.Condition()
        self.live = set(range(n))
        self.waiting = set()
        self.current = None
        self.trace = []       # thread id per granted access
        self.choices = []     # (position, enabled set) at each grant
        self.log = []
        self.deadlock = False

    def _pick(self):
        enabled = sorted(self.waiting)
        if not enabled:
            return None
        if self.pos < len(self.prefix) and self.prefix[self.pos] in enabled:
            return self.prefix[self.pos]
        if self.current in enabled:
            return self.current
        return enabled[0]

    def access(self, tid, event):
        """called by thread `tid` right before a shared access; returns when it is granted"""
        with self.cv:
            self.waiting.add(tid)
            self.cv.notify_all()
            while True:
                # a grant happens only when every live thread is waiting (or finished): deterministic
                if self.waiting == self.live:
                    pick = self._pick()
                    if pick == tid:
                        break
                if not self.cv.wait(timeout=30):
                    self.deadlock = True
                    break
            self.choices.append((len(self.trace), sorted(self.waiting)))
            self.waiting.discard(tid)
            self.current = tid
            self.trace.append(tid)
            self.pos += 1

    def record(self, tid, ev):
        self.log.append((tid, ev))
        with self.cv:
            self.cv.notify_all()

    def finish(self, tid):
        with self.cv:
            self.live.discard(tid)
            self.waiting.discard(tid)
            self.cv.notify_all()


_tls = threading.local()


class LogDict(dict):
    """stands in for _DEFERRED_DISPATCH_BY_NAME"""

    def __init__(self, base, env):
        super().__init__(base)
        self.env = env

    def get(self, key, default=None):
        tid = getattr(_tls, 'tid', None)
        if tid is None:
            return super().get(key, default)
        self.env.sched.access(tid, 'rd')
        r = super().get(key, default)
        self.env.sched.record(tid, '(rd %s %s)' % (self.env.key_id(key), self.env.fn_id(r)))
        return r

    def pop(self, key, *d):
        tid = getattr(_tls, 'tid', None)
        if tid is None:
            return super().pop(key, *d)
        self.env.sched.access(tid, 'pop')
        self.env.sched.record(tid, '(pop %s)' % self.env.key_id(key))
        return super().pop(key, *d)

    def __contains__(self, key):
        tid = getattr(_tls, 'tid', None)
        if tid is None:
            return super().__contains__(key)
        self.env.sched.access(tid, 'rd')
        r = super().__contains__(key)
        self.env.sched.record(tid, '(rd %s %s)' % (self.env.key_id(key), self.env.fn_id(super().get(key)) if r else 'none'))
        return r


class RegistryView:
    def __init__(self, real, env):
        self.real, self.env = real, env

    def __contains__(self, cls):
        tid = getattr(_tls, 'tid', None)
        if tid is None:
            return cls in self.real.registry
        self.env.sched.access(tid, 'rr')
        r = cls in self.real.registry
        self.env.sched.record(tid, '(rr %s %d)' % (self.env.cls_id(cls), 1 if r else 0))
        return r

    def __getattr__(self, a):
        return getattr(self.real.registry, a)


class DispatchProxy:
    """stands in for the module-level `pretty_dispatch` singledispatch function"""

    def __init__(self, real, env):
        self.real, self.env = real, env
        self.registry = RegistryView(real, env)

    def register(self, cls, fn=None):
        tid = getattr(_tls, 'tid', None)
        if tid is None or fn is None:
            return self.real.register(cls, fn) if fn is not None else self.real.register(cls)
        self.env.sched.access(tid, 'wr')
        inner = getattr(fn, 'args', (None,))[0] if hasattr(fn, 'args') and fn.args else fn
        r = self.real.register(cls, fn)
        self.env.sched.record(tid, '(wr %s %s)' % (self.env.cls_id(cls), self.env.fn_id(inner)))
        return r

    def dispatch(self, cls):
        tid = getattr(_tls, 'tid', None)
        if tid is None:
            return self.real.dispatch(cls)
        self.env.sched.access(tid, 'dp')
        r = self.real.dispatch(cls)
        self.env.sched.record(tid, '(dp %s)' % self.env.impl_id(r))
        return r

    def __call__(self, value, *a, **k):
        tid = getattr(_tls, 'tid', None)
        if tid is None:
            return self.real(value, *a, **k)
        self.env.sched.access(tid, 'dp')
        impl = self.real.dispatch(value.__class__)
        self.env.sched.record(tid, '(dp %s)' % self.env.impl_id(impl))
        return impl(value, *a, **k)

    def __getattr__(self, a):
        return getattr(self.real, a)


class Env:
    """one scenario: a fresh lattice, a setup history, and the proxies installed in the package for the duration"""

    def __init__(self, setup, thread_classes):
        import sec_registry
        self.lat = sec_registry.make_lattice()
        self.inv = {v: k for k, v in self.lat.items()}
        self.fns = {}
        self.setup = setup
        self.thread_classes = thread_classes
        self.sched = None

    def key_id(self, key):
        if key == 'builtins.object':
            return '0'
        for cid, cls in self.lat.items():
            if cls.__module__ + '.' + cls.__qualname__ == key:
                return str(cid)
        return '999'

    def cls_id(self, cls):
        return str(self.inv.get(cls, 999))

    def fn_id(self, fn):
        if fn is None:
            return 'none'
        return str(self.fns.get(id(fn), 998))

    def impl_id(self, impl):
        if impl is P._BASE_DISPATCH:
            return 'none'
        inner = impl.args[0] if hasattr(impl, 'args') and impl.args else impl
        return self.fn_id(inner)

    def mk_printer(self, pid):
        def pr(v, ctx, _t='P%d' % pid):
            return _t
        self.fns[id(pr)] = pid
        return pr

    def apply_setup(self):
        req = []
        for i, op in enumerate(self.setup):
            pid = 100 + i
            cls = self.lat[op[1]]
            if op[0] == 'rc':
                pp.register_pretty(cls)(self.mk_printer(pid))
                req.append('(rc %d %d)' % (op[1], pid))
            elif op[0] == 'rn':
                pp.register_pretty(cls.__module__ + '.' + cls.__qualname__)(self.mk_printer(pid))
                req.append('(rn %d %d)' % (op[1], pid))
        return req

    def run(self, prefix):
        """execute the scenario once under the schedule prefix; returns (results, sched)"""
        import sec_registry
        real_dispatch = P.pretty_dispatch
        real_deferred = P._DEFERRED_DISPATCH_BY_NAME
        snapshot = dict(real_deferred)
        n = len(self.thread_classes)
        self.sched = Sched(n, prefix)
        self.fns = {}
        self.lat = sec_registry.make_lattice()
        self.inv = {v: k for k, v in self.lat.items()}
        results = [None] * n
        try:
            req = self.apply_setup()
            P._DEFERRED_DISPATCH_BY_NAME = LogDict(real_deferred, self)
            P.pretty_dispatch = DispatchProxy(real_dispatch, self)

            mode = getattr(self, 'container', None)
            values = None
            if mode is not None:
                a1, a2 = self.lat[1](), self.lat[1]()
                shared_list = [a1, a2]
                values = [shared_list, shared_list] if mode == 'shared' else [[a1, a2], [a1, a2]]
                one = pp.pformat([self.lat[1](), self.lat[1]()]) if False else None

            def worker(tid):
                _tls.tid = tid
                try:
                    with warnings.catch_warnings():
                        warnings.simplefilter('ignore')
                        if values is not None:
                            results[tid] = pp.pformat(values[tid])
                        else:
                            results[tid] = pp.pformat(self.lat[self.thread_classes[tid]]())
                except BaseException as e:   # noqa
                    results[tid] = 'EXC:' + type(e).__name__
                finally:
                    _tls.tid = None
                    self.sched.finish(tid)
            threads = [threading.Thread(target=worker, args=(i,)) for i in range(n)]
            for t in threads:
                t.start()
            for t in threads:
                t.join(timeout=60)
        finally:
            P.pretty_dispatch = real_dispatch
            P._DEFERRED_DISPATCH_BY_NAME = real_deferred
            if getattr(self, 'container', None) is not None:
                # sequential reference in the same registry state (everything is promoted by now)
                with warnings.catch_warnings():
                    warnings.simplefilter('ignore')
                    self.sequential_container = [norm(pp.pformat(v)) for v in values]
            real_deferred.clear()
            real_deferred.update(snapshot)
        return results, req


def mro_ids(env, c):
    """type.__mro__ with `object` as class 0 (the loop over supertypes looks its key up too)"""
    return [env.inv.get(x, 0) for x in env.lat[c].__mro__]


def norm(r):
    if isinstance(r, str) and r.startswith('<'):
        return 'repr'
    return r if isinstance(r, str) else 'None'


def explore(setup, thread_classes, max_preemptions, drv, limit=4000):
    """enumerate schedules (as access-grant sequences) with at most `max_preemptions` pre-emptive switches"""
    env = Env(setup, thread_classes)
    # sequential reference: each thread alone after the same setup
    seq = []
    for c in thread_classes:
        e1 = Env(setup, [c])
        r, _ = e1.run([])
        seq.append(norm(r[0]))
    stack = [[]]
    seen = set()
    runs = 0
    mism, fails = [], []
    nontrivial = 0
    while stack and runs < limit:
        prefix = stack.pop()
        results, req = env.run(prefix)
        results = [norm(r) for r in results]
        runs += 1
        trace = tuple(env.sched.trace)
        if trace in seen:
            continue
        seen.add(trace)
        log = env.sched.log
        # the property on the implementation: nobody raises, everybody gets the sequential result
        if results != seq or env.sched.deadlock:
            if len(fails) < 3:
                fails.append({'kind': 'concurrent-result-differs', 'setup': [list(o) for o in setup], 'threads': list(thread_classes),
                              'schedule': list(trace), 'results': results, 'sequential': seq, 'log': ['%d %s' % x for x in log]})
        # the model on the same schedule
        model = drv.ask('(thr (setup %s) (threads %s) (sched %s))' % (
            ' '.join(req), ' '.join('(%s)' % ' '.join(map(str, mro_ids(env, c))) for c in thread_classes), ' '.join(map(str, trace))))
        impl_log = '(log' + ''.join(' (%d %s)' % x for x in log) + ')'
        impl_res = '(results' + ''.join(' ' + (r[1:] if r.startswith('P') else ('none' if r == 'repr' else 'bad')) for r in results) + ')'
        if model != '(ok %s %s)' % (impl_log, impl_res):
            mism.append({'setup': [list(o) for o in setup], 'threads': list(thread_classes), 'schedule': list(trace),
                         'impl': '%s %s' % (impl_log, impl_res), 'model': model})
        if len(set(trace)) > 1:
            nontrivial += 1
        # branch: at every grant position >= len(prefix) where another thread was enabled, pre-empt
        pre = sum(1 for i in range(1, len(trace)) if trace[i] != trace[i - 1] and trace[i - 1] in dict(env.sched.choices).get(i, []))
        for pos, enabled in env.sched.choices:
            if pos < len(prefix):
                continue
            for alt in enabled:
                if alt != trace[pos]:
                    cand = list(trace[:pos]) + [alt]
                    # count pre-emptions of the candidate prefix
                    k = 0
                    ch = dict(env.sched.choices)
                    for i in range(1, len(cand)):
                        if cand[i] != cand[i - 1] and cand[i - 1] in ch.get(i, []):
                            k += 1
                    if k <= max_preemptions:
                        stack.append(cand)
    return runs, len(seen), nontrivial, mism, fails


SCENARIOS = [
    ([('rn', 1)], [1, 1]),                 # two first prints of a by-name type
    ([('rn', 1)], [1, 2]),                 # the type and a subclass
    ([('rn', 1)], [2, 4]),                 # two different subclasses (supertype promotion)
    ([('rc', 1), ('rn', 1)], [1, 2]),      # direct then by-name, concurrently first used
    ([('rn', 1), ('rc', 3)], [4, 3, 1]),   # three threads: diamond bottom, directly registered, by-name
    ([('rc', 2)], [2, 5]),                 # directly registered and unregistered
    ([('rn', 1), ('rn', 5)], [6, 6]),      # multiple inheritance, two deferred supertypes
]


def container_scenarios(tier):
    """threads printing containers (so that there are switch points *inside* a visit): the same list object from two
    threads, and distinct lists holding the same instances.  Only the results are compared (with the sequential ones)."""
    import sec_registry
    fails = []
    runs = 0
    for shared in (True, False):
        for setup in ([('rn', 1)], [('rc', 1)]):
            stack = [[]]
            seen = set()
            while stack and runs < (400 if tier == 'quick' else 4000):
                prefix = stack.pop()
                env = Env(setup, [1, 1])
                # build the values after the lattice exists: patch Env.run's worker through thread_values
                env.container = ('shared' if shared else 'distinct')
                results, _ = env.run(prefix)
                runs += 1
                trace = tuple(env.sched.trace)
                if trace in seen:
                    continue
                seen.add(trace)
                seq = env.sequential_container
                got = [norm(r) for r in results]
                if got != seq and len(fails) < 3:
                    fails.append({'kind': 'concurrent-result-differs', 'scenario': 'two threads print %s list [A(), A()]' % env.container,
                                  'setup': [list(o) for o in setup], 'schedule': list(trace), 'results': got, 'sequential': seq})
                ch = dict(env.sched.choices)
                for pos, enabled in env.sched.choices:
                    if pos < len(prefix):
                        continue
                    for alt in enabled:
                        if alt != trace[pos]:
                            cand = list(trace[:pos]) + [alt]
                            k = sum(1 for i in range(1, len(cand)) if cand[i] != cand[i - 1] and cand[i - 1] in ch.get(i, []))
                            if k <= 1:
                                stack.append(cand)
    return runs, fails


def threads_section(tier, seed):
    drv = Driver()
    tot = distinct = nt = 0
    mism, fails = [], []
    bound = 2 if tier == 'quick' else 3
    try:
        for setup, tcs in SCENARIOS:
            if tier == 'quick' and len(tcs) > 2:
                b = 1
            else:
                b = bound
            runs, d, n, mm, ff = explore(setup, tcs, b, drv, limit=1500 if tier == 'quick' else 20000)
            tot += runs
            distinct += d
            nt += n
            mism.extend(mm)
            fails.extend(ff)
        cruns, cfails = container_scenarios(tier)
        tot += cruns
        fails.extend(cfails)
    finally:
        drv.close()
    stats = {'evaluations': tot, 'distinct_nontrivial': nt, 'distinct_schedules': distinct, 'scenarios': len(SCENARIOS) + 4, 'container_runs': cruns,
             'preemption_bound': bound, 'mismatches': len(mism),
             'samples': [{'setup': SCENARIOS[0][0], 'threads_print_classes': SCENARIOS[0][1]}],
             'rule': 'real threads under a deterministic scheduler with a switch point at every access to the deferred dict / singledispatch object; '
                     'all schedules with <= %d pre-emptions for %d scenarios (first use of by-name, direct, unregistered types, 2-3 threads); '
                     'per schedule: results == sequential results, no exception, access log == Lean model log; non-trivial = schedules that interleave' % (bound, len(SCENARIOS))}
    return stats, mism, fails


def line_section(tier, seed):
    """line-boundary scheduler (linesched.py): NCPU fresh interpreters, each forking one child per schedule"""
    import json
    import os
    import subprocess
    from common import REPO, NCPU
    here = os.path.dirname(os.path.abspath(__file__))
    procs = [subprocess.Popen([sys.executable, os.path.join(here, 'linesched.py'), REPO, str(w), str(NCPU), tier, str(seed)],
                              stdout=subprocess.PIPE, stderr=subprocess.PIPE, text=True) for w in range(NCPU)]
    tot = 0
    fails = []
    dist = {}
    for p in procs:
        out, err = p.communicate()
        got = False
        for line in out.splitlines():
            if line.startswith('@@'):
                got = True
                r = json.loads(line[2:])
                tot += r['total']
                for b in r['bad']:
                    if 'harness_error' in b:
                        raise RuntimeError('linesched: ' + b['harness_error'])
                    if len(fails) < 3:
                        b['kind'] = 'concurrent-result-differs'
                        fails.append(b)
                for k, v in r['dist'].items():
                    d = dist.setdefault(k, {'pairs': 0, 'package_lines': 0, 'schedules': 0})
                    for kk in d:
                        d[kk] += v[kk]
        if not got:
            raise RuntimeError('linesched worker produced no result: ' + err[-400:])
    stats = {'evaluations': tot, 'distinct_nontrivial': tot, 'scenarios': dist, 'mismatches': 0,
             'samples': [{'scenario': k, **v} for k, v in dist.items()][:2],
             'rule': 'two real threads under a scheduler that switches at line boundaries inside the package (sys.settrace): for every ordered pair of values of '
                     'three scenarios (directly / lazily by name / by predicate registered and unregistered classes; lazily registered stdlib types; the dataclasses, '
                     'attrs and ipython_repr_pretty extras) thread 1 is suspended at package line k (%s), thread 2 prints completely, thread 1 resumes; plus sampled '
                     'two-pre-emption schedules (thread 2 suspended at its line j while thread 1 finishes); every schedule forks from a state in which nothing has been '
                     'printed; both texts must equal a sequential result and nobody may raise' % ('160 sampled k per pair (every k for designated pairs)' if tier == 'quick' else 'every k (3000 sampled for values with more than 6000 package lines)')}
    return stats, [], fails


def race_replay():
    """F16: force thread 0 to be suspended right after it has looked the deferred entry up"""
    drv = Driver()
    try:
        runs, d, n, mm, ff = explore([('rn', 1)], [1, 1], 2, drv, limit=300)
    finally:
        drv.close()
    return bool(ff)
