"""C16: the colour renderer vs the Lean model M6, for every pygments style, with colour forced on."""
import io
import itertools
import multiprocessing as mp
import random
import re
import sys
import warnings

from common import Driver, NCPU
import docs as DOCS
from docs import sdocs_to_sx, TOKEN_NAMES
import values as V
from values import val_to_sx, settings_sx

import colorful
import prettyprinter as pp
from prettyprinter import color as C
from prettyprinter.syntax import Token
from prettyprinter.layout import layout_smart
from pygments import styles as pyg_styles

P = sys.modules['prettyprinter.prettyprinter']
colorful.use_true_colors()


def all_styles():
    out = [('bundled-light', C.GitHubLightStyle), ('bundled-dark', C.default_dark_style)]
    for name in sorted(pyg_styles.get_all_styles()):
        try:
            out.append((name, pyg_styles.get_style_by_name(name)))
        except Exception:
            pass
    return out


# which pygments token each syntax token is shown as: the harness's own copy (the specification of the colour table; the key set is
# also pinned by the regenerated tables of C16.table_total / tokens_exist)
from pygments import token as _pt
PYGMENTS_TOKEN_OF = {
    'KEYWORD_CONSTANT': _pt.Keyword.Constant, 'NAME_BUILTIN': _pt.Name.Builtin, 'NAME_ENTITY': _pt.Name.Entity, 'NAME_FUNCTION': _pt.Name.Function,
    'NAME_VARIABLE': _pt.Name.Variable, 'LITERAL_STRING': _pt.String, 'STRING_AFFIX': _pt.String.Affix, 'STRING_ESCAPE': _pt.String.Escape,
    'NUMBER_BINARY': _pt.Number.Bin, 'NUMBER_INT': _pt.Number.Integer, 'NUMBER_FLOAT': _pt.Number.Float, 'OPERATOR': _pt.Operator,
    'PUNCTUATION': _pt.Punctuation, 'COMMENT_SINGLE': _pt.Comment.Single,
}


def sgr_of_attrs(attrs):
    """the escape sequences a style's attributes stand for (true colour): reset, foreground, background, bold, italic, underline -
    written here from the attributes, not taken from the implementation"""
    def rgb(h):
        h = h.lstrip('#')
        if len(h) == 3:
            h = ''.join(ch * 2 for ch in h)
        return '%d;%d;%d' % (int(h[0:2], 16), int(h[2:4], 16), int(h[4:6], 16))
    out = '\x1b[0m'
    if attrs.get('color'):
        out += '\x1b[38;2;%sm' % rgb(attrs['color'])
    if attrs.get('bgcolor'):
        out += '\x1b[48;2;%sm' % rgb(attrs['bgcolor'])
    if attrs.get('bold'):
        out += '\x1b[1m'
    if attrs.get('italic'):
        out += '\x1b[3m'
    if attrs.get('underline'):
        out += '\x1b[4m'
    return out


def style_string(style, tok_id):
    attrs = style.style_for_token(PYGMENTS_TOKEN_OF[TOKEN_NAMES[tok_id]])
    return sgr_of_attrs(attrs)


_OUT = re.compile(r'\(t([ 0-9]*)\)|\(sgr (\d+)\)|reset')


def expected_bytes(model_answer, style):
    """turn the model's Out list into the byte stream it stands for under `style`"""
    if not model_answer.startswith('(ok'):
        return None
    parts = []
    for m in _OUT.finditer(model_answer[3:]):
        if m.group(0) == 'reset':
            parts.append(str(colorful.reset))
        elif m.group(2) is not None:
            parts.append(style_string(style, int(m.group(2))))
        else:
            parts.append(''.join(chr(int(x)) for x in m.group(1).split()))
    return ''.join(parts)


SGR = re.compile(r'\x1b\[[0-9;]*m')


def decode(stream_text):
    """SGR decoder: returns (plain text, per-character state strings, final state).  A sequence starting with ESC[0m
    sets the state absolutely; other sequences add to it."""
    plain, states = [], []
    state = ''
    pos = 0
    for m in SGR.finditer(stream_text):
        seg = stream_text[pos:m.start()]
        plain.append(seg)
        states.extend([state] * len(seg))
        code = m.group(0)
        state = '' if code == '\x1b[0m' else state + code
        pos = m.end()
    seg = stream_text[pos:]
    plain.append(seg)
    states.extend([state] * len(seg))
    return ''.join(plain), states, state


_drv = None


def _driver():
    global _drv
    if _drv is None:
        _drv = Driver()
    return _drv


def color_chunk(args):
    cases, style_names = args
    drv = _driver()
    styles = dict(all_styles())
    mism, fails = [], []
    n = nt = 0
    for case in cases:
        kind = case[0]
        if kind == 'value':
            _, value, st = case
            with warnings.catch_warnings():
                warnings.simplefilter('ignore')
                try:
                    sd = list(P.python_to_sdocs(value, indent=st[0], width=st[1], depth=st[3], ribbon_width=st[2], max_seq_len=st[4], sort_dict_keys=st[5]))
                    plain = pp.pformat(value, indent=st[0], width=st[1], depth=st[3], ribbon_width=st[2], max_seq_len=st[4], sort_dict_keys=st[5])
                except Exception as e:
                    fails.append({'kind': 'python_to_sdocs-raises', 'value': repr(value)[:200], 'exc': type(e).__name__})
                    continue
            import sec_stdlib
            req = '(cpformat %s %s)' % (sec_stdlib.sx(value), settings_sx(*st))
        else:
            _, d, w = case
            sd = list(layout_smart(DOCS.to_py(d), width=w))
            from prettyprinter.render import default_render_to_str
            plain = default_render_to_str(list(sd))
            req = '(color %s)' % sdocs_to_sx(sd)
        model = drv.ask(req)
        for sname in style_names:
            style = styles[sname]
            n += 1
            s = io.StringIO()
            try:
                C.colored_render_to_stream(s, list(sd), style)
                got = s.getvalue()
            except Exception as e:
                got = None
                if len(fails) < 3:
                    fails.append({'kind': 'colour-render-raises', 'style': sname, 'exc': '%s: %s' % (type(e).__name__, e), 'case': repr(case)[:300]})
                mism.append({'case': repr(case)[:300], 'style': sname, 'impl': 'raises ' + type(e).__name__, 'model': model[:200]})
                continue
            exp = expected_bytes(model, style)
            if got != exp:
                mism.append({'case': repr(case)[:300], 'style': sname, 'impl': repr(got)[:500], 'model': repr(exp)[:500]})
            # oracle on the implementation's bytes
            text, states, final = decode(got)
            bad = None
            if text != plain:
                bad = 'stripping the styling does not give the plain rendering'
            elif final != '':
                bad = 'the stream does not end in the reset state'
            elif exp is not None and got != exp and states != decode(exp)[1]:
                # the model is proved (C16.innermost) to show every character in the style of its innermost token
                k = next(i for i, (a, b) in enumerate(zip(states, decode(exp)[1])) if a != b)
                bad = 'character %d (%r) is not shown in the style of its innermost syntax token under this style' % (k, text[k])
            if bad and len(fails) < 3:
                fails.append({'kind': 'colour-output', 'why': bad, 'style': sname, 'case': repr(case)[:300], 'bytes': repr(got)[:400]})
            if '\x1b[' in got:
                nt += 1
    return n, nt, mism, fails


def ann_docs(rng, n):
    """small documents with token annotations nested up to depth 3 and non-token annotations inside / outside them"""
    leaves = [('t', 'a'), ('t', 'b '), ('line',), ('hl',), ('t', 'cc')]
    anns = [('tok', 5), ('tok', 7), ('tok', 12), ('tok', 13), ('oth', 1), ('cmt', 'x y')] + [('raw', i) for i in range(len(DOCS.RAW_ANNS))]
    out = []

    def go(depth):
        if depth == 0 or rng.random() < 0.25:
            return rng.choice(leaves)
        r = rng.random()
        if r < 0.5:
            return ('ann', rng.choice(anns), go(depth - 1))
        if r < 0.85:
            return ('cat', [go(depth - 1) for _ in range(rng.choice([1, 2, 3]))])
        return ('group', go(depth - 1))
    for _ in range(n):
        out.append(go(rng.choice([2, 3, 4, 5])))
    return out


def cpprint_entry_check():
    """the entry point itself: cpprint(value, stream, **settings) with the styling stripped is pformat(value, **settings) - for every way
    of giving the settings, an explicit max_seq_len=None on a container longer than the default limit among them - and ends in reset"""
    bad = []
    long_list = list(range(1003))
    cases = [([1, 'two', None, 2.5], {}), (long_list, {'max_seq_len': None}), ({'k': long_list}, {'max_seq_len': None, 'width': 40}),
             (list(range(30)), {'max_seq_len': 3}), ([[1, [2, [3]]]], {'depth': 2}), ({'b': 1, 'a': 2}, {'sort_dict_keys': True}),
             (['word ' * 10, 'x'], {'width': 30, 'ribbon_width': 20}), ([1, 2, 3], {'indent': 2, 'width': 4})]
    # (style classes only: the documented aliases style='light' / 'dark' raise AttributeError in cpprint on the unchanged tree - only
    # set_default_style translates them; an API defect outside what C16 quantifies over, noted in DESIGN section 7)
    for style in (None, C.GitHubLightStyle, C.default_dark_style):
        for value, st in cases:
            out = io.StringIO()
            try:
                with warnings.catch_warnings():
                    warnings.simplefilter('ignore')
                    pp.cpprint(value, stream=out, end='', style=style, **st)
                    plain = pp.pformat(value, **st)
            except Exception as e:
                bad.append({'kind': 'colour-render-raises', 'style': str(style), 'exc': '%s: %s' % (type(e).__name__, e), 'case': 'cpprint(%s, %r)' % (repr(value)[:60], st)})
                continue
            text, states, final = decode(out.getvalue())
            if text != plain or final != '':
                bad.append({'kind': 'colour-output', 'why': 'cpprint(value, **settings) with the styling stripped is not pformat(value, **settings)' if text != plain else 'cpprint does not end in the reset state',
                            'style': str(style), 'case': 'cpprint(%s, %r)' % (repr(value)[:60], st), 'bytes': repr(out.getvalue())[:300]})
        if len(bad) >= 3:
            break
    return bad[:3]


def color_section(tier, seed):
    rng = random.Random(seed * 43 + 10)
    styles = all_styles()
    names = [n for n, _ in styles]
    cases = []
    vals = [[1, 'a\n', None, 2.5, b'x'], {'k': ('v', [True, ...])}, 'tab\there \\ "q"', pp.comment([1, pp.comment(2, 'two')], 'top comment'),
            {1: pp.comment('v', 'val'), pp.comment('k', 'key'): 2}, float('inf'), [frozenset([1]), set()], 'x' * 100]
    for _ in range(40 if tier == 'quick' else 400):
        vals.append(V.rand_value(rng, budget=rng.choice([5, 12, 25])))
    import sec_values
    for _ in range(20 if tier == 'quick' else 200):
        vals.append(sec_values.add_comments(rng, V.rand_value(rng, budget=10), 0.4))
    import subclasses as S
    for _ in range(10 if tier == 'quick' else 100):
        vals.append(sec_values.rand_call(rng))
    # every kind of token a bundled printer emits must have a style: instances of the stdlib types (Enum members are written by
    # classattr, timezone.utc by identifier, classes and functions with their comments), skipping those that do not pickle
    import sec_stdlib
    import pickle
    inst = []
    for x in sec_stdlib.instances(rng):
        try:
            pickle.dumps(x)
            inst.append(x)
        except Exception:
            pass
    core_inst = []
    for tn in ('Color', 'Flag', 'timezone', 'UUID', 'partial', 'date', 'SimpleNamespace', 'Point'):
        core_inst += [x for x in inst if type(x).__name__ == tn][:1]          # one of each, whatever else the corpus holds
    vals = vals[:8] + core_inst + vals[8:] + (rng.sample(inst, 25) if tier == 'quick' else inst) + [int, len, [sec_stdlib.a_function]]
    for v in vals:
        for w in ([79, 20] if tier == 'quick' else [79, 40, 20, 8]):
            if V.ribbon_ok(w, w):
                cases.append(('value', v, (4, w, w, None, 1000, 0)))
    for d in ann_docs(rng, 150 if tier == 'quick' else 2000):
        cases.append(('doc', d, rng.choice([5, 20, 79])))
    # every nesting of three annotations (token / non-token / comment in any order) with text before and after each level:
    # after an inner annotation ends, the text that follows must be back in the style of the enclosing *token*, however many
    # non-token annotations lie in between
    anns3 = [('tok', 5), ('tok', 12), ('oth', 1), ('cmt', 'x y'), ('raw', 0), ('raw', 4)]
    for a in anns3:
        for b in anns3:
            for c in anns3:
                d = ('ann', a, ('cat', [('t', 'p'), ('ann', b, ('cat', [('t', 'q'), ('ann', c, ('t', 'r')), ('t', 's')])), ('t', 'u')]))
                cases.append(('doc', d, 79))
    # quick: every case under 6 styles (the two bundled + a rotating sample), every style on a core set; thorough: all x all
    chunks = []
    core = cases[:16]
    if tier == 'quick':
        chunks.append((core, names))
        rest = cases[16:]
        for i in range(0, len(rest), 20):
            pick = names[:2] + rng.sample(names[2:], 4)
            chunks.append((rest[i:i + 20], pick))
    else:
        for i in range(0, len(cases), 10):
            chunks.append((cases[i:i + 10], names))
    tot = nt = 0
    mism, fails = [], []
    with mp.Pool(min(NCPU, max(1, len(chunks)))) as pool:
        for a, b, mm, ff in pool.imap_unordered(color_chunk, chunks):
            tot += a
            nt += b
            mism.extend(mm)
            fails.extend(ff)
    # styleattrs_to_colorful over all 32 attribute shapes
    shape_fail = None
    for fg, bg, bold, it, ul in itertools.product([None, 'ff0000'], [None, '00ff00'], [False, True], [False, True], [False, True]):
        try:
            attrs = {'color': fg, 'bgcolor': bg, 'bold': bold, 'italic': it, 'underline': ul}
            s = str(C.styleattrs_to_colorful(attrs))
            if not s.startswith('\x1b[0m'):
                shape_fail = ('does not start from reset', fg, bg, bold, it, ul)
            elif s != sgr_of_attrs(attrs):
                shape_fail = ('escape sequences %r, the attributes stand for %r' % (s, sgr_of_attrs(attrs)), fg, bg, bold, it, ul)
        except Exception as e:
            shape_fail = (type(e).__name__, fg, bg, bold, it, ul)
    if shape_fail:
        fails.append({'kind': 'style-attributes-raise', 'shape': shape_fail})
    fails.extend(cpprint_entry_check())
    stats = {'evaluations': tot, 'distinct_nontrivial': nt, 'styles': len(names), 'cases': len(cases), 'mismatches': len(mism),
             'attribute_shapes_checked': 32,
             'samples': [{'case': repr(cases[2])[:200], 'styles': names[:4]}],
             'rule': 'cpprint-style rendering (colour forced on with colorful.use_true_colors) of values (strings with escapes, commented values, calls, '
                     'random trees) and of small annotated documents (token annotations nested up to depth 3, non-token annotations inside / outside) under the %d '
                     'installed pygments styles + the two bundled ones; byte stream compared with the model; SGR decoder oracle: stripped text == plain text, final state reset; '
                     'non-trivial = renderings that contain styling' % (len(names) - 2)}
    return stats, mism, fails
