"""Correspondence section: strings (prettyprinter.py:1578-1933) vs the Lean model M3."""
import itertools
import multiprocessing as mp
import random
import re
import sys

import common
from common import Driver, NCPU
import docs as DOCS
from docs import sdocs_to_sx, sx_str
import sec_engine

import prettyprinter  # noqa: F401
from prettyprinter.layout import layout_smart
from prettyprinter.render import default_render_to_str
import prettyprinter.doc as D

P = sys.modules['prettyprinter.prettyprinter']

_W = re.compile(r'\w')
_S = re.compile(r'\s')
_WB = re.compile(rb'\w')
_SB = re.compile(rb'\s')
_bits_cache = {}


def pchar(ch):
    """cp*8 + printable + 2*word + 4*space for one character of a str"""
    r = _bits_cache.get(ch)
    if r is None:
        r = ord(ch) * 8 + (1 if ch.isprintable() else 0) + (2 if _W.fullmatch(ch) else 0) + (4 if _S.fullmatch(ch) else 0)
        _bits_cache[ch] = r
    return r


def pbyte(b):
    bb = bytes([b])
    return b * 8 + 1 + (2 if _WB.fullmatch(bb) else 0) + (4 if _SB.fullmatch(bb) else 0)


def pchars(s):
    if isinstance(s, bytes):
        return ' '.join(str(pbyte(b)) for b in s)
    return ' '.join(str(pchar(c)) for c in s)


def cps_of(s):
    if isinstance(s, bytes):
        return ' '.join(str(b) for b in s)
    return ' '.join(str(ord(c)) for c in s)


ALPHA_STR = ["'", '"', '\\', ' ', '\n', 'a', '\xe9', '\x00']
ALPHA_BYTES = [39, 34, 92, 32, 10, 97, 0xe9, 0]


def all_strings(max_len, as_bytes):
    alpha = ALPHA_BYTES if as_bytes else ALPHA_STR
    for n in range(0, max_len + 1):
        for t in itertools.product(alpha, repeat=n):
            yield bytes(t) if as_bytes else ''.join(t)


_drv = None


def _driver():
    global _drv
    if _drv is None:
        _drv = Driver()
    return _drv


def direct_chunk(args):
    strings, max_lens = args
    drv = _driver()
    mism = []
    n = 0
    nt = 0
    for s in strings:
        isb = 1 if isinstance(s, bytes) else 0
        chars = pchars(s)
        # quote strategy
        try:
            q_impl = P.determine_quote_strategy(s)
        except Exception as e:
            q_impl = 'error ' + type(e).__name__
        g = drv.ask('(quote (%s))' % chars)
        n += 1
        if g != '(ok %d)' % (ord(q_impl) if len(q_impl) == 1 else -1):
            mism.append({'fn': 'determine_quote_strategy', 's': repr(s), 'impl': q_impl, 'model': g})
        for q in ("'", '"'):
            try:
                e_impl = P.escape_str_for_quote(q, s)
                exp = sx_str('ok', e_impl)
            except Exception as e:
                exp = '(error %s)' % type(e).__name__
            g = drv.ask('(esc %d %d (%s))' % (isb, ord(q), chars))
            n += 1
            if g != exp:
                mism.append({'fn': 'escape_str_for_quote', 's': repr(s), 'quote': q, 'impl': exp, 'model': g})
            elif exp.startswith('(ok'):
                # the spec-side decoder (Spec/Unescape.lean) against CPython's: decode the implementation's escaped body
                body = e_impl
                u = drv.ask('(unesc %d (%s))' % (ord(q), DOCS.cps(body)))
                try:
                    py = eval(('b' if isb else '') + q + body + q)
                    want = sx_str('ok', py.decode('latin-1') if isb else py)
                except Exception:
                    want = 'invalid'
                n += 1
                if u != want:
                    mism.append({'fn': 'unescape(spec)-vs-eval', 's': repr(s), 'quote': q, 'body': body, 'impl': want, 'model': u})
            for ml in max_lens:
                try:
                    with common.time_limit(20):
                        lines = list(P.str_to_lines(ml, q, s))
                    exp = '(ok' + ''.join(' (s %s)' % cps_of(l) if len(l) else ' (s)' for l in lines) + ')'
                    if len(lines) > 1:
                        nt += 1
                except (Exception, common.ImplTimeout) as e:
                    lines = None
                    exp = '(error %s)' % type(e).__name__
                g = drv.ask('(strlines %d 0 %d %d (%s))' % (isb, ml, ord(q), chars))
                n += 1
                if g != exp:
                    mism.append({'fn': 'str_to_lines', 's': repr(s), 'quote': q, 'max_len': ml, 'impl': exp, 'model': g})
    return n, nt, mism


def oracle_direct(m):
    """does the property itself fail on the implementation at this input?  (C02: join, no empty piece, round trip)"""
    s = eval(m['s'])
    if m['fn'] == 'str_to_lines':
        try:
            with common.time_limit(20):
                lines = list(P.str_to_lines(m['max_len'], m['quote'], s))
        except common.ImplTimeout:
            return {'kind': 'str_to_lines-does-not-terminate', **m}
        except Exception as e:
            return {'kind': 'str_to_lines-raises', **m, 'exc': type(e).__name__}
        empty = b'' if isinstance(s, bytes) else ''
        if empty.join(lines) != s or any(len(l) == 0 for l in lines):
            return {'kind': 'str_to_lines-loses-or-empty', **m, 'lines': repr(lines)}
        return None
    if m['fn'] == 'escape_str_for_quote':
        try:
            # as in the run that disagreed: the other quote was asked for first (anything remembered between calls must not leak)
            P.escape_str_for_quote("'" if m['quote'] == '"' else '"', s)
            e = P.escape_str_for_quote(m['quote'], s)
            lit = ('b' if isinstance(s, bytes) else '') + m['quote'] + e + m['quote']
            if eval(lit) != s:
                return {'kind': 'escape-does-not-round-trip', **m, 'literal': lit}
        except Exception as ex:
            return {'kind': 'escape-does-not-evaluate', **m, 'exc': type(ex).__name__}
        return None
    if m['fn'] == 'determine_quote_strategy':
        try:
            if P.determine_quote_strategy(s) not in ("'", '"'):
                return {'kind': 'quote-not-a-quote', **m}
        except Exception as ex:
            return {'kind': 'quote-raises', **m, 'exc': type(ex).__name__}
    return None


class S_sub(str):
    pass


class B_sub(bytes):
    pass


def spec_sx(s, strategy, pp_indent, cls):
    isb = 1 if isinstance(s, bytes) else 0
    if cls is None:
        c = 'none'
    else:
        c = '(cls 0 %s)' % DOCS.cps('sec_strings.' + cls.__name__)
    return '(pstr %d %d %d 0 %s (%s))' % (isb, strategy, pp_indent, c, pchars(s))


STRATS = [P.MULTILINE_STRATEGY_PLAIN, P.MULTILINE_STRATEGY_HANG, P.MULTILINE_STRATEGY_INDENTED, P.MULTILINE_STRATEGY_PARENS]


def eval_chunk(args):
    """pretty_str's contextual document, placed after a prefix and under a nest, through layout_smart."""
    cases, cfgs = args
    drv = _driver()
    mism = []
    fails = []
    n = 0
    nt = 0
    for (s, strategy, pp_indent, sub, prefix, nest_k) in cases:
        cls = None
        val = s
        if sub:
            cls = B_sub if isinstance(s, bytes) else S_sub
            val = cls(s)
        ctx = P.PrettyContext(indent=pp_indent, depth_left=float('inf'), multiline_strategy=STRATS[strategy])
        try:
            with common.time_limit():
                sdoc = P.pretty_str(val, ctx)
        except (Exception, common.ImplTimeout) as e:
            mism.append({'s': repr(s), 'error': 'pretty_str raised %s' % type(e).__name__})
            continue
        pydoc = D.nest(nest_k, D.concat([prefix, sdoc]))
        sx = '(nest %d (cat %s %s))' % (nest_k, sx_str('t', prefix), spec_sx(s, strategy, pp_indent, cls))
        pieces = []
        texts = set()
        for (w, fr, rw, smart) in cfgs:
            p, sd, text = sec_engine.impl_piece(pydoc, w, fr, smart)
            pieces.append(p)
            texts.add(text)
            n += 1
            # C02 oracle on the implementation's own output: the pieces evaluate back to the value
            if text is not None:
                if text.startswith(prefix):
                    body = text[len(prefix):]
                elif text.startswith(prefix.rstrip()):
                    body = text[len(prefix.rstrip()):]     # the renderer trimmed the prefix at the end of its line
                else:
                    body = text
                bad = literal_oracle(body, val)
                if bad:
                    fails.append({'kind': 'string-literal-does-not-evaluate-back', 's': repr(s), 'strategy': strategy,
                                  'subclass': bool(sub), 'prefix': prefix, 'nest': nest_k, 'w': w, 'rw': rw, 'text': text, 'why': bad})
            elif p.startswith('(error'):
                # "always terminates, however little width is left": the layout of a string document must not raise either
                fails.append({'kind': 'printing-a-string-raises', 's': repr(s), 'strategy': strategy, 'subclass': bool(sub), 'prefix': prefix,
                              'nest': nest_k, 'w': w, 'rw': rw, 'smart': smart, 'raised': p})
        if len(texts) > 1:
            nt += 1
        g = drv.ask('(lay %s %s)' % (sx, ' '.join('(%d %d %d)' % (w, rw, smart) for (w, fr, rw, smart) in cfgs)))
        e = '(ok ' + ' '.join(pieces) + ')'
        if g != e:
            for (w, fr, rw, smart), p in zip(cfgs, pieces):
                g1 = drv.ask('(lay %s (%d %d %d))' % (sx, w, rw, smart))
                if g1 != '(ok ' + p + ')':
                    mism.append({'s': repr(s), 'strategy': strategy, 'pp_indent': pp_indent, 'subclass': bool(sub),
                                 'prefix': prefix, 'nest': nest_k, 'w': w, 'rw': rw, 'smart': smart, 'impl': p[:600], 'model': g1[:600]})
                    break
    return n, nt, mism, fails[:3]


def literal_oracle(text, val):
    """the printed pieces, wrapped in parentheses, evaluate to the value (and to an instance of its class)"""
    try:
        got = eval('(' + text + '\n)', {'sec_strings': sys.modules[__name__], '__builtins__': {}})
    except Exception as e:
        return 'does not evaluate: %s' % type(e).__name__
    if got != val or type(got) is not type(val):
        return 'evaluates to %r' % (got,)
    return None


def strings_section(tier, seed):
    rng = random.Random(seed * 31337 + 5)
    L = 4 if tier == 'quick' else 5
    strings = list(all_strings(L, False)) + list(all_strings(L, True))
    # random long unicode / binary
    cpool = "ab cd,ef.gh-ij'kl\"mn\\op\tq\nré中\U0001f600\x00\x7f  \xa0_09\u0301\u0308"
    n_rand = 300 if tier == 'quick' else 4000
    for _ in range(n_rand):
        k = rng.choice([5, 12, 25, 60, 120])
        if rng.random() < 0.5:
            strings.append(''.join(rng.choice(cpool) for _ in range(k)))
        else:
            strings.append(bytes(rng.choice([32, 39, 34, 92, 97, 98, 46, 47, 0, 10, 200, 255, 95, 48]) for _ in range(k)))
    # combining marks (a piece may begin with one; a run of them may be longer than any piece), other zero-width / wide characters
    for k in (1, 2, 3, 5, 12, 14):
        strings += ['a' + '\u0301' * k, 'he comes z' + '\u0301\u0308' * k + 'algo', '\u0301' * k + 'x', ' \u200b' * k + '\uff21' * k]
    max_lens = list(range(1, 13))
    chunks = [(strings[i:i + 100], max_lens) for i in range(0, len(strings), 100)]
    tot = nt = 0
    mism = []
    with mp.Pool(min(NCPU, len(chunks))) as pool:
        for n, t, mm in pool.imap_unordered(direct_chunk, chunks):
            tot += n
            nt += t
            mism.extend(mm)
    stats = {'direct_strings': len(strings), 'direct_calls': tot, 'evaluations': tot, 'distinct_nontrivial': nt,
             'alphabet_max_len': L}
    # evaluator through the layout engine
    cases = []
    ev_strings = [s for s in all_strings(3 if tier == 'quick' else 4, False)][::3] + [s for s in all_strings(3, True)][::5]
    longs = ['a' * 30, 'aaa bbb ccc ddd eee fff ggg', "it's a \"quoted\" thing, with\\backslash", 'x' * 11, 'hello world', '',
             'caf\xe9 中文 \x00\n', 'a-b-c-d-e-f-g-h-i-j-k-l', b'abc def ghi jkl mno', b'', b"\xff\x00'\"", b'x' * 25,
             'he comes z' + '\u0301' * 12 + 'algo', 'a' + '\u0308\u0301' * 9 + ' b', 'e\u0301 e\u0301 e\u0301 e\u0301 e\u0301 e\u0301']
    # more than a thousand pieces at narrow widths (no limit applies to the pieces of a string)
    longs += ['ab cd ' * 2200] if tier == 'quick' else ['ab cd ' * 2200, b'xy z ' * 2500, 'q' * 9000]
    for _ in range(60 if tier == 'quick' else 600):
        k = rng.choice([8, 11, 14, 20, 33, 50])
        longs.append(''.join(rng.choice(cpool) for _ in range(k)))
    for s in ev_strings + longs:
        for strategy in range(4):
            sub = rng.random() < 0.25
            cases.append((s, strategy, rng.choice([1, 2, 4, 4, 8]), sub, rng.choice(['', 'k: ', 'xxxxxxxx']), rng.choice([0, 0, 4, 9])))
    widths = [1, 2, 5, 8, 10, 11, 12, 13, 14, 16, 20, 24, 30, 40, 79]
    cfgs, _ = sec_engine.make_configs(widths, [sec_engine.Fraction(1, 2), sec_engine.Fraction(9, 10), sec_engine.Fraction(1, 1)])
    cfgs = [c for c in cfgs if c[3] == 1]
    ch2 = [(cases[i:i + 40], cfgs) for i in range(0, len(cases), 40)]
    fails = []
    tot2 = nt2 = 0
    with mp.Pool(min(NCPU, len(ch2))) as pool:
        for n, t, mm, ff in pool.imap_unordered(eval_chunk, ch2):
            tot2 += n
            nt2 += t
            mism.extend(mm)
            fails.extend(ff)
    lb = literal_bodies_section(rng, 3000 if tier == 'quick' else 30000)
    mism.extend(lb)
    stats['literal_bodies_checked'] = 3000 if tier == 'quick' else 30000
    stats['evaluator_cases'] = len(cases)
    stats['evaluator_layouts'] = tot2
    stats['evaluations'] += tot2
    stats['distinct_nontrivial'] += nt2
    stats['mismatches'] = len(mism)
    stats['samples'] = [{'fn': 'str_to_lines', 's': repr(strings[777]), 'max_len': '1..12', 'quotes': 'both'},
                        {'fn': 'pretty_str evaluator', 'case': repr(cases[5])}]
    stats['rule'] = ('direct: every str and bytes over the alphabet {\', ", \\, space, newline, a, e-acute/0xe9, NUL} up to length %d '
                     'x max_len 1..12 x both quotes for str_to_lines, escape_str_for_quote, determine_quote_strategy; evaluator: '
                     'pretty_str\'s contextual document after a prefix / under a nest, 4 strategies, subclass or not, through layout_smart at 15 widths x 3 ribbons; '
                     'non-trivial = strings actually split into >= 2 pieces / layouts depending on the width' % L)
    return stats, mism, fails


def literal_bodies_section(rng, n):
    """adversarial literal bodies (valid and invalid) through the spec decoder and CPython's eval"""
    drv = Driver()
    mism = []
    alpha = ['\\', "'", '"', 'n', 'r', 't', 'x', 'u', 'U', '0', '1', 'a', 'f', 'F', 'g', ' ', '\n', '\xe9']
    try:
        for _ in range(n):
            body = ''.join(rng.choice(alpha) for _ in range(rng.randint(0, 10)))
            q = rng.choice(["'", '"'])
            u = drv.ask('(unesc %d (%s))' % (ord(q), DOCS.cps(body)))
            try:
                import warnings
                with warnings.catch_warnings():
                    warnings.simplefilter('error')        # invalid escape sequences are a SyntaxWarning: treat as invalid
                    py = eval(q + body + q)
                want = sx_str('ok', py)
            except Exception:
                want = 'invalid'
            # the spec decoder only needs to agree where it accepts, and to reject what CPython rejects
            if u != want and not (u == 'invalid'):
                mism.append({'fn': 'unescape(spec)-vs-eval', 'body': body, 'quote': q, 'impl': want, 'model': u})
    finally:
        drv.close()
    return mism
