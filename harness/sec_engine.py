"""Correspondence section: the layout engine (doctypes/doc/layout/render) vs the Lean model M1."""
import multiprocessing as mp
import random
from fractions import Fraction

import common
from common import Driver, NCPU
import docs as DOCS
from docs import to_sx, sdocs_to_sx, sx_str

from prettyprinter.layout import layout_smart, layout_fast
from prettyprinter.render import default_render_to_str


def exact_rw(w, frac):
    """max(0, min(w, round(frac * w))) in exact arithmetic, rounding half to even (Python's round)."""
    x = frac * w
    fl = x.numerator // x.denominator
    rem = x - fl
    if rem > Fraction(1, 2) or (rem == Fraction(1, 2) and fl % 2 == 1):
        fl += 1
    return max(0, min(w, fl))


def float_rw(w, frac):
    return max(0, min(w, round(float(frac) * w)))


def make_configs(widths, fracs):
    """(w, frac, rw, smart) for which CPython's float computation agrees with exact arithmetic."""
    cfgs, dropped = [], 0
    for w in widths:
        for fr in fracs:
            rw = exact_rw(w, fr)
            if float_rw(w, fr) != rw:
                dropped += 1
                continue
            for smart in (1, 0):
                cfgs.append((w, fr, rw, smart))
    return cfgs, dropped


def impl_piece(pydoc, w, fr, smart):
    try:
        fn = layout_smart if smart else layout_fast
        with common.time_limit():
            sd = list(fn(pydoc, width=w, ribbon_frac=float(fr)))
            text = default_render_to_str(list(sd))
        return '(%s %s)' % (sdocs_to_sx(sd), sx_str('text', text)), sd, text
    except (Exception, common.ImplTimeout) as e:  # compared as an error enum; the model never raises
        return '(error %s)' % type(e).__name__, None, None


_drv = None


def _driver():
    global _drv
    if _drv is None:
        _drv = Driver()
    return _drv


def to_py_shared(d, memo):
    """like docs.to_py, but the same tuple object maps to the same Python Doc object (shared sub-documents)"""
    k = id(d)
    if k in memo:
        return memo[k]
    r = DOCS.to_py(d) if d[0] not in ('cat', 'fill', 'nest', 'group', 'ab', 'align', 'hang', 'choice', 'ann') else None
    if r is None:
        import prettyprinter.doc as D
        t = d[0]
        if t == 'cat':
            r = D.concat([to_py_shared(x, memo) for x in d[1]])
        elif t == 'fill':
            r = D.fill([to_py_shared(x, memo) for x in d[1]])
        elif t == 'nest':
            r = D.nest(d[1], to_py_shared(d[2], memo))
        elif t == 'group':
            r = D.group(to_py_shared(d[1], memo))
        elif t == 'ab':
            r = D.always_break(to_py_shared(d[1], memo))
        elif t == 'align':
            r = D.align(to_py_shared(d[1], memo))
        elif t == 'hang':
            r = D.hang(d[1], to_py_shared(d[2], memo))
        elif t == 'choice':
            r = D.flat_choice(when_broken=to_py_shared(d[1], memo), when_flat=to_py_shared(d[2], memo))
        elif t == 'ann':
            r = D.annotate(DOCS.ann_to_py(d[1]), to_py_shared(d[2], memo))
    memo[k] = r
    return r


def check_chunk(args):
    docs, cfgs = args
    drv = _driver()
    n_eval = 0
    n_nontrivial = 0
    mism = []
    cfg_sx = ' '.join('(%d %d %d)' % (w, rw, smart) for (w, fr, rw, smart) in cfgs)
    reqs, exps, keep = [], [], []
    for d in docs:
        try:
            py = to_py_shared(d, {})
        except Exception as e:
            mism.append({'doc': d, 'error': 'constructor raised %s' % type(e).__name__})
            continue
        pieces = []
        outs = set()
        for (w, fr, rw, smart) in cfgs:
            p, _sd, text = impl_piece(py, w, fr, smart)
            pieces.append(p)
            outs.add(text)
        # the layout is a function of the document and the configuration: a second document object built the same way, laid out
        # under the same configurations in the opposite order (wide before narrow), must give the same streams
        py2 = to_py_shared(d, {})
        rev = [None] * len(cfgs)
        for i in range(len(cfgs) - 1, -1, -1):
            (w, fr, rw, smart) = cfgs[i]
            rev[i] = impl_piece(py2, w, fr, smart)[0]
        n_eval += 2 * len(cfgs)
        if len(outs) > 1:
            n_nontrivial += 1
        reqs.append('(lay %s %s)' % (to_sx(d), cfg_sx))
        exps.append(('(ok ' + ' '.join(pieces) + ')', pieces, rev))
        keep.append(d)
    got = drv.ask_many(reqs)
    for d, (e, pieces, rev), g in zip(keep, exps, got):
        if e != g or rev != pieces:
            # localise the configuration (on the streams recorded above: a fresh layout may not show a difference that depends on
            # what was laid out before)
            for i, (w, fr, rw, smart) in enumerate(cfgs):
                g1 = drv.ask('(lay %s (%d %d %d))' % (to_sx(d), w, rw, smart))
                if '(ok ' + pieces[i] + ')' != g1:
                    mism.append({'doc': d, 'w': w, 'frac': str(fr), 'rw': rw, 'smart': smart, 'impl': pieces[i], 'model': g1})
                    break
                if '(ok ' + rev[i] + ')' != g1:
                    mism.append({'doc': d, 'w': w, 'frac': str(fr), 'rw': rw, 'smart': smart, 'impl': rev[i], 'model': g1,
                                 'history': 'one document object laid out under the configurations of this run in descending order before this one'})
                    break
            else:
                mism.append({'doc': d, 'error': 'batched answer differs but no single configuration does', 'impl': e[:300], 'model': g[:300]})
    return n_eval, n_nontrivial, mism, len(keep)


def run_chunks(all_docs, cfgs, chunk=200):
    chunks = [(all_docs[i:i + chunk], cfgs) for i in range(0, len(all_docs), chunk)]
    tot_eval = tot_nt = tot_docs = 0
    mism = []
    if not chunks:
        return 0, 0, [], 0
    with mp.Pool(min(NCPU, len(chunks))) as pool:
        for n_eval, n_nt, mm, nd in pool.imap_unordered(check_chunk, chunks):
            tot_eval += n_eval
            tot_nt += n_nt
            tot_docs += nd
            mism.extend(mm)
    return tot_eval, tot_nt, mism, tot_docs


FRACS = [Fraction(1, 4), Fraction(1, 2), Fraction(9, 10), Fraction(1, 1)]


def rand_align_doc(rng):
    def txt(lo=1, hi=4):
        return ('t', 'x' * rng.randint(lo, hi))

    def rel(d):
        r = rng.random()
        if r < 0.5:
            return ('align', d)
        if r < 0.8:
            return ('hang', rng.choice([0, 2, 4]), d)
        return ('nest', rng.choice([1, 2]), ('align', d))
    brk = lambda: rng.choice([('line',), ('line',), ('hl',), ('softline',)])
    inner = rel(('cat', [txt(), brk(), txt(1, 2)]))
    if rng.random() < 0.3:
        inner = ('cat', [inner, brk(), rel(('cat', [txt(1, 2), brk(), txt(1, 2)]))])
    body = rel(('cat', [txt(1, 3), ('line',), inner]))
    if rng.random() < 0.5:
        body = ('group', body)
    parts = [txt(0, 5), body]
    if rng.random() < 0.4:
        parts += [brk(), txt(1, 3)]
    d = ('cat', parts)
    if rng.random() < 0.3:
        d = ('nest', rng.choice([1, 3]), ('cat', [txt(1, 2), ('hl',), d]))
    return d


def rand_fill_doc(rng):
    def txt(lo=1, hi=4):
        return ('t', 'x' * rng.randint(lo, hi))
    sep = lambda: rng.choice([('line',), ('softline',), ('line',)])

    # most documents force their breaks with always_break only (a bare hardline inside a group is known finding K1, and a document
    # holding one is explained by it)
    ab_only = rng.random() < 0.7

    def forced():
        inner = ('cat', [txt(1, 2), sep(), txt(1, 2)])
        return ('ab', inner) if ab_only or rng.random() < 0.7 else ('cat', [txt(1, 2), ('hl',), txt(1, 2)])

    def item():
        r = rng.random()
        if r < 0.35:
            return txt()
        body = ('cat', [sep(), forced()]) if rng.random() < 0.6 else forced()
        g = ('group', body)
        if r < 0.55:
            return g
        if r < 0.7:
            return ('nest', rng.choice([1, 2, 4]), g)
        if r < 0.8:
            return ('ann', ('tok', 5), g)
        if r < 0.9:
            return ('group', ('cat', [txt(1, 2), sep(), txt(1, 3)]))
        return ('ab', txt())
    n = rng.choice([1, 2, 2, 3, 4, 5])
    items = []
    for i in range(n):
        items.append(item())
        if i < n - 1:
            # every other item of a fill is a separator: usually a line, sometimes a group around a line and forced-break content
            items.append(sep() if rng.random() < 0.65 else item())
    if rng.random() < 0.25:
        items = items[:2]            # a content item and a separator, nothing after it
    d = ('fill', items)
    r = rng.random()
    if r < 0.3:
        d = ('group', d)
    elif r < 0.5:
        d = ('cat', [txt(0, 3), d, txt(0, 2)])
    return d


def engine_section(tier, seed, classic=False):
    """Returns (stats, mismatches)."""
    rng = random.Random(seed * 7919 + (1 if classic else 0))
    max_size = 4 if tier == 'quick' else 5
    by = DOCS.enum_docs(max_size, classic=classic)
    small = [d for n in sorted(by) for d in by[n]]
    cfgs, dropped = make_configs(range(1, 13), FRACS)
    ev, nt, mism, nd = run_chunks(small, cfgs)
    stats = {
        'exhaustive_docs': nd, 'exhaustive_max_size': max_size, 'configs_per_doc': len(cfgs),
        'float_ribbon_configs_dropped': dropped, 'evaluations': ev, 'distinct_nontrivial': nt,
    }
    # wider widths on the smaller documents
    if tier == 'thorough':
        by4 = [d for n in sorted(by) if n <= 4 for d in by[n]]
        cf2, dr2 = make_configs(range(13, 41), FRACS)
        ev2, nt2, mm2, nd2 = run_chunks(by4, cf2)
        stats['wide_docs'] = nd2
        stats['evaluations'] += ev2
        stats['distinct_nontrivial'] += nt2
        mism.extend(mm2)
    # seeded random larger documents, incl. shared sub-documents, exact-fit widths
    n_rand = 3000 if tier == 'quick' else 40000
    rdocs = []
    for _ in range(n_rand):
        d = DOCS.rand_doc(rng, rng.choice([6, 10, 20, 40, 60]), classic=classic)
        if rng.random() < 0.15:
            d = ('cat', [d, ('line',), d])   # the same object twice
        rdocs.append(d)
    # column-relative combinators inside each other: align / hang nested in align / hang, in a group that starts after some text
    # (the fitting predicate then evaluates them at other columns and indentations than the layout does)
    adocs = [rand_align_doc(rng) for _ in range(400 if tier == 'quick' else 6000)]
    if classic:
        adocs = [d for d in adocs if 'hang' not in to_sx(d)]
    cfa, _dr = make_configs(range(2, 17), [Fraction(1, 1), Fraction(1, 2)])
    ev4, nt4, mm4, nd4 = run_chunks(adocs, cfa, chunk=25)
    stats['nested_align_docs'] = nd4
    stats['evaluations'] += ev4
    stats['distinct_nontrivial'] += nt4
    mism.extend(mm4)
    # fill items that are groups (or nests / annotations of groups) around always_break content: the machine decides each fill item
    # by measuring it, and a group holding a forced break must come out broken wherever it sits
    if not classic:
        fdocs = [rand_fill_doc(rng) for _ in range(300 if tier == 'quick' else 4000)]
        cff, _dr = make_configs([3, 6, 10, 20, 40], [Fraction(1, 1), Fraction(1, 2)])
        ev5, nt5, mm5, nd5 = run_chunks(fdocs, cff, chunk=25)
        stats['fill_docs_with_forced_breaks'] = nd5
        stats['evaluations'] += ev5
        stats['distinct_nontrivial'] += nt5
        mism[0:0] = mm5          # in front: the failing-input search looks at the first disagreements
    fr_r = FRACS + [Fraction(1, 3), Fraction(3, 4), Fraction(1, 10)]
    cfr, dr3 = make_configs([1, 2, 3, 5, 8, 10, 13, 20, 30, 40, 79], fr_r)
    ev3, nt3, mm3, nd3 = run_chunks(rdocs, cfr, chunk=50)
    stats['random_docs'] = nd3
    stats['random_configs_per_doc'] = len(cfr)
    stats['evaluations'] += ev3
    stats['distinct_nontrivial'] += nt3
    mism.extend(mm3)
    stats['mismatches'] = len(mism)
    stats['samples'] = [{'doc': to_sx(small[len(small) // 3]), 'configs': '12 widths x 4 ribbon fractions x 2 strategies'},
                        {'doc': to_sx(rdocs[0])[:400]}]
    stats['rule'] = ('every document with <= %d nodes over 8 leaves, 8 unary combinators, concat/fill of any arity and flat_choice, '
                     'at widths 1-12 x ribbon fractions {1/4,1/2,9/10,1} x {smart,fast}; SDoc stream and rendered text compared '
                     'for exact equality with the Lean model; non-trivial = documents whose rendered text differs between configurations'
                     % max_size)
    return stats, mism


# ---------------------------------------------------------------------------------------------
# oracles evaluated on the implementation itself (C05, C06)

import sys as _sys
from prettyprinter.sdoctypes import SLine as _SLine


def group_decisions(pydoc, w, frac, smart):
    """Run best_layout with a recording fitting predicate: returns (emitted sdocs, [(position, indent, fits)])."""
    L = _sys.modules['prettyprinter.layout']
    pred = L.smart_fitting_predicate if smart else L.fast_fitting_predicate
    emitted, decisions = [], []

    def rec(**kw):
        indent = kw['triplestack'][-1][0]
        res = pred(**kw)
        decisions.append((len(emitted), indent, bool(res)))
        return res
    for s in L.best_layout(pydoc, w, float(frac), fitting_predicate=rec):
        emitted.append(s)
    return emitted, decisions


def flat_overflow(pydoc, w, frac, rw, smart):
    """C05 oracle: for each group laid out flat, the output line its text starts on must end within the page width and
    within indent + ribbon.  Returns a description of the first overflow or None."""
    emitted, decisions = group_decisions(pydoc, w, frac, smart)
    # line extents: for each position, (start index of its line, end column of its line)
    for (pos, indent, fit) in decisions:
        if not fit:
            continue
        # column at the start of the line containing pos
        j = pos - 1
        col = 0
        start_col = 0
        while j >= 0:
            s = emitted[j]
            if isinstance(s, _SLine):
                start_col = s.indent
                break
            j -= 1
        col = start_col
        k = j + 1
        while k < len(emitted) and not isinstance(emitted[k], _SLine):
            if isinstance(emitted[k], str):
                col += len(emitted[k])
            k += 1
        if col > w or col > indent + rw:
            return {'position': pos, 'group_indent': indent, 'line_end_col': col, 'width': w, 'ribbon_width': rw}
    return None


def one_line_stable(pydoc, smart):
    """C06 oracle (engine level): if the layout at a huge width is a single line of L columns, it must be the same
    single line at every width and ribbon >= L."""
    L = _sys.modules['prettyprinter.layout']
    fn = L.layout_smart if smart else L.layout_fast
    big = list(fn(pydoc, width=400, ribbon_frac=1.0))
    if any(isinstance(s, _SLine) for s in big):
        return None
    length = sum(len(s) for s in big if isinstance(s, str))
    if length >= 390:
        return None
    ref = default_render_to_str(list(big))
    for w in (length, length + 1, length + 7):
        if w < 1:
            continue
        out = default_render_to_str(fn(pydoc, width=w, ribbon_frac=1.0))
        if out != ref:
            return {'one_line': ref, 'L': length, 'width': w, 'got': out}
    return None


def _has_align(d):
    k = d[0]
    if k in ('align', 'hang'):
        return True
    if k in ('cat', 'fill'):
        return any(_has_align(x) for x in d[1])
    if k in ('group', 'ab'):
        return _has_align(d[1])
    if k in ('nest', 'ann'):
        return _has_align(d[2])
    if k == 'choice':
        return _has_align(d[1]) or _has_align(d[2])
    return False


def decision_monotone(pydoc, rest, smart):
    """C06 oracle at the level of the decision (theorems C06.fits_mono_smart / fits_mono_fast, evaluated on the implementation's own
    predicates): in one state — the group's content in flat mode on top of `rest` in break mode — a predicate that accepts with page width w
    and budget a accepts with every w' >= w and a' >= a.  Returns None or the pair of calls that contradicts it."""
    L = _sys.modules['prettyprinter.layout']
    D = _sys.modules['prettyprinter.doctypes']
    pred = L.smart_fitting_predicate if smart else L.fast_fitting_predicate
    nd = D.normalize_doc(pydoc)
    nr = D.normalize_doc(rest)
    for indent in (0, 2):
        for mn in (0, indent):
            prev = None
            for (w, a) in ((2, 0), (3, 1), (4, 2), (5, 4), (6, 4), (8, 7), (10, 7), (12, 12), (20, 15), (30, 30), (60, 60)):
                ok = bool(pred(page_width=w, ribbon_frac=1.0, min_nesting_level=mn, max_width=a,
                               triplestack=[(0, L.BREAK_MODE, nr), (indent, L.FLAT_MODE, nd)]))
                if prev is not None and prev[0] and not ok:
                    return {'accepted_at': {'page_width': prev[1], 'budget': prev[2]}, 'rejected_at': {'page_width': w, 'budget': a},
                            'indent': indent, 'min_nesting_level': mn}
                prev = (ok, w, a)
    return None


def _has_negative_nest(d):
    k = d[0]
    if k in ('nest', 'hang'):
        return d[1] < 0 or _has_negative_nest(d[2])
    if k in ('cat', 'fill'):
        return any(_has_negative_nest(x) for x in d[1])
    if k in ('group', 'ab', 'align'):
        return _has_negative_nest(d[1])
    if k == 'ann':
        return _has_negative_nest(d[2])
    if k == 'choice':
        return _has_negative_nest(d[1]) or _has_negative_nest(d[2])
    return False


def oracle_chunk(args):
    docs, cfgs, which = args
    fails = []
    n = 0
    nt = 0
    prev_py = prev_d = None
    for d in docs:
        try:
            py = to_py_shared(d, {})
        except Exception:
            continue
        if which == 'C05':
            any_flat = False
            for (w, fr, rw, smart) in cfgs:
                n += 1
                try:
                    r = flat_overflow(py, w, fr, rw, smart)
                except Exception as e:
                    r = {'raises': type(e).__name__}
                if r is not None:
                    fails.append({'kind': 'engine-flat-overflow', 'doc': d, 'w': w, 'frac': str(fr), 'rw': rw, 'smart': smart, 'detail': r})
                    break
            nt += 1
        else:
            if _has_negative_nest(d):
                # with a negative indentation the ribbon (measured from the indentation) is narrower than ribbon_width:
                # the one-line claim of C06 is about non-negative indentation (what the printers produce)
                continue
            for smart in (1, 0):
                n += 1
                try:
                    r = one_line_stable(py, smart)
                except Exception as e:
                    r = {'raises': type(e).__name__}
                if r is not None:
                    fails.append({'kind': 'engine-one-line-unstable', 'doc': d, 'smart': smart, 'detail': r})
                    break
                if smart and _has_align(d):
                    continue            # the smart look-ahead evaluates align at the column it has in mind: outside fits_mono_smart
                try:
                    r = decision_monotone(py, prev_py if prev_py is not None else py, smart)
                except Exception as e:
                    r = {'raises': '%s: %s' % (type(e).__name__, e)}
                if r is not None:
                    fails.append({'kind': 'engine-decision-not-monotone', 'doc': d, 'rest': prev_d, 'smart': smart, 'detail': r})
                    break
            if not _has_align(d):
                prev_py, prev_d = py, d
            nt += 1
    return n, nt, fails


def oracle_section(tier, seed, which):
    """Evaluate the C05 / C06 oracle on the implementation over classic documents."""
    rng = random.Random(seed * 104729 + 17)
    max_size = 4 if tier == 'quick' else 5
    by = DOCS.enum_docs(max_size, classic=True)
    small = [d for n in sorted(by) for d in by[n]]
    n_rand = 2000 if tier == 'quick' else 30000
    rdocs = [DOCS.rand_doc(rng, rng.choice([6, 10, 20, 40]), classic=True) for _ in range(n_rand)]
    cfgs, _ = make_configs([1, 2, 3, 4, 5, 6, 8, 10, 12, 16, 20, 30], [Fraction(1, 2), Fraction(9, 10), Fraction(1, 1)])
    alld = small + rdocs
    chunks = [(alld[i:i + 100], cfgs, which) for i in range(0, len(alld), 100)]
    tot = nt = 0
    fails = []
    with mp.Pool(min(NCPU, max(1, len(chunks)))) as pool:
        for n, t, f in pool.imap_unordered(oracle_chunk, chunks):
            tot += n
            nt += t
            fails.extend(f)
    stats = {'evaluations': tot, 'distinct_nontrivial': nt, 'oracle': which, 'classic_docs': len(alld),
             'failures': len(fails),
             'samples': [{'doc': to_sx(alld[len(alld) // 2])[:300]}],
             'rule': 'oracle %s evaluated on the implementation for every classic document <= %d nodes and %d random ones' % (which, max_size, n_rand)}
    return stats, fails


# ---------------------------------------------------------------------------------------------
# C05 from the document as written: the reference semantics in Python (classic algebra), used to recover which groups are flat

def _groups_of(d, out):
    k = d[0]
    if k == 'group':
        out.append(d)
        _groups_of(d[1], out)
    elif k in ('cat', 'fill'):
        for x in d[1]:
            _groups_of(x, out)
    elif k in ('nest', 'hang'):
        _groups_of(d[2], out)
    elif k in ('ab', 'align'):
        _groups_of(d[1], out)
    elif k == 'ann':
        _groups_of(d[2], out)
    return out


def _render_ref(d, assign):
    """render the classic document `d` with the flat / broken choice of every group given by `assign` (indexed in the order of
    _groups_of).  Returns (lines as [indent, text] pairs, [(group index, written indentation, line index at the group's start)]) or None
    if the assignment lays forced-break content out flat in a way no layout does (always_break content inside a flat group stays broken;
    a bare hardline inside a flat group is allowed to break - finding K1 prints exactly that)."""
    lines = [[0, '']]
    info = []
    counter = [0]

    def col():
        return lines[-1][0] + len(lines[-1][1])

    def brk(indent):
        lines.append([max(indent, 0) if False else indent, ''])

    def go(x, indent, flat):
        k = x[0]
        if k == 'nil':
            return
        if k == 't':
            lines[-1][1] += x[1]
        elif k == 'hl':
            brk(indent)
        elif k == 'line':
            if flat:
                lines[-1][1] += ' '
            else:
                brk(indent)
        elif k == 'softline':
            if not flat:
                brk(indent)
        elif k == 'cat':
            for y in x[1]:
                go(y, indent, flat)
        elif k == 'nest':
            go(x[2], indent + x[1], flat)
        elif k == 'align':
            go(x[1], col(), flat)
        elif k == 'ab':
            go(x[1], indent, False)
        elif k == 'ann':
            go(x[2], indent, flat)
        elif k == 'group':
            gi = counter[0]
            counter[0] += 1
            f = flat or assign[gi]
            if not flat:
                info.append((gi, indent, len(lines) - 1, assign[gi]))
            go(x[1], indent, f)
        else:
            raise ValueError(k)
    go(d, 0, False)
    return lines, info


def written_indent_overflow(d, w, rw, raw_lines):
    """C05 with each group's indentation taken from the document as written.  `raw_lines` = the implementation's output as (indent, text)
    pairs.  Every assignment of flat / broken to the groups that renders to exactly that output is tried; a violation is reported only if
    each of them has a flat group whose line overflows the page or `written indentation + ribbon` (so an ambiguous document cannot raise
    a false alarm).  Returns a description or None."""
    import itertools
    try:
        groups = _groups_of(d, [])
    except Exception:
        return None
    if not groups or len(groups) > 8:
        return None
    target = [(i, t) for i, t in raw_lines]
    witness = None
    for bits in itertools.product([True, False], repeat=len(groups)):
        try:
            lines, info = _render_ref(d, list(bits))
        except ValueError:
            return None          # not a classic document
        if [(i, t) for i, t in lines] != target:
            continue
        bad = None
        for gi, indent, li, is_flat in info:
            if not is_flat:
                continue
            end = lines[li][0] + len(lines[li][1])
            if end > w or end > indent + rw:
                bad = {'group': gi, 'written_indentation': indent, 'line_end_col': end, 'width': w, 'ribbon_width': rw}
                break
        if bad is None:
            return None          # some layout-consistent reading of the output satisfies the property
        witness = bad
    return witness
