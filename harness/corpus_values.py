"""A fixed corpus of values (constructible by index in a fresh interpreter) for the purity checks of C19."""
import collections
import os
import sys
import time
import datetime
import decimal
import enum
import fractions
import functools
import pathlib
import types
import uuid


class Color(enum.Enum):
    RED = 1
    BLUE = 'b'


Point = collections.namedtuple('Point', 'x y')


class Unregistered:
    def __repr__(self):
        return '<Unregistered>'


class BadLen(list):
    """a list whose len() raises TypeError *inside* the bundled printer: a contained failure that must not change later prints"""
    def __len__(self):
        raise TypeError('object of type BadLen has no len()')


def _same_name_classes():
    """two different classes with one module and qualified name (a class redefined in a REPL / produced by a factory):
    a plain one, and an Enum whose printer is registered lazily by name for its ancestor"""
    plain = type('Status', (), {'__repr__': lambda self: '<plain Status>'})
    en = enum.Enum('Status', 'OK FAIL')
    for c in (plain, en):
        c.__module__ = 'corpus_values'
        c.__qualname__ = 'Status'
    return plain, en


_PlainStatus, _EnumStatus = _same_name_classes()


class Marked:
    """printed through predicate printers (registered below, in this order): instances may satisfy the first, the second or both"""
    def __init__(self, tags):
        self.tags = tags

    def __repr__(self):
        return '<Marked %s>' % (self.tags,)


def _register_predicates():
    import prettyprinter as pp
    import importlib
    P = importlib.import_module('prettyprinter.prettyprinter')
    if any(getattr(pred, '_verif_marker', None) for pred, _ in P._PREDICATE_REGISTRY):
        return

    def first(v):
        return isinstance(v, Marked) and 'a' in v.tags

    def second(v):
        return isinstance(v, Marked) and 'b' in v.tags
    first._verif_marker = second._verif_marker = True
    pp.register_pretty(predicate=first)(lambda v, ctx: pp.pretty_call(ctx, 'FirstPredicate', v.tags))
    pp.register_pretty(predicate=second)(lambda v, ctx: pp.pretty_call(ctx, 'SecondPredicate', v.tags))


_register_predicates()


def _trailing(v, text):
    import prettyprinter as pp
    return pp.trailing_comment(v, text)


def _responses():
    """requests.Response objects (the requests extra is installed for them): a large body without a declared charset, a short one, one
    with a charset - printing must not set or change any attribute of the response"""
    try:
        import requests
        import prettyprinter as pp
        pp.install_extras(['requests'], warn_on_error=False)
    except Exception:
        return []
    out = []
    for body, ctype, enc in ((b'plain text body ' * 40, 'text/plain', None), (b'short', 'text/plain', None),
                             (b'caf\xc3\xa9 ' * 120, 'text/plain; charset=utf-8', 'utf-8'), (b'{"a": [1, 2]}', 'application/json', None)):
        r = requests.Response()
        r.status_code = 200
        r._content = body
        r._content_consumed = True
        r.url = 'http://example.org/x'
        r.headers['Content-Type'] = ctype
        r.encoding = enc
        out.append(r)
    return out


def _dataclass_values():
    """a dataclass and a dataclass extending it (the dataclasses extra is installed for them): what is printed for the derived class must
    not depend on whether the base class was printed before, and printing must not leave anything on the classes"""
    try:
        import dataclasses
        import prettyprinter as pp
        pp.install_extras(['dataclasses'], warn_on_error=False)
    except Exception:
        return []
    g = globals()
    if 'DPoint' not in g:
        @dataclasses.dataclass
        class DPoint:
            x: int
            y: int = 0

        @dataclasses.dataclass
        class DPoint3(DPoint):
            z: int = 0
            tags: list = dataclasses.field(default_factory=list)
        for c in (DPoint, DPoint3):
            c.__module__ = 'corpus_values'
            c.__qualname__ = c.__name__
            g[c.__name__] = c
    P, P3 = g['DPoint'], g['DPoint3']
    if 'DRec' not in g:
        @dataclasses.dataclass
        class DRec:
            payload: object = 0
            retries: int = 3
        DRec.__module__, DRec.__qualname__ = 'corpus_values', 'DRec'
        g['DRec'] = DRec
    R = g['DRec']
    # a record whose field cannot be compared with its default (numpy-array-like): its printer fails and is contained - which must not
    # change how later, well-behaved records of the same class are printed
    return [P3(1, 2, 3, ['a']), P(1, 2), [P3(4, 5, 6, ['b', 'c']), P(7)], P3(1), R(Uncomparable(), 5), R(1, 4), [R(2), R(Uncomparable())], R()]


class Uncomparable:
    def __eq__(self, other):
        raise TypeError('the truth value of a comparison with Uncomparable is ambiguous')

    def __ne__(self, other):
        raise TypeError('the truth value of a comparison with Uncomparable is ambiguous')

    __hash__ = object.__hash__

    def __repr__(self):
        return 'Uncomparable()'


class AutoViv:
    """a lazy settings tree: reading a missing attribute creates a child node (so probing an INSTANCE for an attribute changes it)"""
    _LEAVE = ('__verif_call__', '__deepcopy__', '__getstate__', '__setstate__', '__reduce_ex__', '__reduce__', '__getnewargs__', '__getnewargs_ex__',
              '__wrapped__', '__iter__', '__len__', '__fspath__')

    def __getattr__(self, name):
        if name in AutoViv._LEAVE:
            raise AttributeError(name)
        child = AutoViv()
        self.__dict__[name] = child
        return child

    def __repr__(self):
        return 'AutoViv(%s)' % ', '.join(sorted(self.__dict__))


def _attrs_values():
    """with the attrs extra installed: an attrs instance, and objects without a printer whose attribute access has side effects"""
    try:
        import attr
        import prettyprinter as pp
        pp.install_extras(['attrs'], warn_on_error=False)
    except Exception:
        return []
    g = globals()
    if 'APoint' not in g:
        APoint = attr.make_class('APoint', {'x': attr.ib(), 'y': attr.ib(default=0)})
        APoint.__module__, APoint.__qualname__ = 'corpus_values', 'APoint'
        g['APoint'] = APoint
    t = AutoViv()
    t.db.host
    return [g['APoint'](1, 2), AutoViv(), t, [AutoViv(), g['APoint'](3)]]


def corpus():
    import prettyprinter as pp
    dd = collections.defaultdict(list)
    dd['a'].append(1)
    dd['b']
    shared = [1, 2]
    cyc = [1]
    cyc.append(cyc)
    return [
        0, -0.0, 0.0, 1.5, float('inf'), float('nan'), True, None, Ellipsis, 10 ** 30,
        '', 'a', 'a' * 100, 'it\'s "q"', b'bytes \xff', 'multi\nline text here ' * 6,
        [], [1, 2, 3], (1,), (), {1, 2}, frozenset([1]), {}, {'a': 1, 'b': [1, 2, {'c': None}]},
        [shared, shared], cyc, {'k%d' % i: i for i in range(5)}, list(range(40)),
        [0.0, -0.0], [-0.0, 0.0], {2: 'b', 1: 'a'}, {'b': 2, 'a': 1},
        dd, collections.OrderedDict([(2, 1), (1, 2)]), collections.deque([1, 2, 3], maxlen=5), collections.Counter('abracadabra'),
        collections.ChainMap({'a': 1}, {'b': 2}), collections.ChainMap(collections.defaultdict(list, a=[1]), {'b': 2, 'c': 3}),
        pathlib.PurePosixPath('/usr/lib-x/python3.12/site-packages/' * 4), pathlib.PurePosixPath('/usr/lib-x/python3.12/site-packages/' * 4).as_posix(),
        {'p': pathlib.PurePosixPath('/usr/lib-x/python3.12/site-packages/' * 4).as_posix()},
        [pathlib.PurePosixPath('/opt/some-dir.d/with.dots-and-dashes/' * 3)], [pathlib.PurePosixPath('/opt/some-dir.d/with.dots-and-dashes/' * 3).as_posix()], types.MappingProxyType({'m': 1}), types.SimpleNamespace(b=1, a=[1]),
        datetime.datetime(2020, 1, 2, 3, 4, 5, 6), datetime.date(2020, 1, 2), datetime.time(1, 2), datetime.timedelta(days=-1, seconds=5),
        datetime.timezone.utc, datetime.timezone(datetime.timedelta(hours=2), 'X'),
        uuid.UUID(int=5), Color.RED, Point(1, [2]), functools.partial(int, '10', base=2), ValueError('bad', 2),
        pathlib.PurePosixPath('/a/b/' + 'c' * 90), Unregistered(), [Unregistered()],
        decimal.Decimal('1.5'), fractions.Fraction(1, 3), range(3), int, len, type(None),
        # C struct sequences: field names are read off repr(value), which cannot be parsed when an element's repr is not an expression (F19)
        time.struct_time((2020, 1, 2, 3, 4, 5, 3, 2, -1)), time.struct_time((Unregistered(), 1, 2, 3, 4, 5, 3, 2, -1)),
        [time.struct_time((1999, 12, 31, 23, 59, 59, 4, 365, 0))], os.terminal_size((80, 24)), sys.float_info,
        pathlib.PurePosixPath('//fileserver/projects/' + 'segment/' * 9 + 'end'),
        # a contained internal failure under a trailing comment, then ordinary trailing comments on the same printers
        # empty sets / frozensets at different levels (their form at the depth cut differs: set(...) vs set())
        set(), {'tags': set()}, [set(), [frozenset(), [set()]]], (frozenset(),),
        # keys that cannot be ordered among each other: with sort_dict_keys=True the entry order must still be a function of the value
        {1e16: float('-inf'), 'e': None, (1, 2): 3, None: 4, b'b': 5}, [{2: 'i', 'two': 's', (2,): 't'}, {('a', 1): 0, ('a', 'b'): 1}],
        # comments of several words that have to be wrapped (longer than any page width used), next to values that print one short comment
        [pp.comment('value', 'word ' * 30 + 'end'), 2], {'k': pp.comment([1], 'one two three four five six seven eight nine ten eleven twelve thirteen fourteen fifteen sixteen seventeen eighteen')},
        pp.comment(1, 'short'), [pp.comment(2, 'a b'), pp.comment(3, 'c')],
        _trailing(BadLen([1, 2]), 'on a failing list'), _trailing([1, 2, 3], 'and so on'), _trailing({'a': 1}, 'dict comment'), _trailing((1, 2), 'tuple comment'),
        # same-named classes
        _PlainStatus(), _EnumStatus.OK, [_EnumStatus.FAIL, _PlainStatus()],
        # predicate printers: the first-registered accepting predicate wins, whatever was printed before
        Marked('a'), Marked('b'), Marked('ab'), [Marked('ba'), Marked('b')], Marked('c'),
        # tuple keys that sort fine among each other, inserted in another order than the sorted one (next to the dicts above whose tuple
        # keys cannot be compared: whether two tuples compare depends on the values, not on their types)
        # strings that fit the default ribbon (71) but not a narrow one (30-60), inside a container (the group around them is decided by
        # the fitting predicate, which asks the string for its width under the ribbon in force)
        ['k' * 50], {'key': 'v' * 45}, ('w' * 38, 1),
        {(2, 1): 'b', (1, 2): 'a', (1, 1): 'c'}, [{('b', 2): 0, ('a', 3): 1}], {(3,): 0, (1, 'x'): 1, (2, 5): 2},
    ] + _responses() + _dataclass_values() + _attrs_values()
