"""C12: interpreter steps inside the package (sys.monitoring LINE events) on parametrised families at n, 2n, 4n, 8n:
bounded doubling ratios, and the cost refinement steps <= K * (model cost)."""
import os
import random
import sys
import warnings

from common import REPO, Driver
import values as V
from values import val_to_sx, settings_sx

import prettyprinter as pp
import subclasses as S

PKG_DIR = os.path.join(REPO, 'prettyprinter')
TOOL = 3


class _Budget(BaseException):
    pass


class Counter:
    def __init__(self, budget):
        self.n = 0
        self.budget = budget

    def __call__(self, code, line):
        if not code.co_filename.startswith(PKG_DIR):
            return sys.monitoring.DISABLE
        self.n += 1
        if self.n > self.budget:
            raise _Budget()


def count_steps(value, budget=4_000_000, **settings):
    mon = sys.monitoring
    c = Counter(budget)
    mon.use_tool_id(TOOL, 'verif-cost')
    mon.register_callback(TOOL, mon.events.LINE, c)
    mon.set_events(TOOL, mon.events.LINE)
    try:
        with warnings.catch_warnings():
            warnings.simplefilter('ignore')
            try:
                pp.pformat(value, **settings)
                over = False
            except _Budget:
                over = True
    finally:
        mon.set_events(TOOL, 0)
        mon.register_callback(TOOL, mon.events.LINE, None)
        mon.restart_events()
        mon.free_tool_id(TOOL)
    return c.n, over


def nest(f, n, base):
    v = base
    for _ in range(n):
        v = f(v)
    return v


FAMILIES = {
    'nested_lists': lambda n: nest(lambda v: [v], n, 0),
    'nested_lists_wide': lambda n: nest(lambda v: [1, v, 2], n, 0),
    'nested_dicts': lambda n: nest(lambda v: {'k': v}, n, 0),
    'nested_dicts_3keys': lambda n: nest(lambda v: {'a': 1, 'b': v, 'c': 3}, n, 0),
    'nested_tuples': lambda n: nest(lambda v: (v,), n, 0),
    'nested_calls': lambda n: nest(lambda v: S.CallObj(S.Ctor, (v,), []), n, 0),
    'nested_calls_kw': lambda n: nest(lambda v: S.CallObj(S.Ctor, (1,), [('kw', v)]), n, 0),
    'flat_list': lambda n: list(range(10 * n)),
    'flat_dict': lambda n: {i: str(i) for i in range(5 * n)},
    'string_words': lambda n: 'word ' * (8 * n),
    'string_unbreakable': lambda n: 'x' * (30 * n),
    'string_escapes': lambda n: '\\\'"\n' * (6 * n),
    'commented_lists': lambda n: nest(lambda v: pp.comment([v], 'c'), n, 0),
    'commented_elements': lambda n: [pp.comment(i, 'comment text number %d' % i) for i in range(4 * n)],
    'trailing_commented_lists': lambda n: nest(lambda v: pp.trailing_comment([v], 'tc'), n, 0),
    'commented_dict_keys': lambda n: nest(lambda v: {pp.comment('k', 'kc'): v}, n, 0),
    'deep_strings': lambda n: nest(lambda v: [v], n, 'a fairly long string that will have to be split somewhere'),
    'commented_call_args': lambda n: nest(lambda v: S.CallObj(S.Ctor, (pp.comment([v], 'c'),), []), n, 0),
    'commented_dict_values': lambda n: nest(lambda v: {'k': pp.comment(v, 'c')}, n, 0),      # known finding K3
}


def random_recipe(rng, n):
    wrappers = [lambda v: [v], lambda v: (v, 1), lambda v: {'k': v}, lambda v: S.CallObj(S.Ctor, (v,), []),
                lambda v: pp.comment([v], 'c'), lambda v: {'a': v, 'b': 2, 'c': 3}, lambda v: [v, 'some text here']]
    COMMENT, DICTS = 4, (2, 5)
    picks_i = []
    for _ in range(n):
        i = rng.randrange(len(wrappers))
        # a dict directly around a commented value is the exponential pattern of known finding K3 (its own family): not drawn here
        while picks_i and picks_i[-1] == COMMENT and i in DICTS:
            i = rng.randrange(len(wrappers))
        picks_i.append(i)
    picks = [wrappers[i] for i in picks_i]

    def build(m):
        v = 0
        for f in picks[:m]:
            v = f(v)
        return v
    return build

EXTRA = r"""
import sys, json
sys.path.insert(0, %r)
import sec_cost as C
import prettyprinter as pp
pp.install_extras(['ipython_repr_pretty', 'dataclasses', 'attrs'], warn_on_error=False)
sys.setrecursionlimit(100000)
import dataclasses
import collections, types
NT = collections.namedtuple('NT', 'child tag')

class Box:
    def __init__(self, child): self.child = child
    def _repr_pretty_(self, p, cycle):
        with p.group(4, 'Box(', ')'):
            p.breakable('')
            p.pretty(self.child)

class Pair:
    def __init__(self, a, b): self.a, self.b = a, b
    def _repr_pretty_(self, p, cycle):
        with p.group(2, 'Pair(', ')'):
            p.pretty(self.a); p.text(','); p.breakable(); p.pretty(self.b)

class KeyObj:
    # the documented way to make repr() pretty: __repr__ = pretty_repr
    def __init__(self, p): self.p = p
    __repr__ = pp.pretty_repr

@pp.register_pretty(KeyObj)
def _pk(v, ctx): return pp.pretty_call(ctx, KeyObj, v.p)

@dataclasses.dataclass
class DC:
    child: object
    tag: int = 0

class Flaky:
    # a printer that takes the trailing comment itself, renders its child and then fails with a TypeError
    def __init__(self, child): self.child = child
    def __repr__(self): return 'Flaky(...)'

@pp.register_pretty(Flaky)
def _pf(v, ctx, trailing_comment=None):
    from prettyprinter.prettyprinter import pretty_python_value
    pretty_python_value(v.child, ctx)
    raise TypeError('flaky')

class Both:
    # claimed by two predicate printers; the first renders the child and then fails
    def __init__(self, child): self.child = child
    def __repr__(self): return 'Both(...)'

def _both_first(v, ctx):
    from prettyprinter.prettyprinter import pretty_python_value
    pretty_python_value(v.child, ctx)
    raise KeyError('late failure')

def _both_second(v, ctx):
    return pp.pretty_call(ctx, Both, v.child)

pp.register_pretty(predicate=lambda v: isinstance(v, Both))(_both_first)
pp.register_pretty(predicate=lambda v: isinstance(v, Both))(_both_second)

class MyDict(dict):
    pass

class MyList(list):
    pass

def nest(f, n, base):
    v = base
    for _ in range(n): v = f(v)
    return v

FAMS = {
    # a value two predicate printers accept, the first of which fails after it rendered the child (the failure is contained at the value:
    # one invocation per level, not one per accepting predicate per level)
    'two_predicates_first_fails_late': (lambda n: nest(Both, n, 1), {}),
    # nested instances of plain subclasses of the built-in containers (printed as Cls(<literal>): the literal is rendered once)
    'nested_dict_subclass_instances': (lambda n: nest(lambda v: MyDict({'k': v}), n, 1), {}),
    'nested_list_subclass_instances': (lambda n: nest(lambda v: MyList([v, 0]), n, 1), {}),
    # binary data: nearly every byte is written as a four-column escape, in a literal that has to be split
    'binary_bytes': (lambda n: [bytes(range(256)) * n], {}),
    'binary_bytes_nested': (lambda n: nest(lambda v: [v, bytes(range(128, 256)) * 2], n, b'\xff' * 50), {}),
    # failing printers at every level, each under a trailing comment (the dispatcher may have to call a printer a second time
    # without the comment - never more often): a printer raising TypeError after it rendered its child; comment texts of a wrong type
    'failing_printers_under_trailing_comments': (lambda n: nest(lambda v: pp.trailing_comment(Flaky(v), 'c'), n, 1), {}),
    'trailing_comments_of_wrong_type': (lambda n: nest(lambda v: pp.trailing_comment([v], b'c'), n, 1), {}),
    # comments on the arguments / fields of call-style printed values at every level (a printer may render an argument once per
    # layout alternative it builds - not once per alternative per level)
    'nested_namedtuples_with_trailing_comments': (lambda n: nest(lambda v: pp.trailing_comment(NT(v, 0), 'c'), n, 1), {}),
    'nested_namedtuples_with_commented_fields': (lambda n: nest(lambda v: NT(pp.comment(v, 'c'), 0), n, 1), {}),
    'nested_calls_with_commented_argument': (lambda n: nest(lambda v: KeyObj(pp.comment(v, 'c')), n, 1), {}),
    'nested_calls_with_trailing_commented_argument': (lambda n: nest(lambda v: KeyObj(pp.trailing_comment(v, 'c')), n, 1), {}),
    'nested_namespaces_with_commented_fields': (lambda n: nest(lambda v: types.SimpleNamespace(a=pp.comment(v, 'c'), b=0), n, 1), {}),
    'trailing_comments_of_wrong_type_in_dicts': (lambda n: nest(lambda v: pp.trailing_comment({'k': v}, b'c'), n, 1), {}),
    'repr_pretty_nested': (lambda n: nest(Box, n, 1), {}),
    'repr_pretty_pairs': (lambda n: nest(lambda v: Pair(0, v), n, 1), {}),
    'repr_pretty_in_lists': (lambda n: nest(lambda v: [Box(v)], n, 1), {}),
    'unorderable_keys_with_pretty_repr': (lambda n: nest(lambda v: {KeyObj(v): 1, 'other': 2}, n, 1), {'sort_dict_keys': True}),
    # the same with sorting switched on through set_default_config, so that a repr() that re-enters the printer sorts too
    'unorderable_keys_with_pretty_repr_default_sorted': (lambda n: nest(lambda v: {KeyObj(v): 1, 2: 2}, n, 1), {'_defaults': {'sort_dict_keys': True}}),
    'unorderable_keys_flat': (lambda n: {**{KeyObj(i): i for i in range(3 * n)}, **{str(i): i for i in range(3 * n)}}, {'sort_dict_keys': True}),
    'nested_dataclasses': (lambda n: nest(lambda v: DC(v), n, 1), {}),
    # sorting dict keys: deeply nested tuple keys, with a comment on the innermost element / equal but for an innermost pair that `<` cannot order
    'sorted_deep_tuple_keys_commented': (lambda n: {nest(lambda v: (v,), n, pp.comment(1, 'c')): 1, nest(lambda v: (v,), n, 2): 2, (0,): 0},
                                         {'sort_dict_keys': True}),
    'sorted_deep_tuple_keys_unordered': (lambda n: {nest(lambda v: (v, 0), n, 1j): 1, nest(lambda v: (v, 0), n, 2j): 2, nest(lambda v: (v, 0), n, 1): 3},
                                         {'sort_dict_keys': True}),
    'sorted_many_mixed_keys': (lambda n: {**{i: 0 for i in range(4 * n)}, **{str(i): 0 for i in range(4 * n)}, **{(i, 'x'): 0 for i in range(2 * n)}},
                               {'sort_dict_keys': True}),
}
sizes = json.loads(sys.argv[1])
rows = {}
for name, (fam, st) in FAMS.items():
    steps = []
    st = dict(st)
    dflt = st.pop('_defaults', None)
    for n in sizes:
        if dflt:
            pp.set_default_config(**dflt)
        try:
            import warnings
            with warnings.catch_warnings():
                warnings.simplefilter('ignore')
                s, over = C.count_steps(fam(n), **st)
        finally:
            if dflt:
                pp.set_default_config(sort_dict_keys=False)
        steps.append((n, s, over))
        if over:
            break
    rows[name] = steps
print('@@' + json.dumps(rows))
"""


def extra_families(sizes):
    """families that need extras / registrations of their own: measured in a fresh interpreter"""
    import json
    import subprocess
    here = os.path.dirname(os.path.abspath(__file__))
    p = subprocess.run([sys.executable, '-c', EXTRA % (here,), json.dumps(sizes)], stdout=subprocess.PIPE, stderr=subprocess.PIPE, text=True, timeout=1800)
    for line in p.stdout.splitlines():
        if line.startswith('@@'):
            return json.loads(line[2:])
    raise RuntimeError('extra cost families produced no result: ' + p.stderr[-500:])


def cost_section(tier, seed):
    rng = random.Random(seed * 59 + 16)
    base = 5 if tier == 'quick' else 6
    mults = [1, 2, 4, 8] if tier == 'thorough' else [1, 2, 4]
    fams = dict(FAMILIES)
    for i in range(3 if tier == 'quick' else 12):
        rec = random_recipe(rng, base * mults[-1])
        fams['random_recipe_%d' % i] = rec
    drv = Driver()
    rows = {}
    fails = []
    mism = []
    tot = nt = 0
    RATIO = 9.0          # doubling the size may multiply the steps by at most this (cubic growth = 8)
    K = None
    try:
        for name, fam in fams.items():
            steps = []
            model = []
            for m in mults:
                n = base * m
                v = fam(n)
                s, over = count_steps(v)
                tot += 1
                steps.append((n, s, over))
                if over:
                    # the model's cost function would faithfully take as long as the implementation: not asked beyond the step budget
                    model.append(None)
                    break
                if n > 20:
                    # the model works on document *trees*: a sub-document that the implementation shares between the two alternatives
                    # of a comment layout is a copy there, so its cost function needs 2^n steps on nests the implementation prints in
                    # linear time.  The cost refinement is checked up to n = 20; beyond that only the measured step counts are.
                    model.append(None)
                    continue
                g = drv.ask('(cost %s %s)' % (val_to_sx(v), settings_sx(4, 79, 71, None, 1000, 0)))
                try:
                    _ok, calls, work = g.strip('()').split()
                    model.append(int(calls) + int(work))
                except Exception:
                    model.append(None)
            rows[name] = {'steps': steps, 'model_cost': model}
            ratios = [steps[i + 1][1] / max(1, steps[i][1]) for i in range(len(steps) - 1)]
            rows[name]['ratios'] = [round(r, 2) for r in ratios]
            bad = None
            if any(o for _, _, o in steps):
                bad = 'step budget exceeded at n=%d' % steps[-1][0]
            elif ratios and max(ratios) > RATIO:
                bad = 'doubling ratio %.1f' % max(ratios)
            # cost refinement: steps <= K * model cost, K calibrated on the unchanged tree (see KREF) with a 4x margin
            if not bad:
                for (n, s, _), mc in zip(steps, model):
                    if mc and s > KREF * 4 * mc:
                        bad = 'steps %d exceed %d x model cost %d at n=%d' % (s, KREF * 4, mc, n)
                        break
            if bad:
                fails.append({'kind': 'cost-family', 'family': name, 'why': bad, 'steps': steps, 'ratios': rows[name]['ratios']})
            nt += 1
    finally:
        drv.close()
    for name, steps in extra_families([base * m for m in mults]).items():
        steps = [tuple(x) for x in steps]
        tot += len(steps)
        nt += 1
        ratios = [steps[i + 1][1] / max(1, steps[i][1]) for i in range(len(steps) - 1)]
        rows[name] = {'steps': steps, 'model_cost': [None] * len(steps), 'ratios': [round(r, 2) for r in ratios]}
        bad = None
        if any(o for _, _, o in steps):
            bad = 'step budget exceeded at n=%d' % steps[-1][0]
        elif ratios and max(ratios) > RATIO:
            bad = 'doubling ratio %.1f' % max(ratios)
        if bad:
            fails.append({'kind': 'cost-family', 'family': name, 'why': bad, 'steps': steps, 'ratios': rows[name]['ratios']})
    stats = {'evaluations': tot, 'distinct_nontrivial': nt, 'families': len(rows), 'sizes': [base * m for m in mults],
             'ratio_limit': RATIO, 'rows': rows, 'mismatches': 0,
             'samples': [{'family': 'nested_dicts_3keys', 'steps': rows['nested_dicts_3keys']['steps']}],
             'rule': 'LINE events inside /repo/prettyprinter (sys.monitoring) for %d families (incl. 23 measured in a fresh interpreter with the ipython_repr_pretty / dataclasses / attrs extras: nested _repr_pretty_ objects, unorderable dict keys whose repr is pretty_repr, nested dataclasses) at n = %s; a family fails if a doubling multiplies the step count by more than %.0f, '
                     'if the step budget is exceeded, or if steps exceed 4 x the calibrated constant x the model cost (printer invocations + machine and lookahead iterations); '
                     'non-trivial = families measured' % (len(rows), [base * m for m in mults], RATIO)}
    return stats, mism, fails


KREF = 100     # measured on the unchanged tree: max over families of steps / model cost is about 96 (string_words; splitting work is not in the model cost)
