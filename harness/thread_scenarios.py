"""Scenarios for the line-boundary scheduler of C20 (linesched.py): each is (name, setup(pp) -> values, settings list).
setup runs once in a pristine interpreter state; nothing is printed before the schedules fork from it."""
import collections
import dataclasses
import datetime
import enum
import pathlib
import uuid


def _core(pp):
    from prettyprinter import pretty_call

    class Direct:
        def __init__(self, x):
            self.x = x

    class Direct2:
        def __init__(self, x):
            self.x = x

    class Lazy:
        def __init__(self, x):
            self.x = x

    class LazySub(Lazy):
        pass

    class LazySub2(LazySub):
        pass

    class LazySub3(LazySub2):
        # the by-name printer sits three classes up the MRO
        pass

    class Lazy2:
        def __init__(self, x):
            self.x = x

    class Plain:
        def __repr__(self):
            return 'Plain()'

    class Pred:
        def __init__(self, x):
            self.x = x

        def __repr__(self):
            return 'PredRepr(%r)' % self.x

    @pp.register_pretty(Direct)
    def p_direct(v, ctx):
        return pretty_call(ctx, 'Direct', v.x)

    @pp.register_pretty(Direct2)
    def p_direct2(v, ctx):
        return pretty_call(ctx, 'Direct2', v.x)

    @pp.register_pretty(Lazy.__module__ + '.' + Lazy.__qualname__)
    def p_lazy(v, ctx):
        return pretty_call(ctx, 'Lazy', v.x)

    @pp.register_pretty(Lazy2.__module__ + '.' + Lazy2.__qualname__)
    def p_lazy2(v, ctx):
        return pretty_call(ctx, 'Lazy2', v.x)

    @pp.register_pretty(predicate=lambda v: isinstance(v, Pred))
    def p_pred(v, ctx):
        return pretty_call(ctx, 'Pred', v.x)

    return [
        [Direct(5), 'some str', Lazy(1)],
        {'k': LazySub(2), 'n': 12},
        (Plain(), 3.5, Direct2('x')),
        Lazy(Lazy2('deep')),
        [Pred(1), b'bytes', None],
        Direct(5),
        Lazy2(0),
        12,
        'plain',
        LazySub3(7),
        [LazySub2(8), LazySub3(9)],
        [Lazy(1), Lazy2(0)],
    ]


# (scenario, index of the value thread 1 prints, index of the value thread 2 prints): every switch point is tried, also in the quick tier - values that use two printers
# registered lazily by name one after the other (a race in the first promotion may only show when the second one is looked up)
DENSE = {('core', 11, 0), ('core', 11, 11), ('core', 3, 0)}        # thread 2 prints a value that uses the first of the two too


def _stdlib(pp):
    class Colour(enum.Enum):
        RED = 1

    class Flagged(enum.IntFlag):
        A = 1
        B = 2
    return [
        collections.OrderedDict([(1, 2)]),
        collections.Counter('aab'),
        collections.defaultdict(list, {1: [2]}),
        collections.deque([1, 2], maxlen=3),
        uuid.UUID(int=5),
        datetime.datetime(2020, 1, 2, 3, 4),
        datetime.timedelta(days=1, seconds=3),
        Colour.RED,
        Flagged.A,
        [Colour.RED, uuid.UUID(int=6)],
        pathlib.PosixPath('/usr/lib'),          # PurePath, whose printer is registered by name, is four classes up
        pathlib.PurePosixPath('/etc'),
    ]


def _extras(pp):
    pp.install_extras(include=['dataclasses', 'attrs', 'ipython_repr_pretty'], warn_on_error=False)
    import attr

    @dataclasses.dataclass
    class DC:
        a: int
        b: list = dataclasses.field(default_factory=list)

    @attr.s
    class AT:
        a = attr.ib()
        b = attr.ib(default=3)

    class Mixin:
        def _repr_pretty_(self, p, cycle):
            with p.group(4, type(self).__name__ + '(', ')'):
                for i, x in enumerate(self.items):
                    if i:
                        p.text(',')
                        p.breakable()
                    p.pretty(x)

    class Node(Mixin):
        def __init__(self, *items):
            self.items = items

    class Leafy(Mixin):
        def __init__(self, *items):
            self.items = items

    return [
        DC(1, [2, 3]),
        AT(1),
        Node('i', 'x'),
        Node('m', 1, 2),
        Leafy(Node('a'), 7),
        [DC(2), AT(5, 6)],
        [Node('p', 'q'), Leafy('r')],
    ]


def _comments(pp):
    """comments and trailing comments on values whose printers are used for the first time by two threads at once: printers with and
    without a trailing_comment parameter, registered directly, by name (pending) and bundled"""
    from prettyprinter import pretty_call

    class Plain2:
        def __init__(self, x):
            self.x = x

    class LazyC:
        def __init__(self, x):
            self.x = x

    @pp.register_pretty(Plain2)
    def p_plain2(v, ctx):
        return pretty_call(ctx, 'Plain2', v.x)

    @pp.register_pretty(LazyC.__module__ + '.' + LazyC.__qualname__)
    def p_lazyc(v, ctx, trailing_comment=None):
        return pretty_call(ctx, 'LazyC', v.x)

    return [
        pp.trailing_comment([1, 2], 'tc list'),
        pp.trailing_comment({'a': 1}, 'tc dict'),
        pp.trailing_comment(Plain2(5), 'tc direct'),
        pp.trailing_comment(LazyC(1), 'tc lazy'),
        pp.trailing_comment(collections.OrderedDict([(1, 2)]), 'tc od'),
        [pp.comment(1, 'c'), pp.comment(Plain2(2), 'on a value')],
        pp.trailing_comment((1, [2]), 'tc tuple'),
    ]


def _warm(pp):
    """a WARM interpreter: the setup itself prints a few hundred distinct long strings and the scenario values, so that whatever the
    package remembers between calls (bounded caches included) is populated - possibly to capacity - before the two threads start; one
    thread then prints a value it has printed before, the other a value with many strings never seen"""
    import warnings
    seen = [['%s %03d ' % (w, i) * 12 for i in range(1)] for w in ('alpha', 'beta', 'gamma')]
    never = ['never seen %03d ' % i * 10 for i in range(66)]
    more_bytes = [b'bin %03d ' % i * 12 for i in range(8)]
    with warnings.catch_warnings():
        warnings.simplefilter('ignore')
        for i in range(300):
            pp.pformat(['warm-up %03d ' % i * 11], width=40)
        # the values that will be printed again go last, three times over: whatever a bounded cache evicted while the first round was
        # inserted is back after the second, and nothing is inserted (or evicted) by the third
        bare = 'delta 000 ' * 12         # printed on its own: few package lines, so that every switch point can be tried
        for _ in range(3):
            pp.pformat(bare, width=40)
            for v in seen:
                pp.pformat(v, width=40)
            pp.pformat({'k': seen[2][0]}, width=40)
    return [bare, never, seen[1], more_bytes, {'k': seen[2][0]}]


def scenarios():
    return [
        ('core', _core, [{}, {'width': 12}]),
        ('comments', _comments, [{}]),
        ('warm', _warm, [{'width': 40}]),
        ('stdlib', _stdlib, [{}]),
        ('extras', _extras, [{}, {'width': 16}]),
    ]
