"""Shared plumbing for the checks: paths, lake build, axiom audit, driver process, evidence, findings, verdicts."""
import fcntl
import json
import os
import random
import re
import subprocess
import sys
import time

VERIF = os.path.dirname(os.path.dirname(os.path.abspath(__file__)))
REPO = os.environ.get('VERIF_REPO', '/repo')
LEAN = os.path.join(VERIF, 'lean')
DRIVER = os.path.join(LEAN, '.lake', 'build', 'bin', 'ppdriver')
# a run against a deliberately modified tree (tools/try_seed.sh) writes its evidence and replays elsewhere: the committed evidence
# must come from runs against /repo itself
EVIDENCE = os.environ.get('VERIF_EVIDENCE_DIR') or os.path.join(VERIF, 'evidence')
REPLAYS = os.environ.get('VERIF_REPLAYS_DIR') or os.path.join(VERIF, 'replays')
CORPUS = os.path.join(VERIF, 'corpus')
HOOK_GUARD = 'PRETTYPRINTER_VERIF'
STD_AXIOMS = {'propext', 'Classical.choice', 'Quot.sound'}
NCPU = min(16, os.cpu_count() or 1)

if REPO not in sys.path:
    sys.path.insert(0, REPO)


def seed():
    return int(os.environ.get('VERIF_SEED', '0') or 0)


class HarnessError(Exception):
    """Something went wrong in the machinery itself (exit 2, never a violation)."""


class ImplTimeout(BaseException):
    """the code under test did not return within the time limit (reported like an exception it raised: "always terminates").
    A BaseException, and the timer keeps firing once a second: the package's own `except Exception` handlers (failure containment)
    must not be able to swallow the time limit."""


_timeouts_seen = [0]


class time_limit:
    """`with time_limit(): <call into /repo>` - raises ImplTimeout in the calling (main) thread of this process after `seconds`
    (SIGALRM; generous: the unchanged tree needs milliseconds).  After three timeouts in one process the limit drops to 3 s, and
    after six the call is not made at all any more (ImplTimeout at once), so that code that hangs on a whole family of inputs does
    not stall the check."""

    def __init__(self, seconds=45):
        self.seconds = seconds if _timeouts_seen[0] < 3 else 3

    def _fire(self, signum, frame):
        if not self.armed:
            return          # a late tick of the repeating timer while the harness is already cleaning up
        _timeouts_seen[0] += 1
        raise ImplTimeout('no result after %d s' % self.seconds)

    def __enter__(self):
        import signal
        import threading
        self.active = threading.current_thread() is threading.main_thread()
        self.armed = False
        if _timeouts_seen[0] >= 6:
            self.active = False
            raise ImplTimeout('not tried: six earlier calls in this process did not return')
        self.armed = False
        if self.active:
            self.old = signal.signal(signal.SIGALRM, self._fire)
            signal.setitimer(signal.ITIMER_REAL, self.seconds, 1.0)
            self.armed = True
        return self

    def __exit__(self, *exc):
        import signal
        self.armed = False
        if self.active:
            signal.setitimer(signal.ITIMER_REAL, 0)
            signal.signal(signal.SIGALRM, self.old)
        return False


# --------------------------------------------------------------------------------------------
# Lean side

class _Lock:
    def __init__(self, name):
        self.path = os.path.join(LEAN, '.lake-' + name + '.lock')

    def __enter__(self):
        os.makedirs(os.path.dirname(self.path), exist_ok=True)
        self.f = open(self.path, 'w')
        fcntl.flock(self.f, fcntl.LOCK_EX)

    def __exit__(self, *a):
        fcntl.flock(self.f, fcntl.LOCK_UN)
        self.f.close()


def lake_build(targets=('PP', 'ppdriver'), clean=False):
    """Build the Lean library and the driver.  Returns (ok, output)."""
    with _Lock('build'):
        if clean:
            subprocess.run(['rm', '-rf', os.path.join(LEAN, '.lake')])
        p = subprocess.run(['lake', 'build', *targets], cwd=LEAN, stdout=subprocess.PIPE,
                           stderr=subprocess.STDOUT, text=True)
        return p.returncode == 0, p.stdout


FORBIDDEN = re.compile(r'\bsorry\b|\badmit\b|^axiom\s|native_decide|bv_decide|implemented_by|\bunsafe\s|maxHeartbeats\s+0|^\s*partial def',
                       re.M)


def _strip_comments(src):
    # remove /- ... -/ (nested not needed here) and -- ... comments
    src = re.sub(r'/-.*?-/', '', src, flags=re.S)
    src = re.sub(r'--.*', '', src)
    return src


def grep_forbidden():
    """Source-level audit of everything under lean/PP except the driver (I/O loop, codec)."""
    hits = []
    for root, _dirs, files in os.walk(os.path.join(LEAN, 'PP')):
        if os.sep + 'Driver' in root:
            continue
        for fn in files:
            if not fn.endswith('.lean'):
                continue
            path = os.path.join(root, fn)
            src = _strip_comments(open(path).read())
            for m in FORBIDDEN.finditer(src):
                hits.append('%s: %s' % (os.path.relpath(path, LEAN), m.group(0).strip()))
    return hits


def audit(theorems, tag, modules=None):
    """#print axioms for each theorem.  Returns dict name -> {'ok': bool, 'axioms': [...], 'msg': str}."""
    res = {}
    if not theorems:
        return res
    path = os.path.join(LEAN, 'AuditTmp_%s_%d.lean' % (tag, os.getpid()))
    with open(path, 'w') as f:
        for m in (modules or ['PP']):
            f.write('import %s\n' % m)
        for t in theorems:
            f.write('#print axioms %s\n' % t)
    try:
        p = subprocess.run(['lake', 'env', 'lean', path], cwd=LEAN, stdout=subprocess.PIPE,
                           stderr=subprocess.STDOUT, text=True)
    finally:
        try:
            os.remove(path)
        except OSError:
            pass
    out = p.stdout
    for t in theorems:
        short = t
        m = re.search(r"'%s' depends on axioms: \[([^\]]*)\]" % re.escape(short), out, re.S)
        if m:
            ax = [a.strip() for a in m.group(1).replace('\n', ' ').split(',') if a.strip()]
            bad = [a for a in ax if a not in STD_AXIOMS]
            res[t] = {'ok': not bad, 'axioms': ax, 'msg': 'non-standard axioms: %s' % bad if bad else ''}
        elif re.search(r"'%s' does not depend on any axioms" % re.escape(short), out):
            res[t] = {'ok': True, 'axioms': [], 'msg': ''}
        else:
            res[t] = {'ok': False, 'axioms': [], 'msg': 'theorem not found or does not check'}
    return res


class Driver:
    """A ppdriver subprocess speaking the one-line-in / one-line-out protocol."""

    def __init__(self):
        if not os.path.exists(DRIVER):
            raise HarnessError('driver not built: ' + DRIVER)
        self.p = subprocess.Popen([DRIVER], stdin=subprocess.PIPE, stdout=subprocess.PIPE, text=True, bufsize=1 << 16)

    def ask(self, line):
        self.p.stdin.write(line + '\n')
        self.p.stdin.flush()
        out = self.p.stdout.readline()
        if not out:
            raise HarnessError('driver died on: ' + line[:200])
        return out.rstrip('\n')

    def ask_many(self, lines):
        """One request at a time (a bulk write can deadlock on the two pipe buffers)."""
        return [self.ask(l) for l in lines]

    def close(self):
        try:
            self.p.stdin.close()
            self.p.wait(timeout=5)
        except Exception:
            self.p.kill()


# --------------------------------------------------------------------------------------------
# findings, verdicts, evidence

def load_findings():
    path = os.path.join(VERIF, 'known_findings.json')
    if not os.path.exists(path):
        return {'known': [], 'fixed': []}
    return json.load(open(path))


def write_replay(prop, name, payload):
    os.makedirs(REPLAYS, exist_ok=True)
    path = os.path.join(REPLAYS, '%s_%s.json' % (prop, name))
    with open(path, 'w') as f:
        json.dump(payload, f, indent=1, default=str)
    return path


class Report:
    """Collects what one check run did and turns it into the evidence file, the verdict lines and the exit code."""

    def __init__(self, prop, tier):
        self.prop = prop
        self.tier = tier
        self.t0 = time.time()
        self.obligations = {}      # theorem -> audit result
        self.sections = {}         # name -> stats dict
        self.violations = []       # (replay path, found_input: bool)
        self.known_printed = []
        self.samples = []
        self.notes = []
        self.assumptions = []
        self.evaluations = 0
        self.nontrivial = 0
        self.traces = 0
        self.exhaustive = None
        self.rule = ''
        self.extra = {}

    def violation(self, name, payload, found_input=True):
        path = write_replay(self.prop, name, payload)
        self.violations.append((path, found_input))
        tail = '' if found_input else ' no-failing-input-found'
        print('VIOLATION property=%s replay=%s%s' % (self.prop, path, tail), flush=True)

    def known(self, text):
        self.known_printed.append(text)
        print('KNOWN-FINDING: property=%s %s' % (self.prop, text), flush=True)

    def add_section(self, name, stats):
        self.sections[name] = stats
        self.evaluations += stats.get('evaluations', 0)
        self.nontrivial += stats.get('distinct_nontrivial', 0)
        self.traces += stats.get('traces_validated_against_impl', stats.get('evaluations', 0))
        for s in stats.get('samples', [])[:3]:
            if len(self.samples) < 12:
                self.samples.append({'section': name, 'case': s})

    def finish(self, checker_cmd, trusted_base):
        os.makedirs(EVIDENCE, exist_ok=True)
        n_obl = len(self.obligations)
        n_dis = sum(1 for r in self.obligations.values() if r['ok'])
        cov = {
            'obligations': n_obl,
            'discharged': n_dis,
            'checker_cmd': checker_cmd,
            'trusted_base': trusted_base,
            'theorems': {k: (v['axioms'] if v['ok'] else 'FAILED: ' + v['msg']) for k, v in self.obligations.items()},
            'evaluations': self.evaluations,
            'distinct_nontrivial': self.nontrivial,
            'traces_validated_against_impl': self.traces,
            'rule': self.rule,
            'samples': self.samples or [{'note': 'no correspondence cases in this run'}],
            'sections': {k: {kk: vv for kk, vv in v.items() if kk != 'samples'} for k, v in self.sections.items()},
            'known_findings_printed': self.known_printed,
            'notes': self.notes,
        }
        if self.exhaustive is not None:
            cov['exhaustive'] = self.exhaustive
        cov.update(self.extra)
        ev = {
            'property_id': self.prop,
            'tier': self.tier,
            'seed': seed(),
            'level': 'proof',
            'coverage': cov,
            'assumptions': self.assumptions,
            'wall_s': round(time.time() - self.t0, 2),
            'violations': len(self.violations),
        }
        with open(os.path.join(EVIDENCE, self.prop + '.json'), 'w') as f:
            json.dump(ev, f, indent=1, default=str)
        return 1 if self.violations else 0


def parse_sx(s):
    """parse one S-expression of the driver protocol into nested lists of atoms (strings)"""
    toks = s.replace('(', ' ( ').replace(')', ' ) ').split()
    pos = 0

    def go():
        nonlocal pos
        t = toks[pos]
        pos += 1
        if t == '(':
            out = []
            while toks[pos] != ')':
                out.append(go())
            pos += 1
            return out
        return t
    return go()
