"""C07: printers of standard-library types vs the model; eval oracle with the types' modules in scope."""
import collections
import datetime
import enum
import functools
import multiprocessing as mp
import pathlib
import random
import sys
import types
import uuid
import warnings

from common import NCPU
import docs as DOCS
import values as V
import sec_values
from sec_values import impl_piece, settings_for, _driver, ast_of
from values import val_to_sx, settings_sx, qual, fn_sx, Call
from sec_strings import pchars

import prettyprinter as pp
import pytz

P = sys.modules['prettyprinter.prettyprinter']

TOK_FN, TOK_BUILTIN = 3, 1


class Color(enum.Enum):
    RED = 1
    GREEN = 'g'


class Flag(enum.IntFlag):
    A = 1
    B = 2


Point = collections.namedtuple('Point', 'x y')
Single = collections.namedtuple('Single', 'only')


def a_function(x):
    return x


def callable_sx(f):
    """how pretty_type / pretty_function / pretty_builtin_function print a callable: identifier + comment"""
    b, name = qual(f)
    ident = '(ident (%d %s))' % (TOK_BUILTIN if b else TOK_FN, DOCS.cps(name))
    if isinstance(f, type):
        if f is type(None):
            return None
        if f.__module__ in V.IMPLICIT:
            return ident
        return '(cmt %s (%s))' % (ident, pchars('class'))
    if isinstance(f, types.FunctionType):
        return '(cmt %s (%s))' % (ident, pchars('function'))
    if isinstance(f, types.BuiltinFunctionType):
        is_method = not isinstance(getattr(f, '__self__', None), types.ModuleType)
        return '(cmt %s (%s))' % (ident, pchars('built-in bound method' if is_method else 'built-in function'))
    return None


def std_sx(v):
    """protocol term for a stdlib value, or None if `v` is not one (then values.val_to_sx handles it)"""
    t = type(v)
    if t is datetime.timedelta:
        return '(td %d %d %d)' % (v.days, v.seconds, v.microseconds)
    if t is datetime.datetime:
        return '(dt %d %d %d %d %d %d %d %s %d)' % (v.year, v.month, v.day, v.hour, v.minute, v.second, v.microsecond,
                                                    'none' if v.tzinfo is None else sx(v.tzinfo), v.fold)
    if t is datetime.time:
        return '(tm %d %d %d %d %s %d)' % (v.hour, v.minute, v.second, v.microsecond, 'none' if v.tzinfo is None else sx(v.tzinfo), v.fold)
    if t is datetime.date:
        return '(date %d %d %d)' % (v.year, v.month, v.day)
    if t is datetime.timezone:
        args = v.__getinitargs__()
        return '(tz %d %s %s)' % (1 if v == datetime.timezone.utc else 0, sx(args[0]),
                                  'none' if len(args) < 2 else '(%s)' % pchars(args[1]))
    if isinstance(v, datetime.tzinfo):
        if v == pytz.utc:
            return '(ident (%d %s))' % (TOK_FN, DOCS.cps('pytz.utc'))
        if isinstance(v, pytz.tzinfo.DstTzInfo):
            if v.zone and pytz.timezone(v.zone) == v:
                return sx(Call(pytz.timezone, (v.zone,)))
            c = sx(Call(pytz.tzinfo.DstTzInfo, ((v._utcoffset, v._dst, v._tzname),)))
            return '(cmt %s (%s))' % (c, pchars('In timezone %s' % v.zone)) if v.zone else c
        if isinstance(v, pytz.tzinfo.BaseTzInfo):
            return sx(Call(pytz.timezone, (v.zone,)))
        return None
    if isinstance(v, collections.OrderedDict):
        return sx(Call(t, (list(v.items()),)))
    if isinstance(v, collections.defaultdict):
        return '(call %s (%s %s) ())' % (fn_sx(t), sx(v.default_factory), sx(dict(v)))
    if isinstance(v, collections.deque):
        return '(deque %s (%s) %d)' % (fn_sx(t), ' '.join(sx(x) for x in v), -1 if v.maxlen is None else v.maxlen)
    if isinstance(v, collections.Counter):
        return sx(Call(t, (dict(v.most_common()),)))
    if isinstance(v, collections.ChainMap):
        return '(chainmap %s %d%s)' % (fn_sx(t), 1 if (v.maps and not v.maps[0]) else 0, ''.join(' ' + sx(m) for m in v.maps))
    if t is types.MappingProxyType:
        return sx(Call(t, (dict(v),)))
    if t is uuid.UUID:
        return sx(Call(t, (str(v),)))
    if isinstance(v, enum.Enum):
        b, name = qual(t)
        return '(ident (%d %s) (%d %s))' % (TOK_BUILTIN if b else TOK_FN, DOCS.cps(name), TOK_FN, DOCS.cps('.' + v.name))
    if t is types.SimpleNamespace:
        return sx(Call(t, (), [(k, v.__dict__[k]) for k in sorted(v.__dict__)]))
    if isinstance(v, tuple) and P._is_namedtuple(v):
        return sx(Call(t, (), list(zip(t._fields, v))))
    if isinstance(v, (functools.partial, functools.partialmethod)):
        return sx(Call(t, (v.func,) + tuple(v.args), list(v.keywords.items())))
    if isinstance(v, BaseException):
        return sx(Call(t, tuple(v.args)))
    if isinstance(v, pathlib.PurePath):
        return '(path %s (%s))' % (fn_sx(t), pchars(v.as_posix()))
    if callable(v) and not isinstance(v, (Call,)) and not hasattr(v, '__verif_call__'):
        return callable_sx(v)
    return None


def sx(v):
    """val_to_sx extended with the stdlib types, recursively"""
    if isinstance(v, P._CommentedValue):
        return '(cmt %s (%s))' % (sx(v.value), pchars(v.comment))
    if isinstance(v, P._TrailingCommentedValue):
        return '(trl %s (%s))' % (sx(v.value), pchars(v.comment))
    desc = getattr(v, '__verif_call__', None)
    if desc is not None and not isinstance(v, Call):
        return sx(desc())
    if isinstance(v, Call):
        return '(call %s (%s) (%s))' % (fn_sx(v.fn), ' '.join(sx(a) for a in v.args),
                                         ' '.join('((%s) %s)' % (DOCS.cps(k), sx(x)) for k, x in v.kwargs))
    r = std_sx(v) if not isinstance(v, (int, float, str, bytes, type(None), bool)) and v is not Ellipsis else None
    if r is not None:
        return r
    if type(v) is list:
        return '(seq 0 none%s)' % ''.join(' ' + sx(x) for x in v)
    if type(v) is tuple:
        return '(seq 1 none%s)' % ''.join(' ' + sx(x) for x in v)
    if type(v) is dict:
        return '(dict none%s)' % ''.join(' (%s %s)' % (sx(k), sx(x)) for k, x in v.items())
    return val_to_sx(v)


def instances(rng):
    td = datetime.timedelta
    tz2 = datetime.timezone(td(hours=2))
    out = [
        td(0), td(days=1), td(days=-1), td(microseconds=-1), td(microseconds=1), td.min, td.max, td(days=365), td(days=366), td(days=730, hours=1),
        td(days=3 * 365 + 7, seconds=3661, microseconds=1001), td(seconds=59), td(milliseconds=1), -td(days=400, minutes=5),
        datetime.datetime(2020, 1, 2), datetime.datetime(2020, 1, 2, 3), datetime.datetime(2020, 1, 2, 0, 4), datetime.datetime(2020, 1, 2, 0, 0, 5),
        datetime.datetime(2020, 1, 2, 0, 0, 0, 6), datetime.datetime(2020, 1, 2, 3, 4, 5, 6), datetime.datetime(2020, 12, 31, 23, 59, 59, 999999),
        datetime.datetime(2020, 1, 2, 3, tzinfo=datetime.timezone.utc), datetime.datetime(2020, 1, 2, tzinfo=tz2), datetime.datetime(2020, 1, 2, 3, 4, fold=1),
        datetime.datetime(1, 1, 1), datetime.datetime(9999, 12, 31, 0, 0, 0, 1),
        # fold=1 where every time field is zero (the date-only shortcut must not swallow it), alone and with a zone
        datetime.datetime(2020, 11, 1, fold=1), datetime.datetime(2020, 11, 1, 0, 0, 0, 0, fold=1, tzinfo=tz2), datetime.time(0, fold=1),
        datetime.datetime(2020, 11, 1, 0, 0, 0, 1, fold=1), datetime.datetime(2020, 11, 1, 1, fold=1),
        datetime.time(), datetime.time(1), datetime.time(0, 2), datetime.time(0, 0, 3), datetime.time(0, 0, 0, 4), datetime.time(1, 2, 3, 4, tzinfo=tz2), datetime.time(5, fold=1),
        datetime.date(2020, 2, 29), datetime.date.min, datetime.date.max,
        datetime.timezone.utc, tz2, datetime.timezone(td(hours=-5, minutes=-30), 'NAME'), datetime.timezone(td(seconds=1)),
        pytz.utc, pytz.timezone('Europe/Helsinki'), pytz.timezone('US/Eastern'),
        # static zones whose offset is zero but which are not pytz.utc (equal offsets do not make equal zones), fixed non-zero offsets
        pytz.timezone('GMT'), pytz.timezone('Etc/UTC'), pytz.timezone('Zulu'), pytz.timezone('Etc/GMT'), pytz.timezone('UCT'), pytz.timezone('Etc/GMT+5'),
        pytz.timezone('Etc/GMT-14'), datetime.datetime(2021, 3, 4, 5, 6, tzinfo=pytz.timezone('GMT')), datetime.time(1, 2, tzinfo=pytz.timezone('Etc/UTC')),
        datetime.timezone(datetime.timedelta(0)), datetime.timezone(datetime.timedelta(0), 'Z'), datetime.datetime(2021, 3, 4, tzinfo=datetime.timezone(datetime.timedelta(0), 'Z')),
        pytz.timezone('Europe/Helsinki').localize(datetime.datetime(2020, 6, 1, 12)), pytz.timezone('Europe/Helsinki').localize(datetime.datetime(2020, 6, 1, 12)).tzinfo,
        collections.OrderedDict(), collections.OrderedDict([(2, 'b'), (1, 'a')]),
        collections.defaultdict(list), collections.defaultdict(list, {'a': [1]}), collections.defaultdict(None, {1: 2}), collections.defaultdict(int, a=1),
        collections.deque(), collections.deque([1, 2, 3]), collections.deque([1, 2], maxlen=5), collections.deque([], maxlen=0),
        collections.Counter(), collections.Counter('abracadabra'), collections.Counter({'x': 0, 'y': -1}),
        collections.ChainMap(), collections.ChainMap({}), collections.ChainMap({'a': 1}), collections.ChainMap({}, {'a': 1}), collections.ChainMap({'a': 1}, {}),
        collections.ChainMap({'a': 1}, {'b': 2}, {'c': [1, 2]}),
        types.MappingProxyType({}), types.MappingProxyType({'a': 1}),
        uuid.UUID(int=0), uuid.UUID('12345678-1234-5678-1234-567812345678'),
        Color.RED, Color.GREEN, Flag.A,
        types.SimpleNamespace(), types.SimpleNamespace(b=1, a=[1, 2]),
        Point(1, 2), Point([1], {'k': 2}), Single(1),
        functools.partial(int), functools.partial(int, '10', base=2), functools.partial(a_function, [1, 2]), functools.partial(sorted, reverse=True),
        # keyword names that collide with parameters of the printing helpers (pretty_call(ctx, fn, ...))
        functools.partial(a_function, fn=len), functools.partial(a_function, 1, ctx=2, fn=3), functools.partial(a_function, args=(1,), kwargs={'k': 1}, value=0),
        ValueError(), ValueError('bad', 2), KeyError('k'), OSError(2, 'No such file'),
        pathlib.PurePosixPath('a/../b/c'), pathlib.PurePosixPath('/'), pathlib.PureWindowsPath('C:/x/y'), pathlib.PurePosixPath('/very/long/' + 'segment/' * 12 + 'end'),
        pathlib.PurePosixPath('.'),
        # runs of slashes survive only at the very start of a POSIX path (exactly two), and must survive the splitting of a long path literal
        pathlib.PurePosixPath('//fileserver/projects/' + 'segment/' * 9 + 'end'), pathlib.PurePosixPath('//a'), pathlib.PureWindowsPath('//host/share/' + 'dir/' * 12),
    ]
    for _ in range(30):
        out.append(td(days=rng.randint(-2000, 2000), seconds=rng.randint(0, 86399), microseconds=rng.randint(0, 999999)))
        out.append(datetime.datetime(rng.randint(1, 9999), rng.randint(1, 12), rng.randint(1, 28), rng.choice([0, 0, rng.randint(0, 23)]),
                                     rng.choice([0, 0, rng.randint(0, 59)]), rng.choice([0, rng.randint(0, 59)]), rng.choice([0, rng.randint(0, 999999)])))
        out.append(datetime.time(rng.choice([0, rng.randint(0, 23)]), rng.choice([0, rng.randint(0, 59)]), rng.choice([0, rng.randint(0, 59)]), rng.choice([0, rng.randint(0, 999999)])))
    return out


def nest_contexts(v, rng):
    return [v, [v], [v, 1], {'key': v}, (v,), collections.OrderedDict([('k', v)]), collections.deque([v])]


SCOPE = None


def scope():
    global SCOPE
    if SCOPE is None:
        SCOPE = {'datetime': datetime, 'collections': collections, 'pytz': pytz, 'uuid': uuid, 'functools': functools, 'pathlib': pathlib,
                 'types': types, 'sec_stdlib': sys.modules[__name__], 'float': float, 'set': set, 'frozenset': frozenset,
                 'ValueError': ValueError, 'KeyError': KeyError, 'OSError': OSError, 'int': int, 'list': list, 'sorted': sorted,
                 # a class of the builtins module is printed by its own name (as its repr does): bind that name
                 'mappingproxy': types.MappingProxyType}
    return SCOPE


def equal_reconstruction(a, b):
    if type(a) is not type(b):
        return False
    if isinstance(a, collections.deque):
        return a.maxlen == b.maxlen and len(a) == len(b) and all(equal_reconstruction(x, y) for x, y in zip(a, b))
    if isinstance(a, collections.defaultdict):
        return a == b and a.default_factory == b.default_factory
    if isinstance(a, (functools.partial,)):
        return a.func == b.func and a.args == b.args and a.keywords == b.keywords
    if isinstance(a, BaseException):
        return a.args == b.args
    if isinstance(a, collections.OrderedDict):
        return list(a.keys()) == list(b.keys()) and all(equal_reconstruction(x, y) for x, y in zip(a.values(), b.values()))
    if isinstance(a, (list, tuple)) and not P._is_namedtuple(a):
        return len(a) == len(b) and all(equal_reconstruction(x, y) for x, y in zip(a, b))
    if type(a) is dict:
        return len(a) == len(b) and all(equal_reconstruction(a[k], b[k]) for k in a)
    if isinstance(a, datetime.datetime):
        return a == b and a.fold == b.fold and (a.tzinfo is None) == (b.tzinfo is None)
    if isinstance(a, datetime.time):
        return a == b and a.fold == b.fold
    if isinstance(a, datetime.timezone):
        # the name is compared too (it is printed, and == ignores it) - except for a zero offset: every such zone == timezone.utc, the
        # printer writes it as datetime.timezone.utc, and "an equal object" is all the property asks for
        return a == b and (a.tzname(None) == b.tzname(None) or a == datetime.timezone.utc)
    return a == b


_vals_cache = {}


def contains_dst_variant(v, depth=0):
    """a pytz DstTzInfo that is not the zone's default instance (the tzinfo a localized datetime carries)"""
    if isinstance(v, pytz.tzinfo.DstTzInfo):
        return not (v.zone and pytz.timezone(v.zone) == v)
    if isinstance(v, (datetime.datetime, datetime.time)):
        return v.tzinfo is not None and contains_dst_variant(v.tzinfo)
    if depth < 6 and isinstance(v, (list, tuple, collections.deque)):
        return any(contains_dst_variant(x, depth + 1) for x in v)
    if depth < 6 and isinstance(v, dict):
        return any(contains_dst_variant(x, depth + 1) for x in v.values())
    return False


def std_chunk(args):
    seed_, cases_idx, mode = args
    if seed_ not in _vals_cache:
        _vals_cache[seed_] = instances(random.Random(seed_))
    vals = _vals_cache[seed_]
    cases = []
    for (i, ci, sets) in cases_idx:
        cases.append((nest_contexts(vals[i], None)[ci], sets, vals[i]))
    drv = _driver()
    mism, fails = [], []
    n = nt = 0
    for (value, sets, top) in cases:
        try:
            term = sx(value)
        except Exception as e:
            mism.append({'value': repr(value)[:200], 'error': 'harness cannot describe the value: %r' % (e,)})
            continue
        pieces, texts, warned = [], [], False
        for st in sets:
            p, text, kinds = impl_piece(value, st)
            pieces.append(p)
            texts.append(text)
            n += 1
            if 'printer-failed' in kinds or 'raised' in kinds:
                warned = True
        if len(set(texts)) > 1:
            nt += 1
        g = drv.ask('(pformat %s %s)' % (term, ' '.join(settings_sx(*st) for st in sets)))
        if g != '(ok ' + ' '.join(pieces) + ')':
            for st, p in zip(sets, pieces):
                g1 = drv.ask('(pformat %s %s)' % (term, settings_sx(*st)))
                if g1 != '(ok ' + p + ')':
                    mism.append({'value': repr(value)[:300], 'value_sx': term[:1500], 'settings': st, 'impl': p[:1200], 'model': g1[:1200]})
                    break
        if len(fails) < 3:
            bad = None
            kind_override = None
            if warned and mode == 'c07':
                bad = 'a bundled printer failed internally (repr fallback warning)'
            else:
                ref = None
                for st, text in zip(sets, texts):
                    if text is None:
                        bad = 'pformat raises'
                        break
                    try:
                        got = eval('(' + text + '\n)', dict(scope()))
                    except Exception as e:
                        bad = 'printed text does not evaluate (%s): %s' % (type(e).__name__, text[:200])
                        break
                    if mode == 'c07' and not equal_reconstruction(got, value):
                        bad = 'evaluates to a different object: %r' % (got,)
                        if contains_dst_variant(value):
                            kind_override = 'pytz-dst-variant-not-reconstructible'
                        break
                    try:
                        a = ast_of(text)
                        if ref is None:
                            ref = a
                        elif a != ref:
                            bad = 'syntax tree depends on the layout'
                            break
                    except SyntaxError:
                        bad = 'not an expression'
                        break
            if bad:
                fails.append({'kind': kind_override or 'stdlib-printer', 'why': bad, 'value': repr(value)[:300], 'type': type(top).__name__})
    return n, nt, mism, fails


def stdlib_section_c03(tier, seed):
    """the same instances, judged by C03's oracle only: one syntax tree across all layouts (what the text evaluates to is C07's business)"""
    return stdlib_section(tier, seed, mode='c03')


def printer_coverage(vals):
    """which of the printers the package registers (translator.shipped_printers, the list C07.printer_inventory is about) run when the
    corpus is printed: the functions entered inside the package, by name"""
    import os
    import translator
    pkg = os.path.dirname(os.path.abspath(pp.__file__))
    called = set()
    mon = sys.monitoring
    tool = 4

    def cb(code, off):
        if code.co_filename.startswith(pkg):
            called.add(code.co_name)
        return mon.DISABLE
    mon.use_tool_id(tool, 'verif-coverage')
    mon.register_callback(tool, mon.events.PY_START, cb)
    mon.set_events(tool, mon.events.PY_START)
    try:
        with warnings.catch_warnings():
            warnings.simplefilter('ignore')
            for v in list(vals) + [[frozenset([1]), 1.5, ...]]:
                try:
                    pp.pformat(v)
                except Exception:
                    pass
    finally:
        mon.set_events(tool, 0)
        mon.register_callback(tool, mon.events.PY_START, None)
        mon.restart_events()
        mon.free_tool_id(tool)
    inv = translator.shipped_printers()
    return [x for x in inv if x.split(':')[-1] in called], [x for x in inv if x.split(':')[-1] not in called]


def long_arguments_check():
    """the settings reach the arguments of call-style printers: with max_seq_len=None nothing inside a bounded deque, a defaultdict, a
    two-map ChainMap, a namedtuple / SimpleNamespace field or exception args is dropped, however long (longer than the default 1000);
    with max_seq_len=3 every such container is cut to 3.  Oracle only."""
    import re
    bad = []
    long_list = list(range(1003))
    vals = [collections.deque(long_list, maxlen=2000), collections.defaultdict(list, {i: i for i in range(1002)}),
            collections.ChainMap({i: 0 for i in range(1001)}, {'b': long_list}), Point(long_list, 2), types.SimpleNamespace(a=long_list, b=1),
            ValueError(long_list, 'x'), collections.OrderedDict((i, i) for i in range(1001)), collections.Counter(range(1001)),
            functools.partial(a_function, long_list, key=tuple(long_list))]
    for v in vals:
        with warnings.catch_warnings():
            warnings.simplefilter('ignore')
            try:
                text = pp.pformat(v, max_seq_len=None, width=120)
                got = eval('(' + text + '\n)', dict(scope()))
            except Exception as e:
                bad.append({'kind': 'stdlib-printer', 'why': 'max_seq_len=None, more than 1000 elements inside: %s: %s' % (type(e).__name__, e), 'value': repr(v)[:120], 'type': type(v).__name__})
                continue
            if 'more elements' in text or not equal_reconstruction(v, got):
                bad.append({'kind': 'stdlib-printer', 'why': 'max_seq_len=None, yet elements inside a call argument are dropped (the text has %d truncation comments)' % text.count('more elements'),
                            'value': repr(v)[:120], 'type': type(v).__name__})
                continue
            try:
                short = pp.pformat(v, max_seq_len=3, width=120)
            except Exception as e:
                bad.append({'kind': 'stdlib-printer', 'why': 'max_seq_len=3 raises %s' % type(e).__name__, 'value': repr(v)[:120], 'type': type(v).__name__})
                continue
            if len(re.findall(r'\b\d{3,4}\b', short)) > 12:
                bad.append({'kind': 'stdlib-printer', 'why': 'max_seq_len=3, yet a container inside a call argument is printed with more than 3 elements: %s' % short[:200].replace('\n', ' '),
                            'value': repr(v)[:120], 'type': type(v).__name__})
    return bad[:3]


def sorted_keys_check():
    """dict-like values whose KEYS are instances of the stdlib types, printed with sort_dict_keys=True (the sort key is computed from the
    key objects: namedtuples, dates, paths, enums, UUIDs, frozen sets of them): no printer may fail, and the text evaluates back.
    Oracle only - the model does not order such keys."""
    td = datetime.timedelta
    dicts = [
        {Point(1, 2): 'a', Point(0, 5): 'b'}, {Single(3): 1}, {Point(1, 2): 1, (0, 9): 2, 'str': 3},
        collections.Counter([Point(1, 1), Point(1, 1), Point(0, 0)]), collections.defaultdict(int, {Point(2, 2): 1, Point(1, 3): 2}),
        collections.OrderedDict([(Point(9, 9), 1), (Point(1, 1), 2)]), types.MappingProxyType({Point(5, 5): 0, Point(4, 4): 1}),
        collections.ChainMap({Point(1, 0): 1}, {Point(0, 1): 2}),
        {datetime.date(2021, 1, 1): 1, datetime.date(2020, 1, 1): 2}, {td(days=2): 'x', td(days=1): 'y'}, {uuid.UUID(int=2): 1, uuid.UUID(int=1): 2},
        {pathlib.PurePosixPath('/b'): 1, pathlib.PurePosixPath('/a'): 2}, {Color.RED: 1, Color.GREEN: 2},
        {frozenset([Point(1, 2)]): 1, frozenset([1]): 2}, {(Point(1, 2), 1): 'nested', (Point(0, 0), 2): 'keys'},
        [{Point(1, 2): [Point(3, 4)]}, {Single('s'): {Single('t'): 1}}],
    ]
    fails = []
    for d in dicts:
        for kw in ({'sort_dict_keys': True}, {'sort_dict_keys': True, 'width': 20}, {'sort_dict_keys': True, 'max_seq_len': 1}):
            with warnings.catch_warnings(record=True) as w:
                warnings.simplefilter('always')
                try:
                    text = pp.pformat(d, **kw)
                except Exception as e:
                    fails.append({'kind': 'stdlib-sorted-keys', 'why': 'pformat raised %s: %s' % (type(e).__name__, e), 'value': repr(d)[:200], 'settings': kw})
                    continue
            if any('raised an exception' in str(x.message) for x in w):
                fails.append({'kind': 'stdlib-sorted-keys', 'why': 'a bundled printer failed internally (repr fallback warning) under sort_dict_keys=True',
                              'value': repr(d)[:200], 'settings': kw, 'text': text[:300]})
                continue
            if 'max_seq_len' in kw:
                continue
            try:
                got = eval('(' + text + '\n)', dict(scope()))
            except Exception as e:
                fails.append({'kind': 'stdlib-sorted-keys', 'why': 'the text does not evaluate (%s)' % type(e).__name__, 'value': repr(d)[:200], 'settings': kw, 'text': text[:300]})
                continue
            if got != d or type(got) is not type(d):
                fails.append({'kind': 'stdlib-sorted-keys', 'why': 'evaluates to a different value', 'value': repr(d)[:200], 'settings': kw, 'text': text[:300]})
    return fails[:3]


def stdlib_section(tier, seed, mode='c07'):
    rng = random.Random(seed * 61 + 18)
    iseed = seed * 67 + 1
    vals = instances(random.Random(iseed))
    cases = []
    nctx = len(nest_contexts(0, None))
    for i, v in enumerate(vals):
        ctxs = list(range(nctx)) if tier == 'thorough' else [0] + rng.sample(range(1, nctx), 2)
        for ci in ctxs:
            sets = settings_for(rng, None, 'quick')[::(1 if tier == 'thorough' else 3)] + [(4, 200, 200, None, 1000, 0), (4, 300, 300, None, 1000, 0)]
            sets = [s_ for s_ in sets if V.ribbon_ok(s_[1], s_[2])]
            cases.append((i, ci, sets))
    chunks = [(iseed, cases[i:i + 15], mode) for i in range(0, len(cases), 15)]
    tot = nt = 0
    mism, fails = [], []
    with mp.Pool(min(NCPU, max(1, len(chunks)))) as pool:
        for a, b, mm, ff in pool.imap_unordered(std_chunk, chunks):
            tot += a
            nt += b
            mism.extend(mm)
            fails.extend(ff)
    if mode == 'c07':
        fails.extend(sorted_keys_check())
        fails.extend(long_arguments_check())
    invoked, not_invoked = printer_coverage(vals)
    stats = {'evaluations': tot, 'distinct_nontrivial': nt, 'instances': len(vals), 'cases': len(cases), 'mismatches': len(mism),
             'types': sorted({type(v).__name__ for v in vals}),
             'shipped_printers_invoked_by_this_corpus': invoked,
             'shipped_printers_not_invoked_by_this_corpus': not_invoked,
             'samples': [{'value': repr(vals[10])}, {'value': repr(vals[50])[:100]}],
             'rule': 'instances of every stdlib type with a bundled printer (boundary values: zero / negative / min / max timedeltas, leading-zero time fields, fold=1, '
                     'fixed-offset / named / pytz zones, empty and bounded deques, ChainMap shapes, ...) alone and in nesting contexts x layouts incl. very wide ones; '
                     'SDoc stream + text compared with the model built from the objects\' observable fields; oracle: no failure warning, eval with the modules in scope reconstructs an equal object of the same type, same ast across layouts'}
    return stats, mism, fails
